package nc

import (
	"fmt"
	"go/token"
	"go/types"
	"sort"
	"strings"

	"golang.org/x/tools/go/ssa"
)

func init() { register("C17", C17) }

// ndFinding is one potential source of nondeterminism.
type ndFinding struct {
	Kind   string
	Fn     *ssa.Function
	Pos    token.Pos
	Detail string
}

var detAllowPkgs = map[string]bool{
	"math": true, "sort": true, "fmt": true, "errors": true, "github.com/pkg/errors": true, "strings": true,
	"strconv": true, "bufio": true, "bytes": true, "io": true, "context": true, "sync/atomic": true, "sync": true,
	"slices": true, // deterministic functions of their arguments (unlike package maps, whose iteration order is not)
	"log":    true, "gopkg.in/yaml.v3": true, "github.com/spf13/cast": true, "unicode": true, "unicode/utf8": true,
}

// top-level draws from the seeded global source
var detAllowRand = map[string]bool{"Float64": true, "Float32": true, "Int": true, "Intn": true, "Int31": true, "Int31n": true,
	"Int63": true, "Int63n": true, "NormFloat64": true, "ExpFloat64": true, "Perm": true, "Shuffle": true, "Uint32": true, "Uint64": true}

// scanDeterminism inspects every repository function reachable from roots.
func scanDeterminism(p *Prog, roots []*ssa.Function, allowGlobals func(*ssa.Global) bool) (fns []*ssa.Function, ext map[string]int, out []ndFinding, re *Reach) {
	re = p.Reachable(roots, nil)
	ext = map[string]int{}
	for _, fn := range re.RepoFuncsOf(p) {
		fns = append(fns, fn)
		Instrs(fn, func(_ *ssa.BasicBlock, _ int, in ssa.Instruction) {
			switch x := in.(type) {
			case *ssa.Range:
				if _, isMap := x.X.Type().Underlying().(*types.Map); isMap && !mapRangeOrderInsensitive(fn, x) {
					out = append(out, ndFinding{"map-range", fn, x.Pos(), "iteration over a map (" + typeShort(x.X.Type()) + "): the order differs from run to run"})
				}
			case *ssa.Go:
				out = append(out, ndFinding{"goroutine", fn, x.Pos(), "starts a goroutine on the sequential path: results depend on the schedule"})
			case *ssa.Send:
				out = append(out, ndFinding{"channel", fn, x.Pos(), "channel send on the sequential path"})
			case *ssa.UnOp:
				if x.Op == token.ARROW {
					out = append(out, ndFinding{"channel", fn, x.Pos(), "channel receive on the sequential path"})
				}
			case *ssa.Select:
				ok := !x.Blocking && len(x.States) == 1 && x.States[0].Dir == types.RecvOnly
				if ok {
					t := NewTermer(fn).Of(x.States[0].Chan)
					ok = t.Op == "call" && t.Name == "iface.Done"
				}
				if !ok {
					out = append(out, ndFinding{"select", fn, x.Pos(), "select other than the non-blocking cancellation test {case <-ctx.Done(): …; default:}"})
				}
			case *ssa.Convert:
				if b, isB := x.Type().Underlying().(*types.Basic); isB && (b.Kind() == types.Uintptr || b.Kind() == types.UnsafePointer) {
					out = append(out, ndFinding{"address", fn, x.Pos(), "converts a pointer to an integer: results would depend on memory addresses"})
				}
			case *ssa.Store:
				if g, isG := x.Addr.(*ssa.Global); isG {
					out = append(out, ndFinding{"global-write", fn, x.Pos(), "writes package-level variable " + g.Pkg.Pkg.Name() + "." + g.Name() + ": later runs in the same process see different state"})
				}
			case ssa.CallInstruction:
				c := x.Common()
				var pkg, name string
				if c.IsInvoke() {
					if c.Method.Pkg() != nil {
						pkg, name = c.Method.Pkg().Path(), c.Method.Name()
					}
					if strings.HasPrefix(pkg, Mod) {
						return
					}
				} else if callee := c.StaticCallee(); callee != nil {
					if InRepoOf(p, callee) {
						return
					}
					if callee.Pkg != nil {
						pkg = callee.Pkg.Pkg.Path()
					} else if callee.Object() != nil && callee.Object().Pkg() != nil {
						pkg = callee.Object().Pkg().Path()
					}
					name = callee.Name()
					if callee.Signature.Recv() != nil {
						name = typeShort(deref(callee.Signature.Recv().Type())) + "." + name
					}
				} else {
					return // builtin or dynamic call (resolved through the call graph)
				}
				if pkg == "" {
					return
				}
				ext[pkg+"."+name]++
				switch {
				case pkg == "math/rand":
					if !detAllowRand[name] {
						out = append(out, ndFinding{"random-source", fn, x.Pos(), "calls math/rand." + name + ": only draws from the seeded global source are reproducible (no private sources, no re-seeding)"})
					}
				case detAllowPkgs[pkg]:
				default:
					out = append(out, ndFinding{"external-call", fn, x.Pos(), "calls " + pkg + "." + name + ", which is not on the list of deterministic dependencies (time, os, runtime, reflect, crypto/rand, math/rand/v2, … can make outcomes differ between runs)"})
				}
			}
			// reads of package-level variables
			for _, op := range in.Operands(nil) {
				if g, isG := (*op).(*ssa.Global); isG {
					if _, isStore := in.(*ssa.Store); isStore && in.(*ssa.Store).Addr == g {
						continue
					}
					if !allowGlobals(g) {
						out = append(out, ndFinding{"global-read", fn, in.Pos(), "reads package-level variable " + g.Pkg.Pkg.Path() + "." + g.Name() + ", which is not on the list of constants of the evolution path"})
					}
				}
			}
		})
	}
	return
}

// RepoFuncsOf / InRepoOf: the fixture program counts every function of its own packages as "repository".
func (r *Reach) RepoFuncsOf(p *Prog) []*ssa.Function {
	var out []*ssa.Function
	for _, f := range r.Order {
		if InRepoOf(p, f) && f.Blocks != nil {
			out = append(out, f)
		}
	}
	return out
}

func InRepoOf(p *Prog, fn *ssa.Function) bool {
	if InRepo(fn) {
		return true
	}
	for fn.Parent() != nil {
		fn = fn.Parent()
	}
	if fn.Pkg != nil {
		for _, sp := range p.SSAPk {
			if sp == fn.Pkg {
				return true
			}
		}
	}
	return false
}

// C17 — evolution is reproducible from the seed.
func C17(p *Prog, r *Run) {
	r.Explanation = "Bit-for-bit reproducibility cannot be decided statically; decided is the absence, in every repository function reachable over the VTA call graph from NewPopulation, NewPopulationRandom, ReadPopulation and SequentialPopulationEpochExecutor.NextEpoch, of the only mechanisms that can break it: iteration over a map, goroutines, channel operations, select other than the non-blocking ctx.Done() test, pointer-to-integer conversions, writes to package-level variables, reads of package-level variables outside a fixed list of constants (log level and loggers, the activation registry, the context key, error sentinels; besides the list, a variable of the library proved to be a constant table: no pointer in its type, filled with constants by its package initialiser, written or address-taken nowhere else in the program), and calls into any external function outside an allow-list of deterministic packages (math/rand only through top-level draws from the seeded global source; no time, os, runtime, reflect, crypto/rand). One obligation per reachable function. A fixture package with a map range behind a call must be reported on every run. Three history rules cover \"earlier unrelated work in the process\": (C17.4) an information-flow analysis with the single source neat.LogLevel shows that branches depending on the logger level control only message formatting and logger calls (control regions from post-dominators, implicit flows through phis, results of calls, effect-free callees from the write-through facts); (C17.5) the population constructors write nothing through the start genome, organisms are built around duplicates, and the duplicate shares no memory with its source (alias obligations shared with C06.1-C06.3); (C17.6) no reachable function writes a field of neat.Options or an element of a list it holds, and the roots have no write-through fact through their options/context arguments - so nothing memoised in an input object survives a run. Not decided: state kept in the executor object between epochs (bestSpeciesReproduced is never reset in the pinned tree); that no other conceivable source exists; determinism of the fitness function (a premise of the property)."
	roots := []*ssa.Function{p.Func(PkgG, "NewPopulation"), p.Func(PkgG, "NewPopulationRandom"), p.Func(PkgG, "ReadPopulation"),
		p.Func(PkgG, "SequentialPopulationEpochExecutor.NextEpoch")}
	listedGlobal := func(g *ssa.Global) bool {
		path, name := g.Pkg.Pkg.Path(), g.Name()
		switch path {
		case PkgT:
			return name == "LogLevel" || name == "neatOptionsKey" || strings.HasSuffix(name, "Log") || strings.HasPrefix(name, "Err") || name == "loggerDebug" || name == "loggerInfo" || name == "loggerWarn" || name == "loggerError" || strings.HasPrefix(name, "logger")
		case PkgM:
			return name == "NodeActivators"
		case PkgG, PkgN:
			return strings.HasPrefix(name, "Err")
		case "io":
			return name == "EOF"
		}
		return false
	}
	allowGlobal := func(g *ssa.Global) bool {
		if listedGlobal(g) {
			return true
		}
		// a constant table: a variable of the library that holds no pointer of any kind, is filled with constants by its
		// package's initialiser and can be written by nothing else in the program (decided from the code, robust_c07.go:
		// ConstTableOf) reads the same in every run
		return g.Pkg != nil && InRepoOf(p, g.Pkg.Func("init")) && p.ConstTableOf(g).Why == ""
	}
	// sort.Interface implementations of the genetics package are called back by sort.Sort on the
	// path (the library body is not part of the quick load): treat them as roots as well.
	var lessFns []*ssa.Function
	{
		sc := p.SSAPk[PkgG].Pkg.Scope()
		for _, n := range sc.Names() {
			tn, ok := sc.Lookup(n).(*types.TypeName)
			if !ok {
				continue
			}
			var ms []*ssa.Function
			for _, m := range []string{"Len", "Less", "Swap"} {
				if f := p.FuncOpt(PkgG, tn.Name()+"."+m); f != nil {
					ms = append(ms, f)
				}
			}
			if len(ms) == 3 {
				roots = append(roots, ms...)
				lessFns = append(lessFns, ms[1])
			}
		}
	}
	r.Rule("C17.1", "no source of nondeterminism in any function reachable from population construction and the sequential epoch: map iteration, goroutines, channels, foreign selects, address arithmetic, global writes, unlisted global reads, external calls outside the deterministic allow-list", func() {
		fns, ext, finds, re := scanDeterminism(p, roots, allowGlobal)
		byFn := map[*ssa.Function][]ndFinding{}
		for _, f := range finds {
			byFn[f.Fn] = append(byFn[f.Fn], f)
		}
		for _, fn := range fns {
			r.Fn(FuncName(fn))
			fs := byFn[fn]
			if len(fs) == 0 {
				r.OK(FuncName(fn), p.Pos(fn.Pos()), "no nondeterminism source")
				continue
			}
			for _, f := range fs {
				r.Bad(FuncName(fn)+":"+f.Kind, p.Pos(f.Pos), f.Detail+" — reachable via "+strings.Join(re.Chain(fn), " -> "))
			}
		}
		r.Floor("reachable repository functions", len(fns), 100)
		var names []string
		for k := range ext {
			names = append(names, k)
		}
		sort.Strings(names)
		r.CallSites += len(names)
		r.Note("external callees at the repository boundary (%d): %s", len(names), strings.Join(names, ", "))
		// the random draws really are on the path (otherwise the rule looks at the wrong code)
		nRand := 0
		for k, v := range ext {
			if strings.HasPrefix(k, "math/rand.") {
				nRand += v
			}
		}
		r.Floor("math/rand call sites on the path", nRand, 30)
	})

	r.Rule("C17.2", "ordering: every sort.Interface.Less reachable on the path compares only fields of its elements", func() {
		n := 0
		for _, fn := range lessFns {
			n++
			ok := true
			why := ""
			reLess := p.Reachable([]*ssa.Function{fn}, nil)
			for _, g := range reLess.Order {
				if !InRepo(g) {
					if g != fn {
						// external callee from a comparison: only pure math allowed
						pk := ""
						if g.Pkg != nil {
							pk = g.Pkg.Pkg.Path()
						}
						if pk != "math" && pk != "" {
							ok, why = false, "calls "+FuncName(g)
						}
					}
					continue
				}
				if len(Writes(g)) > 0 {
					ok, why = false, FuncName(g)+" writes memory during a comparison"
				}
			}
			r.Check(ok, FuncName(fn), p.Pos(fn.Pos()), "pure comparison of element fields", "the comparison "+why+": the sort order may differ between runs")
		}
		r.Floor("reachable Less implementations", n, 2)
	})

	r.Rule("C17.4", "the logger level is not an input: in every function reachable from population construction and the sequential epoch a branch whose condition depends on the process-wide neat.LogLevel (directly, through a local, or through the result of a call) controls nothing but message formatting and logger calls - no store to memory that outlives the branch, no value defined under it that is merged into later code, no differing return, no call that writes state or draws a random number. Otherwise two runs with identical seed and inputs differ when earlier unrelated work (InitLogger, loading an options file) changed the level", func() {
		re := p.Reachable(roots, nil)
		r.c17LogLevel(re.RepoFuncsOf(p))
	})

	r.Rule("C17.5", "a run does not modify its inputs and keeps no reference into them: the population constructors write nothing through the start genome or the options they receive, every organism they create holds a genome produced by Genome.duplicate, and that duplicate shares no pointer, slice or map with its source (the alias obligations of C06.1-C06.3). Otherwise later mutations write into the caller's start genome and a second trial from the same genome object with the same seed evolves differently", func() {
		r.c17InputsIntact()
	})

	r.Rule("C17.6", "the options are read-only on the evolution path: no function reachable from population construction and the sequential epoch stores to a field of neat.Options or into a list held by one, and the roots have no write-through fact through their options/context parameters. Otherwise (e.g. a value memoised in the options object) a run's outcome depends on what earlier runs did with the same options object", func() {
		re := p.Reachable(roots, nil)
		r.c17OptionsReadOnly(roots[:4], re.RepoFuncsOf(p))
	})

	r.Rule("C17.7", "no goroutine that draws from the global random source outlives the call that started it: for every go statement of the library whose goroutine can reach a top-level math/rand draw, every path from the go statement to a return of the starting function passes sync.WaitGroup.Wait. Otherwise a goroutine left behind by earlier, unrelated work (a parallel epoch that failed in one species) interleaves its draws with a later sequential run, whose outcome is then not a function of the seed", func() {
		r.c17GoroutinesJoined()
	})

	r.Rule("C17.3", "positive fixture: the scanner reports a map range hidden behind a call", func() {
		if p.Fix == nil {
			r.add("rule-inert", "fixture:maprange", "-", "fixtures not loaded", nil)
			return
		}
		root := p.Fix.FuncOpt("maprange", "Root")
		if root == nil {
			r.add("rule-inert", "fixture:maprange", "-", "fixture maprange.Root not found", nil)
			return
		}
		_, _, finds, _ := scanDeterminism(p.Fix, []*ssa.Function{root}, func(*ssa.Global) bool { return true })
		hit := false
		for _, f := range finds {
			if f.Kind == "map-range" && f.Fn.Name() == "collect" {
				hit = true
			}
		}
		if hit {
			r.OK("fixture:maprange", "checker/testdata/fixtures/maprange", "reported: map range in collect, reachable from Root")
		} else {
			r.add("rule-inert", "fixture:maprange", "-", "the determinism scanner did not report the fixture's map range: the rule is inert", nil)
		}
	})
	_ = fmt.Sprint
}

// mapRangeOrderInsensitive: the loop driven by this map range only copies
// entries into another map (map updates, no other store, call, append or
// early exit), so the result does not depend on the iteration order.
func mapRangeOrderInsensitive(fn *ssa.Function, rg *ssa.Range) bool {
	var next *ssa.Next
	for _, ref := range *rg.Referrers() {
		if n, ok := ref.(*ssa.Next); ok {
			if next != nil {
				return false
			}
			next = n
		}
	}
	if next == nil {
		return false
	}
	var loop *Loop
	for _, l := range Loops(fn) {
		if l.Header == next.Block() {
			loop = l
		}
	}
	if loop == nil {
		return false
	}
	updates := 0
	for b := range loop.Blocks {
		// leaves only from the header (exhaustion)
		for _, sx := range b.Succs {
			if !loop.Blocks[sx] && b != loop.Header {
				return false
			}
		}
		for _, in := range b.Instrs {
			switch x := in.(type) {
			case *ssa.MapUpdate:
				if x.Map == rg.X {
					return false
				}
				updates++
			case *ssa.Store, *ssa.Send, *ssa.Go, *ssa.Defer, *ssa.Return, *ssa.Panic, *ssa.RunDefers, *ssa.Select:
				return false
			case ssa.CallInstruction:
				if b, ok := x.Common().Value.(*ssa.Builtin); ok && (b.Name() == "len" || b.Name() == "cap") {
					continue
				}
				return false
			}
		}
	}
	return updates > 0
}
