package nc

import (
	"fmt"
	"os"
	"sort"
	"strings"

	"golang.org/x/tools/go/ssa"
)

func pkgAlias(s string) string {
	switch s {
	case "G":
		return PkgG
	case "N":
		return PkgN
	case "M":
		return PkgM
	case "E":
		return PkgE
	case "T":
		return PkgT
	case "R":
		return Mod
	}
	return s
}

// Debug implements developer sub-commands: summary, terms, ssa.
func Debug(repo string, args []string) {
	if len(args) < 3 {
		fmt.Println("debug summary|terms|ssa|stores <pkg> <func>")
		os.Exit(2)
	}
	p, err := Load(repo, "quick")
	if err != nil {
		fmt.Println(err)
		os.Exit(1)
	}
	fn := p.FuncOpt(pkgAlias(args[1]), args[2])
	if fn == nil {
		fmt.Println("no such function")
		os.Exit(1)
	}
	switch args[0] {
	case "summary":
		sm := NewSummaries(p).Ctor(fn)
		fmt.Printf("summary of %s: fresh=%v why=%q\n", FuncName(fn), sm.Fresh, sm.Why)
		var lines []string
		for f, t := range sm.Fields {
			lines = append(lines, fmt.Sprintf("  %s = %s", f.Name(), t))
		}
		for f, t := range sm.Elems {
			lines = append(lines, fmt.Sprintf("  %s[*] = %s", f.Name(), t))
		}
		sort.Strings(lines)
		fmt.Println(strings.Join(lines, "\n"))
	case "terms":
		tm := NewTermer(fn)
		Instrs(fn, func(b *ssa.BasicBlock, _ int, in ssa.Instruction) {
			switch x := in.(type) {
			case ssa.CallInstruction:
				var a []string
				for _, v := range x.Common().Args {
					a = append(a, tm.Of(v).String())
				}
				n, _ := calleeName(x.Common())
				fmt.Printf("b%d %s: call %s(%s)\n", b.Index, p.Pos(in.Pos()), n, strings.Join(a, ", "))
			case *ssa.Store:
				fmt.Printf("b%d %s: store %s := %s\n", b.Index, p.Pos(in.Pos()), tm.Of(x.Addr), tm.Of(x.Val))
			case *ssa.If:
				fmt.Printf("b%d %s: if %s -> b%d else b%d\n", b.Index, p.Pos(in.Pos()), tm.Of(x.Cond), b.Succs[0].Index, b.Succs[1].Index)
			case *ssa.Return:
				var a []string
				for _, v := range x.Results {
					a = append(a, tm.Of(v).String())
				}
				fmt.Printf("b%d %s: return %s\n", b.Index, p.Pos(in.Pos()), strings.Join(a, ", "))
			}
		})
	case "ssa":
		fn.WriteTo(os.Stdout)
	case "wt":
		re := p.Reachable([]*ssa.Function{fn}, nil)
		w := NewWriteThrough(p, re.RepoFuncs())
		fmt.Printf("reachable repo funcs: %d\n", len(re.RepoFuncs()))
		for _, l := range w.Describe(fn) {
			fmt.Println(" ", l)
		}
		if len(args) > 3 {
			for _, f := range re.RepoFuncs() {
				fmt.Println(FuncName(f))
				for _, l := range w.Describe(f) {
					fmt.Println("    ", l)
				}
			}
		}
	}
}
