package nc

import (
	"go/ast"
	"go/types"
	"strings"

	"golang.org/x/tools/go/ssa"
)

// expandedAway decides whether the body of fn can no longer run as a function of its own: fn (or the function
// that lexically encloses it) is a helper the pinned tree does not have, it is unexported, and the normalised
// program holds no use of it any more - every call was expanded in place by the source normalisation, it is not
// taken as a value, and (for a method) no interface of its package could dispatch to it. The instructions of
// such a helper are examined where they were expanded, as part of the callers; counting its declaration as one
// more site would report the same instruction twice, once under a name no rule knows.
//
// Anything else (a pinned function, an exported one, a helper with a call that was not expanded, a method value,
// a possible interface dispatch) answers false: the body is live under its own name.
func (p *Prog) expandedAway(fn *ssa.Function, pinned map[string]bool) bool {
	for fn.Parent() != nil {
		fn = fn.Parent()
	}
	obj, ok := fn.Object().(*types.Func)
	if !ok || obj.Pkg() == nil || !strings.HasPrefix(obj.Pkg().Path(), Mod) {
		return false
	}
	if pinned[obj.FullName()] || obj.Exported() || obj.Name() == "init" || obj.Name() == "main" {
		return false
	}
	for _, pk := range p.Pkgs {
		if pk.TypesInfo == nil || !strings.HasPrefix(pk.PkgPath, Mod) {
			continue
		}
		for _, u := range pk.TypesInfo.Uses {
			if u == types.Object(obj) {
				return false
			}
		}
		// selections of the method through an embedding or a method expression resolve to the same object
		for _, sel := range pk.TypesInfo.Selections {
			if sel.Obj() == types.Object(obj) {
				return false
			}
		}
	}
	if sig, _ := obj.Type().(*types.Signature); sig != nil && sig.Recv() != nil {
		// an unexported method is only reachable dynamically through an interface of its own package that names it
		pk := p.ByPath[obj.Pkg().Path()]
		if pk == nil {
			return false
		}
		named := false
		for _, f := range pk.Syntax {
			ast.Inspect(f, func(n ast.Node) bool {
				it, ok := n.(*ast.InterfaceType)
				if !ok || it.Methods == nil {
					return true
				}
				for _, m := range it.Methods.List {
					for _, id := range m.Names {
						if id.Name == obj.Name() {
							named = true
						}
					}
				}
				return true
			})
		}
		if named {
			return false
		}
	}
	// linkname and friends could still reach it; the repository uses none, and a directive on the helper is a use
	if d := p.Decl(fn); d != nil && d.Doc != nil {
		for _, c := range d.Doc.List {
			if strings.HasPrefix(c.Text, "//go:linkname") || strings.HasPrefix(c.Text, "//export") {
				return false
			}
		}
	}
	return true
}
