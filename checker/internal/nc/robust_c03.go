package nc

import (
	"fmt"
	"go/ast"
	"go/constant"
	"go/token"
	"go/types"
	"strings"

	"golang.org/x/tools/go/ssa"
)

// expandedAway decides whether the body of fn can no longer run as a function of its own: fn (or the function
// that lexically encloses it) is a helper the pinned tree does not have, it is unexported, and the normalised
// program holds no use of it any more - every call was expanded in place by the source normalisation, it is not
// taken as a value, and (for a method) no interface of its package could dispatch to it. The instructions of
// such a helper are examined where they were expanded, as part of the callers; counting its declaration as one
// more site would report the same instruction twice, once under a name no rule knows.
//
// Anything else (a pinned function, an exported one, a helper with a call that was not expanded, a method value,
// a possible interface dispatch) answers false: the body is live under its own name.
func (p *Prog) expandedAway(fn *ssa.Function, pinned map[string]bool) bool {
	for fn.Parent() != nil {
		fn = fn.Parent()
	}
	obj, ok := fn.Object().(*types.Func)
	if !ok || obj.Pkg() == nil || !strings.HasPrefix(obj.Pkg().Path(), Mod) {
		return false
	}
	if pinned[obj.FullName()] || obj.Exported() || obj.Name() == "init" || obj.Name() == "main" {
		return false
	}
	for _, pk := range p.Pkgs {
		if pk.TypesInfo == nil || !strings.HasPrefix(pk.PkgPath, Mod) {
			continue
		}
		for _, u := range pk.TypesInfo.Uses {
			if u == types.Object(obj) {
				return false
			}
		}
		// selections of the method through an embedding or a method expression resolve to the same object
		for _, sel := range pk.TypesInfo.Selections {
			if sel.Obj() == types.Object(obj) {
				return false
			}
		}
	}
	if sig, _ := obj.Type().(*types.Signature); sig != nil && sig.Recv() != nil {
		// an unexported method is only reachable dynamically through an interface of its own package that names it
		pk := p.ByPath[obj.Pkg().Path()]
		if pk == nil {
			return false
		}
		named := false
		for _, f := range pk.Syntax {
			ast.Inspect(f, func(n ast.Node) bool {
				it, ok := n.(*ast.InterfaceType)
				if !ok || it.Methods == nil {
					return true
				}
				for _, m := range it.Methods.List {
					for _, id := range m.Names {
						if id.Name == obj.Name() {
							named = true
						}
					}
				}
				return true
			})
		}
		if named {
			return false
		}
	}
	// linkname and friends could still reach it; the repository uses none, and a directive on the helper is a use
	if d := p.Decl(fn); d != nil && d.Doc != nil {
		for _, c := range d.Doc.List {
			if strings.HasPrefix(c.Text, "//go:linkname") || strings.HasPrefix(c.Text, "//export") {
				return false
			}
		}
	}
	return true
}

// c03Reader: reader / writer / clear agreement on the storage of the generation's records.
//
// The property needs three code sites to talk about ONE list: StoreInnovation appends a record to it, the epoch
// step empties it, and the structural mutators look a record up in what Innovations() hands them. The first two
// are tied to the field Population.innovations by the obligations above (StoreInnovation.records, *.forgets,
// innovations.writers). This one ties the third: every value Innovations() can return is
//
//   - the receiver's innovations field itself (or a slice expression over all of it), or
//   - a fresh copy of all of it made during the call (append(<empty>, list...) / make(len(list)) + copy), or
//   - an empty list, on a path on which the innovations field is known to be empty,
//
// and which of these is returned is decided by nothing but that field. If the accessor answers from any other
// state (a published view, a cache, a memo, a second list, a global), then either the end-of-generation reset of
// Population.innovations does not empty what the mutators see - a mutation of generation g+1 matches a record of
// generation g and re-uses numbers / a node id that are not larger than what the population held before - or a
// record stored in this generation is not seen and the same innovation receives two numbers. Spelling (local
// aliases, explicit unlock, named result, defer) does not matter: values are followed through locals and phis.
func (r *Run) c03Reader(innov *types.Var) {
	p := r.P
	iface, _ := p.Named(PkgG, "InnovationsObserver").Underlying().(*types.Interface)
	var impls []*ssa.Function
	for _, fn := range p.SrcFuncs() {
		if fn.Name() != "Innovations" || fn.Parent() != nil || fn.Signature.Recv() == nil {
			continue
		}
		rt := fn.Signature.Recv().Type()
		if iface != nil && !types.Implements(rt, iface) && !types.Implements(types.NewPointer(rt), iface) {
			continue
		}
		impls = append(impls, fn)
	}
	for _, fn := range impls {
		r.Fn(FuncName(fn))
		construct := "Innovations.reads-record"
		if ownerOf(fn.Signature.Recv().Type()) != p.Named(PkgG, "Population") {
			construct += ":" + FuncName(fn)
		}
		bad := c03AccessorLeaks(fn, innov)
		r.Check(len(bad) == 0, construct, p.Pos(fn.Pos()), "every value returned is the receiver's innovations list (or a full copy of it, or empty when it is empty), chosen by nothing but that list",
			FuncName(fn)+" does not hand out exactly the list that StoreInnovation appends to and the end of the epoch empties: "+strings.Join(bad, "; ")+
				": the reset of Population.innovations then does not forget what the mutators look up (records of generation g are matched in generation g+1, numbers and node ids are re-used) or a record of this generation is not found (one innovation, two numbers)")
	}
	r.Floor("implementations of InnovationsObserver.Innovations", len(impls), 1)
}

// c03AccessorLeaks lists what keeps fn from being a plain accessor of the receiver's field `list`.
func c03AccessorLeaks(fn *ssa.Function, list *types.Var) []string {
	tm := NewTermer(fn)
	var bad []string
	seenBad := map[string]bool{}
	report := func(s string) {
		if !seenBad[s] {
			seenBad[s] = true
			bad = append(bad, s)
		}
	}
	// isList: t is recv.<list>, possibly under slice expressions that keep every element
	var isList func(t *Term) bool
	isList = func(t *Term) bool {
		if t == nil {
			return false
		}
		switch t.Op {
		case "field":
			if t.Obj != types.Object(list) {
				return false
			}
			// the receiver, possibly kept in a local because a closure (a deferred unlock) captures it
			alts := t.Args[0].Alternatives()
			for _, a := range alts {
				if a.Op != "recv" {
					return false
				}
			}
			return len(alts) > 0
		case "phi":
			if len(t.Args) == 0 {
				return false
			}
			for _, a := range t.Args {
				if !isList(a) {
					return false
				}
			}
			return true
		case "slice":
			sl, ok := t.V.(*ssa.Slice)
			if !ok || !isList(t.Args[0]) {
				return false
			}
			if sl.Low != nil {
				if k, isK := sl.Low.(*ssa.Const); !isK || k.Value == nil || k.Value.ExactString() != "0" {
					return false
				}
			}
			if sl.High != nil {
				ht := tm.Of(sl.High)
				if !(ht.Op == "len" && isList(ht.Args[0])) {
					return false
				}
			}
			return true
		}
		return false
	}
	// pure: the value of t is a function of the list alone
	var pure func(t *Term) bool
	pure = func(t *Term) bool {
		if t == nil {
			return false
		}
		switch t.Op {
		case "const", "nil":
			return true
		case "field":
			return isList(t)
		case "len", "bin", "un", "slice", "conv", "elem", "phi":
			if len(t.Args) == 0 {
				return false
			}
			for _, a := range t.Args {
				if !pure(a) {
					return false
				}
			}
			return true
		}
		return false
	}
	isZero := func(v ssa.Value) bool {
		k, ok := v.(*ssa.Const)
		return ok && k.Value != nil && k.Value.ExactString() == "0"
	}
	knownEmpty := func(gs []Guard) bool {
		for _, g := range gs {
			x, y, op, ok := CmpFact(g.Cond, g.True)
			if !ok {
				continue
			}
			tx := tm.Of(x)
			k, isK := y.(*ssa.Const)
			if !isK {
				continue
			}
			if tx.Op == "len" && isList(tx.Args[0]) && k.Value != nil {
				s := k.Value.ExactString()
				if (s == "0" && (op == token.EQL || op == token.LEQ)) || (s == "1" && op == token.LSS) {
					return true
				}
			}
			if isList(tx) && k.Value == nil && op == token.EQL {
				return true
			}
		}
		return false
	}
	emptyFresh := func(v ssa.Value) bool {
		switch x := v.(type) {
		case *ssa.Const:
			return x.Value == nil
		case *ssa.MakeSlice:
			return isZero(x.Len)
		case *ssa.Slice:
			// []T{}: a slice of a fresh zero-length array
			if al, ok := x.X.(*ssa.Alloc); ok {
				if pt, ok := al.Type().Underlying().(*types.Pointer); ok {
					if at, ok := pt.Elem().Underlying().(*types.Array); ok {
						return at.Len() == 0
					}
				}
			}
		}
		return false
	}
	checkGuards := func(gs []Guard) {
		for _, g := range gs {
			if t := tm.Of(g.Cond); !pure(t) {
				report("what is returned depends on " + t.String())
			}
		}
	}
	edgeGuards := func(pred, blk *ssa.BasicBlock) []Guard {
		gs := append([]Guard{}, Guards(pred)...)
		if iff, ok := pred.Instrs[len(pred.Instrs)-1].(*ssa.If); ok && pred.Succs[0] != pred.Succs[1] {
			if pred.Succs[0] == blk {
				gs = append(gs, Guard{iff.Cond, true, pred})
			} else if pred.Succs[1] == blk {
				gs = append(gs, Guard{iff.Cond, false, pred})
			}
		}
		return gs
	}
	visiting := map[ssa.Value]bool{}
	var leaf func(v ssa.Value, at *ssa.BasicBlock, gs []Guard, depth int)
	leaf = func(v ssa.Value, at *ssa.BasicBlock, gs []Guard, depth int) {
		if depth > 12 || visiting[v] {
			if depth > 12 {
				report("the returned value is too deeply nested to follow")
			}
			return
		}
		visiting[v] = true
		defer delete(visiting, v)
		checkGuards(gs)
		switch x := v.(type) {
		case *ssa.Phi:
			for i, e := range x.Edges {
				if i < len(x.Block().Preds) {
					leaf(e, x.Block().Preds[i], edgeGuards(x.Block().Preds[i], x.Block()), depth+1)
				}
			}
			return
		case *ssa.ChangeType:
			leaf(x.X, at, gs, depth+1)
			return
		case *ssa.UnOp:
			if al, ok := x.X.(*ssa.Alloc); ok && x.Op == token.MUL {
				// a local kept in memory (named result, or any result of a function that defers)
				n := 0
				for _, ref := range *al.Referrers() {
					switch y := ref.(type) {
					case *ssa.Store:
						if y.Addr == ssa.Value(al) {
							n++
							leaf(y.Val, y.Block(), Guards(y.Block()), depth+1)
						} else {
							report("the address of the result variable is stored away")
						}
					case *ssa.UnOp, *ssa.DebugRef:
					case *ssa.MakeClosure:
						// captured by a closure (a deferred unlock): fine as long as the closure does not assign it
						if cf, isFn := y.Fn.(*ssa.Function); isFn {
							for i, bnd := range y.Bindings {
								if bnd == ssa.Value(al) && (i >= len(cf.FreeVars) || closureStores(cf, cf.FreeVars[i], 0)) {
									report("the result variable is assigned inside the closure " + cf.Name())
								}
							}
						} else {
							report("the result variable is captured by " + y.String())
						}
					default:
						report("the result variable is also reachable from " + ref.String())
					}
				}
				if n == 0 && !knownEmpty(gs) {
					report("an unset result is returned although the list may hold records")
				}
				return
			}
		}
		if emptyFresh(v) {
			if !knownEmpty(gs) {
				report("an empty list is returned although " + list.Name() + " may hold records")
			}
			return
		}
		if isList(tm.Of(v)) {
			return
		}
		// a fresh copy of the whole list
		if base, _, ok := appendCall(v); ok {
			c := v.(*ssa.Call)
			if emptyFresh(base) && isList(tm.Of(c.Call.Args[1])) {
				return
			}
		}
		if mk, ok := v.(*ssa.MakeSlice); ok {
			if lt := tm.Of(mk.Len); lt.Op == "len" && isList(lt.Args[0]) {
				copied := false
				for _, ref := range *mk.Referrers() {
					c, isCall := ref.(*ssa.Call)
					if !isCall {
						continue
					}
					if b, isB := c.Call.Value.(*ssa.Builtin); isB && b.Name() == "copy" && len(c.Call.Args) == 2 && c.Call.Args[0] == ssa.Value(mk) && isList(tm.Of(c.Call.Args[1])) {
						if c.Block() == at && at != nil || (at != nil && c.Block().Dominates(at)) {
							copied = true
						}
					}
				}
				if copied {
					return
				}
			}
		}
		report("it can return " + tm.Of(v).String())
	}
	nret := 0
	for _, b := range fn.Blocks {
		if b == fn.Recover {
			continue
		}
		ret, ok := b.Instrs[len(b.Instrs)-1].(*ssa.Return)
		if !ok || len(ret.Results) != 1 {
			continue
		}
		nret++
		leaf(ret.Results[0], b, Guards(b), 0)
	}
	if nret == 0 {
		report("no return of a single list found")
	}
	return bad
}

// constSum splits an integer term into a non-constant part and the sum of the constants added to or subtracted
// from it, whatever the spelling: x+c, c+x, x-c, (x+c1)-c2, conversions in between. ok is false when a constant
// cannot be read or the term subtracts the non-constant part (c-x).
func constSum(t *Term) (rest *Term, k int64, ok bool) {
	for t != nil && t.Op == "conv" {
		t = t.Args[0]
	}
	if t == nil {
		return nil, 0, false
	}
	if t.Op == "bin" && (t.Name == "+" || t.Name == "-") {
		kval := func(x *Term) (int64, bool) {
			for x.Op == "conv" {
				x = x.Args[0]
			}
			if x.Op != "const" {
				return 0, false
			}
			c, isK := x.V.(*ssa.Const)
			if !isK || c.Value == nil {
				return 0, false
			}
			return constant.Int64Val(constant.ToInt(c.Value))
		}
		a, b := t.Args[0], t.Args[1]
		if v, isK := kval(b); isK {
			r, k0, ok0 := constSum(a)
			if t.Name == "-" {
				v = -v
			}
			return r, k0 + v, ok0
		}
		if v, isK := kval(a); isK && t.Name == "+" {
			r, k0, ok0 := constSum(b)
			return r, k0 + v, ok0
		}
	}
	return t, 0, true
}

// underConstSum strips conversions and additions / subtractions of constants from v (`int64(x)+1` -> x).
func underConstSum(v ssa.Value) ssa.Value {
	for depth := 0; depth < 8; depth++ {
		switch x := v.(type) {
		case *ssa.Convert:
			v = x.X
			continue
		case *ssa.ChangeType:
			v = x.X
			continue
		case *ssa.BinOp:
			if x.Op == token.ADD || x.Op == token.SUB {
				if _, isK := x.Y.(*ssa.Const); isK {
					v = x.X
					continue
				}
				if _, isK := x.X.(*ssa.Const); isK && x.Op == token.ADD {
					v = x.Y
					continue
				}
			}
		}
		break
	}
	return v
}

// c03MaxProblems: `result` is computed as a maximum. Wherever two different values meet (a phi that is not the
// entry of a loop, or the back edges of a loop's phi), the value carried by an edge must be known, on that edge,
// to be at least every other value that can arrive there: by a comparison that holds on the edge (`a > b`, `a >= b`,
// in any spelling), or because the other value is an element of a list that is known to be empty on the edge, or
// because the carried value is itself such a merge over the other one. Returns a description of every edge for
// which this is not established.
//
// Used for getLastNodeId / getNextGeneInnovNum: the population's counters start from these results, so a result
// that can be SMALLER than a node id / innovation number held by a module (control gene) of the start genome lets
// the first numbers issued collide with ones already in use.
func c03MaxProblems(p *Prog, fn *ssa.Function, result ssa.Value) []string {
	tm := NewTermer(fn)
	loops := Loops(fn)
	headerOf := func(b *ssa.BasicBlock) *Loop {
		for _, l := range loops {
			if l.Header == b {
				return l
			}
		}
		return nil
	}
	key := func(v ssa.Value) string {
		if ph, ok := v.(*ssa.Phi); ok {
			return fmt.Sprintf("phi:%s@%d", ph.Name(), ph.Block().Index)
		}
		return CanonTerm(tm.Of(v))
	}
	fact := func(gs []Guard, a, b ssa.Value) bool {
		ka, kb := key(a), key(b)
		for _, g := range gs {
			x, y, op, ok := CmpFact(g.Cond, g.True)
			if !ok {
				continue
			}
			kx, ky := key(x), key(y)
			if kx == ka && ky == kb && (op == token.GTR || op == token.GEQ) {
				return true
			}
			if kx == kb && ky == ka && (op == token.LSS || op == token.LEQ) {
				return true
			}
		}
		return false
	}
	// emptyFact: b is read from an element of a list whose length is known to be zero on the edge
	emptyFact := func(gs []Guard, b ssa.Value) bool {
		var list *Term
		tm.Of(b).Walk(func(t *Term) bool {
			if list == nil && t.Op == "elem" {
				list = t.Args[0]
			}
			return list == nil
		})
		if list == nil {
			return false
		}
		kl := CanonTerm(list)
		for _, g := range gs {
			x, y, op, ok := CmpFact(g.Cond, g.True)
			if !ok {
				continue
			}
			k, isK := y.(*ssa.Const)
			if !isK {
				continue
			}
			tx := tm.Of(x)
			if tx.Op == "len" && CanonTerm(tx.Args[0]) == kl && k.Value != nil {
				s := k.Value.ExactString()
				if (s == "0" && (op == token.EQL || op == token.LEQ)) || (s == "1" && op == token.LSS) {
					return true
				}
			}
			if CanonTerm(tx) == kl && k.Value == nil && op == token.EQL {
				return true
			}
		}
		return false
	}
	// contains: b is one of the values merged by a (through phis that are not loop entries)
	var contains func(a, b ssa.Value, depth int) bool
	contains = func(a, b ssa.Value, depth int) bool {
		if key(a) == key(b) {
			return true
		}
		ph, ok := a.(*ssa.Phi)
		if !ok || depth > 6 || headerOf(ph.Block()) != nil {
			return false
		}
		for _, e := range ph.Edges {
			if contains(e, b, depth+1) {
				return true
			}
		}
		return false
	}
	var ge func(gs []Guard, a, b ssa.Value, depth int) bool
	ge = func(gs []Guard, a, b ssa.Value, depth int) bool {
		if key(a) == key(b) || fact(gs, a, b) || contains(a, b, 0) {
			return true
		}
		if ph, ok := b.(*ssa.Phi); ok {
			if depth > 6 || headerOf(ph.Block()) != nil {
				return false
			}
			for _, e := range ph.Edges {
				if !ge(gs, a, e, depth+1) {
					return false
				}
			}
			return true
		}
		return emptyFact(gs, b)
	}
	edgeGuards := func(pred, blk *ssa.BasicBlock) []Guard {
		gs := append([]Guard{}, Guards(pred)...)
		if iff, ok := pred.Instrs[len(pred.Instrs)-1].(*ssa.If); ok && pred.Succs[0] != pred.Succs[1] {
			if pred.Succs[0] == blk {
				gs = append(gs, Guard{iff.Cond, true, pred})
			} else if pred.Succs[1] == blk {
				gs = append(gs, Guard{iff.Cond, false, pred})
			}
		}
		return gs
	}
	var bad []string
	seen := map[*ssa.Phi]bool{}
	var walk func(v ssa.Value)
	walk = func(v ssa.Value) {
		ph, ok := v.(*ssa.Phi)
		if !ok || seen[ph] {
			return
		}
		seen[ph] = true
		hl := headerOf(ph.Block())
		type edge struct {
			v    ssa.Value
			gs   []Guard
			pred *ssa.BasicBlock
		}
		var sel []edge
		for i, e := range ph.Edges {
			if i >= len(ph.Block().Preds) {
				continue
			}
			pred := ph.Block().Preds[i]
			walk(e)
			if hl != nil && !hl.Blocks[pred] {
				continue // the value the loop starts with
			}
			sel = append(sel, edge{e, edgeGuards(pred, ph.Block()), pred})
		}
		for i, a := range sel {
			for j, b := range sel {
				if i == j || key(a.v) == key(b.v) {
					continue
				}
				if !ge(a.gs, a.v, b.v, 0) {
					bad = append(bad, fmt.Sprintf("at %s the result takes %s although %s may be larger", p.Pos(firstBlockPosOr(a.pred, ph.Pos())), tm.Of(a.v).String(), tm.Of(b.v).String()))
				}
			}
		}
	}
	walk(result)
	return bad
}

func firstBlockPosOr(b *ssa.BasicBlock, dflt token.Pos) token.Pos {
	for i := len(b.Instrs) - 1; i >= 0; i-- {
		if pos := b.Instrs[i].Pos(); pos.IsValid() {
			return pos
		}
	}
	return dflt
}

// c03PathAfter is FindPath's flag-sensitive search started right after instruction `start`, with one addition: the
// branch outcomes in `seed` (those that dominate the start, so they hold whenever it executes) are assumed before the
// walk begins. A search that starts in the middle of a function otherwise knows nothing about the flags that were
// decided on the way there (`rec, found := lookup(..); if found { <start> }; if !found {..}`). As in FindPath, a value
// is forgotten as soon as its defining block is entered again, and a branch is pruned only when its condition is
// decided, so the feasible paths are over-approximated (sound for "no path exists").
func c03PathAfter(p *Prog, fn *ssa.Function, start ssa.Instruction, seed []Guard, nonNil []ssa.Value, target func(ssa.Instruction) bool, avoidEdge func(from, to *ssa.BasicBlock) bool) []string {
	seen := map[string]bool{}
	var found *stateNode
	var walkBlock func(b, from *ssa.BasicBlock, startIdx int, env pathEnv, par *stateNode) bool
	walkBlock = func(b, from *ssa.BasicBlock, startIdx int, env pathEnv, par *stateNode) bool {
		node := &stateNode{b: b, par: par}
		if startIdx == 0 {
			newVals := map[ssa.Value]envVal{}
			for _, in := range b.Instrs {
				phi, ok := in.(*ssa.Phi)
				if !ok {
					break
				}
				for i, pr := range b.Preds {
					if pr == from {
						newVals[phi] = env.eval(phi.Edges[i])
						break
					}
				}
			}
			for _, in := range b.Instrs {
				if v, ok := in.(ssa.Value); ok {
					delete(env, v)
				}
			}
			for k, v := range newVals {
				if v.known {
					env[k] = v
				}
			}
			k := fmt.Sprintf("%d|", b.Index) + env.key()
			if seen[k] {
				return false
			}
			seen[k] = true
		}
		for i := startIdx; i < len(b.Instrs); i++ {
			if target(b.Instrs[i]) {
				node.hit = b.Instrs[i]
				found = node
				return true
			}
		}
		type nxt struct {
			s       *ssa.BasicBlock
			assume  bool
			outcome bool
		}
		var nexts []nxt
		last := b.Instrs[len(b.Instrs)-1]
		if iff, ok := last.(*ssa.If); ok {
			dec := env.eval(iff.Cond)
			if dec.known && dec.c != nil && dec.c.Kind() == constant.Bool {
				if constant.BoolVal(dec.c) {
					nexts = append(nexts, nxt{b.Succs[0], true, true})
				} else {
					nexts = append(nexts, nxt{b.Succs[1], true, false})
				}
			} else {
				nexts = append(nexts, nxt{b.Succs[0], true, true}, nxt{b.Succs[1], true, false})
			}
		} else {
			for _, s := range b.Succs {
				nexts = append(nexts, nxt{s, false, false})
			}
		}
		for _, n := range nexts {
			if avoidEdge != nil && avoidEdge(b, n.s) {
				continue
			}
			e2 := env.clone()
			if n.assume {
				e2.assume(last.(*ssa.If).Cond, n.outcome)
			}
			if walkBlock(n.s, b, 0, e2, node) {
				return true
			}
		}
		return false
	}
	env := pathEnv{}
	for _, v := range nonNil {
		env[v] = envVal{known: true, nonNil: true}
	}
	for _, g := range seed {
		env.assume(g.Cond, g.True)
	}
	walkBlock(start.Block(), nil, instrIndex(start)+1, env, nil)
	if found == nil {
		return nil
	}
	var out []string
	var rev []*stateNode
	for n := found; n != nil; n = n.par {
		rev = append(rev, n)
	}
	for i := len(rev) - 1; i >= 0; i-- {
		out = append(out, describeBlock(p, rev[i].b, rev[i].hit))
	}
	return out
}

// termPoly reads an integer term as a polynomial over its non-arithmetic sub-terms (parameters, loads, calls), so that
// two spellings of one expression compare equal: in+out+maxHidden+1, 1+(maxHidden+in+out), n*n+1 with n := in+out+maxHidden.
func termPoly(t *Term) nfPoly {
	for t != nil && t.Op == "conv" {
		t = t.Args[0]
	}
	if t == nil {
		return nfPoly{"?": 1}
	}
	switch t.Op {
	case "const":
		if k, ok := t.V.(*ssa.Const); ok && k.Value != nil {
			if v, exact := constant.Float64Val(constant.ToFloat(k.Value)); exact || k.Value.Kind() == constant.Int {
				if v == 0 {
					return nfPoly{}
				}
				return nfPoly{"": v}
			}
		}
	case "bin":
		switch t.Name {
		case "+":
			return polyAdd(termPoly(t.Args[0]), termPoly(t.Args[1]), 1)
		case "-":
			return polyAdd(termPoly(t.Args[0]), termPoly(t.Args[1]), -1)
		case "*":
			return polyMul(termPoly(t.Args[0]), termPoly(t.Args[1]))
		}
	case "phi":
		if alts := t.Alternatives(); len(alts) == 1 && alts[0] != t {
			return termPoly(alts[0])
		}
	}
	return nfPoly{strings.ReplaceAll(CanonTerm(t), "*", "·"): 1}
}

// c03RandomCounters: the population of random genomes. newGenomeRand(id, in, out, n, maxHidden, ..) numbers its nodes
// 1..in+out+maxHidden and its genes by the cell of the (in+out+maxHidden)^2 connection matrix (0-based), so the
// counters must end up at or above T = in+out+maxHidden resp. T*T-1 - with T taken from the arguments of the very
// newGenomeRand call that builds the organisms - on every return without an error. Otherwise the first node id /
// innovation number issued to such a population collides with one its genomes already hold.
func (r *Run) c03RandomCounters() {
	p := r.P
	fn := p.Func(PkgG, "NewPopulationRandom")
	r.Fn(FuncName(fn))
	tm := NewTermer(fn)
	gen := p.Func(PkgG, "newGenomeRand")
	calls := CallsTo(fn, gen)
	if len(calls) == 0 {
		r.Bad("NewPopulationRandom.counters", p.Pos(fn.Pos()), "NewPopulationRandom does not build its organisms with newGenomeRand: the bound on the node ids and numbers they hold is not known")
		return
	}
	for _, x := range []struct {
		field string
		sq    bool
		min   float64
	}{{"nextNodeId", false, 0}, {"nextInnovNum", true, -1}} {
		fld := p.Field(PkgG, "Population", x.field)
		sts := FieldStores(fn, fld)
		if len(sts) == 0 {
			r.Bad("NewPopulationRandom."+x.field, p.Pos(fn.Pos()), "NewPopulationRandom never sets "+x.field+": the numbers issued collide with the ones the random genomes hold")
			continue
		}
		for _, st := range sts {
			val := termPoly(tm.Of(st.Val))
			ok := true
			var worst string
			for _, ci := range calls {
				a := ci.Common().Args
				if len(a) < 5 {
					ok = false
					continue
				}
				T := polyAdd(polyAdd(termPoly(tm.Of(a[1])), termPoly(tm.Of(a[2])), 1), termPoly(tm.Of(a[4])), 1)
				bound := T
				if x.sq {
					bound = polyMul(T, T)
				}
				d, isK := polyAdd(val, bound, -1).isConst()
				if !isK || d < x.min {
					ok = false
					worst = bound.String()
				}
			}
			what := "in+out+maxHidden"
			if x.sq {
				what = "(in+out+maxHidden)^2 - 1"
			}
			r.Check(ok, "NewPopulationRandom."+x.field, p.Pos(st.Pos()), x.field+" starts at or above "+what+" of the newGenomeRand call",
				fmt.Sprintf("NewPopulationRandom sets %s to %s, which is not known to reach the largest value the random genomes hold (%s): the first one issued can collide", x.field, tm.Of(st.Val).String(), worst))
			w := FindPath(p, PathQuery{Fn: fn, Target: func(in ssa.Instruction) bool { return IsReturn(in) && in.Block() != fn.Recover && !c03IsErrReturn(in) },
				Avoid: func(in ssa.Instruction) bool { return in == ssa.Instruction(st) }})
			if len(sts) == 1 {
				r.Check(w == nil, "NewPopulationRandom."+x.field+".always", p.Pos(st.Pos()), "every return without an error has set "+x.field,
					"NewPopulationRandom can return a population without having set "+x.field+": it stays at zero", w...)
			}
		}
	}
}

// c03FieldStable: while fn runs, nothing writes field fld of an object that existed before: fn itself has no store to
// the field, and every store to it in a function reachable from fn (call graph, closures included) goes into an object
// that the storing function allocated itself or received from a callee whose summary proves its result fresh (a constructor
// filling in what it is about to return). Two reads of
// x.fld made during one run of fn, through the same pointer x, then yield the same value.
func c03FieldStable(p *Prog, sums *Summaries, fn *ssa.Function, fld *types.Var) bool {
	fresh := func(c *ssa.Function) bool {
		if sums == nil {
			return false
		}
		sm := sums.Ctor(c)
		return sm.Why == "" && sm.Fresh
	}
	re := p.Reachable([]*ssa.Function{fn}, nil)
	for _, f := range re.RepoFuncs() {
		for _, e := range Writes(f) {
			switch e.Kind {
			case "field":
				if e.Field != fld {
					continue
				}
				if f == fn || p.AddrRootClass(f, e.Addr, fresh) != "fresh" {
					return false
				}
			case "deref":
				// a store through a computed pointer of the field's type could hit the field
				if pt, ok := e.Addr.Type().Underlying().(*types.Pointer); ok && types.Identical(pt.Elem(), fld.Type()) {
					return false
				}
			}
		}
	}
	return true
}

// sameRead: a and b are the same value wherever both have been evaluated - the same SSA value, or two loads of the same
// field through the same pointer (itself the same value in this sense) of a field that is stable while the function runs
// (c03FieldStable). The blocks of the two loads must lie on one dominator chain: the pointer's definition dominates both,
// so after its latest execution both loads have been executed again before any point that both dominate, and they read
// through the same instance of the pointer.
func (s *innovSite) sameRead(p *Prog, a, b ssa.Value, depth int) bool {
	a, b = stripCT(a), stripCT(b)
	if a == b {
		return true
	}
	if depth > 4 {
		return false
	}
	ua, okA := a.(*ssa.UnOp)
	ub, okB := b.(*ssa.UnOp)
	if !okA || !okB || ua.Op != token.MUL || ub.Op != token.MUL {
		return false
	}
	fa, okA := ua.X.(*ssa.FieldAddr)
	fb, okB := ub.X.(*ssa.FieldAddr)
	if !okA || !okB || fa.Field != fb.Field || !types.Identical(fa.X.Type(), fb.X.Type()) {
		return false
	}
	if _, isPtr := fa.X.Type().Underlying().(*types.Pointer); !isPtr {
		return false
	}
	if !(ua.Block().Dominates(ub.Block()) || ub.Block().Dominates(ua.Block())) {
		return false
	}
	if !s.sameRead(p, fa.X, fb.X, depth+1) {
		return false
	}
	fld := fieldOf(fa.X.Type(), fa.Field)
	if s.stable == nil {
		s.stable = map[*types.Var]bool{}
	}
	st, known := s.stable[fld]
	if !known {
		st = c03FieldStable(p, s.sums, s.fn, fld)
		s.stable[fld] = st
	}
	return st
}

// chainOn: fieldChainOnWeb, where the base of the chain may also be another read of the location v was read from
// (`in := link.InNode` compared, `link.InNode` handed to the constructor).
func (s *innovSite) chainOn(p *Prog, t *Term, v ssa.Value, path ...string) bool {
	if fieldChainOnWeb(t, v, path...) {
		return true
	}
	for i := len(path) - 1; i >= 0; i-- {
		if t == nil || t.Op != "field" || t.Name != path[i] {
			return false
		}
		t = t.Args[0]
	}
	return t != nil && t.V != nil && v != nil && s.sameRead(p, t.V, v, 0)
}

// c03RecordsStable: while fn runs, no record that already sits in a list of records is modified: no function reachable
// from fn stores into an element of a slice/array of `rec` or into a field of a `rec` that it did not allocate itself
// (appending a further record does not touch the ones present). Two reads of list[i] through the same list value and
// an equal index then yield the same record.
func c03RecordsStable(p *Prog, sums *Summaries, fn *ssa.Function, rec types.Type) bool {
	fresh := func(c *ssa.Function) bool {
		if sums == nil {
			return false
		}
		sm := sums.Ctor(c)
		return sm.Why == "" && sm.Fresh
	}
	isRec := func(t types.Type) bool { return types.Identical(deref(t), rec) }
	re := p.Reachable([]*ssa.Function{fn}, nil)
	for _, f := range re.RepoFuncs() {
		for _, e := range Writes(f) {
			switch e.Kind {
			case "field":
				if e.Owner == nil || !types.Identical(e.Owner, rec) {
					continue
				}
				if p.AddrRootClass(f, e.Addr, fresh) != "fresh" {
					return false
				}
			case "elem", "deref":
				if pt, ok := e.Addr.Type().Underlying().(*types.Pointer); ok && isRec(pt.Elem()) && p.AddrRootClass(f, e.Addr, fresh) != "fresh" {
					return false
				}
			}
		}
	}
	return true
}

// indexMatch recognises a lookup that hands the POSITION of the matched record out of the scan instead of acting inside it:
//
//	idx := -1; for i := range list { rec := list[i]; if <match rec> { idx = i; break } }; if idx >= 0 { use list[idx] }
//
// The record the gene at block `at` is built from (s.innAlloc) is list[ip] with ip a phi outside the scan. A comparison
// of ip with a constant that holds at `at` rules out every incoming edge of ip that carries a constant failing it (the
// "not found" sentinel). If every edge that is left carries one and the same value v defined inside the scan (the
// scan's index of the current iteration), then at `at` ip equals the v of the iteration on which the scan was left, the
// branch outcomes known on all of those edges hold for that iteration, and list[ip] is the record list[v] they were
// evaluated on - the list being the same SSA value, and the records in it not being modified while the mutator runs
// (c03RecordsStable). Returned: those outcomes, the in-scan names of the record list[v] (local copies and element
// addresses), and the edges out of the scan that carry v into ip (leaving on one of them is leaving with a match).
func (s *innovSite) indexMatch(p *Prog, at *ssa.BasicBlock) (conds []Guard, recs map[ssa.Value]bool, exits [][2]*ssa.BasicBlock) {
	conds, recs, exits, _, _ = s.indexMatchPos(p, at)
	return
}

// indexMatchPos is indexMatch, returning in addition the position variable ip and whether the position handed out is
// known to be non-negative (v is the index of a scan that counts up from zero).
func (s *innovSite) indexMatchPos(p *Prog, at *ssa.BasicBlock) (conds []Guard, recs map[ssa.Value]bool, exits [][2]*ssa.BasicBlock, pos *ssa.Phi, nonNeg bool) {
	if s.innLoop == nil || s.innAlloc == nil {
		return nil, nil, nil, nil, false
	}
	elemAddr := func(v ssa.Value) *ssa.IndexAddr {
		switch x := v.(type) {
		case *ssa.IndexAddr:
			return x
		case *ssa.Alloc:
			var ia *ssa.IndexAddr
			n := 0
			for _, ref := range *x.Referrers() {
				switch y := ref.(type) {
				case *ssa.Store:
					if y.Addr != ssa.Value(x) {
						return nil // the copy's address escapes
					}
					n++
					if ld, ok := y.Val.(*ssa.UnOp); ok && ld.Op == token.MUL {
						ia, _ = ld.X.(*ssa.IndexAddr)
					}
				case *ssa.FieldAddr:
					// the copy's fields are only read
					for _, r2 := range *y.Referrers() {
						if ld, ok := r2.(*ssa.UnOp); ok && ld.Op == token.MUL {
							continue
						}
						if _, ok := r2.(*ssa.DebugRef); ok {
							continue
						}
						return nil
					}
				case *ssa.UnOp, *ssa.DebugRef:
				default:
					return nil
				}
			}
			if n == 1 {
				return ia
			}
		}
		return nil
	}
	ia := elemAddr(s.innAlloc)
	if ia == nil {
		return nil, nil, nil, nil, false
	}
	ip, ok := stripCT(ia.Index).(*ssa.Phi)
	if !ok || s.innLoop.Blocks[ip.Block()] {
		return nil, nil, nil, nil, false
	}
	holds := func(c int64, op token.Token, k int64) bool {
		switch op {
		case token.EQL:
			return c == k
		case token.NEQ:
			return c != k
		case token.LSS:
			return c < k
		case token.LEQ:
			return c <= k
		case token.GTR:
			return c > k
		case token.GEQ:
			return c >= k
		}
		return true
	}
	type fact struct {
		op token.Token
		k  int64
	}
	var facts []fact
	for _, g := range Guards(at) {
		x, y, op, isCmp := CmpFact(g.Cond, g.True)
		if !isCmp || stripCT(x) != ssa.Value(ip) {
			continue
		}
		if k, isK := constInt(y); isK {
			facts = append(facts, fact{op, k})
		}
	}
	if len(facts) == 0 {
		return nil, nil, nil, nil, false
	}
	var v ssa.Value
	var from []*ssa.BasicBlock
	for i, e := range ip.Edges {
		if i >= len(ip.Block().Preds) {
			return nil, nil, nil, nil, false
		}
		if c, isK := constInt(e); isK {
			feasible := true
			for _, f := range facts {
				if !holds(c, f.op, f.k) {
					feasible = false
				}
			}
			if feasible {
				return nil, nil, nil, nil, false // a constant position: nothing is known about the record there
			}
			continue
		}
		e = stripCT(e)
		if v != nil && v != e {
			return nil, nil, nil, nil, false
		}
		v = e
		from = append(from, ip.Block().Preds[i])
	}
	vin, isInstr := v.(ssa.Instruction)
	if v == nil || !isInstr || !s.innLoop.Blocks[vin.Block()] {
		return nil, nil, nil, nil, false
	}
	// the edges: straight out of the scan, possibly through blocks of their own that nothing else enters
	for _, f := range from {
		b, nxt := f, ip.Block()
		for n := 0; !s.innLoop.Blocks[b]; n++ {
			if len(b.Preds) != 1 || n > 4 {
				return nil, nil, nil, nil, false
			}
			b, nxt = b.Preds[0], b
		}
		exits = append(exits, [2]*ssa.BasicBlock{b, nxt})
	}
	// the records: list[v] with the list value the gene's record is read from
	list := stripCT(ia.X)
	recs = map[ssa.Value]bool{}
	Instrs(s.fn, func(b *ssa.BasicBlock, _ int, in ssa.Instruction) {
		switch x := in.(type) {
		case *ssa.IndexAddr:
			if s.innLoop.Blocks[b] && stripCT(x.X) == list && stripCT(x.Index) == v {
				recs[x] = true
			}
		case *ssa.Alloc:
			if a := elemAddr(x); a != nil && s.innLoop.Blocks[a.Block()] && stripCT(a.X) == list && stripCT(a.Index) == v {
				recs[x] = true
			}
		}
	})
	if len(recs) == 0 {
		return nil, nil, nil, nil, false
	}
	et := deref(ia.Type())
	if !c03RecordsStable(p, s.sums, s.fn, et) {
		return nil, nil, nil, nil, false
	}
	for i, f := range from {
		cs := condsAt(f, ip.Block())
		if i == 0 {
			conds = cs
		} else {
			conds = intersectGuards(conds, cs)
		}
	}
	if idx, _, ok := scanFromZero(s.innLoop); ok && stripCT(idx) == v {
		nonNeg = true
	}
	return conds, recs, exits, ip, nonNeg
}

// c03MatchExitIssues: the scan handed the position of a matched record out (indexMatch); is there a way from one of the
// edges on which it did so to an instruction that issues a number / node id or stores a record? On those edges the
// position variable equals the scan's index, which is not negative; a branch whose outcome says otherwise
// (`idx < 0`, `idx == -1`: "not found") is not taken. The position's block is not entered a second time (that would be
// the result of another scan - another attempt), so the outcomes pruned speak about the position handed out.
// Anything else is followed as in c03PathAfter (over-approximation: sound for "no such way").
func (s *innovSite) c03MatchExitIssues(p *Prog, at *ssa.BasicBlock, nonNil []ssa.Value, target func(ssa.Instruction) bool, avoidEdge func(from, to *ssa.BasicBlock) bool) []string {
	_, _, exits, ip, nonNeg := s.indexMatchPos(p, at)
	if ip == nil {
		return nil
	}
	sat := func(op token.Token, k int64) bool {
		// is there x >= 0 with x op k ?
		switch op {
		case token.EQL, token.LEQ:
			return k >= 0
		case token.LSS:
			return k > 0
		}
		return true
	}
	for _, e := range exits {
		e := e
		// the block through which this exit reaches the position variable
		last := e[0]
		for b, n := e[1], 0; b != ip.Block(); n++ {
			if len(b.Succs) != 1 || n > 5 {
				return []string{"the way from the scan to the position variable is not a straight line"}
			}
			last, b = b, b.Succs[0]
		}
		avoid := func(from, to *ssa.BasicBlock) bool {
			if avoidEdge != nil && avoidEdge(from, to) {
				return true
			}
			if from == e[0] && to != e[1] {
				return true // not this exit
			}
			if to == ip.Block() && from != last {
				return true // another scan's result
			}
			if iff, ok := from.Instrs[len(from.Instrs)-1].(*ssa.If); ok && nonNeg && from.Succs[0] != from.Succs[1] {
				if x, y, op, isCmp := CmpFact(iff.Cond, from.Succs[0] == to); isCmp && stripCT(x) == ssa.Value(ip) {
					if k, isK := constInt(y); isK && !sat(op, k) {
						return true
					}
				}
			}
			return false
		}
		if w := c03PathAfter(p, s.fn, e[0].Instrs[len(e[0].Instrs)-1], condsAt(e[0], e[1]), nonNil, target, avoid); w != nil {
			return w
		}
	}
	return nil
}

// leavesWithRecord: the edge b->sx out of the scan is taken with the matched record handed out to the block `at` that
// builds the gene, as a pointer: `at` runs only where a pointer variable (a phi web fed by nil "nothing matched yet" and
// by concrete values) was found non-nil, and the variable receives a value that is never nil (the address of a fresh
// copy, of a local or of an element) on that very edge, or on the only way on from sx when nothing else enters sx.
// Leaving the scan on such an edge is leaving it "through the match": the reuse branch, not the novel one, is what the
// non-nil test selects. An exit on which the variable keeps nil, or receives a value that may be nil, does not qualify.
// (Which record the pointer denotes, and under which comparisons it was handed out, is the business of the key rule;
// that the match is not forgotten again before it is acted on is checked by c03RecordExitIssues.)
func (s *innovSite) leavesWithRecord(at, b, sx *ssa.BasicBlock) bool {
	for _, g := range Guards(at) {
		ph := nonNilTestedPhi(g)
		if ph == nil {
			continue
		}
		sites, _ := ptrSites(ph)
		for _, st := range sites {
			if !c03NeverNilPtr(st.Val) {
				continue
			}
			if (st.From == b && st.To == sx) || (st.From == sx && len(sx.Preds) == 1 && len(sx.Succs) == 1) {
				return true
			}
		}
	}
	return false
}

// nonNilTestedPhi: g says `p != nil` (in any spelling) for a pointer phi p; returns p.
func nonNilTestedPhi(g Guard) *ssa.Phi {
	x, y, op, ok := CmpFact(g.Cond, g.True)
	if !ok || op != token.NEQ {
		return nil
	}
	if k, isK := x.(*ssa.Const); isK && k.Value == nil {
		x, y = y, x
	}
	k, isK := y.(*ssa.Const)
	if !isK || k.Value != nil {
		return nil
	}
	if _, isPtr := x.Type().Underlying().(*types.Pointer); !isPtr {
		return nil
	}
	ph, _ := stripCT(x).(*ssa.Phi)
	return ph
}

// c03NeverNilPtr: a pointer that is never nil: a fresh object / the address of a local, of an element or of a field
// (taking the latter two panics instead of yielding nil).
func c03NeverNilPtr(v ssa.Value) bool {
	switch stripCT(v).(type) {
	case *ssa.Alloc, *ssa.IndexAddr, *ssa.FieldAddr:
		return true
	}
	return false
}

// c03RecordExitIssues: the scan hands the matched record out as a pointer (leavesWithRecord) and the genes are built
// later, under `ptr != nil`. The match is then established where the pointer receives the record, not where the gene is
// built: is there a way from one of those edges to an instruction that issues a number / node id or stores a record?
// The walk is c03PathAfter's: the pointer variable is followed through its phis (non-nil from the edge on, nil again if
// a later edge resets it), so a scan that goes on after a match and lets a later record that does not match withdraw
// the pointer (`else { ptr = nil }`) is found, as is a novel branch that is not under `ptr == nil`.
func (s *innovSite) c03RecordExitIssues(p *Prog, at *ssa.BasicBlock, nonNil []ssa.Value, target func(ssa.Instruction) bool, avoidEdge func(from, to *ssa.BasicBlock) bool) []string {
	if s.innLoop == nil {
		return nil
	}
	for _, g := range Guards(at) {
		ph := nonNilTestedPhi(g)
		if ph == nil {
			continue
		}
		sites, _ := ptrSites(ph)
		for _, st := range sites {
			st := st
			if !c03NeverNilPtr(st.Val) {
				continue // not a match signal: leaving the scan on this edge is not leaving through the match (full-scan)
			}
			avoid := func(from, to *ssa.BasicBlock) bool {
				if avoidEdge != nil && avoidEdge(from, to) {
					return true
				}
				return from == st.From && to != st.To // this edge, not the block's other way out
			}
			nn := append(append([]ssa.Value{}, nonNil...), st.Val)
			if w := c03PathAfter(p, s.fn, st.From.Instrs[len(st.From.Instrs)-1], condsAt(st.From, st.To), nn, target, avoid); w != nil {
				return w
			}
		}
	}
	return nil
}
