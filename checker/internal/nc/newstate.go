package nc

import (
	_ "embed"
	"fmt"
	"go/types"
	"sort"
	"strings"

	"golang.org/x/tools/go/packages"
	"golang.org/x/tools/go/ssa"
)

// State that the pinned tree does not have.
//
// Every property is a statement over histories (any sequence of calls, any earlier run, any schedule). The
// rules of a property are written for the state the pinned tree keeps: the fields of its structs and its
// package-level variables. A change that adds mutable state of its own - a memo field, a cache, a pool, a
// lazily built table - on the path of a property makes the outcome depend on a history that no rule of the
// property knows about (stale cache after the inputs changed, pooled buffer reused while still referenced,
// memo shared by value copies, ...). The rules cannot show that the property is independent of that state, so
// the check fails CLOSED with an `undecided` obligation naming the state and the function that writes it. It
// is not a proof of a violation; it is the same policy as for an anchor that no longer resolves.
//
// What counts: a struct field of a package-level type, or a package-level variable, that pinned_state.txt does
// not list and that is WRITTEN after its holder was constructed: a store through a base that is not an object
// allocated in the same function, an element store / map update / append through the value held in it, or its
// address handed to a call (methods of sync.Pool, atomic.Value, sync.Once, ...). Reads, and initialisation of a
// freshly allocated holder (constructors, composite literals, package initialisers), are not writes. Functions
// the normaliser expanded away are skipped (their bodies are examined where they were expanded).
//
//go:embed pinned_state.txt
var pinnedStateTxt string

func PinnedState() map[string]bool {
	out := map[string]bool{}
	for _, l := range strings.Split(pinnedStateTxt, "\n") {
		if l = strings.TrimSpace(l); l != "" {
			out[l] = true
		}
	}
	return out
}

func stateOf(pkgs []*packages.Package) (map[*types.Var]string, []string) {
	vars := map[*types.Var]string{}
	var names []string
	for _, pk := range pkgs {
		if pk.Types == nil || !strings.HasPrefix(pk.PkgPath, Mod) {
			continue
		}
		sc := pk.Types.Scope()
		for _, n := range sc.Names() {
			switch o := sc.Lookup(n).(type) {
			case *types.Var:
				nm := short(pk.PkgPath) + "." + o.Name()
				vars[o] = nm
				names = append(names, nm)
			case *types.TypeName:
				if o.IsAlias() {
					continue
				}
				st, ok := o.Type().Underlying().(*types.Struct)
				if !ok {
					continue
				}
				for i := 0; i < st.NumFields(); i++ {
					f := st.Field(i)
					nm := short(pk.PkgPath) + "." + o.Name() + "." + f.Name()
					vars[f] = nm
					names = append(names, nm)
				}
			}
		}
	}
	sort.Strings(names)
	return vars, names
}

// ListState lists the struct fields and package-level variables of the repository at dir.
func ListState(dir string) []string {
	cfg := &packages.Config{Mode: packages.LoadSyntax, Dir: dir, Tests: false, Env: loadEnv()}
	pkgs, err := packages.Load(cfg, "./...")
	if err != nil {
		return nil
	}
	_, names := stateOf(pkgs)
	return names
}

type newStateWrite struct {
	name string
	fn   *ssa.Function
	pos  string
	how  string
}

// newStateWrites is computed once per loaded program.
func (p *Prog) newStateWrites() []newStateWrite {
	if p.nsDone {
		return p.nsWrites
	}
	p.nsDone = true
	pinned := PinnedState()
	all, _ := stateOf(p.Pkgs)
	fresh := map[*types.Var]string{}
	for v, n := range all {
		if !pinned[n] {
			fresh[v] = n
		}
	}
	if len(fresh) == 0 {
		return nil
	}
	pf := PinnedFuncs()
	seen := map[string]bool{}
	add := func(v *types.Var, fn *ssa.Function, in ssa.Instruction, how string) {
		k := fresh[v] + "@" + FuncName(fn) + ":" + how
		if seen[k] {
			return
		}
		seen[k] = true
		p.nsWrites = append(p.nsWrites, newStateWrite{fresh[v], fn, p.Pos(in.Pos()), how})
	}
	for _, fn := range p.SrcFuncs() {
		top := fn
		for top.Parent() != nil {
			top = top.Parent()
		}
		if strings.HasPrefix(top.Name(), "init") && top.Signature.Recv() == nil {
			continue // package initialisers
		}
		if p.expandedAway(fn, pf) {
			continue
		}
		tm := NewTermer(fn)
		// the new state an address chain passes through; `direct` = the address IS the new variable's location
		var chain func(v ssa.Value, depth int, visit func(nv *types.Var, base ssa.Value, direct bool))
		chain = func(v ssa.Value, depth int, visit func(nv *types.Var, base ssa.Value, direct bool)) {
			if depth > 12 {
				return
			}
			switch x := v.(type) {
			case *ssa.FieldAddr:
				if f := fieldOf(x.X.Type(), x.Field); fresh[f] != "" {
					visit(f, x.X, depth == 0)
				}
				chain(x.X, depth+1, visit)
			case *ssa.Field:
				if f := fieldOf(x.X.Type(), x.Field); fresh[f] != "" {
					visit(f, x.X, false)
				}
				chain(x.X, depth+1, visit)
			case *ssa.Global:
				if g, ok := x.Object().(*types.Var); ok && fresh[g] != "" {
					visit(g, nil, depth == 0)
				}
			case *ssa.IndexAddr:
				chain(x.X, depth+1, visit)
			case *ssa.Slice:
				chain(x.X, depth+1, visit)
			case *ssa.UnOp:
				chain(x.X, depth+1, visit)
			case *ssa.ChangeType:
				chain(x.X, depth+1, visit)
			case *ssa.Phi:
				for _, e := range x.Edges {
					if e != ssa.Value(x) {
						chain(e, depth+1, visit)
					}
				}
			}
		}
		isFreshBase := func(base ssa.Value) bool {
			return base != nil && p.rootClass(tm, base, nil, 0) == "fresh"
		}
		Instrs(fn, func(_ *ssa.BasicBlock, _ int, in ssa.Instruction) {
			switch x := in.(type) {
			case *ssa.Store:
				chain(x.Addr, 0, func(nv *types.Var, base ssa.Value, direct bool) {
					if isFreshBase(base) {
						return
					}
					if direct {
						add(nv, fn, in, "assigned")
					} else {
						add(nv, fn, in, "written through")
					}
				})
			case *ssa.MapUpdate:
				chain(x.Map, 1, func(nv *types.Var, base ssa.Value, _ bool) {
					if !isFreshBase(base) {
						add(nv, fn, in, "map held in it updated")
					}
				})
			case ssa.CallInstruction:
				com := x.Common()
				args := com.Args
				if com.IsInvoke() {
					args = append([]ssa.Value{com.Value}, args...)
				}
				for _, a := range args {
					switch a.(type) {
					case *ssa.FieldAddr, *ssa.Global:
						chain(a, 0, func(nv *types.Var, base ssa.Value, direct bool) {
							if direct && !isFreshBase(base) {
								n, _ := calleeName(com)
								add(nv, fn, in, "address passed to "+n)
							}
						})
					}
				}
			}
		})
	}
	sort.Slice(p.nsWrites, func(i, j int) bool {
		if p.nsWrites[i].name != p.nsWrites[j].name {
			return p.nsWrites[i].name < p.nsWrites[j].name
		}
		return FuncName(p.nsWrites[i].fn) < FuncName(p.nsWrites[j].fn)
	})
	return p.nsWrites
}

// extra entry points of a property's region beyond the functions its rules analyse
var newStateRoots = map[string][][2]string{
	"C08": {{PkgG, "NewPopulation"}, {PkgG, "NewPopulationRandom"}, {PkgG, "ReadPopulation"}},
	"C07": {{PkgG, "Organism.UpdatePhenotype"}},
	"C14": {{PkgN, "Network.MaxActivationDepth"}, {PkgN, "Network.MaxActivationDepthWithCap"}},
	"C20": {{PkgE, "Experiment.Execute"}},
	"C18": {{PkgM, "NewNodeActivatorsFactory"}, {PkgM, "NodeActivatorsFactory.Register"}, {PkgM, "NodeActivatorsFactory.RegisterModule"}},
	"C12": {{PkgN, "Network.FastNetworkSolver"}, {PkgN, "NewFastModularNetworkSolver"}, {PkgN, "NewNetwork"}, {PkgN, "NewModularNetwork"}},
	"C13": {{PkgN, "Network.FastNetworkSolver"}, {PkgN, "NewFastModularNetworkSolver"}, {PkgN, "NewNetwork"}, {PkgN, "NewModularNetwork"}},
	"C11": {{PkgG, "Genome.Genesis"}, {PkgN, "NewNetwork"}, {PkgN, "NewModularNetwork"}},
}

// NewStateRule adds, after a property's own rules ran, one obligation per piece of state that the pinned tree
// does not have and that a function in the property's region writes (the region: everything reachable in the
// call graph from the functions the property's rules analysed, plus newStateRoots).
func NewStateRule(p *Prog, r *Run) {
	r.Rule(r.Property+".S", "no mutable state beyond the pinned tree's is written on the property's paths (fail closed: the rules know the state the pinned tree keeps; a memo, cache, pool or lazily built table added to it makes the outcome depend on a history they cannot follow)", func() {
		ws := p.newStateWrites()
		if len(ws) == 0 {
			r.OK("new-state", "-", "the tree declares no struct field or package-level variable beyond the pinned tree's that is written after construction")
			return
		}
		byName := map[string]*ssa.Function{}
		for _, f := range p.SrcFuncs() {
			byName[FuncName(f)] = f
		}
		var roots []*ssa.Function
		for n := range r.FuncsAnalysed {
			if f := byName[n]; f != nil {
				roots = append(roots, f)
			}
		}
		for _, x := range newStateRoots[r.Property] {
			if f := p.FuncOpt(x[0], x[1]); f != nil {
				roots = append(roots, f)
			}
		}
		sort.Slice(roots, func(i, j int) bool { return FuncName(roots[i]) < FuncName(roots[j]) })
		reach := p.Reachable(roots, func(f *ssa.Function) bool { return !InRepo(f) })
		n := 0
		for _, w := range ws {
			top := w.fn
			for top.Parent() != nil {
				top = top.Parent()
			}
			chainTo, ok := reach.Funcs[w.fn]
			if !ok {
				chainTo, ok = reach.Funcs[top]
			}
			if !ok {
				continue
			}
			n++
			var path []string
			for _, f := range chainTo {
				path = append(path, FuncName(f))
			}
			r.add("undecided", "new-state:"+w.name+"@"+FuncName(top), w.pos,
				fmt.Sprintf("%s is state the pinned tree does not have; %s (%s) in %s, which is on this property's paths: the outcome can depend on what an earlier call, run or goroutine left there, and no rule of the property covers it", w.name, w.how, w.pos, FuncName(w.fn)), path)
		}
		if n == 0 {
			r.OK("new-state", "-", fmt.Sprintf("%d write(s) to state beyond the pinned tree's exist, none in a function reachable from this property's functions", len(ws)))
		}
	})
}
