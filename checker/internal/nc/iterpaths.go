package nc

import (
	"go/constant"
	"go/token"

	"golang.org/x/tools/go/ssa"
)

// IterPath is one acyclic path through a single iteration of a loop: it
// starts at the loop header and ends by returning to the header (back edge),
// leaving the loop, or returning from the function.
type IterPath struct {
	Blocks []*ssa.BasicBlock
	End    string  // "back" | "exit" | "return"
	Conds  []Guard // branch outcomes taken on the path
	ExitTo *ssa.BasicBlock
}

// EnumIterPaths enumerates the feasible acyclic paths of one iteration of l.
// Inner cycles are traversed at most once per block. Infeasible branches are
// pruned with the same constant tracking as FindPath.
func EnumIterPaths(fn *ssa.Function, l *Loop, limit int) ([]*IterPath, bool) {
	var out []*IterPath
	complete := true
	var walk func(b, from *ssa.BasicBlock, env pathEnv, blocks []*ssa.BasicBlock, conds []Guard, onPath map[*ssa.BasicBlock]int)
	walk = func(b, from *ssa.BasicBlock, env pathEnv, blocks []*ssa.BasicBlock, conds []Guard, onPath map[*ssa.BasicBlock]int) {
		if len(out) >= limit {
			complete = false
			return
		}
		// bind phis
		if from != nil {
			newVals := map[ssa.Value]envVal{}
			for _, in := range b.Instrs {
				phi, ok := in.(*ssa.Phi)
				if !ok {
					break
				}
				for i, pr := range b.Preds {
					if pr == from {
						newVals[phi] = env.eval(phi.Edges[i])
						break
					}
				}
			}
			for _, in := range b.Instrs {
				if v, ok := in.(ssa.Value); ok {
					delete(env, v)
				}
			}
			for k, v := range newVals {
				if v.known {
					env[k] = v
				}
			}
		}
		blocks = append(append([]*ssa.BasicBlock{}, blocks...), b)
		onPath[b]++
		defer func() { onPath[b]-- }()
		last := b.Instrs[len(b.Instrs)-1]
		if _, ok := last.(*ssa.Return); ok {
			out = append(out, &IterPath{Blocks: blocks, End: "return", Conds: conds})
			return
		}
		type nxt struct {
			s       *ssa.BasicBlock
			hasCond bool
			outcome bool
		}
		var nexts []nxt
		if iff, ok := last.(*ssa.If); ok && b.Succs[0] != b.Succs[1] {
			dec := env.eval(iff.Cond)
			if dec.known && dec.c != nil && dec.c.Kind() == constant.Bool {
				if constant.BoolVal(dec.c) {
					nexts = []nxt{{b.Succs[0], true, true}}
				} else {
					nexts = []nxt{{b.Succs[1], true, false}}
				}
			} else {
				nexts = []nxt{{b.Succs[0], true, true}, {b.Succs[1], true, false}}
			}
		} else {
			for _, s := range b.Succs {
				nexts = append(nexts, nxt{s, false, false})
			}
		}
		for _, n := range nexts {
			c2 := conds
			e2 := env.clone()
			if n.hasCond {
				iff := last.(*ssa.If)
				c2 = append(append([]Guard{}, conds...), Guard{iff.Cond, n.outcome, b})
				c2 = append(c2, resolvedConds(blocks, iff.Cond, n.outcome, b)...)
				e2.assume(iff.Cond, n.outcome)
			}
			switch {
			case n.s == l.Header:
				out = append(out, &IterPath{Blocks: append(append([]*ssa.BasicBlock{}, blocks...), n.s), End: "back", Conds: c2})
			case !l.Blocks[n.s]:
				// leaving the loop: a block that only returns is folded into the path
				if _, isRet := n.s.Instrs[len(n.s.Instrs)-1].(*ssa.Return); isRet && len(n.s.Succs) == 0 {
					out = append(out, &IterPath{Blocks: append(append([]*ssa.BasicBlock{}, blocks...), n.s), End: "return", Conds: c2, ExitTo: n.s})
				} else {
					out = append(out, &IterPath{Blocks: append(append([]*ssa.BasicBlock{}, blocks...), n.s), End: "exit", Conds: c2, ExitTo: n.s})
				}
			case onPath[n.s] >= 2:
				// inner cycle: a block is entered at most twice (one full inner iteration, then the exit)
			default:
				walk(n.s, b, e2, blocks, c2, onPath)
			}
		}
	}
	walk(l.Header, nil, pathEnv{}, nil, nil, map[*ssa.BasicBlock]int{})
	return out, complete
}

// Resolve follows phis along the path: the value v has at the end of the path.
func (ip *IterPath) Resolve(v ssa.Value) ssa.Value {
	for depth := 0; depth < 50; depth++ {
		phi, ok := v.(*ssa.Phi)
		if !ok {
			return v
		}
		// find the last occurrence of phi's block on the path (not counting a final header revisit as definition site
		// unless the path really re-enters it)
		idx := -1
		for i := len(ip.Blocks) - 1; i >= 1; i-- {
			if ip.Blocks[i] == phi.Block() {
				idx = i
				break
			}
		}
		if idx < 1 {
			return v // defined at the path's first block (the header) or outside: the value at iteration start
		}
		if ip.End == "back" && idx == len(ip.Blocks)-1 {
			// the header revisit at the very end is the next iteration's phi; stop at the current one
			return v
		}
		pred := ip.Blocks[idx-1]
		found := false
		for i, pr := range phi.Block().Preds {
			if pr == pred {
				v = phi.Edges[i]
				found = true
				break
			}
		}
		if !found {
			return v
		}
	}
	return v
}

// NextValue returns the value the header phi takes in the next iteration when
// the path ends on the back edge.
func (ip *IterPath) NextValue(headerPhi *ssa.Phi) ssa.Value {
	if ip.End != "back" || len(ip.Blocks) < 2 {
		return nil
	}
	pred := ip.Blocks[len(ip.Blocks)-2]
	for i, pr := range headerPhi.Block().Preds {
		if pr == pred {
			// resolve on the path without its final header revisit
			sub := &IterPath{Blocks: ip.Blocks[:len(ip.Blocks)-1], End: "partial"}
			return sub.Resolve(headerPhi.Edges[i])
		}
	}
	return nil
}

// Delta decomposes `next` as base + sum of added operands, following ADD/SUB
// chains and path-resolved phis. It returns the added values (negated ones in subs).
func (ip *IterPath) Delta(next ssa.Value, base ssa.Value) (adds, subs []ssa.Value, ok bool) {
	sub := &IterPath{Blocks: ip.Blocks, End: "partial"}
	if ip.End == "back" {
		sub.Blocks = ip.Blocks[:len(ip.Blocks)-1]
	}
	v := next
	for depth := 0; depth < 50; depth++ {
		v = sub.Resolve(v)
		if v == base {
			return adds, subs, true
		}
		b, isBin := v.(*ssa.BinOp)
		if !isBin {
			return adds, subs, false
		}
		switch b.Op {
		case token.ADD:
			// one side continues the chain
			if chainsTo(sub, b.X, base) {
				adds = append(adds, b.Y)
				v = b.X
			} else if chainsTo(sub, b.Y, base) {
				adds = append(adds, b.X)
				v = b.Y
			} else {
				return adds, subs, false
			}
		case token.SUB:
			if chainsTo(sub, b.X, base) {
				subs = append(subs, b.Y)
				v = b.X
			} else {
				return adds, subs, false
			}
		default:
			return adds, subs, false
		}
	}
	return adds, subs, false
}

func chainsTo(ip *IterPath, v, base ssa.Value) bool {
	for depth := 0; depth < 50; depth++ {
		v = ip.Resolve(v)
		if v == base {
			return true
		}
		b, ok := v.(*ssa.BinOp)
		if !ok || (b.Op != token.ADD && b.Op != token.SUB) {
			return false
		}
		if chainsToShallow(ip, b.X, base, depth+1) {
			return true
		}
		if b.Op == token.ADD {
			v = b.Y
			continue
		}
		return false
	}
	return false
}

func chainsToShallow(ip *IterPath, v, base ssa.Value, depth int) bool {
	if depth > 50 {
		return false
	}
	v = ip.Resolve(v)
	if v == base {
		return true
	}
	b, ok := v.(*ssa.BinOp)
	if !ok || (b.Op != token.ADD && b.Op != token.SUB) {
		return false
	}
	if chainsToShallow(ip, b.X, base, depth+1) {
		return true
	}
	if b.Op == token.ADD {
		return chainsToShallow(ip, b.Y, base, depth+1)
	}
	return false
}

// HeaderPhis lists the phis of the loop header.
func HeaderPhis(l *Loop) []*ssa.Phi {
	var out []*ssa.Phi
	for _, in := range l.Header.Instrs {
		if p, ok := in.(*ssa.Phi); ok {
			out = append(out, p)
		} else {
			break
		}
	}
	return out
}

// OnPath reports whether instruction in executes on the path.
func (ip *IterPath) OnPath(in ssa.Instruction) bool {
	n := len(ip.Blocks)
	if ip.End == "back" {
		n--
	}
	for _, b := range ip.Blocks[:n] {
		if b == in.Block() {
			return true
		}
	}
	return false
}

// Describe renders the path.
func (ip *IterPath) Describe(p *Prog) []string {
	var out []string
	for _, b := range ip.Blocks {
		out = append(out, describeBlock(p, b, nil))
	}
	return out
}

// EnumRegionPaths enumerates the acyclic paths from start to the first block
// satisfying stop (inclusive), with the same constant tracking as
// EnumIterPaths. Paths that return or close a cycle before reaching a stop
// block are reported with End "return" / "cycle".
func EnumRegionPaths(fn *ssa.Function, start *ssa.BasicBlock, stop func(*ssa.BasicBlock) bool, limit int) ([]*IterPath, bool) {
	var out []*IterPath
	complete := true
	var walk func(b, from *ssa.BasicBlock, env pathEnv, blocks []*ssa.BasicBlock, conds []Guard, onPath map[*ssa.BasicBlock]bool)
	walk = func(b, from *ssa.BasicBlock, env pathEnv, blocks []*ssa.BasicBlock, conds []Guard, onPath map[*ssa.BasicBlock]bool) {
		if len(out) >= limit {
			complete = false
			return
		}
		if from != nil {
			newVals := map[ssa.Value]envVal{}
			for _, in := range b.Instrs {
				phi, ok := in.(*ssa.Phi)
				if !ok {
					break
				}
				for i, pr := range b.Preds {
					if pr == from {
						newVals[phi] = env.eval(phi.Edges[i])
						break
					}
				}
			}
			for _, in := range b.Instrs {
				if v, ok := in.(ssa.Value); ok {
					delete(env, v)
				}
			}
			for k, v := range newVals {
				if v.known {
					env[k] = v
				}
			}
		}
		blocks = append(append([]*ssa.BasicBlock{}, blocks...), b)
		if from != nil && stop(b) {
			out = append(out, &IterPath{Blocks: blocks, End: "stop", Conds: conds})
			return
		}
		onPath[b] = true
		defer func() { onPath[b] = false }()
		last := b.Instrs[len(b.Instrs)-1]
		if _, ok := last.(*ssa.Return); ok {
			out = append(out, &IterPath{Blocks: blocks, End: "return", Conds: conds})
			return
		}
		type nxt struct {
			s       *ssa.BasicBlock
			hasCond bool
			outcome bool
		}
		var nexts []nxt
		if iff, ok := last.(*ssa.If); ok && b.Succs[0] != b.Succs[1] {
			dec := env.eval(iff.Cond)
			if dec.known && dec.c != nil && dec.c.Kind() == constant.Bool {
				if constant.BoolVal(dec.c) {
					nexts = []nxt{{b.Succs[0], true, true}}
				} else {
					nexts = []nxt{{b.Succs[1], true, false}}
				}
			} else {
				nexts = []nxt{{b.Succs[0], true, true}, {b.Succs[1], true, false}}
			}
		} else {
			for _, s := range b.Succs {
				nexts = append(nexts, nxt{s, false, false})
			}
		}
		for _, n := range nexts {
			c2 := conds
			e2 := env.clone()
			if n.hasCond {
				iff := last.(*ssa.If)
				c2 = append(append([]Guard{}, conds...), Guard{iff.Cond, n.outcome, b})
				c2 = append(c2, resolvedConds(blocks, iff.Cond, n.outcome, b)...)
				e2.assume(iff.Cond, n.outcome)
			}
			if onPath[n.s] || n.s == start {
				out = append(out, &IterPath{Blocks: append(append([]*ssa.BasicBlock{}, blocks...), n.s), End: "cycle", Conds: c2})
				continue
			}
			walk(n.s, b, e2, blocks, c2, onPath)
		}
	}
	walk(start, nil, pathEnv{}, nil, nil, map[*ssa.BasicBlock]bool{})
	return out, complete
}

// ResolveAt follows phis along the path like Resolve, treating the path as a plain block sequence.
func (ip *IterPath) ResolveAt(v ssa.Value) ssa.Value {
	blocks := ip.Blocks
	if ip.End == "back" && len(blocks) > 1 {
		// the header revisit that closes the iteration defines the NEXT iteration's phis; a value used
		// inside this iteration that resolves to a header phi means the value at iteration start
		blocks = blocks[:len(blocks)-1]
	}
	sub := &IterPath{Blocks: blocks, End: "partial"}
	return sub.Resolve(v)
}

// resolvedConds: a branch on a boolean phi (what `case a && b:` or `x := a && b; if x` compile to)
// says, on a given path, something about the value the phi received on that path. When that value is an
// ordinary condition (not a constant), the outcome is recorded for it as well, so that rules looking for
// `pool >= x` among the outcomes of a path find it whichever way the test is written.
func resolvedConds(blocks []*ssa.BasicBlock, cond ssa.Value, outcome bool, at *ssa.BasicBlock) []Guard {
	var out []Guard
	v := cond
	for depth := 0; depth < 6; depth++ {
		if u, ok := v.(*ssa.UnOp); ok && u.Op == token.NOT {
			v, outcome = u.X, !outcome
			continue
		}
		ph, ok := v.(*ssa.Phi)
		if !ok {
			break
		}
		r := (&IterPath{Blocks: blocks, End: "partial"}).Resolve(ph)
		if r == ssa.Value(ph) {
			break
		}
		if _, isC := r.(*ssa.Const); isC {
			break
		}
		v = r
		if _, isPhi := v.(*ssa.Phi); !isPhi {
			if u, ok := v.(*ssa.UnOp); ok && u.Op == token.NOT {
				continue
			}
			out = append(out, Guard{v, outcome, at})
			break
		}
	}
	return out
}
