package nc

import (
	"fmt"
	"go/constant"
	"go/token"
	"go/types"
	"os"
	"strings"

	"golang.org/x/tools/go/ssa"
)

func init() { register("C03", C03) }

// innovSite describes how one structural mutator uses the innovation record.
type innovSite struct {
	fn        *ssa.Function
	tm        *Termer
	kind      string // link | node
	reuse     []geneCall
	novel     []geneCall
	innLoop   *Loop
	innAlloc  ssa.Value // the local copy of the record being compared
	storeCall ssa.CallInstruction
	recCtor   *ssa.Call
	atTm      map[*ssa.BasicBlock]*Termer
	stable    map[*types.Var]bool // c03FieldStable per field, see sameRead
	sums      *Summaries
}

// tmAt: terms as seen from block b (a matched record handed out of a lookup as `rec, found` is the record
// itself where `found` is known to be true).
func (s *innovSite) tmAt(b *ssa.BasicBlock) *Termer {
	if s.atTm == nil {
		s.atTm = map[*ssa.BasicBlock]*Termer{}
	}
	if t, ok := s.atTm[b]; ok {
		return t
	}
	t := NewTermerAt(s.fn, b)
	s.atTm[b] = t
	return t
}

func isIfaceCall(v ssa.Value, method string) bool {
	c, ok := v.(*ssa.Call)
	return ok && c.Call.IsInvoke() && c.Call.Method.Name() == method
}

// recordField: t is <record copy>.<field>; returns the field name and the record base value.
func recordField(t *Term) (string, ssa.Value, bool) {
	if t == nil || t.Op != "field" {
		return "", nil, false
	}
	b := t.Args[0]
	if b.Op == "un" && b.Name == "&" {
		inner := b.Args[0]
		for (inner.Op == "un" && inner.Name == "&") || (inner.Op == "phi" && len(inner.Args) == 1) {
			inner = inner.Args[0] // a copy of a copy (the record handed out of a lookup)
		}
		if inner.Op == "elem" && inner.Args[0].Op == "call" && inner.Args[0].Name == "iface.Innovations" {
			return t.Name, b.V, true
		}
	}
	if b.Op == "elem" && b.Args[0].Op == "call" && b.Args[0].Name == "iface.Innovations" {
		return t.Name, b.V, true
	}
	return "", nil, false
}

// recordIndex: t is <record copy>.<field> (recordField); returns the SSA value of the position list[pos] the record was
// copied from, nil when the term does not show one.
func recordIndex(t *Term) ssa.Value {
	if t == nil || t.Op != "field" {
		return nil
	}
	b := t.Args[0]
	for (b.Op == "un" && b.Name == "&") || (b.Op == "phi" && len(b.Args) == 1) {
		b = b.Args[0]
	}
	if b.Op == "elem" && len(b.Args) == 2 && b.Args[0].Op == "call" && b.Args[0].Name == "iface.Innovations" && b.Args[1].V != nil {
		return stripCT(b.Args[1].V)
	}
	return nil
}

func (r *Run) innovSiteOf(name, kind string) *innovSite {
	p := r.P
	fn := p.Func(PkgG, "Genome."+name)
	s := &innovSite{fn: fn, tm: NewTermer(fn), kind: kind}
	r.Fn(FuncName(fn))
	ctor := p.Func(PkgG, "NewGeneWithTrait")
	for _, ci := range CallsTo(fn, ctor) {
		c := ci.(*ssa.Call)
		gc := geneCall{c, c.Call.Args}
		it := s.tmAt(c.Block()).Of(c.Call.Args[5])
		if isIfaceCall(c.Call.Args[5], "NextInnovationNumber") {
			s.novel = append(s.novel, gc)
		} else if _, base, ok := recordField(it); ok {
			s.reuse = append(s.reuse, gc)
			s.innAlloc = base
		} else {
			if os.Getenv("NEAT_DEBUG_TERM") != "" {
				var dump func(t *Term, ind string)
				dump = func(t *Term, ind string) {
					fmt.Printf("%s%s name=%q idx=%d V=%T\n", ind, t.Op, t.Name, t.Idx, t.V)
					for _, a := range t.Args {
						dump(a, ind+"  ")
					}
				}
				dump(it, "")
			}
			r.Bad(name+".number-origin", p.Pos(c.Pos()), "a gene is created with innovation number "+it.String()+", which is neither a freshly issued number nor the number of a matched innovation record")
		}
	}
	loops := Loops(fn)
	for _, l := range loops {
		if iff, ok := l.Header.Instrs[len(l.Header.Instrs)-1].(*ssa.If); ok {
			ct := s.tm.Of(iff.Cond)
			if ct.Op == "bin" && ct.Name == "<" && ct.Args[1].Op == "len" && ct.Args[1].Args[0].Op == "call" && ct.Args[1].Args[0].Name == "iface.Innovations" {
				s.innLoop = l
			}
		}
	}
	Instrs(fn, func(_ *ssa.BasicBlock, _ int, in ssa.Instruction) {
		if ci, ok := in.(ssa.CallInstruction); ok && ci.Common().IsInvoke() && ci.Common().Method.Name() == "StoreInnovation" {
			s.storeCall = ci
			if u, ok := ci.Common().Args[0].(*ssa.UnOp); ok && u.Op == token.MUL {
				if rc, ok := u.X.(*ssa.Call); ok {
					s.recCtor = rc
				}
			}
		}
	})
	return s
}

// C03 — an innovation number denotes one connection for the life of a population.
func C03(p *Prog, r *Run) {
	r.Explanation = "Decided per structural mutator (add-link, add-node, connect-sensors): (1) every created gene carries either a freshly issued number (one NextInnovationNumber call per gene, two distinct calls for the two genes of a split) or the number stored in the matched record (first gene InnovationNum, second InnovationNum2); new node ids are NextNodeId or the record's NewNodeId, role hidden; (2) the record is matched under the complete key (kind, in node id, out node id, recurrence flag resp. split gene's number), compared with the very values the new gene is built from, over a full scan of the list; (3) on the novel path exactly one record is stored, built from the same node ids, recurrence flag, numbers and node id just issued, and nothing is issued or stored once a record matched; (4) the counters are advanced only by atomic adds of a positive constant, written only when a population is created or read, initialised (on every successful return of spawn) at or above the start genome's last number / id - the maximum over the last gene / node and the modules - and only ever raised when reading; (5) both epoch executors forget the records on every non-error path of NextEpoch, and the accessor the mutators scan returns exactly the list that is appended to and emptied. Not decided: the induction over an unbounded run that these per-step conditions imply uniqueness."
	sums := NewSummaries(p)
	c03Core(p, r, sums)

	r.Rule("C03.4", "counters: issued by atomic adds of a positive constant; written only at population creation/reading; start at or above the start genome's last number and node id (the helpers return the maximum over the last element and the modules; spawn sets both counters from them on every successful return); reading only raises them", func() {
		r.c03Counters(sums)
	})

	r.Rule("C03.6", "what a number denotes does not depend on who reuses it: the two genes of a split are built from the same endpoints and the split link's own recurrence flag on the reuse path and on the novel path alike (obligations shared with C05.1)", func() {
		sub := NewRun(p, "C05", r.Tier)
		C05(p, sub)
		n := 0
		for _, o := range sub.Obs {
			if o.Rule == "C05.1" && strings.HasPrefix(o.Construct, "add-node.gene") {
				r.add(o.Status, "C05.1:"+o.Construct, o.Pos, o.Detail, o.Path)
				n++
			}
		}
		r.Floor("add-node gene obligations shared with C05.1", n, 2)
	})

	r.Rule("C03.8", "crossover keeps what a number denotes: the gene an averaging crossover builds for a matched pair carries the pair's innovation number and, for each of in node, out node and recurrence flag, the same field of one of the two matched parent genes - refreshed for every pair, so that nothing of an earlier pair (or the scratch gene's constructor value) is left in it (obligations shared with C04.3)", func() {
		sub := NewRun(p, "C04", r.Tier)
		C04(p, sub)
		n := 0
		for _, o := range sub.Obs {
			if o.Rule != "C04.3" {
				continue
			}
			keep := strings.HasSuffix(o.Construct, ".avg.complete") || strings.HasSuffix(o.Construct, ".avg.paths")
			for _, f := range []string{".avg.InnovationNum", ".avg.Link.InNode", ".avg.Link.OutNode", ".avg.Link.IsRecurrent"} {
				if strings.HasSuffix(o.Construct, f) || strings.Contains(o.Construct, f+"#") {
					keep = true
				}
			}
			if keep {
				r.add(o.Status, "C04.3:"+o.Construct, o.Pos, o.Detail, o.Path)
				n++
			}
		}
		r.Floor("averaged-gene obligations shared with C04.3", n, 4)
	})

	r.Rule("C03.5", "the innovation records are forgotten on every non-error path of NextEpoch, for both executors", func() {
		r.c03Reset()
	})

	r.Rule("C03.7", "the list the mutators look records up in is the list that is appended to and emptied: Innovations() returns the receiver's innovations field (or a full copy, or empty when it is empty) and nothing else decides what it returns - otherwise the end-of-generation reset does not forget what the lookup sees, or a stored record is not seen", func() {
		r.c03Reader(p.Field(PkgG, "Population", "innovations"))
	})
}

func (r *Run) c03Counters(sums *Summaries) {
	p := r.P
	pop := func(n string) *types.Var { return p.Field(PkgG, "Population", n) }
	for _, x := range [][3]string{{"NextInnovationNumber", "nextInnovNum", "AddInt64"}, {"NextNodeId", "nextNodeId", "AddInt32"}} {
		fn := p.Func(PkgG, "Population."+x[0])
		r.Fn(FuncName(fn))
		tm := NewTermer(fn)
		ok := false
		for _, b := range fn.Blocks {
			if ret, isRet := b.Instrs[len(b.Instrs)-1].(*ssa.Return); isRet {
				t := tm.Of(ret.Results[0])
				for t.Op == "conv" {
					t = t.Args[0]
				}
				if t.Op == "call" && t.Name == "atomic."+x[2] && len(t.Args) == 2 && t.Args[0].Op == "field" && t.Args[0].Obj == pop(x[1]) && t.Args[0].Args[0].Op == "recv" && t.Args[1].Op == "const" {
					if k, isK := t.Args[1].V.(*ssa.Const); isK && k.Value != nil && constant.Sign(k.Value) > 0 {
						ok = true
					}
				}
			}
		}
		r.Check(ok, x[0], p.Pos(fn.Pos()), "returns atomic add of a positive constant on "+x[1], x[0]+" does not return atomic."+x[2]+"(&p."+x[1]+", c) with c > 0: numbers can repeat or go down")
	}
	// writers
	allowed := map[string]bool{"spawn": true, "NewPopulationRandom": true, "ReadPopulation": true}
	pinned := PinnedFuncs()
	srcFuncs := p.SrcFuncs()
	for _, f := range []string{"nextInnovNum", "nextNodeId"} {
		var bad []string
		for _, fn := range srcFuncs {
			for _, st := range FieldStores(fn, pop(f)) {
				// the declaration of a new unexported helper that nothing refers to any more (all its calls were
				// expanded in place) is not a writer of its own: its stores are counted in the functions they were
				// expanded into, where this check and the spawn / ReadPopulation checks below see them
				if !allowed[fn.Name()] && !p.expandedAway(fn, pinned) {
					bad = append(bad, FuncName(fn)+" at "+p.Pos(st.Pos()))
				}
			}
			// plain (non-atomic) read-modify-write elsewhere shows up as a store as well
		}
		r.Check(len(bad) == 0, "writers:"+f, "-", "written only by spawn, NewPopulationRandom and ReadPopulation", f+" is also written by "+strings.Join(bad, "; ")+": a number can be issued twice")
	}
	// helpers: last node id / next gene number
	lastNode := p.Func(PkgG, "Genome.getLastNodeId")
	nextGene := p.Func(PkgG, "Genome.getNextGeneInnovNum")
	r.Fn(FuncName(lastNode), FuncName(nextGene))
	ltm, gtm := NewTermer(lastNode), NewTermer(nextGene)
	okL, okG := false, false
	cG := int64(0) // the constant getNextGeneInnovNum adds to the last number (the smallest over its returns)
	seenG := false
	for _, b := range lastNode.Blocks {
		if ret, ok := b.Instrs[len(b.Instrs)-1].(*ssa.Return); ok && ltm.Of(ret.Results[1]).Op == "nil" {
			okL = true
			has, hasCG := false, false
			for _, a := range ltm.Of(ret.Results[0]).Alternatives() {
				if a.Op == "field" && a.Name == "Id" && strings.HasPrefix(a.Args[0].String(), "recv.Nodes[") {
					has = true
				} else if a.Op == "field" && a.Name == "Id" && strings.Contains(a.String(), "ControlNode") {
					// the maximum over ALL modules: the control node of the element at the loop's own index
					if !strings.Contains(a.String(), "recv.ControlGenes[*].ControlNode") {
						okL = false
					}
					hasCG = true
				} else if a.Op == "loop" {
				} else {
					okL = false
				}
			}
			okL = okL && has && hasCG
			if okL {
				// ... taken in a loop that ranges over all control genes
				inLoop := false
				for _, l := range Loops(lastNode) {
					if loopRangesOver(ltm, l, "recv.ControlGenes") {
						inLoop = true
					}
				}
				okL = inLoop
			}
		}
	}
	for _, b := range nextGene.Blocks {
		if ret, ok := b.Instrs[len(b.Instrs)-1].(*ssa.Return); ok && gtm.Of(ret.Results[1]).Op == "nil" {
			// (max(last gene number, last module number)) + c, c >= 0, however the sum is spelled
			base, c, isSum := constSum(gtm.Of(ret.Results[0]))
			okG = isSum && c >= 0
			if isSum && (!seenG || c < cG) {
				cG, seenG = c, true
			}
			for _, a := range base.Alternatives() {
				if !(a.Op == "field" && a.Name == "InnovationNum") && a.Op != "loop" {
					okG = false
				}
			}
		}
	}
	// both results are maxima: a module's id / number is passed over only when it is not larger (or there is none)
	for _, x := range []struct {
		fn *ssa.Function
		tm *Termer
	}{{lastNode, ltm}, {nextGene, gtm}} {
		var probs []string
		for _, b := range x.fn.Blocks {
			if ret, ok := b.Instrs[len(b.Instrs)-1].(*ssa.Return); ok && b != x.fn.Recover && len(ret.Results) == 2 && x.tm.Of(ret.Results[1]).Op == "nil" {
				probs = append(probs, c03MaxProblems(p, x.fn, underConstSum(ret.Results[0]))...)
			}
		}
		r.Check(len(probs) == 0, x.fn.Name()+".max", p.Pos(x.fn.Pos()), "wherever the list's last value and a module's value meet, the larger one is kept; a module is passed over only when it is not larger or there is none",
			x.fn.Name()+" does not return the maximum over the last element and the modules: "+strings.Join(probs, "; ")+": the counter starts below an id / number the start genome already holds, and the first ones issued collide with it")
	}
	// the modules' numbers take part at all, and it is the last module that is read
	hasCGnum := false
	for _, b := range nextGene.Blocks {
		if ret, ok := b.Instrs[len(b.Instrs)-1].(*ssa.Return); ok && gtm.Of(ret.Results[1]).Op == "nil" {
			base, _, _ := constSum(gtm.Of(ret.Results[0]))
			for _, a := range base.Alternatives() {
				if a.Op == "field" && a.Name == "InnovationNum" && strings.HasPrefix(a.Args[0].String(), "recv.ControlGenes[") {
					hasCGnum = true
				}
			}
		}
	}
	okG = okG && hasCGnum
	r.Check(okL, "getLastNodeId", p.Pos(lastNode.Pos()), "returns the id of the last node (or a larger module node id)", "getLastNodeId does not return the last node's id / the largest module node id")
	r.Check(okG, "getNextGeneInnovNum", p.Pos(nextGene.Pos()), "returns the last gene's number (or a larger module number) plus a non-negative constant", "getNextGeneInnovNum does not return the last gene's innovation number (or the last module's, when larger) plus a non-negative constant")
	// the last node / gene of the list is what is read
	lastIdx := func(tm *Termer, fn *ssa.Function, list string) bool {
		ok := false
		Instrs(fn, func(_ *ssa.BasicBlock, _ int, in ssa.Instruction) {
			if ia, isIA := in.(*ssa.IndexAddr); isIA {
				lt, it := tm.Of(ia.X), tm.Of(ia.Index)
				if lt.String() == "recv."+list && it.Op == "bin" && it.Name == "-" && it.Args[0].String() == "len(recv."+list+")" && it.Args[1].String() == "1" {
					ok = true
				}
			}
		})
		return ok
	}
	// (the modules: the last one, or a scan over all of them)
	allCG := false
	for _, l := range Loops(nextGene) {
		if loopRangesOver(gtm, l, "recv.ControlGenes") {
			allCG = true
		}
	}
	r.Check(lastIdx(ltm, lastNode, "Nodes") && lastIdx(gtm, nextGene, "Genes") && (allCG || lastIdx(gtm, nextGene, "ControlGenes")), "last-element", p.Pos(lastNode.Pos()), "both helpers read the last element of the ordered list", "a helper does not read the last element of the ordered node / gene list")
	// spawn
	spawn := p.Func(PkgG, "Population.spawn")
	r.Fn(FuncName(spawn))
	stm := NewTermer(spawn)
	offset := func(t *Term, callee string) (int64, bool) {
		for t.Op == "conv" {
			t = t.Args[0]
		}
		t, off, isSum := constSum(t)
		if !isSum {
			return 0, false
		}
		if t.Op == "extract" && t.Idx == 0 && t.Args[0].Op == "call" && t.Args[0].Name == "Genome."+callee && isParamIdx(t.Args[0].Args[0], 1) {
			return off, true
		}
		return 0, false
	}
	// final value of each counter in spawn = last store on the path; take all stores and compose
	for _, x := range [][2]string{{"nextNodeId", "getLastNodeId"}, {"nextInnovNum", "getNextGeneInnovNum"}} {
		sts := FieldStores(spawn, pop(x[0]))
		total, ok := int64(0), len(sts) > 0
		nBase := 0
		for _, st := range sts {
			t := stm.Of(st.Val)
			if off, isBase := offset(t, x[1]); isBase {
				total += off
				nBase++
				continue
			}
			// p.counter -= k
			if rest, v, isSum := constSum(t); isSum && rest.Op == "field" && rest.Obj == pop(x[0]) {
				total += v
				continue
			}
			ok = false
		}
		// node ids: counter >= last id  (issue = counter+1 > last); numbers: helper returns last+cG, counter >= last means offset >= -cG
		min := int64(0)
		if x[0] == "nextInnovNum" {
			// the helper returns last + cG: the counter stays at or above the last number while cG + total >= 0
			min = -cG
		}
		// (exactly one store takes the helper's result; adjusting a counter that was never set from it proves nothing)
		ok = ok && nBase == 1
		r.Check(ok && total >= min, "spawn."+x[0], p.Pos(spawn.Pos()), fmt.Sprintf("%s = %s(start genome) %+d", x[0], x[1], total),
			fmt.Sprintf("spawn initialises %s to %s(start genome) %+d (decidable=%v): the first number issued could collide with one the start genome already uses", x[0], x[1], total, ok))
	}
	// ... and on every successful return of spawn: a path that completes without the store leaves the counter at zero
	for _, x := range [][2]string{{"nextNodeId", "getLastNodeId"}, {"nextInnovNum", "getNextGeneInnovNum"}} {
		var base *ssa.Store
		for _, st := range FieldStores(spawn, pop(x[0])) {
			if _, isBase := offset(stm.Of(st.Val), x[1]); isBase {
				base = st
			}
		}
		if base == nil {
			continue // reported above
		}
		w := FindPath(p, PathQuery{Fn: spawn, Target: func(in ssa.Instruction) bool {
			return IsReturn(in) && in.Block() != spawn.Recover && !c03IsErrReturn(in)
		},
			Avoid: func(in ssa.Instruction) bool { return in == ssa.Instruction(base) }})
		r.Check(w == nil, "spawn."+x[0]+".always", p.Pos(base.Pos()), "every return without an error has set "+x[0]+" from the start genome",
			"spawn can return without an error and without having set "+x[0]+" from "+x[1]+"(start genome): the counter stays at zero and the numbers / ids issued collide with the start genome's", w...)
	}
	// the population of random genomes
	r.c03RandomCounters()
	// ReadPopulation only raises, each counter under its own test
	rp := p.Func(PkgG, "ReadPopulation")
	r.Fn(FuncName(rp))
	rtm := NewTermer(rp)
	for _, x := range [][2]string{{"nextNodeId", "getLastNodeId"}, {"nextInnovNum", "getNextGeneInnovNum"}} {
		sts := FieldStores(rp, pop(x[0]))
		if len(sts) == 0 {
			r.Bad("ReadPopulation."+x[0], p.Pos(rp.Pos()), "ReadPopulation never sets "+x[0]+": numbers issued after reading a population collide with the ones read")
			continue
		}
		for _, st := range sts {
			vt := rtm.Of(st.Val)
			// the helper call the value derives from
			var call *ssa.Call
			vt.Walk(func(t *Term) bool {
				if t.Op == "call" && t.Name == "Genome."+x[1] {
					call, _ = t.V.(*ssa.Call)
				}
				return true
			})
			if call == nil {
				r.Bad("ReadPopulation."+x[0], p.Pos(st.Pos()), x[0]+" is set to "+vt.String()+", not derived from "+x[1]+" of the genome just read")
				continue
			}
			var raising bool
			var compared ssa.Value
			var extra []string
			for _, g := range Guards(st.Block()) {
				if !(call.Block() == g.At || call.Block().Dominates(g.At)) {
					continue
				}
				gt := rtm.Of(g.Cond)
				mentions := func(v ssa.Value) bool {
					hit := false
					rtm.Of(v).Walk(func(t *Term) bool {
						if t.V == ssa.Value(call) {
							hit = true
						}
						return !hit
					})
					return hit
				}
				isCounter := func(v ssa.Value) bool {
					t := rtm.Of(v)
					return t.Op == "field" && t.Obj == pop(x[0])
				}
				// the branch outcome as a comparison that holds, whatever its spelling (operands swapped, negated complement)
				if cx, cy, op, isCmp := CmpFact(g.Cond, g.True); isCmp {
					// err == nil of the same call
					if k, isK := cy.(*ssa.Const); isK && k.Value == nil && op == token.EQL {
						if xt := rtm.Of(cx); xt.Op == "extract" && xt.Args[0].V == ssa.Value(call) {
							continue
						}
					}
					// counter < value / counter <= value (value > counter / value >= counter)
					if (isCounter(cx) && (op == token.LSS || op == token.LEQ) && mentions(cy)) ||
						(isCounter(cy) && (op == token.GTR || op == token.GEQ) && mentions(cx)) {
						raising = true
						compared = cy
						if isCounter(cy) {
							compared = cx
						}
						continue
					}
				}
				extra = append(extra, gt.String())
			}
			r.Check(raising && len(extra) == 0, "ReadPopulation."+x[0], p.Pos(st.Pos()), x[0]+" is raised whenever a genome read exceeds it",
				fmt.Sprintf("%s is updated under %v (its own `counter < value` test present=%v): it is not raised for every genome whose last id/number exceeds it", x[0], extra, raising))
			// neither the value compared with nor the value stored falls short of the genome's last id / number: the helper
			// returns last (+cG for numbers); the counter is left alone only when it is >= the compared value and is set to
			// the stored value otherwise, so both must be the helper's result plus a constant k with last + k' >= last
			slack := int64(0)
			if x[0] == "nextInnovNum" {
				slack = cG
			}
			short := func(v ssa.Value) (string, bool) {
				if v == nil {
					return "?", true
				}
				rest, k, isSum := constSum(rtm.Of(v))
				for rest != nil && rest.Op == "conv" {
					rest = rest.Args[0]
				}
				if !isSum || rest == nil || rest.Op != "extract" || rest.Idx != 0 || rest.Args[0].V != ssa.Value(call) {
					return rtm.Of(v).String(), true
				}
				return fmt.Sprintf("%s(genome) %+d", x[1], k), k+slack < 0
			}
			if raising {
				cs, cShort := short(compared)
				ss, sShort := short(st.Val)
				r.Check(!cShort && !sShort, "ReadPopulation."+x[0]+".value", p.Pos(st.Pos()), "compared with "+cs+", set to "+ss+": never below the genome's last",
					fmt.Sprintf("%s is compared with %s and set to %s: after reading, the counter can be below the last id / number of a genome read, and the next one issued collides with it", x[0], cs, ss))
			}
		}
	}
}

// c03Reset: must-reset analysis over the call trees of both NextEpoch methods.
func (r *Run) c03Reset() {
	p := r.P
	innov := p.Field(PkgG, "Population", "innovations")
	isResetStore := func(in ssa.Instruction) bool {
		st, ok := in.(*ssa.Store)
		if !ok || StoredField(st) != innov {
			return false
		}
		switch v := st.Val.(type) {
		case *ssa.MakeSlice:
			k, ok := v.Len.(*ssa.Const)
			return ok && k.Value != nil && k.Value.ExactString() == "0"
		case *ssa.Const:
			return v.Value == nil
		case *ssa.Slice:
			// list[:0] - no element is kept, whatever is sliced
			if k, isK := v.High.(*ssa.Const); isK && k.Value != nil && k.Value.ExactString() == "0" {
				return true
			}
			// []Innovation{} (also what make([]Innovation, 0) with a constant length may be lowered to): a slice of a
			// fresh array of length zero - an array with elements would leave zero-valued records behind
			if al, isAlloc := v.X.(*ssa.Alloc); isAlloc {
				if pt, isPtr := al.Type().Underlying().(*types.Pointer); isPtr {
					if at, isArr := pt.Elem().Underlying().(*types.Array); isArr {
						return at.Len() == 0
					}
				}
			}
		}
		return false
	}
	must := map[*ssa.Function]bool{}
	// candidates: the functions on the epoch path
	re := p.Reachable([]*ssa.Function{p.Func(PkgG, "SequentialPopulationEpochExecutor.NextEpoch"), p.Func(PkgG, "ParallelPopulationEpochExecutor.NextEpoch")}, nil)
	fns := re.RepoFuncs()
	isErrReturn := c03IsErrReturn
	for iter := 0; iter < 6; iter++ {
		changed := false
		for _, fn := range fns {
			if must[fn] {
				continue
			}
			path := FindPath(p, PathQuery{Fn: fn, FlagBlind: true,
				Target:    func(in ssa.Instruction) bool { return IsReturn(in) && !isErrReturn(in) },
				AvoidEdge: c03ErrEdge,
				Avoid: func(in ssa.Instruction) bool {
					if isResetStore(in) {
						return true
					}
					if ci, ok := in.(ssa.CallInstruction); ok {
						if c := ci.Common().StaticCallee(); c != nil && must[c] {
							return true
						}
					}
					return false
				}})
			if path == nil {
				must[fn] = true
				changed = true
			}
		}
		if !changed {
			break
		}
	}
	for _, n := range []string{"SequentialPopulationEpochExecutor.NextEpoch", "ParallelPopulationEpochExecutor.NextEpoch"} {
		fn := p.Func(PkgG, n)
		r.Fn(FuncName(fn))
		var witness []string
		if !must[fn] {
			witness = FindPath(p, PathQuery{Fn: fn, FlagBlind: true,
				Target:    func(in ssa.Instruction) bool { return IsReturn(in) && !isErrReturn(in) },
				AvoidEdge: c03ErrEdge,
				Avoid: func(in ssa.Instruction) bool {
					if isResetStore(in) {
						return true
					}
					if ci, ok := in.(ssa.CallInstruction); ok {
						if c := ci.Common().StaticCallee(); c != nil && must[c] {
							return true
						}
					}
					return false
				}})
		}
		r.Check(must[fn], n+".forgets", p.Pos(fn.Pos()), "every non-error path stores an empty innovation list (directly or in a callee that always does)",
			n+" can complete an epoch without emptying the innovation list: records of one generation are matched by mutations of the next, so numbers are no longer larger than any held before and stale node ids are reused", witness...)
	}
	// nobody else shrinks or rewrites the list apart from StoreInnovation's append
	var others []string
	for _, fn := range p.SrcFuncs() {
		for _, st := range FieldStores(fn, innov) {
			if isResetStore(st) {
				continue
			}
			if base, _, ok := appendCall(st.Val); ok {
				if t := NewTermer(fn).Of(base); t.Op == "field" && t.Obj == innov {
					continue
				}
			}
			others = append(others, FuncName(fn)+" at "+p.Pos(st.Pos()))
		}
	}
	r.Check(len(others) == 0, "innovations.writers", "-", "the list is only appended to and emptied", "the innovation list is also rewritten by "+strings.Join(others, "; "))
	// StoreInnovation records every innovation handed to it: the append of its argument is on every path
	si := p.Func(PkgG, "Population.StoreInnovation")
	r.Fn(FuncName(si))
	tsi := NewTermer(si)
	var rec ssa.Instruction
	for _, st := range FieldStores(si, innov) {
		if base, elems, ok := appendCall(st.Val); ok && len(elems) == 1 {
			if t := tsi.Of(base); t.Op == "field" && t.Obj == innov && (isParamIdx(tsi.Of(elems[0]), 1) || isSpilledParam(elems[0], si.Params[1])) {
				rec = st
			}
		}
	}
	if rec == nil {
		r.Bad("StoreInnovation.records", p.Pos(si.Pos()), "StoreInnovation does not append its argument to the innovation list")
	} else {
		w := FindPath(p, PathQuery{Fn: si, FlagBlind: true, Target: IsReturn, Avoid: func(in ssa.Instruction) bool { return in == rec }})
		r.Check(w == nil, "StoreInnovation.records", p.Pos(rec.Pos()), "every call appends the record (no path returns without it)",
			"StoreInnovation can return without recording the innovation: the caller has already issued numbers for it, so a later identical innovation of the same generation finds no record and receives different numbers (and node id)", w...)
	}
}

// c03Core: number provenance, reuse-key completeness and novel records of the three structural mutators
// (also evaluated by C16: the reproduction goroutines share this code and the guarantee must hold for every interleaving,
// so a record may only hold numbers that were actually issued to the genes, never numbers derived by arithmetic).
func c03Core(p *Prog, r *Run, sums *Summaries) {
	sites := []*innovSite{}
	r.Rule("C03.1", "number provenance: fresh numbers and node ids come from the issuing calls, reused ones from the matched record (gene 1 <- InnovationNum, gene 2 <- InnovationNum2, node <- NewNodeId)", func() {
		for _, x := range [][2]string{{"mutateAddLink", "link"}, {"mutateConnectSensors", "link"}, {"mutateAddNode", "node"}} {
			s := r.innovSiteOf(x[0], x[1])
			s.sums = sums
			sites = append(sites, s)
			wantN := 1
			if s.kind == "node" {
				wantN = 2
			}
			r.Check(len(s.reuse) == wantN && len(s.novel) == wantN, x[0]+".paths", p.Pos(s.fn.Pos()), fmt.Sprintf("%d gene(s) on the reuse path, %d on the novel path", len(s.reuse), len(s.novel)),
				fmt.Sprintf("%s creates %d genes from a matched record and %d with fresh numbers; expected %d and %d", x[0], len(s.reuse), len(s.novel), wantN, wantN))
			if s.kind == "node" && len(s.reuse) == 2 && len(s.novel) == 2 {
				// order genes by their role: gene1 ends in the new node (arg 3 is a NewNNode call), gene2 starts there
				role := func(gc geneCall) int {
					if c, ok := gc.args[3].(*ssa.Call); ok && c.Call.StaticCallee() != nil && c.Call.StaticCallee().Name() == "NewNNode" {
						return 1
					}
					return 2
				}
				f1, f2 := "", ""
				for _, gc := range s.reuse {
					f, _, _ := recordField(s.tmAt(gc.call.Block()).Of(gc.args[5]))
					if role(gc) == 1 {
						f1 = f
					} else {
						f2 = f
					}
				}
				r.Check(f1 == "InnovationNum" && f2 == "InnovationNum2", x[0]+".reuse.numbers", p.Pos(s.fn.Pos()), "a->n takes InnovationNum, n->b takes InnovationNum2",
					fmt.Sprintf("on the reuse path the gene into the new node takes record field %q and the gene out of it %q; expected InnovationNum and InnovationNum2", f1, f2))
				r.Check(s.novel[0].args[5] != s.novel[1].args[5], x[0]+".novel.numbers", p.Pos(s.fn.Pos()), "two distinct numbers are issued for the two genes", "both genes of a novel split carry the same freshly issued number")
				// node ids
				for _, gc := range append(append([]geneCall{}, s.reuse...), s.novel...) {
					if role(gc) != 1 {
						continue
					}
					nn := gc.args[3].(*ssa.Call)
					idt := s.tmAt(nn.Block()).Of(nn.Call.Args[0])
					f, _, isRec := recordField(idt)
					okId := isIfaceCall(nn.Call.Args[0], "NextNodeId") || (isRec && f == "NewNodeId")
					isReuse := false
					for _, q := range s.reuse {
						if q.call == gc.call {
							isReuse = true
						}
					}
					if isReuse {
						okId = isRec && f == "NewNodeId"
					} else {
						okId = isIfaceCall(nn.Call.Args[0], "NextNodeId")
					}
					r.Check(okId, x[0]+".node-id", p.Pos(nn.Pos()), "node id: fresh on the novel path, the record's NewNodeId on the reuse path", "the new node's id is "+idt.String())
				}
			} else if s.kind == "link" {
				for _, gc := range s.reuse {
					f, _, _ := recordField(s.tmAt(gc.call.Block()).Of(gc.args[5]))
					r.Check(f == "InnovationNum", x[0]+".reuse.number", p.Pos(gc.call.Pos()), "the reused number is the record's InnovationNum", "the reused gene takes record field "+f)
				}
			}
		}
		// NextNNode ids land in NNode.Id; NewNNode(id, role)
		nn := p.Func(PkgN, "NewNNode")
		sm := sums.Ctor(nn)
		idT := sm.Fields[p.Field(PkgN, "NNode", "Id")]
		ntT := sm.Fields[p.Field(PkgN, "NNode", "NeuronType")]
		r.Check(sm.Why == "" && idT != nil && isParamIdx(idT, 0) && ntT != nil && isParamIdx(ntT, 1), "NewNNode", p.Pos(nn.Pos()), "NewNNode(id, role) stores both", fmt.Sprintf("NewNNode: Id=%v NeuronType=%v %s", idT, ntT, sm.Why))
	})

	r.Rule("C03.2", "reuse-guard completeness and exactness: a record is matched only under kind, in node id, out node id and recurrence flag (links) resp. the split gene's number (nodes), compared with the values the new gene is built from, scanning the whole list; and under nothing that the record stored for the same innovation would fail (identical innovations of one generation share their numbers)", func() {
		for _, s := range sites {
			name := s.fn.Name()
			if s.innLoop == nil || len(s.reuse) == 0 {
				r.Bad(name+".scan", p.Pos(s.fn.Pos()), "no scan of the recorded innovations precedes the creation of the gene")
				continue
			}
			gc := s.reuse[0]
			// the outcomes known where the gene is created; when the match is handed out of the scan as a flag
			// (`rec, found := lookup(...)`; `if found {…}`), what held on the edges that set the flag holds too
			conds := loopGuardsOnly(effGuards(gc.call.Block()), s.innLoop)
			got := map[string]bool{}
			var inV, outV, recV ssa.Value
			if s.kind == "link" {
				inV, outV, recV = gc.args[2], gc.args[3], gc.args[4]
			} else {
				for _, q := range s.reuse {
					if _, ok := q.args[3].(*ssa.Call); ok {
						inV = q.args[2]
					} else {
						outV = q.args[3]
					}
				}
			}
			wantType := "newLinkInnType"
			if s.kind == "node" {
				wantType = "newNodeInnType"
			}
			wantTypeVal := p.Const(PkgG, wantType).Val().ExactString()
			var extra []string
			type recEq struct {
				f string
				o *Term
				g Guard
			}
			var eqs []recEq
			// which element of the list the reuse path reads: every number (and the node id) it takes comes from list[pos] with
			// one and the same position value; a comparison made on an element at another position (`list[0]`, `list[i-1]`)
			// says nothing about the record the gene is built from
			var genePos ssa.Value
			onePos := true
			notePos := func(t *Term) {
				pos := recordIndex(t)
				if pos == nil || (genePos != nil && genePos != pos) {
					onePos = false
				}
				genePos = pos
			}
			for _, q := range s.reuse {
				notePos(s.tmAt(q.call.Block()).Of(q.args[5]))
				if nn, isCall := q.args[3].(*ssa.Call); s.kind == "node" && isCall && nn.Call.StaticCallee() != nil && nn.Call.StaticCallee().Name() == "NewNNode" {
					notePos(s.tmAt(nn.Block()).Of(nn.Call.Args[0]))
				}
			}
			r.Check(onePos, name+".reuse.one-record", p.Pos(gc.call.Pos()), "the numbers (and node id) of the reuse path are read from one element of the scanned list",
				name+": the genes of the reuse path take their numbers / node id from different elements of the innovation list, or from a position that cannot be followed")
			// ... and when the scan hands out the position of the matched record (`idx = i; break` ... `if idx >= 0 { list[idx] }`),
			// what held for list[i] on the way out holds for the record the gene is built from (see indexMatch)
			ixConds, ixRecs, ixExits := s.indexMatch(p, gc.call.Block())
			type keyCond struct {
				g    Guard
				recs map[ssa.Value]bool // nil: the record copy the gene reads (any copy of an element of the scanned list)
			}
			var kcs []keyCond
			for _, g := range conds {
				kcs = append(kcs, keyCond{g, nil})
			}
			for _, g := range loopGuardsOnly(ixConds, s.innLoop) {
				kcs = append(kcs, keyCond{g, ixRecs})
			}
			for _, kc := range kcs {
				g := kc.g
				if g.At == s.innLoop.Header {
					continue
				}
				// boolean record field tested directly
				if s.kind == "link" {
					bases := []ssa.Value{s.innAlloc}
					if kc.recs != nil {
						bases = bases[:0]
						for b := range kc.recs {
							bases = append(bases, b)
						}
					}
					for _, want := range []bool{true, false} {
						hit := false
						for _, b := range bases {
							if boolFieldCond(s.tm, g, b, want, "IsRecurrent") {
								hit = true
							}
						}
						if hit {
							if k, ok := recV.(*ssa.Const); ok && k.Value != nil && constant.BoolVal(k.Value) == want {
								got["IsRecurrent"] = true
							}
						}
					}
				}
				a, b, ok := eqCond(s.tm, g)
				if !ok {
					continue
				}
				for _, pr := range [][2]*Term{{a, b}, {b, a}} {
					f, rb, isRec := recordField(pr[0])
					if !isRec || (kc.recs != nil && !kc.recs[rb]) {
						continue
					}
					if kc.recs == nil && (!onePos || recordIndex(pr[0]) != genePos) {
						continue // a comparison on another element of the list
					}
					o := pr[1]
					eqs = append(eqs, recEq{f, o, g})
					switch f {
					case "innovationType":
						if o.Op == "const" && o.Name == wantTypeVal {
							got[f] = true
						}
					case "InNodeId":
						if inV != nil && s.chainOn(p, o, inV, "Id") {
							got[f] = true
						}
					case "OutNodeId":
						if outV != nil && s.chainOn(p, o, outV, "Id") {
							got[f] = true
						}
					case "IsRecurrent":
						if recV != nil && (o.V == recV || fieldChainOnWeb(o, recV)) {
							got[f] = true
						} else if k, isK := recV.(*ssa.Const); isK && o.Op == "const" && k.Value != nil && o.Name == k.Value.ExactString() {
							got[f] = true
						}
					case "OldInnovNum":
						// the split gene: the base of the in-node value
						if inV != nil {
							it := s.tm.Of(inV)
							if b0, path := it.FieldPath(); len(path) == 2 && path[0] == "Link" && b0 != nil && fieldChainOnWeb(o, b0.V, "InnovationNum") {
								got[f] = true
							}
						}
					default:
						extra = append(extra, f)
					}
				}
			}
			need := []string{"innovationType", "InNodeId", "OutNodeId", "IsRecurrent"}
			if s.kind == "node" {
				need = []string{"innovationType", "InNodeId", "OutNodeId", "OldInnovNum"}
			}
			var missing []string
			for _, f := range need {
				if !got[f] {
					missing = append(missing, f)
				}
			}
			r.Check(len(missing) == 0, name+".reuse-key", p.Pos(gc.call.Pos()), "matched under "+strings.Join(need, ", "),
				name+": a recorded innovation is reused without comparing "+strings.Join(missing, ", ")+" with the values of the gene being created: two different connections can receive the same innovation number")
			// exactness: the guard demands nothing that the record stored for the SAME innovation would fail. A key
			// field is compared with the value the novel path records (C03.3); any further record field the guard
			// compares must hold, in the record the novel path of this mutator builds, the very value it is compared
			// with - otherwise an identical innovation of the same generation is not recognised and gets a second number.
			if s.recCtor != nil && s.recCtor.Call.StaticCallee() != nil {
				if sm := sums.Ctor(s.recCtor.Call.StaticCallee()); sm.Why == "" {
					inNeed := map[string]bool{}
					for _, f := range need {
						inNeed[f] = true
					}
					var bad []string
					for _, e := range eqs {
						if inNeed[e.f] {
							continue
						}
						var stored *Term
						var fv *types.Var
						for _, cand := range p.Fields(PkgG, "Innovation") {
							if cand.Name() == e.f {
								fv = cand
							}
						}
						if fv != nil {
							if t := sm.Fields[fv]; t != nil {
								stored = t
								if t.Op == "param" && t.Idx < len(s.recCtor.Call.Args) {
									stored = s.tm.Of(s.recCtor.Call.Args[t.Idx])
								}
							}
						}
						same := false
						switch {
						case stored == nil:
							same = e.o.Op == "const" && (e.o.Name == "false" || e.o.Name == "0" || e.o.Name == "nil")
						case stored.Op == "const" && e.o.Op == "const":
							same = stored.Name == e.o.Name
						default:
							same = stored.String() == e.o.String()
						}
						if !same {
							st := "its zero value (the constructor never sets it)"
							if stored != nil {
								st = stored.String()
							}
							bad = append(bad, fmt.Sprintf("%s == %s, but the record stored for a novel innovation holds %s", e.f, e.o, st))
						}
					}
					r.Check(len(bad) == 0, name+".reuse-key.exact", p.Pos(gc.call.Pos()), "every further record field the guard compares holds, in the record stored for the same innovation, the value it is compared with",
						name+": the reuse guard also demands "+strings.Join(bad, "; ")+": the same innovation arising again in the same generation is not matched and receives a second number / node id")
				}
			}
			// full scan: the loop is left only by exhaustion or through the block that creates the gene
			okExit := true
			for b := range s.innLoop.Blocks {
				for _, sx := range b.Succs {
					if s.innLoop.Blocks[sx] || b == s.innLoop.Header {
						continue
					}
					if !(sx == gc.call.Block() || b == gc.call.Block() || gc.call.Block().Dominates(b)) {
						// leaving with the match flag raised is leaving "through the match"
						viaFlag := false
						for _, g := range Guards(gc.call.Block()) {
							if fl, w, okF := boolFlagOf(g.Cond); okF && g.True == w {
								for _, fs := range flagSites(fl, true) {
									if (fs.From == b && fs.To == sx) || (s.innLoop.Blocks[fs.From] && !s.innLoop.Blocks[fs.To] && fs.From == b) || (fs.From == sx && len(sx.Preds) == 1) {
										viaFlag = true
									}
								}
							}
						}
						// ... and so is leaving with the matched record handed out as a pointer that is nil while nothing matched
						// (`var known *Innovation` ... `m := inn; known = &m; break` ... `if known != nil {…}`)
						if s.leavesWithRecord(gc.call.Block(), b, sx) {
							viaFlag = true
						}
						// leaving with the position of the matched record handed out is leaving through the match too
						for _, e := range ixExits {
							if e[0] == b && e[1] == sx {
								viaFlag = true
							}
						}
						if !viaFlag {
							okExit = false
						}
					}
				}
			}
			r.Check(okExit, name+".full-scan", p.Pos(firstBlockPos(s.innLoop.Header)), "the list is scanned until a match or to the end", name+": the scan of the recorded innovations can stop before a matching record is reached: the same innovation gets a second number")
			// the list scanned is the observer's current list
		}
		r.Floor("structural mutators", len(sites), 3)
	})

	r.Rule("C03.3", "novel innovations are recorded: exactly one StoreInnovation on the novel path whose record is built from the same node ids, recurrence flag, numbers and node id that were just used; numbers and node ids are issued and records stored only for an innovation that matched no record (after a gene was built from a matched record the same attempt issues and stores nothing)", func() {
		for _, s := range sites {
			name := s.fn.Name()
			if s.storeCall == nil || s.recCtor == nil || len(s.novel) == 0 {
				r.Bad(name+".record", p.Pos(s.fn.Pos()), "the novel path does not store a record built by an Innovation constructor")
				continue
			}
			n := 0
			Instrs(s.fn, func(_ *ssa.BasicBlock, _ int, in ssa.Instruction) {
				if ci, ok := in.(ssa.CallInstruction); ok && ci.Common().IsInvoke() && ci.Common().Method.Name() == "StoreInnovation" {
					n++
				}
			})
			sameBlock := s.storeCall.Block() == s.novel[0].call.Block() || s.novel[0].call.Block().Dominates(s.storeCall.Block())
			lps := Loops(s.fn)
			r.Check(n == 1 && sameBlock && InnermostLoop(lps, s.storeCall.Block()) == InnermostLoop(lps, s.novel[0].call.Block()), name+".record.once", p.Pos(s.storeCall.Pos()), "one record per novel innovation, on the novel path",
				fmt.Sprintf("%s stores %d records, or not on the path that issues the new number", name, n))
			// ... and only for an innovation that matched no record: once a gene has been built from a matched record,
			// the same attempt issues no number, no node id and stores no record (it would give one innovation of this
			// generation two numbers). The search follows the match flag (a phi of constants) or the gene variable's
			// nil-ness, whichever the code branches on, and stays within one attempt of an enclosing retry loop.
			issues := func(in ssa.Instruction) bool {
				ci, ok := in.(ssa.CallInstruction)
				if !ok || !ci.Common().IsInvoke() {
					return false
				}
				switch ci.Common().Method.Name() {
				case "NextInnovationNumber", "NextNodeId", "StoreInnovation":
					return true
				}
				return false
			}
			outer := OuterLoops(lps, s.storeCall.Block())
			nextAttempt := func(from, to *ssa.BasicBlock) bool {
				for _, l := range outer {
					if l.Header == to && l.Blocks[from] {
						return true
					}
				}
				return false
			}
			var fresh []ssa.Value
			if sums.Ctor(p.Func(PkgG, "NewGeneWithTrait")).Fresh {
				for _, q := range s.reuse {
					fresh = append(fresh, q.call)
				}
			}
			for i, q := range s.reuse {
				w := c03PathAfter(p, s.fn, q.call, Guards(q.call.Block()), fresh, issues, nextAttempt)
				if w == nil {
					// the match may be established before the gene is built (the scan hands out the record's position):
					// from there on nothing is issued or stored either
					w = s.c03MatchExitIssues(p, q.call.Block(), fresh, issues, nextAttempt)
				}
				if w == nil {
					// ... or as a pointer to (a copy of) the matched record
					w = s.c03RecordExitIssues(p, q.call.Block(), fresh, issues, nextAttempt)
				}
				cn := name + ".novel.unmatched-only"
				if i > 0 {
					cn += fmt.Sprintf("#%d", i+1)
				}
				r.Check(w == nil, cn, p.Pos(q.call.Pos()), "after a gene was built from a matched record the attempt issues no number or node id and stores no record",
					name+": after a gene was built from a matched record the same attempt can still issue a fresh number / node id or store a record: one innovation of a generation receives two numbers", w...)
			}
			callee := s.recCtor.Call.StaticCallee()
			if callee == nil {
				r.Undecided(name+".record.ctor", p.Pos(s.recCtor.Pos()), "dynamic record constructor")
				continue
			}
			r.Fn(FuncName(callee))
			sm := sums.Ctor(callee)
			if sm.Why != "" {
				r.Undecided(name+".record.ctor", p.Pos(callee.Pos()), sm.Why)
				continue
			}
			val := func(field string) (ssa.Value, *Term) {
				t := sm.Fields[p.Field(PkgG, "Innovation", field)]
				if t == nil {
					return nil, nil
				}
				if t.Op == "param" && t.Idx < len(s.recCtor.Call.Args) {
					return s.recCtor.Call.Args[t.Idx], s.tm.Of(s.recCtor.Call.Args[t.Idx])
				}
				return nil, t
			}
			var in1, out1, rec ssa.Value
			var g1, g2 geneCall
			if s.kind == "link" {
				g1 = s.novel[0]
				in1, out1, rec = g1.args[2], g1.args[3], g1.args[4]
			} else {
				for _, q := range s.novel {
					if _, ok := q.args[3].(*ssa.Call); ok {
						g1 = q
					} else {
						g2 = q
					}
				}
				if g1.call == nil || g2.call == nil {
					r.Undecided(name+".record.genes", p.Pos(s.fn.Pos()), "cannot tell the two genes of the split apart")
					continue
				}
				in1, out1 = g1.args[2], g2.args[3]
			}
			_, tt := val("innovationType")
			wantType := "newLinkInnType"
			if s.kind == "node" {
				wantType = "newNodeInnType"
			}
			r.Check(tt != nil && tt.Op == "const" && tt.Name == p.Const(PkgG, wantType).Val().ExactString(), name+".record.kind", p.Pos(s.recCtor.Pos()), "record kind "+wantType, fmt.Sprintf("the record's kind is %v, expected %s", tt, wantType))
			_, it := val("InNodeId")
			_, ot := val("OutNodeId")
			r.Check(it != nil && s.chainOn(p, it, in1, "Id") && ot != nil && s.chainOn(p, ot, out1, "Id"), name+".record.nodes", p.Pos(s.recCtor.Pos()), "record holds the ids of the nodes the gene joins",
				fmt.Sprintf("the stored record has InNodeId=%v OutNodeId=%v, which are not the ids of the in and out node of the created gene", it, ot))
			nv, _ := val("InnovationNum")
			r.Check(nv != nil && nv == g1.args[5], name+".record.number", p.Pos(s.recCtor.Pos()), "record holds the number given to the gene", "the stored record does not hold the innovation number that the new gene received")
			if s.kind == "link" {
				rv, rt := val("IsRecurrent")
				okRec := rv != nil && rv == rec
				if rv == nil {
					// field not set by the constructor: the record says non-recurrent
					k, isK := rec.(*ssa.Const)
					okRec = rt == nil && isK && k.Value != nil && !constant.BoolVal(k.Value)
					if rt != nil && rt.Op == "const" && isK && k.Value != nil {
						okRec = rt.Name == k.Value.ExactString()
					}
				}
				r.Check(okRec, name+".record.recurrence", p.Pos(s.recCtor.Pos()), "record holds the recurrence flag of the gene", "the stored record's IsRecurrent is not the recurrence flag the new gene was created with: a later lookup for the other kind of link between the same nodes matches it and reuses the number")
			} else {
				n2, _ := val("InnovationNum2")
				r.Check(n2 != nil && n2 == g2.args[5], name+".record.number2", p.Pos(s.recCtor.Pos()), "record holds the second gene's number", "the stored record's InnovationNum2 is not the number the second gene received")
				_, idt := val("NewNodeId")
				node := g1.args[3]
				okNode := idt != nil && (fieldChainOn(idt, node, "Id") || (len(node.(*ssa.Call).Call.Args) > 0 && idt.V == node.(*ssa.Call).Call.Args[0]))
				r.Check(okNode, name+".record.node-id", p.Pos(s.recCtor.Pos()), "record holds the new node's id", fmt.Sprintf("the stored record's NewNodeId is %v, not the id of the node just created", idt))
				_, old := val("OldInnovNum")
				okOld := false
				if b0, path := s.tm.Of(in1).FieldPath(); len(path) == 2 && b0 != nil && old != nil {
					okOld = fieldChainOnWeb(old, b0.V, "InnovationNum")
				}
				r.Check(okOld, name+".record.old-number", p.Pos(s.recCtor.Pos()), "record holds the split gene's number", fmt.Sprintf("the stored record's OldInnovNum is %v, not the innovation number of the gene being split", old))
			}
		}
	})

}

// isSpilledParam: v loads a local that holds parameter prm (go/ssa keeps a by-value struct
// parameter in an Alloc as soon as one of its fields is selected).
func isSpilledParam(v ssa.Value, prm *ssa.Parameter) bool {
	ld, ok := v.(*ssa.UnOp)
	if !ok {
		return false
	}
	al, ok := ld.X.(*ssa.Alloc)
	if !ok {
		return false
	}
	n := 0
	for _, ref := range *al.Referrers() {
		if st, ok := ref.(*ssa.Store); ok && st.Addr == ssa.Value(al) {
			if st.Val != ssa.Value(prm) {
				return false
			}
			n++
		}
	}
	return n == 1
}

// c03IsErrReturn: the return hands back an error that is known to be set (tested non-nil on the way, or freshly built).
func c03IsErrReturn(in ssa.Instruction) bool {
	ret, ok := in.(*ssa.Return)
	if !ok || len(ret.Results) == 0 {
		return false
	}
	ev := ret.Results[len(ret.Results)-1]
	if _, isErr := ev.Type().Underlying().(*types.Interface); !isErr {
		return false
	}
	return c03ErrNonNilAt(ev, ret.Block())
}

// c03ErrEdge: the edge from -> to carries a non-nil error into the merge of the function's error result (`if err !=
// nil { result = err; break out }` ... `return result`, the shape a hand-inlined or normalised helper leaves behind):
// taking it is an error exit just like `return err` under `err != nil`.
func c03ErrEdge(from, to *ssa.BasicBlock) bool {
	fn := to.Parent()
	for _, b := range fn.Blocks {
		ret, ok := b.Instrs[len(b.Instrs)-1].(*ssa.Return)
		if !ok || len(ret.Results) == 0 {
			continue
		}
		ph, isPhi := ret.Results[len(ret.Results)-1].(*ssa.Phi)
		if !isPhi || ph.Block() != to {
			continue
		}
		if _, isErr := ph.Type().Underlying().(*types.Interface); !isErr {
			continue
		}
		for i, pr := range to.Preds {
			if pr == from && c03ErrNonNilAt(ph.Edges[i], from) {
				return true
			}
		}
	}
	return false
}

// c03ErrNonNilAt: the error value ev is known to be non-nil in block blk.
func c03ErrNonNilAt(ev ssa.Value, blk *ssa.BasicBlock) bool {
	for _, g := range Guards(blk) {
		if b, ok := g.Cond.(*ssa.BinOp); ok && (b.X == ev || b.Y == ev) {
			if (b.Op == token.NEQ && g.True) || (b.Op == token.EQL && !g.True) {
				return true
			}
		}
	}
	// a freshly built error
	if c, ok := ev.(*ssa.Call); ok {
		n, _ := calleeName(&c.Call)
		return strings.HasPrefix(n, "fmt.Errorf") || strings.HasPrefix(n, "errors.")
	}
	if _, ok := ev.(*ssa.UnOp); ok {
		// a package-level error value
		return true
	}
	return false
}
