package nc

import (
	"go/token"

	"golang.org/x/tools/go/ssa"
)

// Helpers of the C04 rules that make them independent of how a value travels (third robustness round).

// c04CellValue: a local variable (or parameter) that a function literal captures is kept in a memory cell - an
// Alloc that receives the value once and is loaded wherever the variable is read. The cell always holds that
// one value when (a) the enclosing function stores to it exactly once, (b) every other use of the cell in the
// enclosing function is a load or the binding of the cell to a function literal, and (c) no function literal
// that gets hold of the cell (directly or through a nested literal) does anything with it but load it. Then every
// load yields the stored value, provided the store comes first - which (d) demands: the store dominates the load.
// The result is the stored value; ok is false when the cell can hold anything else.
func c04CellValue(load ssa.Value) (ssa.Value, bool) {
	u, ok := load.(*ssa.UnOp)
	if !ok || u.Op != token.MUL {
		return nil, false
	}
	cell, ok := u.X.(*ssa.Alloc)
	if !ok || cell.Referrers() == nil {
		return nil, false
	}
	var st *ssa.Store
	for _, ref := range *cell.Referrers() {
		switch x := ref.(type) {
		case *ssa.Store:
			if x.Addr != ssa.Value(cell) || x.Val == ssa.Value(cell) || st != nil {
				return nil, false
			}
			st = x
		case *ssa.UnOp:
			if x.Op != token.MUL {
				return nil, false
			}
		case *ssa.MakeClosure:
			if !c04ClosureOnlyLoads(x, cell, 0) {
				return nil, false
			}
		case *ssa.DebugRef:
		default:
			return nil, false
		}
	}
	if st == nil {
		return nil, false
	}
	// (d) the store precedes the load
	sb, lb := st.Block(), u.Block()
	if sb == lb {
		if instrIndex(st) > instrIndex(u) {
			return nil, false
		}
	} else if !sb.Dominates(lb) {
		return nil, false
	}
	return st.Val, true
}

// c04ClosureOnlyLoads: the function literal bound by mc only loads from the captured cell.
func c04ClosureOnlyLoads(mc *ssa.MakeClosure, cell ssa.Value, depth int) bool {
	fn, ok := mc.Fn.(*ssa.Function)
	if !ok || depth > 8 {
		return false
	}
	for i, b := range mc.Bindings {
		if b != cell {
			continue
		}
		if i >= len(fn.FreeVars) {
			return false
		}
		fv := fn.FreeVars[i]
		if fv.Referrers() == nil {
			continue
		}
		for _, ref := range *fv.Referrers() {
			switch x := ref.(type) {
			case *ssa.UnOp:
				if x.Op != token.MUL {
					return false
				}
			case *ssa.MakeClosure:
				if !c04ClosureOnlyLoads(x, fv, depth+1) {
					return false
				}
			case *ssa.DebugRef:
			default:
				return false
			}
		}
	}
	return true
}

// c04ParentOf: which parent genome does the term denote - 1 the receiver, 2 the other parent (second parameter),
// 0 neither. A parent held in a write-once cell (see c04CellValue) is the parent.
func c04ParentOf(tm *Termer, t *Term) int {
	for depth := 0; t != nil && depth < 4; depth++ {
		if t.Op == "recv" {
			return 1
		}
		if isParamIdx(t, 1) {
			return 2
		}
		if t.Op != "phi" || t.V == nil {
			return 0
		}
		v, ok := c04CellValue(t.V)
		if !ok {
			return 0
		}
		t = tm.Of(v)
	}
	return 0
}

// c04RoleTest evaluates a boolean value that is a test of the role of node `src` for a node whose NeuronType is the
// constant `role`: comparisons of src.NeuronType with a role constant, src.IsSensor(), negations, and - resolved along
// the path - the boolean phis that named booleans and && / || compile to. known is false when v is anything else.
func c04RoleTest(tm *Termer, ip *IterPath, v ssa.Value, src ssa.Value, isSensor *ssa.Function, role string, roles map[string]string, depth int) (val, known bool) {
	if depth > 12 {
		return false, false
	}
	v = ip.ResolveAt(v)
	switch x := v.(type) {
	case *ssa.Const:
		if IsConstBool(x, true) {
			return true, true
		}
		if IsConstBool(x, false) {
			return false, true
		}
	case *ssa.UnOp:
		if x.Op == token.NOT {
			r, k := c04RoleTest(tm, ip, x.X, src, isSensor, role, roles, depth+1)
			return !r, k
		}
	case *ssa.BinOp:
		switch x.Op {
		case token.EQL, token.NEQ:
			a, b := tm.Of(x.X), tm.Of(x.Y)
			if !fieldChainOn(a, src, "NeuronType") {
				a, b = b, a
			}
			if fieldChainOn(a, src, "NeuronType") && b.Op == "const" {
				return (b.Name == roles[role]) == (x.Op == token.EQL), true
			}
		case token.AND, token.OR:
			if !c04IsBool(x) {
				return false, false
			}
			l, lk := c04RoleTest(tm, ip, x.X, src, isSensor, role, roles, depth+1)
			r, rk := c04RoleTest(tm, ip, x.Y, src, isSensor, role, roles, depth+1)
			if lk && rk {
				if x.Op == token.AND {
					return l && r, true
				}
				return l || r, true
			}
		}
	case *ssa.Call:
		if isSensor != nil && x.Call.StaticCallee() == isSensor && len(x.Call.Args) == 1 && x.Call.Args[0] == src {
			return role == "InputNeuron" || role == "BiasNeuron", true
		}
	}
	return false, false
}

// c04Unload: the value a load of a write-once cell (c04CellValue) yields; any other value is returned unchanged.
func c04Unload(v ssa.Value) ssa.Value {
	for depth := 0; depth < 4; depth++ {
		w, ok := c04CellValue(v)
		if !ok {
			return v
		}
		v = w
	}
	return v
}

// c04Feeders: the non-phi values that can flow into v - the feeders of its phi web, where a load of a local
// variable kept in a memory cell (a variable captured by a function literal) stands for every value the enclosing
// function stores into that cell. Used for existential questions only ("is one of the origins a nodeInsert result").
func c04Feeders(v ssa.Value) []ssa.Value {
	var out []ssa.Value
	seen := map[ssa.Value]bool{}
	var visit func(v ssa.Value, depth int)
	visit = func(v ssa.Value, depth int) {
		if v == nil || seen[v] || depth > 12 {
			return
		}
		seen[v] = true
		for _, f := range phiWeb(v).Feeders {
			if u, ok := f.(*ssa.UnOp); ok && u.Op == token.MUL {
				if cell, ok := u.X.(*ssa.Alloc); ok && cell.Referrers() != nil {
					for _, ref := range *cell.Referrers() {
						if st, ok := ref.(*ssa.Store); ok && st.Addr == ssa.Value(cell) {
							visit(st.Val, depth+1)
						}
					}
					continue
				}
			}
			out = append(out, f)
		}
	}
	visit(v, 0)
	return out
}
