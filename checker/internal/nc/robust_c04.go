package nc

import (
	"fmt"
	"go/token"
	"go/types"
	"strings"

	"golang.org/x/tools/go/ssa"
)

// Helpers of the C04 rules that make them independent of how a value travels (third robustness round).

// c04CellValue: a local variable (or parameter) that a function literal captures is kept in a memory cell - an
// Alloc that receives the value once and is loaded wherever the variable is read. The cell always holds that
// one value when (a) the enclosing function stores to it exactly once, (b) every other use of the cell in the
// enclosing function is a load or the binding of the cell to a function literal, and (c) no function literal
// that gets hold of the cell (directly or through a nested literal) does anything with it but load it. Then every
// load yields the stored value, provided the store comes first - which (d) demands: the store dominates the load.
// The result is the stored value; ok is false when the cell can hold anything else.
func c04CellValue(load ssa.Value) (ssa.Value, bool) {
	u, ok := load.(*ssa.UnOp)
	if !ok || u.Op != token.MUL {
		return nil, false
	}
	cell, ok := u.X.(*ssa.Alloc)
	if !ok || cell.Referrers() == nil {
		return nil, false
	}
	var st *ssa.Store
	for _, ref := range *cell.Referrers() {
		switch x := ref.(type) {
		case *ssa.Store:
			if x.Addr != ssa.Value(cell) || x.Val == ssa.Value(cell) || st != nil {
				return nil, false
			}
			st = x
		case *ssa.UnOp:
			if x.Op != token.MUL {
				return nil, false
			}
		case *ssa.MakeClosure:
			if !c04ClosureOnlyLoads(x, cell, 0) {
				return nil, false
			}
		case *ssa.DebugRef:
		default:
			return nil, false
		}
	}
	if st == nil {
		return nil, false
	}
	// (d) the store precedes the load
	sb, lb := st.Block(), u.Block()
	if sb == lb {
		if instrIndex(st) > instrIndex(u) {
			return nil, false
		}
	} else if !sb.Dominates(lb) {
		return nil, false
	}
	return st.Val, true
}

// c04ClosureOnlyLoads: the function literal bound by mc only loads from the captured cell.
func c04ClosureOnlyLoads(mc *ssa.MakeClosure, cell ssa.Value, depth int) bool {
	fn, ok := mc.Fn.(*ssa.Function)
	if !ok || depth > 8 {
		return false
	}
	for i, b := range mc.Bindings {
		if b != cell {
			continue
		}
		if i >= len(fn.FreeVars) {
			return false
		}
		fv := fn.FreeVars[i]
		if fv.Referrers() == nil {
			continue
		}
		for _, ref := range *fv.Referrers() {
			switch x := ref.(type) {
			case *ssa.UnOp:
				if x.Op != token.MUL {
					return false
				}
			case *ssa.MakeClosure:
				if !c04ClosureOnlyLoads(x, fv, depth+1) {
					return false
				}
			case *ssa.DebugRef:
			default:
				return false
			}
		}
	}
	return true
}

// c04ParentOf: which parent genome does the term denote - 1 the receiver, 2 the other parent (second parameter),
// 0 neither. A parent held in a write-once cell (see c04CellValue) is the parent.
func c04ParentOf(tm *Termer, t *Term) int {
	for depth := 0; t != nil && depth < 4; depth++ {
		if t.Op == "recv" {
			return 1
		}
		if isParamIdx(t, 1) {
			return 2
		}
		if t.Op != "phi" || t.V == nil {
			return 0
		}
		v, ok := c04CellValue(t.V)
		if !ok {
			return 0
		}
		t = tm.Of(v)
	}
	return 0
}

// c04IsTail: the slice expression is x[k:] or x[k:len(x)] - it ends where x ends.
func c04IsTail(sl *ssa.Slice) bool {
	if sl.Max != nil {
		return false
	}
	if sl.High == nil {
		return true
	}
	c, isCall := sl.High.(*ssa.Call)
	if !isCall || len(c.Call.Args) != 1 || c.Call.Args[0] != sl.X {
		return false
	}
	b, isB := c.Call.Value.(*ssa.Builtin)
	return isB && b.Name() == "len"
}

// c04RestList: v is one parent's gene list or a tail of it: every value v can stand for is reached from loads of
// <parent>.Genes through phis and through x[k:] / x[k:len(x)] of such a value (no other upper bound, no capacity: the result ends where
// x ends, so its elements are elements of x; with an upper bound the result could reach past len(x) into the spare
// capacity). Returned: 1 the receiver's list, 2 the other parent's, 3 either, 0 not such a list.
func (s *mateShape) c04RestList(v ssa.Value) int {
	which, ok := 0, true
	seen := map[ssa.Value]bool{}
	var visit func(x ssa.Value)
	visit = func(x ssa.Value) {
		x = stripCT(x)
		if seen[x] || !ok {
			return
		}
		seen[x] = true
		switch y := x.(type) {
		case *ssa.Phi:
			for _, e := range y.Edges {
				visit(e)
			}
			return
		case *ssa.Slice:
			if _, isSl := y.X.Type().Underlying().(*types.Slice); isSl && c04IsTail(y) {
				visit(y.X)
				return
			}
			ok = false
			return
		}
		alts := s.tm.Of(x).Alternatives()
		if len(alts) == 0 {
			ok = false
		}
		for _, a := range alts {
			w := 0
			if a.Op == "field" && a.Name == "Genes" && len(a.Args) > 0 {
				w = c04ParentOf(s.tm, a.Args[0])
			}
			switch {
			case w == 0:
				ok = false
			case which == 0:
				which = w
			case which != w:
				which = 3
			}
		}
	}
	visit(v)
	if !ok {
		return 0
	}
	return which
}

// c04RoleTest evaluates a boolean value that is a test of the role of node `src` for a node whose NeuronType is the
// constant `role`: comparisons of src.NeuronType with a role constant, src.IsSensor(), negations, and - resolved along
// the path - the boolean phis that named booleans and && / || compile to. known is false when v is anything else.
func c04RoleTest(tm *Termer, ip *IterPath, v ssa.Value, src ssa.Value, isSensor *ssa.Function, role string, roles map[string]string, depth int) (val, known bool) {
	if depth > 12 {
		return false, false
	}
	v = ip.ResolveAt(v)
	switch x := v.(type) {
	case *ssa.Const:
		if IsConstBool(x, true) {
			return true, true
		}
		if IsConstBool(x, false) {
			return false, true
		}
	case *ssa.UnOp:
		if x.Op == token.NOT {
			r, k := c04RoleTest(tm, ip, x.X, src, isSensor, role, roles, depth+1)
			return !r, k
		}
	case *ssa.BinOp:
		switch x.Op {
		case token.EQL, token.NEQ:
			a, b := tm.Of(x.X), tm.Of(x.Y)
			if !fieldChainOn(a, src, "NeuronType") {
				a, b = b, a
			}
			if fieldChainOn(a, src, "NeuronType") && b.Op == "const" {
				return (b.Name == roles[role]) == (x.Op == token.EQL), true
			}
		case token.AND, token.OR:
			if !c04IsBool(x) {
				return false, false
			}
			l, lk := c04RoleTest(tm, ip, x.X, src, isSensor, role, roles, depth+1)
			r, rk := c04RoleTest(tm, ip, x.Y, src, isSensor, role, roles, depth+1)
			if lk && rk {
				if x.Op == token.AND {
					return l && r, true
				}
				return l || r, true
			}
		}
	case *ssa.Call:
		if isSensor != nil && x.Call.StaticCallee() == isSensor && len(x.Call.Args) == 1 && x.Call.Args[0] == src {
			return role == "InputNeuron" || role == "BiasNeuron", true
		}
	}
	return false, false
}

// c04Unload: the value a load of a write-once cell (c04CellValue) yields; any other value is returned unchanged.
func c04Unload(v ssa.Value) ssa.Value {
	for depth := 0; depth < 4; depth++ {
		w, ok := c04CellValue(v)
		if !ok {
			return v
		}
		v = w
	}
	return v
}

// c04Feeders: the non-phi values that can flow into v - the feeders of its phi web, where a load of a local
// variable kept in a memory cell (a variable captured by a function literal) stands for every value the enclosing
// function stores into that cell. Used for existential questions only ("is one of the origins a nodeInsert result").
func c04Feeders(v ssa.Value) []ssa.Value {
	var out []ssa.Value
	seen := map[ssa.Value]bool{}
	var visit func(v ssa.Value, depth int)
	visit = func(v ssa.Value, depth int) {
		if v == nil || seen[v] || depth > 12 {
			return
		}
		seen[v] = true
		for _, f := range phiWeb(v).Feeders {
			if u, ok := f.(*ssa.UnOp); ok && u.Op == token.MUL {
				if cell, ok := u.X.(*ssa.Alloc); ok && cell.Referrers() != nil {
					for _, ref := range *cell.Referrers() {
						if st, ok := ref.(*ssa.Store); ok && st.Addr == ssa.Value(cell) {
							visit(st.Val, depth+1)
						}
					}
					continue
				}
			}
			out = append(out, f)
		}
	}
	visit(v, 0)
	return out
}

// ---- fourth round: branch conditions are read as facts, whatever their spelling ----

// A relation mask says which of a < b, a == b, a > b are still possible.
const (
	c04LT = 1
	c04EQ = 2
	c04GT = 4
)

// c04RelMask: the orderings of (x, y) that `x op y` admits.
func c04RelMask(op token.Token) int {
	switch op {
	case token.EQL:
		return c04EQ
	case token.NEQ:
		return c04LT | c04GT
	case token.LSS:
		return c04LT
	case token.LEQ:
		return c04LT | c04EQ
	case token.GTR:
		return c04GT
	case token.GEQ:
		return c04GT | c04EQ
	}
	return c04LT | c04EQ | c04GT
}

// c04FlipMask: the same fact with the operands exchanged (a < b is b > a).
func c04FlipMask(m int) int {
	out := m & c04EQ
	if m&c04LT != 0 {
		out |= c04GT
	}
	if m&c04GT != 0 {
		out |= c04LT
	}
	return out
}

// c04OrderFact: what the branch outcome (cond, outcome) says about the ordering of a value accepted by `left`
// against a value accepted by `right`, as a relation mask of (left, right). The condition is read through CmpFact
// (the comparison that HOLDS: negations removed, a false outcome complemented), and `a < b` and `b > a` are the
// same fact. ok is false when the outcome is not a comparison of such a pair.
func c04OrderFact(cond ssa.Value, outcome bool, left, right func(ssa.Value) bool) (l, r ssa.Value, mask int, ok bool) {
	x, y, op, isCmp := CmpFact(cond, outcome)
	if !isCmp {
		return nil, nil, 0, false
	}
	if left(x) && right(y) {
		return x, y, c04RelMask(op), true
	}
	if left(y) && right(x) {
		return y, x, c04FlipMask(c04RelMask(op)), true
	}
	return nil, nil, 0, false
}

// c04IsNilTest: the branch outcome compares something with nil (in either operand order, negated or not).
func c04IsNilTest(cond ssa.Value, outcome bool) bool {
	_, y, op, ok := CmpFact(cond, outcome)
	if !ok || (op != token.EQL && op != token.NEQ) {
		return false
	}
	c, isC := y.(*ssa.Const)
	return isC && c.Value == nil && isNillable(c.Type())
}

// c04BoolFieldIs: the branch outcome g says that the boolean field v.<path> has the value `want` - as the bare field
// (`if g.IsEnabled`, `if !g.IsEnabled`) or compared with a boolean constant (`g.IsEnabled == false`, `true != g.IsEnabled`).
func c04BoolFieldIs(tm *Termer, g Guard, v ssa.Value, want bool, path ...string) bool {
	if boolFieldCond(tm, g, v, want, path...) {
		return true
	}
	x, y, op, ok := CmpFact(g.Cond, g.True)
	if !ok || (op != token.EQL && op != token.NEQ) {
		return false
	}
	c, isC := y.(*ssa.Const)
	if !isC || !c04IsBool(c) || c.Value == nil {
		return false
	}
	val := IsConstBool(c, true)
	if op == token.NEQ {
		val = !val
	}
	return val == want && fieldChainOn(tm.Of(x), v, path...)
}

// c04LoopBound: the loop is left at its header exactly when `i < len(list)` stops to hold, for a list that `isList`
// accepts (its term): the header's branch outcome that stays in the loop is the fact `i < len(list)` in any spelling
// (`len(list) > i`, `!(i >= len(list))`, ...). Returns the index value i; nil when the header does not say that.
func c04LoopBound(tm *Termer, l *Loop, isList func(*Term) bool) ssa.Value {
	if l == nil {
		return nil
	}
	iff, ok := l.Header.Instrs[len(l.Header.Instrs)-1].(*ssa.If)
	if !ok || len(l.Header.Succs) != 2 || l.Blocks[l.Header.Succs[0]] == l.Blocks[l.Header.Succs[1]] {
		return nil
	}
	stay := l.Blocks[l.Header.Succs[0]]
	isLen := func(v ssa.Value) bool {
		t := tm.Of(v)
		return t.Op == "len" && len(t.Args) == 1 && isList(t.Args[0])
	}
	notLen := func(v ssa.Value) bool { return tm.Of(v).Op != "len" }
	if idx, _, m, ok := c04OrderFact(iff.Cond, stay, notLen, isLen); ok && m == c04LT {
		return idx
	}
	return nil
}

// c04LoopRangesOver: loopRangesOver in any spelling of the bound test.
func c04LoopRangesOver(tm *Termer, l *Loop, what string) bool {
	return c04LoopBound(tm, l, func(t *Term) bool { return t.String() == what }) != nil
}

// c04FromZeroByOne: the index idx tested in the header of l takes the values 0, 1, 2, ... in successive iterations:
// it is a header phi entered with 0 and advanced by exactly 1 on every back edge (`for i := 0; ..; i++`), or - the
// form a range loop compiles to - `k + 1` of a header phi k entered with -1 that receives this very sum on every back
// edge. Together with the bound `idx < len(list)` and no other way out, the body sees every index of the list.
func c04FromZeroByOne(l *Loop, idx ssa.Value) bool {
	plusOne := func(v ssa.Value, ph *ssa.Phi) bool {
		b, ok := v.(*ssa.BinOp)
		if !ok || b.Op != token.ADD {
			return false
		}
		x, y := b.X, b.Y
		if y == ssa.Value(ph) {
			x, y = y, x
		}
		k, isK := constInt(y)
		return x == ssa.Value(ph) && isK && k == 1
	}
	counted := func(ph *ssa.Phi, init int64, step func(ssa.Value) bool) bool {
		if ph.Block() != l.Header {
			return false
		}
		in, out := 0, 0
		for i, e := range ph.Edges {
			if l.Blocks[l.Header.Preds[i]] {
				in++
				if !step(e) {
					return false
				}
			} else {
				out++
				if k, isK := constInt(e); !isK || k != init {
					return false
				}
				if _, isC := e.(*ssa.Const); !isC {
					return false
				}
			}
		}
		return in > 0 && out > 0
	}
	if ph, ok := idx.(*ssa.Phi); ok {
		return counted(ph, 0, func(e ssa.Value) bool { return plusOne(e, ph) })
	}
	if b, ok := idx.(*ssa.BinOp); ok && b.Block() == l.Header {
		for _, op := range []ssa.Value{b.X, b.Y} {
			if ph, ok := op.(*ssa.Phi); ok && plusOne(b, ph) {
				return counted(ph, -1, func(e ssa.Value) bool { return e == idx })
			}
		}
	}
	return false
}

// c04OnlyHeaderExit: the loop is left only through its header test (no break, no return in the body).
func c04OnlyHeaderExit(l *Loop) bool {
	for b := range l.Blocks {
		for _, s := range b.Succs {
			if !l.Blocks[s] && b != l.Header {
				return false
			}
		}
	}
	return true
}

// c04EvalBool evaluates the boolean value v along the path ip under a truth assignment of atoms: atom(x, y) names the
// atom that the equality of x and y is (-1: none). Phis are resolved along the path; constants, negation, == / != of an
// atom pair or of two evaluable booleans, and the non-short-circuit & | on booleans are understood. known is false for
// anything else.
func c04EvalBool(ip *IterPath, v ssa.Value, atom func(x, y ssa.Value) int, asg []bool, depth int) (val, known bool) {
	if depth > 20 {
		return false, false
	}
	v = ip.ResolveAt(v)
	switch x := v.(type) {
	case *ssa.Const:
		if IsConstBool(x, true) {
			return true, true
		}
		if IsConstBool(x, false) {
			return false, true
		}
	case *ssa.UnOp:
		if x.Op == token.NOT {
			r, k := c04EvalBool(ip, x.X, atom, asg, depth+1)
			return !r, k
		}
	case *ssa.BinOp:
		switch x.Op {
		case token.EQL, token.NEQ:
			if id := atom(x.X, x.Y); id >= 0 && id < len(asg) {
				return asg[id] == (x.Op == token.EQL), true
			}
			if c04IsBool(x.X) && c04IsBool(x.Y) {
				l, lk := c04EvalBool(ip, x.X, atom, asg, depth+1)
				r, rk := c04EvalBool(ip, x.Y, atom, asg, depth+1)
				if lk && rk {
					return (l == r) == (x.Op == token.EQL), true
				}
			}
		case token.AND, token.OR:
			if !c04IsBool(x) {
				return false, false
			}
			l, lk := c04EvalBool(ip, x.X, atom, asg, depth+1)
			r, rk := c04EvalBool(ip, x.Y, atom, asg, depth+1)
			if lk && rk {
				if x.Op == token.AND {
					return l && r, true
				}
				return l || r, true
			}
		}
	}
	return false, false
}

// c04StoresAtIndexEveryIteration: every iteration of l executes a store `x[idx] = (a[idx] + b[idx]) / 2`-shaped store
// at the loop index (the shape of the value is decided by the caller through the constructor summary; here: the
// address is indexed by idx, every element read in the stored value is read at idx, and the store's block lies on
// every way round the loop).
func c04StoresAtIndexEveryIteration(tm *Termer, l *Loop, idx ssa.Value) bool {
	for b := range l.Blocks {
		if il := InnermostLoop(Loops(b.Parent()), b); il == nil || il.Header != l.Header {
			continue
		}
		every := true
		for _, lt := range l.Latch {
			if !(b == lt || b.Dominates(lt)) {
				every = false
			}
		}
		if !every {
			continue
		}
		for _, in := range b.Instrs {
			st, ok := in.(*ssa.Store)
			if !ok {
				continue
			}
			ia, ok := st.Addr.(*ssa.IndexAddr)
			if !ok || ia.Index != idx {
				continue
			}
			okIdx, n := true, 0
			var visit func(t *Term, depth int)
			visit = func(t *Term, depth int) {
				if t == nil || depth > 8 {
					return
				}
				if t.Op == "elem" && len(t.Args) > 1 {
					n++
					if t.Args[1].V != idx {
						okIdx = false
					}
				}
				for _, a := range t.Args {
					visit(a, depth+1)
				}
			}
			visit(tm.Of(st.Val), 0)
			if okIdx && n > 0 {
				return true
			}
		}
	}
	return false
}

// c04MateTraitsCoverage: mateTraits fills EVERY position of the child's trait list and hands that list back unless
// an average failed. Needed by the property: the child "has the parents' number of traits with averaged parameters";
// a position that is skipped stays nil (and is dereferenced when the first gene or node refers to it), and a list
// that is not returned leaves the child without traits.
func (r *Run) c04MateTraitsCoverage(mt, avg *ssa.Function, tm *Termer, avgStores []*ssa.Store) {
	p := r.P
	pos := p.Pos(mt.Pos())
	loops := Loops(mt)
	var made ssa.Value
	okCover, why := false, "no store of an averaged trait found in a loop"
	var loop *Loop
	for _, st := range avgStores {
		ia := st.Addr.(*ssa.IndexAddr)
		l := InnermostLoop(loops, st.Block())
		if l == nil {
			continue
		}
		if ms, ok := stripPtr(ia.X).(*ssa.MakeSlice); ok {
			made = ms
		}
		idx := c04LoopBound(tm, l, func(t *Term) bool {
			return t.String() == "recv.Traits" || t.String() == "p1.Traits" || (t.V != nil && t.V == made)
		})
		every := true
		for _, lt := range l.Latch {
			if !(st.Block() == lt || st.Block().Dominates(lt)) {
				every = false
			}
		}
		switch {
		case idx == nil:
			why = "the loop does not run while i < len(g.Traits)"
		case !c04FromZeroByOne(l, idx):
			why = "the loop index does not start at 0 and advance by 1 in every iteration"
		case ia.Index != idx:
			why = "the average is not stored at the loop index"
		case !every:
			why = "an iteration can go round the loop without storing the average"
		default:
			okCover, loop = true, l
		}
	}
	r.Check(okCover, "mateTraits.covers", pos, "one average per index 0 .. len(g.Traits)-1", "mateTraits does not fill every position of the child's trait list: "+why)
	if !okCover {
		return
	}
	// the error of the average, as tested in this function
	isErr := func(v ssa.Value) bool {
		for _, f := range phiWeb(v).Feeders {
			if ex, ok := f.(*ssa.Extract); ok && ex.Index == 1 {
				if c, ok := ex.Tuple.(*ssa.Call); ok && c.Call.StaticCallee() == avg {
					continue
				}
			}
			return false
		}
		_, isExtract := v.(*ssa.Extract)
		_, isPhi := v.(*ssa.Phi)
		return isExtract || isPhi
	}
	failed := func(gs []Guard) bool {
		for _, g := range gs {
			if GuardNilness(g, isErr) == -1 {
				return true
			}
		}
		return false
	}
	// the loop is left early only when an average failed
	okExit := true
	for b := range loop.Blocks {
		for _, sx := range b.Succs {
			if !loop.Blocks[sx] && b != loop.Header && !failed(condsAt(b, sx)) {
				okExit = false
			}
		}
	}
	r.Check(okExit, "mateTraits.exit", pos, "the loop over the traits is left early only when NewTraitAvrg reported an error", "mateTraits can stop averaging before the last trait although no average failed: the remaining traits of the child are nil")
	// every return not under a failed average hands back the filled list, after the loop
	okRet, whyRet := true, ""
	for _, b := range mt.Blocks {
		ret, ok := b.Instrs[len(b.Instrs)-1].(*ssa.Return)
		if !ok || len(ret.Results) != 2 {
			continue
		}
		if failed(Guards(b)) {
			continue
		}
		isList := made != nil
		for _, f := range phiWeb(ret.Results[0]).Feeders {
			if stripPtr(f) != made {
				isList = false
			}
		}
		if !isList {
			okRet, whyRet = false, "a return that is not the consequence of a failed average yields "+tm.Of(ret.Results[0]).String()+" instead of the list just filled (at "+p.Pos(ret.Pos())+")"
		} else if loop.Blocks[b] || !loop.Header.Dominates(b) {
			okRet, whyRet = false, "the list is returned before the loop over the traits has finished (at "+p.Pos(ret.Pos())+")"
		} else if k, isK := ret.Results[1].(*ssa.Const); !isK || k.Value != nil {
			okRet, whyRet = false, "the filled list is returned together with a non-nil error, so the crossover fails although every average succeeded (at "+p.Pos(ret.Pos())+")"
		}
	}
	r.Check(okRet, "mateTraits.returns", pos, "unless an average failed, the filled list is returned after the loop, with a nil error", "mateTraits does not hand the averaged traits back: "+whyRet)
}

// c04TraitAvrgFailsOnlyOnMismatch: NewTraitAvrg refuses (returns an error / no trait) only when the two traits have
// different parameter counts. The property quantifies over parents with a common ancestry - equal parameter counts -
// and demands an averaged trait for them; a refusal under any other condition makes every crossover fail.
func (r *Run) c04TraitAvrgFailsOnlyOnMismatch(avg *ssa.Function) {
	p := r.P
	tm := NewTermer(avg)
	isLenOf := func(par string) func(ssa.Value) bool {
		return func(v ssa.Value) bool { return tm.Of(v).String() == "len("+par+".Params)" }
	}
	mismatch := func(gs []Guard) bool {
		for _, g := range gs {
			if _, _, m, ok := c04OrderFact(g.Cond, g.True, isLenOf("p0"), isLenOf("p1")); ok && m&c04EQ == 0 && m != 0 {
				return true
			}
		}
		return false
	}
	ok, why := true, ""
	n := 0
	for _, b := range avg.Blocks {
		ret, isRet := b.Instrs[len(b.Instrs)-1].(*ssa.Return)
		if !isRet || len(ret.Results) != 2 {
			continue
		}
		n++
		if mismatch(Guards(b)) {
			continue
		}
		// a return for traits of equal size: a trait and a nil error
		if k, isK := ret.Results[1].(*ssa.Const); !isK || k.Value != nil {
			ok, why = false, fmt.Sprintf("a return at %s yields the error %s although the parameter counts were not found different", p.Pos(ret.Pos()), tm.Of(ret.Results[1]))
		}
		for _, f := range phiWeb(ret.Results[0]).Feeders {
			if k, isK := f.(*ssa.Const); isK && k.Value == nil {
				ok, why = false, fmt.Sprintf("a return at %s yields no trait although the parameter counts were not found different", p.Pos(ret.Pos()))
			}
		}
	}
	r.Check(ok && n > 0, "NewTraitAvrg.refusal", p.Pos(avg.Pos()), "an error / nil trait is returned only when the two traits' parameter counts differ", "NewTraitAvrg refuses traits of equal size: "+why)
}

// ---- fourth round, second goal: obligations for mutants of the crossover code that no check saw ----

// c04ChildProduced: a crossover refuses (returns no genome / an error) only when the parents' trait counts differ or
// the trait averaging failed. The property is stated for parents with equal trait counts and demands a child with
// the stated genes, nodes and traits; a refusal under any other condition (or a nil child with a nil error) breaks it
// for every pair of parents.
func (r *Run) c04ChildProduced(s *mateShape) {
	p, tm := r.P, s.tm
	mt := p.Func(PkgG, "Genome.mateTraits")
	ctors := map[*ssa.Function]bool{p.Func(PkgG, "NewGenome"): true, p.Func(PkgG, "NewModularGenome"): true}
	isLenOf := func(par string) func(ssa.Value) bool {
		return func(v ssa.Value) bool { return tm.Of(v).String() == "len("+par+".Traits)" }
	}
	isErr := func(v ssa.Value) bool {
		n := 0
		for _, f := range phiWeb(v).Feeders {
			ex, ok := f.(*ssa.Extract)
			if !ok || ex.Index != 1 {
				return false
			}
			c, ok := ex.Tuple.(*ssa.Call)
			if !ok || c.Call.StaticCallee() != mt {
				return false
			}
			n++
		}
		return n > 0
	}
	excused := func(gs []Guard) bool {
		for _, g := range gs {
			if _, _, m, ok := c04OrderFact(g.Cond, g.True, isLenOf("recv"), isLenOf("p1")); ok && m != 0 && m&c04EQ == 0 {
				return true
			}
			if GuardNilness(g, isErr) == -1 {
				return true
			}
		}
		return false
	}
	ok, why, n := true, "", 0
	for _, b := range s.fn.Blocks {
		ret, isRet := b.Instrs[len(b.Instrs)-1].(*ssa.Return)
		if !isRet || len(ret.Results) != 2 {
			continue
		}
		if excused(Guards(b)) {
			continue
		}
		n++
		w := phiWeb(ret.Results[0])
		isChild := !w.HasNil && len(w.Consts) == 0 && len(w.Feeders) > 0
		for _, f := range w.Feeders {
			c, isCall := f.(*ssa.Call)
			if !isCall || !ctors[c.Call.StaticCallee()] {
				isChild = false
			}
		}
		if !isChild {
			ok, why = false, "the return at "+p.Pos(ret.Pos())+" yields "+tm.Of(ret.Results[0]).String()+" instead of a new genome although the trait counts were not found different and the trait averaging did not fail"
		} else if k, isK := ret.Results[1].(*ssa.Const); !isK || k.Value != nil {
			ok, why = false, "the return at "+p.Pos(ret.Pos())+" yields a child together with a non-nil error"
		}
	}
	r.Check(ok && n > 0, s.name+".refusal", p.Pos(s.fn.Pos()), "no child / an error only when the trait counts differ or the trait averaging failed", s.name+" does not produce a child for well-formed parents: "+why)
}

// c04ListOrigins: the values a list variable is built from, looking through phis, captured-variable cells, append
// (its first argument) and nodeInsert (its first argument).
func c04ListOrigins(v ssa.Value, ni *ssa.Function) []ssa.Value {
	var out []ssa.Value
	seen := map[ssa.Value]bool{}
	var visit func(v ssa.Value, depth int)
	visit = func(v ssa.Value, depth int) {
		if v == nil || seen[v] || depth > 16 {
			return
		}
		seen[v] = true
		w := phiWeb(v)
		for _, k := range w.Consts {
			out = append(out, k)
		}
		for _, f := range c04Feeders(v) {
			if seen[f] && f != v {
				continue
			}
			if base, _, ok := appendCall(f); ok {
				seen[f] = true
				visit(base, depth+1)
				continue
			}
			if c, ok := f.(*ssa.Call); ok && ni != nil && c.Call.StaticCallee() == ni {
				seen[f] = true
				visit(c.Call.Args[0], depth+1)
				continue
			}
			seen[f] = true
			out = append(out, f)
		}
	}
	visit(v, 0)
	return out
}

// c04EmptyNew: v is a freshly allocated slice of length 0 (`make([]T, 0)`, `make([]T, 0, n)`, `[]T{}`).
func c04EmptyNew(v ssa.Value) bool {
	switch x := v.(type) {
	case *ssa.MakeSlice:
		k, ok := constInt(x.Len)
		return ok && k == 0
	case *ssa.Slice:
		al, ok := x.X.(*ssa.Alloc)
		if !ok {
			return false
		}
		if x.High != nil {
			k, ok := constInt(x.High)
			return ok && k == 0 && x.Low == nil
		}
		if pt, ok := al.Type().Underlying().(*types.Pointer); ok {
			if at, ok := pt.Elem().Underlying().(*types.Array); ok {
				return at.Len() == 0
			}
		}
	}
	return false
}

// c04FreshLists: the child's gene list and node list start empty and grow only by append / nodeInsert: every origin
// of the list the gene copies are appended to (resp. the node copies are inserted into) is a new slice of length 0 (or
// nil). A list that starts with an element holds a nil gene / nil node (dereferenced by the next conflict scan resp.
// node search); a list that starts from a parent's list makes the child hold genes no walk step chose and lets the
// appends write into the parent's array.
func (r *Run) c04FreshLists(s *mateShape) {
	p, tm := r.P, s.tm
	ni := p.Func(PkgG, "nodeInsert")
	nnc := p.Func(PkgN, "NewNNodeCopy")
	describe := func(origins []ssa.Value) (bool, string) {
		for _, o := range origins {
			if k, isK := o.(*ssa.Const); isK && k.Value == nil {
				continue
			}
			if !c04EmptyNew(o) {
				return false, tm.Of(o).String() + " (" + p.Pos(o.Pos()) + ")"
			}
		}
		return true, ""
	}
	var geneList ssa.Value
	Instrs(s.fn, func(_ *ssa.BasicBlock, _ int, in ssa.Instruction) {
		if c, ok := in.(*ssa.Call); ok {
			if base, elems, ok := appendCall(c); ok {
				for _, e := range elems {
					if e == ssa.Value(s.copyCall) {
						geneList = base
					}
				}
			}
		}
	})
	if geneList != nil {
		ok, what := describe(c04ListOrigins(geneList, ni))
		r.Check(ok, s.name+".genes.fresh", p.Pos(s.copyCall.Pos()), "the child's gene list starts as a new empty list", "the list the child's genes are appended to does not start empty: it starts as "+what)
	}
	var bad []string
	n := 0
	for _, ic := range CallsTo(s.fn, ni) {
		c, isCall := c04Unload(ic.Common().Args[1]).(*ssa.Call)
		if !isCall || c.Call.StaticCallee() != nnc {
			continue
		}
		n++
		if ok, what := describe(c04ListOrigins(ic.Common().Args[0], ni)); !ok {
			bad = append(bad, what)
		}
	}
	if n > 0 {
		r.Check(len(bad) == 0, s.name+".nodes.fresh", p.Pos(s.fn.Pos()), "the child's node list starts as a new empty list", "the list the child's nodes are inserted into does not start empty: it starts as "+strings.Join(uniq(bad), ", "))
	}
}

// c04TraitIndex: the trait handed to a copy constructor is childTraits[k] with k = 0 when the copied object has no
// trait and k = object.Trait.Id - parent.Traits[0].Id when it has one - the position of the parent object's trait in
// the (averaged, equally ordered) trait list of the child. Any other k links the child's gene / node to a different
// trait than its parent's, or indexes outside the list (a crossover that panics produces no child).
// isOwnerTrait recognises the term of the copied object's Trait field.
func (s *mateShape) c04TraitIndex(arg ssa.Value, isOwnerTrait func(*Term) bool) (bool, string) {
	tm := s.tm
	ld, ok := c04Unload(arg).(*ssa.UnOp)
	if !ok || ld.Op != token.MUL {
		return false, "the trait is " + tm.Of(arg).String() + ", not an element of the child's trait list"
	}
	ia, ok := ld.X.(*ssa.IndexAddr)
	if !ok || !strings.Contains(tm.Of(ia.X).String(), "mateTraits") {
		return false, "the trait is " + tm.Of(arg).String() + ", not an element of the child's trait list"
	}
	type cand struct {
		v  ssa.Value
		gs []Guard
	}
	var cands []cand
	k := c04Unload(ia.Index)
	if _, isPhi := k.(*ssa.Phi); !isPhi {
		cands = append(cands, cand{k, Guards(ld.Block())})
	} else {
		w := phiWeb(k)
		for ph := range w.Phis {
			for i, e := range ph.Edges {
				if ep, isPhi := e.(*ssa.Phi); isPhi && w.Phis[ep] {
					continue
				}
				cands = append(cands, cand{e, condsAt(ph.Block().Preds[i], ph.Block())})
			}
		}
	}
	nilness := func(gs []Guard) int {
		for _, g := range gs {
			if n := GuardNilness(g, func(v ssa.Value) bool { return isOwnerTrait(tm.Of(v)) }); n != 0 {
				return n
			}
		}
		return 0
	}
	isBaseId := func(t *Term) bool {
		if t == nil || t.Op != "field" || t.Name != "Id" || t.Args[0].Op != "elem" || len(t.Args[0].Args) < 2 {
			return false
		}
		l, i := t.Args[0].Args[0].String(), t.Args[0].Args[1]
		return (l == "recv.Traits" || l == "p1.Traits") && i.Op == "const" && i.Name == "0"
	}
	if len(cands) == 0 {
		return false, "the trait index has no value"
	}
	for _, c := range cands {
		if kc, isK := c.v.(*ssa.Const); isK {
			if n, ok := constInt(kc); !ok || n != 0 {
				return false, "the trait index can be the constant " + tm.Of(c.v).String()
			}
			if nilness(c.gs) != 1 {
				return false, "the trait index is 0 although the copied object was not found to have no trait"
			}
			continue
		}
		b, isB := c.v.(*ssa.BinOp)
		if !isB || b.Op != token.SUB {
			return false, "the trait index can be " + tm.Of(c.v).String()
		}
		xt, yt := tm.Of(b.X), tm.Of(b.Y)
		if !(xt.Op == "field" && xt.Name == "Id" && isOwnerTrait(xt.Args[0])) || !isBaseId(yt) {
			return false, "the trait index can be " + tm.Of(c.v).String() + ", not the copied object's Trait.Id minus the first parent trait's Id"
		}
		if nilness(c.gs) != -1 {
			return false, "the copied object's trait is dereferenced although it was not found to be non-nil"
		}
	}
	return true, ""
}

// c04NodeTraitIs: recogniser of `<node>.Trait` for the node value n.
func c04NodeTraitIs(n ssa.Value) func(*Term) bool {
	n = c04Unload(n)
	return func(t *Term) bool {
		return t != nil && t.Op == "field" && t.Name == "Trait" && len(t.Args) > 0 && t.Args[0].V != nil && c04Unload(t.Args[0].V) == n
	}
}

// c04NonNil: v cannot be nil where it is used (block at, reached with the additional branch outcomes extra): it is a
// node copy, an element loaded from a list, tested non-nil on the way, or a phi all of whose inputs are.
func c04NonNil(v ssa.Value, at *ssa.BasicBlock, extra []Guard, nnc *ssa.Function, depth int) bool {
	if depth > 6 {
		return false
	}
	gs := append(append([]Guard{}, Guards(at)...), extra...)
	for _, g := range gs {
		if GuardNilness(g, func(x ssa.Value) bool { return x == v }) == -1 {
			return true
		}
	}
	switch x := v.(type) {
	case *ssa.Call:
		return x.Call.StaticCallee() == nnc
	case *ssa.UnOp:
		if x.Op == token.MUL {
			if _, isElem := x.X.(*ssa.IndexAddr); isElem {
				return true
			}
			if w, ok := c04CellValue(x); ok {
				return c04NonNil(w, at, extra, nnc, depth+1)
			}
		}
	case *ssa.Phi:
		for i, e := range x.Edges {
			pred := x.Block().Preds[i]
			if !c04NonNil(e, pred, condsAt(pred, x.Block()), nnc, depth+1) {
				return false
			}
		}
		return len(x.Edges) > 0
	}
	return false
}

// c04Lookup: an end node of the chosen gene is copied into the child only when the child has no node with that id yet.
// The child's node list is searched by a loop that visits every index (0, 1, .. len-1), goes on to the next index only
// when the current node's id differs from the wanted id, and is left early only on equal ids; the copy is made only
// after that loop ran to its end (the block of the copy lies behind the loop's exhaustion exit, or is guarded by
// `found == nil` for a variable that is nil only when the loop ran to its end). Otherwise the child gets two nodes
// with one id (and genes attached to different copies), against "exactly the nodes its genes touch".
func (r *Run) c04Lookup(s *mateShape, end string, w *phiWebT, copies []*ssa.Call, elems []ssa.Value) (bool, string) {
	tm := s.tm
	if len(copies) == 0 {
		return true, ""
	}
	if len(elems) == 0 {
		return false, "the child's node list is never searched for the " + end + ": every gene gets fresh copies of its end nodes"
	}
	why := ""
	lookupOK := func(f ssa.Value, c *ssa.Call) bool {
		ld, ok := f.(*ssa.UnOp)
		if !ok {
			why = "the found node is not an element of a list"
			return false
		}
		ia, ok := ld.X.(*ssa.IndexAddr)
		if !ok {
			why = "the found node is not an element of a list"
			return false
		}
		L := InnermostLoop(s.loops, ld.Block())
		// the loads of the list element that the search's id tests speak about: f itself when it is loaded inside the search
		els, elIdx := map[ssa.Value]bool{f: true}, ia.Index
		if L == nil || L == s.walk {
			// The search handed out the POSITION of the match and the element is re-read there after the search
			// (`pos := -1; for i := range list { if list[i].Id == id { pos = i; break } }; if pos >= 0 { found = list[pos] }`,
			// what slices.IndexFunc expands to). elemAtMatchedIndex established that the position read at f can only be the
			// search's own index on the iteration on which it was left, over the same list value; the search loop is then the
			// loop around the in-search loads of list[index], and everything below is decided for that loop as before.
			if _, recs, okM := elemAtMatchedIndex(f); okM {
				var L2 *Loop
				var idx2 ssa.Value
				same := true
				for rec := range recs {
					l := InnermostLoop(s.loops, rec.(*ssa.UnOp).Block())
					i2 := stripCT(rec.(*ssa.UnOp).X.(*ssa.IndexAddr).Index)
					if L2 == nil {
						L2, idx2 = l, i2
					} else if l != L2 || i2 != idx2 {
						same = false
					}
				}
				if same && L2 != nil && L2 != s.walk && s.walk.Blocks[L2.Header] && L2.Header.Dominates(ld.Block()) {
					L, els, elIdx = L2, recs, idx2
				}
			}
		}
		if L == nil || L == s.walk {
			why = "the child's node is not found by a search loop"
			return false
		}
		isEl := func(v ssa.Value) bool { return v == f || els[v] }
		idx := c04LoopBound(tm, L, func(t *Term) bool { return fieldChainOnWeb(t, ia.X) })
		if idx == nil || idx != elIdx || !c04FromZeroByOne(L, idx) {
			why = "the search loop does not visit every index of the child's node list"
			return false
		}
		isElemId := func(v ssa.Value) bool {
			t := tm.Of(v)
			for e := range els {
				if fieldChainOn(t, e, "Id") {
					return true
				}
			}
			return false
		}
		isWantedId := func(v ssa.Value) bool { return fieldChainOnWeb(tm.Of(v), s.chosen, "Link", end, "Id") }
		matched := func(gs []Guard) int {
			for _, g := range gs {
				if _, _, m, ok := c04OrderFact(g.Cond, g.True, isElemId, isWantedId); ok {
					if m == c04EQ {
						return 1
					}
					if m != 0 && m&c04EQ == 0 {
						return -1
					}
				}
			}
			return 0
		}
		// going on to the next index: the ids were found different - or they were found equal and the node is recorded
		// in a variable carried round the loop (`found = node; continue` instead of `found = node; break`)
		carried := map[*ssa.Phi]bool{}
		for _, lt := range L.Latch {
			switch matched(condsAt(lt, L.Header)) {
			case -1:
			case 1:
				rec := false
				for _, T := range HeaderPhis(L) {
					for i, pr := range L.Header.Preds {
						if pr == lt && isEl(T.Edges[i]) && w.Phis[T] {
							rec, carried[T] = true, true
						}
					}
				}
				if !rec {
					why = "the search goes on after equal ids without recording the node"
					return false
				}
			default:
				why = "the search goes on to the next node without having found the ids different"
				return false
			}
		}
		var hs *ssa.BasicBlock
		for b := range L.Blocks {
			for _, sx := range b.Succs {
				if L.Blocks[sx] {
					continue
				}
				if b == L.Header {
					hs = sx
				} else if matched(condsAt(b, sx)) != 1 {
					why = "the search can be left early although the ids were not found equal"
					return false
				}
			}
		}
		if hs == nil {
			why = "the search loop has no exhaustion exit"
			return false
		}
		C := c.Block()
		if edgeDominates(L.Header, hs, C) {
			return true
		}
		// exhaustedAt: the branch outcomes gs say that the search ran to its end - through the position it hands out. A
		// position variable Q (a phi) is compared with a constant in gs; every incoming edge of Q either carries the search
		// index (0, 1, 2, ..: never negative, see c04FromZeroByOne above) and the facts admit no value >= 0, or carries a
		// constant that the facts rule out, or is taken only after the search's exhaustion exit (`pos := -1` kept when no
		// element matched, then `pos < 0` / `!(pos >= 0)` / `pos == -1`).
		exhaustedAt := func(gs []Guard) bool {
			type fact struct {
				op token.Token
				k  int64
			}
			facts := map[*ssa.Phi][]fact{}
			for _, g := range gs {
				x, y, op, isCmp := CmpFact(g.Cond, g.True)
				if !isCmp {
					continue
				}
				Q, isPhi := stripCT(x).(*ssa.Phi)
				k, isK := constInt(y)
				if _, isC := y.(*ssa.Const); !isPhi || !isK || !isC {
					continue
				}
				facts[Q] = append(facts[Q], fact{op, k})
			}
			admits := func(fs []fact, c int64) bool {
				for _, fc := range fs {
					ok := true
					switch fc.op {
					case token.EQL:
						ok = c == fc.k
					case token.NEQ:
						ok = c != fc.k
					case token.LSS:
						ok = c < fc.k
					case token.LEQ:
						ok = c <= fc.k
					case token.GTR:
						ok = c > fc.k
					case token.GEQ:
						ok = c >= fc.k
					}
					if !ok {
						return false
					}
				}
				return true
			}
			for Q, fs := range facts {
				// no value >= 0 satisfies the facts: some fact bounds the position below 0
				negOnly := false
				for _, fc := range fs {
					if (fc.op == token.LSS && fc.k <= 0) || (fc.op == token.LEQ && fc.k < 0) || (fc.op == token.EQL && fc.k < 0) {
						negOnly = true
					}
				}
				ok := len(Q.Edges) > 0 && !L.Blocks[Q.Block()]
				for i, e := range Q.Edges {
					P := Q.Block().Preds[i]
					afterEnd := (P == L.Header && Q.Block() == hs) || edgeDominates(L.Header, hs, P)
					if k, isK := constInt(e); isK {
						if _, isC := e.(*ssa.Const); !isC || (admits(fs, k) && !afterEnd) {
							ok = false
						}
						continue
					}
					if stripCT(e) == idx {
						if !negOnly {
							ok = false
						}
						continue
					}
					ok = false
				}
				if ok {
					return true
				}
			}
			return false
		}
		if exhaustedAt(Guards(C)) {
			return true
		}
		var nilOnlyWhenExhausted func(T *ssa.Phi, depth int) bool
		nilOnlyWhenExhausted = func(T *ssa.Phi, depth int) bool {
			if depth > 3 {
				return false
			}
			if T.Block() == L.Header {
				// a variable carried round the search: nil on entry, and inside the loop only kept or set to the found node
				for i, e := range T.Edges {
					if L.Blocks[L.Header.Preds[i]] {
						if e != ssa.Value(T) && !isEl(e) {
							return false
						}
					} else if k, isK := e.(*ssa.Const); !isK || k.Value != nil {
						return false
					}
				}
				return true
			}
			if L.Blocks[T.Block()] {
				return false
			}
			for i, e := range T.Edges {
				P := T.Block().Preds[i]
				switch x := e.(type) {
				case *ssa.Const:
					if x.Value != nil {
						return false
					}
					if !(P == L.Header || edgeDominates(L.Header, hs, P) || exhaustedAt(condsAt(P, T.Block()))) {
						return false
					}
				case *ssa.Phi:
					if x != T && !nilOnlyWhenExhausted(x, depth+1) {
						return false
					}
				case *ssa.Call:
					if x.Call.StaticCallee() != c.Call.StaticCallee() {
						return false
					}
				default:
					if !isEl(e) {
						return false
					}
				}
			}
			return true
		}
		for _, g := range Guards(C) {
			var T *ssa.Phi
			if GuardNilness(g, func(v ssa.Value) bool {
				ph, isPhi := v.(*ssa.Phi)
				if isPhi && w.Phis[ph] {
					T = ph
					return true
				}
				return false
			}) == 1 && T != nil && nilOnlyWhenExhausted(T, 0) {
				return true
			}
		}
		why = "the copy of the parent's node can be made although the search found (or did not finish looking for) a node with that id"
		return false
	}
	for _, c := range copies {
		ok := false
		for _, f := range elems {
			if lookupOK(f, c) {
				ok = true
				break
			}
		}
		if !ok {
			return false, why
		}
	}
	return true, ""
}

// c04PathFeasible: the branch outcomes of a path do not contradict each other as far as comparisons of the given
// values (cursors) with anything are concerned: the facts about one pair of values are intersected; an empty
// intersection (i < n and i == n) means the path cannot be executed. Two phis of one block with the same inputs are
// one value (`p2stop` and `stopper` of the single-point method).
func c04PathFeasible(conds []Guard, isCursor func(ssa.Value) bool) bool {
	rep := func(v ssa.Value) ssa.Value {
		ph, ok := v.(*ssa.Phi)
		if !ok {
			return v
		}
		for _, in := range ph.Block().Instrs {
			q, isPhi := in.(*ssa.Phi)
			if !isPhi {
				break
			}
			if q == ph {
				return q
			}
			same := len(q.Edges) == len(ph.Edges)
			for i := range q.Edges {
				if same && q.Edges[i] != ph.Edges[i] {
					same = false
				}
			}
			if same {
				return q
			}
		}
		return v
	}
	type key struct{ a, b ssa.Value }
	masks := map[key]int{}
	any := func(ssa.Value) bool { return true }
	for _, g := range conds {
		l, rr, m, ok := c04OrderFact(g.Cond, g.True, isCursor, any)
		if !ok {
			continue
		}
		k := key{rep(l), rep(rr)}
		if old, seen := masks[k]; seen {
			masks[k] = old & m
		} else {
			masks[k] = m
		}
		if masks[k] == 0 {
			return false
		}
	}
	return true
}

// c04Progress (single-point method): every step of the gene walk moves at least one of the two cursors forward by one
// and none backward. The walk's branches depend on the cursors (and the genes at them) only, so a step that moves no
// cursor is repeated for ever, and a cursor that moves back (or jumps) reads a gene twice or outside the list; either
// way no child comes out.
func (r *Run) c04Progress(s *mateShape) {
	p := r.P
	cursors := map[*ssa.Phi]bool{}
	for _, f := range phiWeb(s.chosen).Feeders {
		if _, idx := s.parentGene(f); idx != nil {
			if ph, ok := idx.(*ssa.Phi); ok && ph.Block() == s.walk.Header {
				cursors[ph] = true
			}
		}
	}
	if len(cursors) == 0 {
		r.Undecided(s.name+".walk.progress", p.Pos(s.fn.Pos()), "cannot find the cursors of the gene walk")
		return
	}
	stop := s.skip1.Block()
	paths, complete := EnumRegionPaths(s.fn, s.walk.Header, func(b *ssa.BasicBlock) bool { return b == stop }, 4000)
	if !complete {
		r.Undecided(s.name+".walk.progress", p.Pos(s.fn.Pos()), "too many paths through one walk step")
		return
	}
	r.PathsExplored += len(paths)
	isCursor := func(v ssa.Value) bool {
		ph, ok := v.(*ssa.Phi)
		return ok && cursors[ph]
	}
	// the other integer counters the walk carries from step to step (the single-point method counts the genes taken)
	counters := map[*ssa.Phi]bool{}
	for _, ph := range HeaderPhis(s.walk) {
		if bt, ok := ph.Type().Underlying().(*types.Basic); ok && bt.Info()&types.IsInteger != 0 {
			counters[ph] = true
		}
	}
	for _, ip := range paths {
		closes := ip.End == "cycle" && ip.Blocks[len(ip.Blocks)-1] == s.walk.Header
		if ip.End != "stop" && !closes {
			continue
		}
		if !c04PathFeasible(ip.Conds, isCursor) {
			continue
		}
		total, okStep := 0, true
		for ph := range counters {
			var next ssa.Value
			if closes {
				pred := ip.Blocks[len(ip.Blocks)-2]
				for i, pr := range ph.Block().Preds {
					if pr == pred {
						next = (&IterPath{Blocks: ip.Blocks[:len(ip.Blocks)-1], End: "partial"}).Resolve(ph.Edges[i])
					}
				}
			} else {
				for i, pr := range ph.Block().Preds {
					if s.walk.Blocks[pr] {
						next = ip.ResolveAt(ph.Edges[i])
						break
					}
				}
			}
			switch {
			case next == ssa.Value(ph):
			case c04IsPlusOne(next, ph):
				total++
			default:
				if cursors[ph] {
					okStep = false
				}
			}
		}
		if !okStep || total == 0 {
			r.Bad(s.name+".walk.progress", p.Pos(firstPos(ip)), "a step of the gene walk moves none of the walk's counters forward by one (or moves a cursor otherwise than by +1): the walk repeats the step for ever or reads outside a parent's gene list, and no child is produced", ip.Describe(p)...)
			return
		}
	}
	r.OK(s.name+".walk.progress", p.Pos(firstBlockPos(s.walk.Header)), "every step moves a counter of the walk forward by one and no cursor otherwise")
}

func c04IsPlusOne(v ssa.Value, ph *ssa.Phi) bool {
	b, ok := v.(*ssa.BinOp)
	if !ok || b.Op != token.ADD {
		return false
	}
	x, y := b.X, b.Y
	if y == ssa.Value(ph) {
		x, y = y, x
	}
	k, isK := constInt(y)
	_, isC := y.(*ssa.Const)
	return x == ssa.Value(ph) && isK && isC && k == 1
}

// elemAtMatchedIndex: f loads list[ip] where the position ip was handed out of a scan of the same list value,
//
//	ip := -1; for i := range list { e := list[i]; if <match e> { ip = i; break } }; if ip >= 0 { use list[ip] }
//
// (what an expanded slices.IndexFunc leaves behind). A comparison of ip with a constant that holds where f is loaded
// rules out the incoming edges of ip that carry a constant failing it (the "not found" sentinel); if every edge that
// is left carries one and the same scan index v, then list[ip] is the element list[v] of the iteration on which the
// scan was left, and the branch outcomes known on ALL of those edges hold for it. Returned: those outcomes and the
// in-scan loads of list[v] they speak about.
func elemAtMatchedIndex(f ssa.Value) (conds []Guard, recs map[ssa.Value]bool, ok bool) {
	ld, isLd := f.(*ssa.UnOp)
	if !isLd || ld.Op != token.MUL {
		return nil, nil, false
	}
	ia, isIA := ld.X.(*ssa.IndexAddr)
	if !isIA {
		return nil, nil, false
	}
	ip, isPhi := stripCT(ia.Index).(*ssa.Phi)
	if !isPhi {
		return nil, nil, false
	}
	holds := func(c int64, op token.Token, k int64) bool {
		switch op {
		case token.EQL:
			return c == k
		case token.NEQ:
			return c != k
		case token.LSS:
			return c < k
		case token.LEQ:
			return c <= k
		case token.GTR:
			return c > k
		case token.GEQ:
			return c >= k
		}
		return true
	}
	type fact struct {
		op token.Token
		k  int64
	}
	var facts []fact
	for _, g := range Guards(ld.Block()) {
		x, y, op, isCmp := CmpFact(g.Cond, g.True)
		if !isCmp || stripCT(x) != ssa.Value(ip) {
			continue
		}
		if k, isK := constInt(y); isK {
			facts = append(facts, fact{op, k})
		}
	}
	if len(facts) == 0 {
		return nil, nil, false
	}
	// constants an edge value can stand for (a constant, or a merge of constants and itself)
	var constsOf func(v ssa.Value, seen map[ssa.Value]bool) ([]int64, bool)
	constsOf = func(v ssa.Value, seen map[ssa.Value]bool) ([]int64, bool) {
		v = stripCT(v)
		if k, isK := constInt(v); isK {
			return []int64{k}, true
		}
		ph, isP := v.(*ssa.Phi)
		if !isP || seen[v] {
			return nil, isP && seen[v]
		}
		seen[v] = true
		var out []int64
		for _, e := range ph.Edges {
			ks, okK := constsOf(e, seen)
			if !okK {
				return nil, false
			}
			out = append(out, ks...)
		}
		return out, true
	}
	var v ssa.Value
	var from []*ssa.BasicBlock
	for i, e := range ip.Edges {
		if ks, isK := constsOf(e, map[ssa.Value]bool{ssa.Value(ip): true}); isK {
			for _, c := range ks {
				feasible := true
				for _, fc := range facts {
					if !holds(c, fc.op, fc.k) {
						feasible = false
					}
				}
				if feasible {
					return nil, nil, false // a constant position: nothing is known about the element there
				}
			}
			continue
		}
		e = stripCT(e)
		if v != nil && v != e {
			return nil, nil, false
		}
		v = e
		from = append(from, ip.Block().Preds[i])
	}
	if v == nil || len(from) == 0 {
		return nil, nil, false
	}
	// the in-scan loads of list[v]: same list value, same index value
	recs = map[ssa.Value]bool{}
	Instrs(ld.Parent(), func(_ *ssa.BasicBlock, _ int, in ssa.Instruction) {
		l2, isL := in.(*ssa.UnOp)
		if !isL || l2.Op != token.MUL {
			return
		}
		if a2, isA := l2.X.(*ssa.IndexAddr); isA && a2.X == ia.X && stripCT(a2.Index) == v {
			recs[l2] = true
		}
	})
	if len(recs) == 0 {
		return nil, nil, false
	}
	// outcomes known on every edge that carries v
	for k, pr := range from {
		cs := condsAt(pr, ip.Block())
		if k == 0 {
			conds = cs
			continue
		}
		var keep []Guard
		for _, g := range conds {
			for _, h := range cs {
				if g.Cond == h.Cond && g.True == h.True {
					keep = append(keep, g)
					break
				}
			}
		}
		conds = keep
	}
	return conds, recs, true
}
