package nc

import (
	"fmt"
	"go/token"
	"go/types"
	"strings"

	"golang.org/x/tools/go/ssa"
)

// C12.9 - what a sweep of the fast solver evaluates, from what, and where the value goes.
//
// C12.2 and C12.4 decide the shape of one activation and of one summand. The feed-forward value of an output
// additionally needs (recursive activation)
//   - every output neuron to be evaluated: RecursiveSteps calls the recursion for sensorNeuronCount+i, i = 0..outputs-1;
//   - a neuron that is asked for to be evaluated unless it already has its value (memo flag), never skipped otherwise;
//   - its sum to run over ALL of its incoming links: the summation loop enumerates reverseAdjacentList[node], which
//     the constructor fills with the source of every connection that targets node, adjacentMatrix[source][target]
//     holding that connection's weight;
//   - the source of a forward link to have been evaluated before its signal is read (memo set, or the recursion was
//     called for it on the way), and the forward summand to read neuronSignals (the previous activation belongs to
//     links the cycle marker reports);
//   - the activation result to be stored as neuronSignals[node];
// and (forward step)
//   - the activation to run for every non-sensor neuron [sensorNeuronCount, totalNeuronCount), its result to be kept
//     per neuron, and every such result to be moved into neuronSignals of the same neuron - for exactly that range:
//     starting lower overwrites the loaded inputs - before the step returns.

// c12Counter describes the loop around a block as a counter: the block runs once for iv = start, start+1, ..
// while iv < Bound (the loop may be left early elsewhere).
type c12Counter struct {
	Loop      *Loop
	Stay      *ssa.BasicBlock
	Start     []ssa.Value // entry values of the counter (header-phi form)
	StartZero bool        // range form: the counter is k+1 with k entering as -1
	Bound     ssa.Value
}

// c12CounterOf: iv is the counter of the innermost loop around b, whose header test keeps the iteration inside
// exactly when iv < Bound (any spelling) and dominates b; iv advances by one on every back edge.
func c12CounterOf(fn *ssa.Function, b *ssa.BasicBlock, iv ssa.Value) (*c12Counter, bool) {
	l := InnermostLoop(Loops(fn), b)
	if l == nil || len(l.Header.Succs) != 2 {
		return nil, false
	}
	h := l.Header
	iff, ok := h.Instrs[len(h.Instrs)-1].(*ssa.If)
	if !ok {
		return nil, false
	}
	c := &c12Counter{Loop: l}
	var stayOutcome bool
	switch {
	case l.Blocks[h.Succs[0]] && !l.Blocks[h.Succs[1]]:
		c.Stay, stayOutcome = h.Succs[0], true
	case !l.Blocks[h.Succs[0]] && l.Blocks[h.Succs[1]]:
		c.Stay, stayOutcome = h.Succs[1], false
	default:
		return nil, false
	}
	if !edgeDominates(h, c.Stay, b) {
		return nil, false
	}
	cx, cy, isLess := c13LessThan(iff.Cond, stayOutcome)
	if !isLess || cx != iv {
		return nil, false
	}
	c.Bound = cy
	switch x := iv.(type) {
	case *ssa.Phi:
		if x.Block() != h {
			return nil, false
		}
		nBack := 0
		for i, e := range x.Edges {
			if l.Blocks[h.Preds[i]] {
				if !c13IsPlusOne(e, x) {
					return nil, false
				}
				nBack++
			} else {
				c.Start = append(c.Start, e)
			}
		}
		if nBack == 0 || len(c.Start) == 0 {
			return nil, false
		}
	case *ssa.BinOp:
		k, isPhi := x.X.(*ssa.Phi)
		if !isPhi {
			k, isPhi = x.Y.(*ssa.Phi)
		}
		if !isPhi || !c13IsPlusOne(x, k) || x.Block() != h || k.Block() != h {
			return nil, false
		}
		nBack, nIn := 0, 0
		for i, e := range k.Edges {
			if l.Blocks[h.Preds[i]] {
				if e != ssa.Value(x) {
					return nil, false
				}
				nBack++
			} else {
				if !IsConstIntValue(e, -1) {
					return nil, false
				}
				nIn++
			}
		}
		if nBack == 0 || nIn == 0 {
			return nil, false
		}
		c.StartZero = true
	default:
		return nil, false
	}
	if cy == iv {
		return nil, false
	}
	return c, true
}

// startsAt: all entry values of the counter are of the given kind.
func (c *c12Counter) startsAt(h *c12Hist, tm *Termer, kind string) bool {
	if c.StartZero {
		return kind == "0"
	}
	for _, v := range c.Start {
		if h.kind(tm, v) != kind {
			return false
		}
	}
	return len(c.Start) > 0
}

// c12NilFacts is what a walk knows about error values: which are nil and which are not.
type c12NilFacts struct{ nonNil, isNil map[ssa.Value]bool }

func (f c12NilFacts) clone() c12NilFacts {
	g := c12NilFacts{map[ssa.Value]bool{}, map[ssa.Value]bool{}}
	for k := range f.nonNil {
		g.nonNil[k] = true
	}
	for k := range f.isNil {
		g.isNil[k] = true
	}
	return g
}

func (f c12NilFacts) key() string { return fmt.Sprintf("%d/%d", len(f.nonNil), len(f.isNil)) }

func (f c12NilFacts) learn(cond ssa.Value, outcome bool) {
	g := Guard{Cond: cond, True: outcome}
	var subject ssa.Value
	switch GuardNilness(g, func(v ssa.Value) bool { subject = v; return true }) {
	case -1:
		f.nonNil[subject] = true
	case 1:
		f.isNil[subject] = true
	}
}

// c12FactsOnEdge: the nil-ness facts that hold when control goes from b to s (branch outcomes that dominate b, the
// outcome of b's own test), carried into the phis of s.
func c12FactsOnEdge(b, s *ssa.BasicBlock, f c12NilFacts) c12NilFacts {
	g := f.clone()
	for _, gd := range Guards(b) {
		g.learn(gd.Cond, gd.True)
	}
	if iff, ok := b.Instrs[len(b.Instrs)-1].(*ssa.If); ok && len(b.Succs) == 2 && b.Succs[0] != b.Succs[1] {
		g.learn(iff.Cond, b.Succs[0] == s)
	}
	for i, pr := range s.Preds {
		if pr != b {
			continue
		}
		for _, in := range s.Instrs {
			ph, ok := in.(*ssa.Phi)
			if !ok {
				break
			}
			e := ph.Edges[i]
			if c, isC := e.(*ssa.Const); isC && c.Value == nil && isNillable(c.Type()) {
				g.isNil[ph] = true
			} else if g.nonNil[e] || definitelyNonNil(e) {
				g.nonNil[ph] = true
			} else if g.isNil[e] {
				g.isNil[ph] = true
			}
		}
	}
	return g
}

// c12FeasibleSuccs: the successors of b that the facts do not rule out.
func c12FeasibleSuccs(b *ssa.BasicBlock, f c12NilFacts) []*ssa.BasicBlock {
	iff, ok := b.Instrs[len(b.Instrs)-1].(*ssa.If)
	if !ok || len(b.Succs) != 2 {
		return b.Succs
	}
	var subject ssa.Value
	switch GuardNilness(Guard{Cond: iff.Cond, True: true}, func(v ssa.Value) bool { subject = v; return true }) {
	case -1: // cond true means subject != nil
		if f.nonNil[subject] {
			return b.Succs[:1]
		}
		if f.isNil[subject] {
			return b.Succs[1:]
		}
	case 1: // cond true means subject == nil
		if f.isNil[subject] {
			return b.Succs[:1]
		}
		if f.nonNil[subject] {
			return b.Succs[1:]
		}
	}
	return b.Succs
}

// c12OnlyErrorsVia: every return that can be reached over the edge b -> s is an error return. Error values are
// followed through temporaries: leaving a loop with a non-nil error in a variable and testing that variable behind
// the loop (what an expanded helper's `return err` becomes) does not continue on the `== nil` side.
func c12OnlyErrorsVia(b, s *ssa.BasicBlock) bool {
	seen := map[string]bool{}
	var walk func(x *ssa.BasicBlock, f c12NilFacts) bool
	walk = func(x *ssa.BasicBlock, f c12NilFacts) bool {
		k := fmt.Sprintf("%d:%s", x.Index, f.key())
		if seen[k] {
			return true
		}
		seen[k] = true
		if len(x.Instrs) > 0 {
			if ret, ok := x.Instrs[len(x.Instrs)-1].(*ssa.Return); ok {
				if c12ErrorReturn(ret) {
					return true
				}
				if len(ret.Results) > 0 && f.nonNil[ret.Results[len(ret.Results)-1]] {
					return true
				}
				return false
			}
		}
		for _, y := range c12FeasibleSuccs(x, f) {
			if !walk(y, c12FactsOnEdge(x, y, f)) {
				return false
			}
		}
		return true
	}
	return walk(s, c12FactsOnEdge(b, s, c12NilFacts{map[ssa.Value]bool{}, map[ssa.Value]bool{}}))
}

// c12IterPasses: every way through one iteration of l that starts at `from` passes a block of want before the next
// iteration begins; leaving the loop on the way is accepted only towards error returns.
func c12IterPasses(l *Loop, from *ssa.BasicBlock, want map[*ssa.BasicBlock]bool) bool {
	seen := map[*ssa.BasicBlock]bool{}
	var walk func(pr, x *ssa.BasicBlock) bool
	walk = func(pr, x *ssa.BasicBlock) bool {
		if want[x] {
			return true
		}
		if x == l.Header {
			return false
		}
		if !l.Blocks[x] {
			return pr != nil && c12OnlyErrorsVia(pr, x)
		}
		if seen[x] {
			return true
		}
		seen[x] = true
		if len(x.Succs) == 0 {
			if ret, ok := x.Instrs[len(x.Instrs)-1].(*ssa.Return); ok {
				return c12ErrorReturn(ret)
			}
			return true // panic
		}
		for _, s := range x.Succs {
			if !walk(x, s) {
				return false
			}
		}
		return true
	}
	return walk(nil, from)
}

// c12EarlyExitsAreErrors: the loop is left, other than by its header test, only towards error returns.
func c12EarlyExitsAreErrors(l *Loop) bool {
	for b := range l.Blocks {
		if b == l.Header {
			continue
		}
		for _, s := range b.Succs {
			if !l.Blocks[s] && !c12OnlyErrorsVia(b, s) {
				return false
			}
		}
	}
	return true
}

// c12RecSum is one summand site of the recursion: acc[node] += Src[adj] * matrix[adj][node].
type c12RecSum struct {
	St  *ssa.Store
	Adj ssa.Value
	Src string // neuronSignals | lastActivation
}

// c12RecursiveSums finds the summand sites of the recursive activation (the matcher of C12.4 fast.recursive.sum).
func c12RecursiveSums(ra *ssa.Function) []c12RecSum {
	tr := NewTermer(ra)
	var out []c12RecSum
	Instrs(ra, func(_ *ssa.BasicBlock, _ int, in ssa.Instruction) {
		st, ok := in.(*ssa.Store)
		if !ok {
			return
		}
		ia, ok := st.Addr.(*ssa.IndexAddr)
		if !ok || tr.Of(ia.X).String() != "recv.neuronSignalsBeingProcessed" {
			return
		}
		v := tr.Of(st.Val)
		_, prod, isSum := c12SumParts(v)
		if !isSum {
			return
		}
		for _, o := range [][2]*Term{{prod.Args[0], prod.Args[1]}, {prod.Args[1], prod.Args[0]}} {
			sig, w := o[0], o[1]
			if w.Op == "elem" && len(w.Args) > 1 && w.Args[0].Op == "elem" && len(w.Args[0].Args) > 1 && w.Args[0].Args[0].String() == "recv.adjacentMatrix" {
				// matrix[adj][current] with signal (or last activation) of adj
				adj := w.Args[0].Args[1].V
				cur := w.Args[1].V
				if sig.Op == "elem" && len(sig.Args) > 1 && sig.Args[1].V == adj && cur == ia.Index {
					for _, src := range []string{"neuronSignals", "lastActivation"} {
						if strings.HasSuffix(sig.Args[0].String(), "."+src) {
							out = append(out, c12RecSum{St: st, Adj: adj, Src: src})
							return
						}
					}
				}
			}
		}
	})
	return out
}

// c12ResultStore finds where the value returned by activation call c is stored: X[idx] = c#0.
func c12ResultStore(c ssa.CallInstruction) (st *ssa.Store, ia *ssa.IndexAddr) {
	v := c.Value()
	if v == nil || v.Referrers() == nil {
		return nil, nil
	}
	for _, ref := range *v.Referrers() {
		ex, ok := ref.(*ssa.Extract)
		if !ok || ex.Index != 0 || ex.Referrers() == nil {
			continue
		}
		for _, r2 := range *ex.Referrers() {
			if s, ok := r2.(*ssa.Store); ok && s.Val == ssa.Value(ex) {
				if a, ok := s.Addr.(*ssa.IndexAddr); ok {
					return s, a
				}
			}
		}
	}
	return nil, nil
}

// c12ReachesReturn: a non-error return that can be reached from block `from` without entering one of the loops in
// cover from outside (nil when there is none).
func c12ReachesReturn(from *ssa.BasicBlock, cover map[*ssa.BasicBlock]*Loop) *ssa.Return {
	seen := map[*ssa.BasicBlock]bool{}
	var bad *ssa.Return
	var walk func(b *ssa.BasicBlock)
	walk = func(b *ssa.BasicBlock) {
		if bad != nil || seen[b] {
			return
		}
		seen[b] = true
		if len(b.Instrs) > 0 {
			if ret, ok := b.Instrs[len(b.Instrs)-1].(*ssa.Return); ok {
				if !c12ErrorReturn(ret) {
					bad = ret
				}
				return
			}
		}
		for _, s := range b.Succs {
			if l := cover[s]; l != nil && !l.Blocks[b] {
				continue
			}
			walk(s)
		}
	}
	if l := cover[from]; l != nil {
		return nil
	}
	walk(from)
	return bad
}

// c12Dataflow implements C12.9.
func (r *Run) c12Dataflow(act *ssa.Function) {
	p := r.P
	h := c12NewHist(p)
	fs := p.Func(PkgN, "FastModularNetworkSolver.forwardStep")
	ra := p.Func(PkgN, "FastModularNetworkSolver.recursiveActivateNode")
	rs := p.Func(PkgN, "FastModularNetworkSolver.RecursiveSteps")
	ctor := p.Func(PkgN, "NewFastModularNetworkSolver")
	r.Fn(FuncName(fs), FuncName(ra), FuncName(rs), FuncName(ctor))
	signals := p.Field(PkgN, "FastModularNetworkSolver", "neuronSignals")
	incoming := p.Field(PkgN, "FastModularNetworkSolver", "reverseAdjacentList")
	matrix := p.Field(PkgN, "FastModularNetworkSolver", "adjacentMatrix")

	// ---- RecursiveSteps evaluates every output
	{
		tm := NewTermer(rs)
		calls := CallsTo(rs, ra)
		ok, why := len(calls) > 0, "RecursiveSteps does not call recursiveActivateNode"
		var pos token.Pos = rs.Pos()
		for _, c := range calls {
			pos = c.Pos()
			args := c.Common().Args
			if len(args) < 2 {
				ok, why = false, "the recursion is called without a neuron index"
				break
			}
			arg := args[1]
			var ctr *c12Counter
			form := ""
			if add, isAdd := arg.(*ssa.BinOp); isAdd && add.Op == token.ADD {
				for _, o := range [][2]ssa.Value{{add.X, add.Y}, {add.Y, add.X}} {
					if h.kind(tm, o[0]) != "sensor" {
						continue
					}
					if cc, isC := c12CounterOf(rs, c.Block(), o[1]); isC && cc.startsAt(h, tm, "0") && h.kind(tm, cc.Bound) == "output" {
						ctr, form = cc, "sensorNeuronCount+i, i = 0..outputNeuronCount-1"
					}
				}
			}
			if ctr == nil {
				if cc, isC := c12CounterOf(rs, c.Block(), arg); isC && cc.startsAt(h, tm, "sensor") {
					bt := tm.Of(cc.Bound)
					if bt.Op == "bin" && bt.Name == "+" && len(bt.Args) == 2 {
						a, b := h.kindT(bt.Args[0]), h.kindT(bt.Args[1])
						if (a == "sensor" && b == "output") || (a == "output" && b == "sensor") {
							ctr, form = cc, "index = sensorNeuronCount..sensorNeuronCount+outputNeuronCount-1"
						}
					}
				}
			}
			if ctr == nil {
				ok, why = false, fmt.Sprintf("the call at %s is not made for the neuron indices sensorNeuronCount .. sensorNeuronCount+outputNeuronCount-1 one by one (argument %s)", p.Pos(c.Pos()), tm.Of(arg))
				break
			}
			_ = form
			if !c12IterPasses(ctr.Loop, ctr.Stay, map[*ssa.BasicBlock]bool{c.Block(): true}) {
				ok, why = false, "an iteration of the loop over the outputs can go on to the next output without calling the recursion"
				break
			}
			if !c12EarlyExitsAreErrors(ctr.Loop) {
				ok, why = false, "the loop over the outputs can be left before the last output other than with an error"
				break
			}
			for _, b := range rs.Blocks {
				if len(b.Instrs) == 0 {
					continue
				}
				if ret, isRet := b.Instrs[len(b.Instrs)-1].(*ssa.Return); isRet && !c12ErrorReturn(ret) && !ctr.Loop.Header.Dominates(b) {
					ok, why = false, fmt.Sprintf("the return at %s reports success without the loop over the outputs", p.Pos(ret.Pos()))
				}
			}
		}
		r.Check(ok, "recursive.outputs", p.Pos(pos), "recursiveActivateNode(sensorNeuronCount+i) for every output i; the loop ends early only with an error",
			"RecursiveSteps must evaluate every output neuron, i.e. call the recursion for each index sensorNeuronCount+i, i = 0..outputNeuronCount-1: "+why+"; an output that is not evaluated keeps the value of an earlier evaluation (0 on a new solver)")
	}

	// ---- the recursion
	tm := NewTermer(ra)
	var self ssa.Value
	if len(ra.Params) > 1 {
		self = ra.Params[1]
	}
	same := func(a, b ssa.Value) bool {
		return a == b || (a != nil && b != nil && CanonTerm(tm.Of(a)) == CanonTerm(tm.Of(b)) && !strings.Contains(CanonTerm(tm.Of(a)), "unknown"))
	}
	flags, stray := h.recFlags(ra, act)
	memo := map[*types.Var]bool{}
	for _, u := range flags {
		if u.Memo {
			memo[u.F] = true
		}
	}
	acts := CallsTo(ra, act)
	{
		ok, why := len(acts) > 0, "the recursion has no activation call"
		if stray != nil {
			ok, why = false, fmt.Sprintf("the return at %s reports success although the neuron was not activated in this call and no flag of this neuron (flag[currentNode] == true) says it already has its value", p.Pos(stray.Pos()))
		}
		r.Check(ok, "recursive.evaluates", p.Pos(ra.Pos()), "every successful return lies behind the activation of the neuron or under its memo flag",
			"recursiveActivateNode must activate the neuron it is called for unless the neuron already has its value: "+why+"; the caller then reads a signal that was never computed from the loaded inputs")
	}
	for _, u := range flags {
		if u.Memo {
			// the memo is only ever set inside the recursion: clearing it there makes a neuron that already has its
			// value - a loaded sensor included - be evaluated again, and a sensor is then overwritten by activation(bias)
			ok, why := true, ""
			for _, w := range h.writes(ra, tm, u.F) {
				if st, isSt := w.In.(*ssa.Store); !isSt || !IsConstBool(st.Val, true) {
					ok, why = false, fmt.Sprintf("the write at %s stores something other than true", p.Pos(w.In.Pos()))
				}
			}
			r.Check(ok, "recursive.memo-kept:"+u.F.Name(), p.Pos(ra.Pos()), "the recursion only ever sets "+u.F.Name()+"[node] to true",
				"within one RecursiveSteps a neuron that has its value must keep its memo flag: "+why+"; the neuron is evaluated again when the next target asks for it, and a sensor evaluated like a neuron loses the loaded input")
			continue
		}
		// the cycle marker of a neuron is set only while that neuron is being evaluated: when the recursion hands the
		// neuron back successfully the marker is clear again, otherwise the next target reads lastActivation for it
		left := h.restoresZero(ra, u.F)
		why := ""
		if len(left) > 0 {
			why = fmt.Sprintf("the marker set at %s is still set at the successful return at %s", p.Pos(left[0].Store.Pos()), p.Pos(left[0].Ret.Pos()))
		}
		r.Check(len(left) == 0, "recursive.marker-cleared:"+u.F.Name(), p.Pos(ra.Pos()), u.F.Name()+"[node] is false again whenever the recursion returns successfully",
			"a neuron is \"being evaluated\" only during its own recursive call: "+why+"; every later target of that neuron then treats the forward link as recurrent and adds the previous activation instead of the new signal")
	}
	sums := c12RecursiveSums(ra)
	{
		// all incoming links
		ok, why := len(sums) > 0, "no summand site was recognised"
		blocks := map[*ssa.BasicBlock]bool{}
		var loop *c12Counter
		for _, s := range sums {
			blocks[s.St.Block()] = true
			ld, isLd := s.Adj.(*ssa.UnOp)
			var ia *ssa.IndexAddr
			if isLd && ld.Op == token.MUL {
				ia, _ = ld.X.(*ssa.IndexAddr)
			}
			if ia == nil {
				ok, why = false, fmt.Sprintf("the source neuron of the summand at %s is %s, not an element of the neuron's list of incoming links", p.Pos(s.St.Pos()), tm.Of(s.Adj))
				break
			}
			lt := tm.Of(ia.X)
			if lt.Op != "elem" || len(lt.Args) < 2 || h.solverField(lt.Args[0]) != incoming || lt.Args[1].V != self {
				ok, why = false, fmt.Sprintf("the source neuron of the summand at %s is taken from %s, not from reverseAdjacentList[currentNode] (the sources of the links that end in this neuron)", p.Pos(s.St.Pos()), lt)
				break
			}
			cc, isC := c12CounterOf(ra, s.St.Block(), ia.Index)
			if !isC || !cc.startsAt(h, tm, "0") {
				ok, why = false, fmt.Sprintf("the summand at %s is not inside a loop that takes the incoming links one by one from the first", p.Pos(s.St.Pos()))
				break
			}
			bt := tm.Of(cc.Bound)
			if bt.Op != "len" || CanonTerm(bt.Args[0]) != CanonTerm(lt) {
				ok, why = false, fmt.Sprintf("the loop around the summand at %s runs to %s, not to the number of incoming links len(reverseAdjacentList[currentNode])", p.Pos(s.St.Pos()), bt)
				break
			}
			if loop != nil && loop.Loop.Header != cc.Loop.Header {
				ok, why = false, "the summand sites lie in different loops"
				break
			}
			loop = cc
		}
		if ok {
			// exactly one summand per link: every way through an iteration that goes on to the next link passes one site
			paths, complete := EnumIterPaths(ra, loop.Loop, 400)
			if !complete {
				ok, why = false, "too many ways through one iteration of the loop over the incoming links to decide them all"
			}
			for _, ip := range paths {
				if ip.End != "back" {
					continue // leaving the loop: decided below (errors only)
				}
				n := 0
				for _, sm := range sums {
					if ip.OnPath(sm.St) {
						n++
					}
				}
				if n != 1 && ok {
					ok, why = false, fmt.Sprintf("an iteration of the loop over the incoming links can go on to the next link having added %d summands for this link instead of one", n)
				}
			}
		}
		if ok && !c12EarlyExitsAreErrors(loop.Loop) {
			ok, why = false, "the loop over the incoming links can be left before the last link other than with an error"
		}
		if ok {
			// the activation follows the complete loop
			for _, c := range acts {
				if loop.Loop.Blocks[c.Block()] || !loop.Loop.Header.Dominates(c.Block()) {
					ok, why = false, "the activation call does not follow the loop over the incoming links"
				}
			}
		}
		pos := ra.Pos()
		if len(sums) > 0 {
			pos = sums[0].St.Pos()
		}
		r.Check(ok, "recursive.sources", p.Pos(pos), "one summand for each k = 0..len(reverseAdjacentList[node])-1 with source reverseAdjacentList[node][k], then the activation",
			"the weighted sum of a neuron must run over all of its incoming links: "+why)
	}
	{
		// forward summand: reads neuronSignals of a source that has its value
		ok, why := true, ""
		nForward := 0
		for _, s := range sums {
			cyc := false
			for _, g := range Guards(s.St.Block()) {
				if f, idx, neg, isF := h.flagLoad(tm, g.Cond); isF && !memo[f] && same(idx, s.Adj) && g.True != neg {
					cyc = true
				}
			}
			if cyc {
				continue // the recurrent case: a link out of a neuron that is being evaluated further up (no such link in a feed-forward network)
			}
			nForward++
			if s.Src != "neuronSignals" {
				ok, why = false, fmt.Sprintf("the summand at %s, which is taken for ordinary (forward) links, reads %s[source] instead of neuronSignals[source]", p.Pos(s.St.Pos()), s.Src)
				break
			}
			l := InnermostLoop(Loops(ra), s.St.Block())
			if l == nil {
				ok, why = false, "the forward summand is outside the loop over the incoming links"
				break
			}
			// backwards through the iteration: the memo flag of the source was seen set, or the recursion was called for it
			seen := map[*ssa.BasicBlock]bool{}
			callIn := func(b *ssa.BasicBlock, before int) bool {
				for i, in := range b.Instrs {
					if before >= 0 && i >= before {
						break
					}
					if c, isC := in.(ssa.CallInstruction); isC && c.Common().StaticCallee() == ra && len(c.Common().Args) > 1 && same(c.Common().Args[1], s.Adj) {
						return true
					}
				}
				return false
			}
			var back func(b *ssa.BasicBlock) bool
			back = func(b *ssa.BasicBlock) bool {
				if b == l.Header || !l.Blocks[b] {
					return false
				}
				if seen[b] {
					return true
				}
				seen[b] = true
				for _, pr := range b.Preds {
					if iff, isIf := pr.Instrs[len(pr.Instrs)-1].(*ssa.If); isIf && len(pr.Succs) == 2 && pr.Succs[0] != pr.Succs[1] {
						if f, idx, neg, isF := h.flagLoad(tm, iff.Cond); isF && memo[f] && same(idx, s.Adj) && (pr.Succs[0] == b) != neg {
							continue // the source's memo flag is set on this edge
						}
					}
					if callIn(pr, -1) {
						continue
					}
					if !back(pr) {
						return false
					}
				}
				return true
			}
			if !callIn(s.St.Block(), instrIndex(s.St)) && !back(s.St.Block()) {
				ok, why = false, fmt.Sprintf("the summand at %s can be reached in an iteration without the source's memo flag having been seen set and without the recursion having been called for the source", p.Pos(s.St.Pos()))
				break
			}
		}
		if ok && nForward == 0 {
			ok, why = false, "no summand site is taken for ordinary (forward) links"
		}
		pos := ra.Pos()
		if len(sums) > 0 {
			pos = sums[len(sums)-1].St.Pos()
		}
		r.Check(ok, "recursive.source-evaluated", p.Pos(pos), "the forward summand reads neuronSignals[source] after the source's memo flag was seen set or the recursion was called for it",
			"a forward link must contribute the source's value of THIS evaluation: "+why+"; otherwise the sum mixes in a signal left by an earlier evaluation or step")
	}
	{
		ok, why := len(acts) > 0, "no activation call"
		pos := ra.Pos()
		for _, c := range acts {
			pos = c.Pos()
			st, ia := c12ResultStore(c)
			if st == nil {
				ok, why = false, "the value returned by the activation function is not stored into a per-neuron array"
				break
			}
			f, direct := h.arrayOf(tm, ia.X)
			if f != signals || !direct || !same(ia.Index, self) {
				ok, why = false, fmt.Sprintf("the activation of the neuron is stored into %s, not into neuronSignals[currentNode]", tm.Of(st.Addr))
				break
			}
			if !(st.Block() == c.Block() || c.Block().Dominates(st.Block())) {
				ok, why = false, "the store of the activation does not follow the activation call"
				break
			}
			// every successful return behind the call is behind the store
			for _, b := range ra.Blocks {
				if len(b.Instrs) == 0 {
					continue
				}
				if ret, isRet := b.Instrs[len(b.Instrs)-1].(*ssa.Return); isRet && !c12ErrorReturn(ret) && c12Before(c, ret) && !c12Before(st, ret) {
					ok, why = false, fmt.Sprintf("the return at %s reports success without the activation having been stored", p.Pos(ret.Pos()))
				}
			}
		}
		r.Check(ok, "recursive.result", p.Pos(pos), "neuronSignals[currentNode] = activation(...) before every successful return",
			"the value of the evaluated neuron must become its signal, which the targets' summands and ReadOutputs read: "+why)
	}

	// ---- forward step
	{
		tf := NewTermer(fs)
		facts := CallsTo(fs, act)
		ok, why := len(facts) > 0, "forwardStep has no activation call"
		pos := fs.Pos()
		for _, c := range facts {
			pos = c.Pos()
			args := c.Common().Args
			aIdx, _, okA := elemOfField(tf.Of(args[len(args)-1]), "activationFunctions")
			if !okA {
				ok, why = false, "the activation type is not activationFunctions[i]"
				break
			}
			cc, isC := c12CounterOf(fs, c.Block(), aIdx)
			if !isC || !cc.startsAt(h, tf, "sensor") || h.kind(tf, cc.Bound) != "total" {
				ok, why = false, fmt.Sprintf("the activation at %s is not inside a loop over i = sensorNeuronCount .. totalNeuronCount-1", p.Pos(c.Pos()))
				break
			}
			if !c12IterPasses(cc.Loop, cc.Stay, map[*ssa.BasicBlock]bool{c.Block(): true}) || !c12EarlyExitsAreErrors(cc.Loop) {
				ok, why = false, "the loop over the neurons can skip the activation of a neuron or end early without an error"
				break
			}
			st, ia := c12ResultStore(c)
			if st == nil {
				ok, why = false, "the value returned by the activation function is not stored into a per-neuron array"
				break
			}
			pend, direct := h.arrayOf(tf, ia.X)
			if pend == nil || !direct || ia.Index != aIdx || !(st.Block() == c.Block() || c.Block().Dominates(st.Block())) || !cc.Loop.Blocks[st.Block()] {
				ok, why = false, fmt.Sprintf("the activation of neuron i is stored into %s, not into element i of a per-neuron array of the solver", tf.Of(st.Addr))
				break
			}
			if !c12IterPasses(cc.Loop, cc.Stay, map[*ssa.BasicBlock]bool{st.Block(): true}) {
				ok, why = false, "an iteration can go on to the next neuron without storing the activation"
				break
			}
			// commit: neuronSignals[j] = pend[j] for j = sensorNeuronCount .. totalNeuronCount-1, on every way to a successful return
			loops := Loops(fs)
			cover := map[*ssa.BasicBlock]*Loop{}
			partial := ""
			Instrs(fs, func(_ *ssa.BasicBlock, _ int, in ssa.Instruction) {
				cs, isSt := in.(*ssa.Store)
				if !isSt {
					return
				}
				cia, isIA := cs.Addr.(*ssa.IndexAddr)
				if !isIA {
					return
				}
				if f, d := h.arrayOf(tf, cia.X); f != signals || !d {
					return
				}
				ld, isLd := cs.Val.(*ssa.UnOp)
				if !isLd || ld.Op != token.MUL {
					return
				}
				lia, isIA := ld.X.(*ssa.IndexAddr)
				if !isIA || lia.Index != cia.Index {
					return
				}
				if f, d := h.arrayOf(tf, lia.X); f != pend || !d {
					return
				}
				rg, msg := h.rangeWrite(tf, loops, c12Write{In: cs, Idx: cia.Index})
				if rg == nil {
					partial = fmt.Sprintf("the copy at %s: %s", p.Pos(cs.Pos()), msg)
					return
				}
				if rg.Cond != "all" || rg.Lo != "sensor" || rg.Hi != "total" {
					partial = fmt.Sprintf("the copy at %s runs over [%s, %s) (%s), not over exactly the non-sensor neurons [sensorNeuronCount, totalNeuronCount)", p.Pos(cs.Pos()), rg.Lo, rg.Hi, rg.Cond)
					return
				}
				// the value copied is the activation, not a cleared cell: no store into pend[j] before the load in the iteration
				for _, w := range h.writes(fs, tf, pend) {
					if w.Idx == cia.Index && rg.Loop.Blocks[w.In.Block()] && c12Before(w.In, ld) {
						partial = fmt.Sprintf("the copy at %s reads %s[j] after it was overwritten at %s", p.Pos(cs.Pos()), pend.Name(), p.Pos(w.In.Pos()))
						return
					}
				}
				cover[rg.Loop.Header] = rg.Loop
			})
			var exit *ssa.BasicBlock
			for _, s := range cc.Loop.Header.Succs {
				if !cc.Loop.Blocks[s] {
					exit = s
				}
			}
			if exit == nil {
				ok, why = false, "the activation loop has no exit"
				break
			}
			if ret := c12ReachesReturn(exit, cover); ret != nil {
				ok, why = false, fmt.Sprintf("forwardStep can return at %s without having moved every new activation %s[j] into neuronSignals[j], j = sensorNeuronCount .. totalNeuronCount-1", p.Pos(ret.Pos()), pend.Name())
				if partial != "" {
					why += " (" + partial + ")"
				}
				break
			}
			if partial != "" {
				ok, why = false, partial
				break
			}
		}
		r.Check(ok, "forward.activates-all", p.Pos(pos), "every neuron i in [sensorNeuronCount, totalNeuronCount) is activated, the result kept under i and moved into neuronSignals[i] for exactly that range before the step returns",
			"one forward step must give every non-sensor neuron its new activation and nothing else: "+why+"; a neuron left out keeps a stale signal, a range starting below sensorNeuronCount overwrites the loaded inputs")
	}

	// ---- the constructor builds what the recursion walks
	{
		tc := NewTermer(ctor)
		conns := -1
		for i, prm := range ctor.Params {
			if prm.Name() == "connections" {
				conns = i
			}
		}
		// term of connections[k].<field> -> k
		linkField := func(t *Term, field string) (ssa.Value, bool) {
			if t == nil || t.Op != "field" || t.Name != field || len(t.Args) == 0 {
				return nil, false
			}
			e := t.Args[0]
			if e.Op != "elem" || len(e.Args) < 2 || !isParamIdx(e.Args[0], conns) {
				return nil, false
			}
			return e.Args[1].V, true
		}
		perLink := func(st *ssa.Store, k ssa.Value) string {
			cc, isC := c12CounterOf(ctor, st.Block(), k)
			if !isC || !cc.startsAt(h, tc, "0") {
				return "is not inside a loop that takes the connections one by one from the first"
			}
			bt := tc.Of(cc.Bound)
			if bt.Op != "len" || !isParamIdx(bt.Args[0], conns) {
				return "is inside a loop that does not run to len(connections)"
			}
			if !c12IterPasses(cc.Loop, cc.Stay, map[*ssa.BasicBlock]bool{st.Block(): true}) {
				return "is skipped for some connections"
			}
			for b := range cc.Loop.Blocks {
				if b == cc.Loop.Header {
					continue
				}
				for _, s := range b.Succs {
					if !cc.Loop.Blocks[s] {
						return "is inside a loop that can end before the last connection"
					}
				}
			}
			return ""
		}
		okW, whyW := false, "no store adjacentMatrix[connections[k].SourceIndex][connections[k].TargetIndex] = connections[k].Weight was found"
		okI, whyI := false, "no store reverseAdjacentList[connections[k].TargetIndex] = append(reverseAdjacentList[connections[k].TargetIndex], connections[k].SourceIndex) was found"
		okEmpty := true
		Instrs(ctor, func(_ *ssa.BasicBlock, _ int, in ssa.Instruction) {
			st, isSt := in.(*ssa.Store)
			if !isSt {
				return
			}
			ia, isIA := st.Addr.(*ssa.IndexAddr)
			if !isIA {
				return
			}
			base := tc.Of(ia.X)
			switch {
			case base.Op == "elem" && len(base.Args) > 1 && h.solverField(base.Args[0]) == matrix:
				// adjacentMatrix[a][b] = v
				ka, isA := linkField(tc.Of(base.Args[1].V), "SourceIndex")
				kb, isB := linkField(tc.Of(ia.Index), "TargetIndex")
				kv, isV := linkField(tc.Of(st.Val), "Weight")
				if !isA || !isB || !isV || ka != kb || ka != kv {
					okW, whyW = false, fmt.Sprintf("the store at %s sets %s to %s; expected adjacentMatrix[connections[k].SourceIndex][connections[k].TargetIndex] = connections[k].Weight for one k", p.Pos(st.Pos()), tc.Of(st.Addr), tc.Of(st.Val))
					return
				}
				if msg := perLink(st, ka); msg != "" {
					okW, whyW = false, fmt.Sprintf("the weight store at %s %s", p.Pos(st.Pos()), msg)
					return
				}
				okW = true
			case h.solverField(base) == incoming:
				// reverseAdjacentList[b] = ...
				ab, elems, isApp := appendCall(st.Val)
				if !isApp {
					// initialisation: must be an empty list
					empty := false
					switch v := st.Val.(type) {
					case *ssa.MakeSlice:
						empty = IsConstIntValue(v.Len, 0)
					case *ssa.Slice:
						if pt, isP := v.X.Type().Underlying().(*types.Pointer); isP {
							if at, isArr := pt.Elem().Underlying().(*types.Array); isArr && at.Len() == 0 {
								empty = true
							}
						}
					case *ssa.Const:
						empty = v.Value == nil
					}
					if !empty {
						okEmpty = false
						whyI = fmt.Sprintf("the list of incoming links is initialised at %s with something other than an empty list", p.Pos(st.Pos()))
					}
					return
				}
				kb, isB := linkField(tc.Of(ia.Index), "TargetIndex")
				okBase := CanonTerm(tc.Of(ab)) == CanonTerm(tc.Of(st.Addr)) || CanonTerm(tc.Of(ab)) == CanonTerm(&Term{Op: "elem", Args: []*Term{base, tc.Of(ia.Index)}})
				var ka ssa.Value
				isA := false
				if len(elems) == 1 {
					ka, isA = linkField(tc.Of(elems[0]), "SourceIndex")
				}
				if !isB || !isA || ka != kb || !okBase {
					okI, whyI = false, fmt.Sprintf("the store at %s sets %s to %s; expected reverseAdjacentList[connections[k].TargetIndex] extended by connections[k].SourceIndex for one k", p.Pos(st.Pos()), tc.Of(st.Addr), tc.Of(st.Val))
					return
				}
				if msg := perLink(st, ka); msg != "" {
					okI, whyI = false, fmt.Sprintf("the append at %s %s", p.Pos(st.Pos()), msg)
					return
				}
				okI = true
			}
		})
		r.Check(okW, "constructor.weights", p.Pos(ctor.Pos()), "adjacentMatrix[source][target] = weight for every connection", "the recursive activation multiplies by adjacentMatrix[source][node]: "+whyW)
		r.Check(okI && okEmpty, "constructor.incoming", p.Pos(ctor.Pos()), "reverseAdjacentList[target] starts empty and receives the source of every connection", "the recursive activation sums over reverseAdjacentList[node], which must hold exactly the sources of the connections that end in node: "+whyI)
		// sensorNeuronCount = biasNeuronCount + inputNeuronCount
		okS := false
		sensorF := p.Field(PkgN, "FastModularNetworkSolver", "sensorNeuronCount")
		sts := FieldStores(ctor, sensorF)
		for _, st := range sts {
			t := tc.Of(st.Val)
			okS = t.Op == "bin" && t.Name == "+" && len(t.Args) == 2 && ((isParamIdx(t.Args[0], 0) && isParamIdx(t.Args[1], 1)) || (isParamIdx(t.Args[0], 1) && isParamIdx(t.Args[1], 0)))
			if !okS {
				break
			}
		}
		r.Check(okS && len(sts) > 0, "constructor.sensor-count", p.Pos(ctor.Pos()), "sensorNeuronCount = biasNeuronCount + inputNeuronCount", "every sweep treats [0, sensorNeuronCount) as the loaded neurons and starts evaluating at sensorNeuronCount; the constructor must set it to biasNeuronCount + inputNeuronCount")
	}
}

// c12StdLoad is the verdict on Network.LoadSensors (C12.3 standard.bias-default, C12.6 standard.LoadSensors).
type c12StdLoad struct {
	OKBias, OKLoad   bool
	WhyBias, WhyLoad string
}

// c12StdLoadSensors decides, for every way through one iteration of the loop(s) of Network.LoadSensors over
// n.inputs, what the node of that iteration receives. Whether the caller supplied the bias values
// (len(sensors) == len(inputs)) and what kind of node it is are read off the branch outcomes of the path (boolean
// temporaries resolved along the path) and of the branches around the loop, so the same facts are found whether the
// two cases have a loop each or share one:
//   - bias supplied,     node.IsSensor():               SensorLoad(sensors[k]), k advances by one;
//   - bias supplied,     not a sensor:                  no value is consumed;
//   - bias not supplied, NeuronType == InputNeuron:     SensorLoad(sensors[k]), k advances by one;
//   - bias not supplied, NeuronType != InputNeuron:     SensorLoad(1.0), no value is consumed  (standard.bias-default);
//
// k starts at 0, every node of n.inputs is visited in order and the loop is not left early.
func c12StdLoadSensors(p *Prog) c12StdLoad {
	res := c12StdLoad{OKBias: true, OKLoad: true}
	failLoad := func(f string, a ...interface{}) {
		if res.OKLoad {
			res.OKLoad, res.WhyLoad = false, fmt.Sprintf(f, a...)
		}
	}
	failBias := func(f string, a ...interface{}) {
		if res.OKBias {
			res.OKBias, res.WhyBias = false, fmt.Sprintf(f, a...)
		}
	}
	nls := p.Func(PkgN, "Network.LoadSensors")
	sl := p.Func(PkgN, "NNode.SensorLoad")
	isSensorFn := p.Func(PkgN, "NNode.IsSensor")
	inputConst := p.Const(PkgN, "InputNeuron").Val().ExactString()
	tm := NewTermer(nls)
	calls := CallsTo(nls, sl)
	if len(calls) == 0 {
		failLoad("Network.LoadSensors never calls SensorLoad")
		failBias("Network.LoadSensors never calls SensorLoad")
		return res
	}
	loops := Loops(nls)
	byHeader := map[*ssa.BasicBlock]*Loop{}
	var order []*Loop
	for _, c := range calls {
		l := InnermostLoop(loops, c.Block())
		if l == nil {
			failLoad("the SensorLoad at %s is not inside the loop over the input nodes", p.Pos(c.Pos()))
			return res
		}
		if byHeader[l.Header] == nil {
			byHeader[l.Header] = l
			order = append(order, l)
		}
	}
	same := func(a, b ssa.Value) bool { return a == b || CanonTerm(tm.Of(a)) == CanonTerm(tm.Of(b)) }
	isSupplied := func(g Guard) int {
		x, y, op, ok := CmpFact(g.Cond, g.True)
		if !ok {
			return 0
		}
		tx, ty := tm.Of(x).String(), tm.Of(y).String()
		if !((tx == "len(p1)" && ty == "len(recv.inputs)") || (ty == "len(p1)" && tx == "len(recv.inputs)")) {
			return 0
		}
		switch op {
		case token.EQL:
			return 1
		case token.NEQ:
			return -1
		}
		return 0
	}
	seenMode := map[int]bool{}
	biasPaths := 0
	for _, l := range order {
		var node ssa.Value
		var ctr *ssa.Phi
		type load struct {
			c     ssa.CallInstruction
			value bool // sensors[k]; otherwise the constant 1
		}
		var loads []load
		for _, c := range calls {
			if !l.Blocks[c.Block()] {
				continue
			}
			a := c.Common().Args
			// the node: n.inputs[j] of the iteration
			ld, isLd := c12StripCT(a[0]).(*ssa.UnOp)
			var ia *ssa.IndexAddr
			if isLd && ld.Op == token.MUL {
				ia, _ = ld.X.(*ssa.IndexAddr)
			}
			if ia == nil || tm.Of(ia.X).String() != "recv.inputs" {
				failLoad("the SensorLoad at %s is called on %s, not on the input node of the iteration", p.Pos(c.Pos()), tm.Of(a[0]))
				return res
			}
			cc, isC := c12CounterOf(nls, c.Block(), ia.Index)
			zero := isC && cc.StartZero
			if isC && !zero {
				zero = len(cc.Start) > 0
				for _, v := range cc.Start {
					if !IsConstIntValue(v, 0) {
						zero = false
					}
				}
			}
			if !isC || !zero || cc.Loop.Header != l.Header || tm.Of(cc.Bound).String() != "len(recv.inputs)" {
				failLoad("the loop around the SensorLoad at %s does not visit n.inputs[0], n.inputs[1], .. up to the last input node", p.Pos(c.Pos()))
				return res
			}
			if node == nil {
				node = a[0]
			} else if !same(node, a[0]) {
				failLoad("the SensorLoad calls of one loop address different nodes")
				return res
			}
			// what is loaded
			if k := constTermOf(a[1]); k != nil {
				if k.Name != "1" {
					failBias("the constant loaded at %s is %s, not the bias value 1.0", p.Pos(c.Pos()), k.Name)
				}
				loads = append(loads, load{c, false})
				continue
			}
			vl, isVl := a[1].(*ssa.UnOp)
			var via *ssa.IndexAddr
			if isVl && vl.Op == token.MUL {
				via, _ = vl.X.(*ssa.IndexAddr)
			}
			if via == nil || !isParamIdx(tm.Of(via.X), 1) {
				failLoad("the value loaded at %s is %s, not an element of the sensors argument", p.Pos(c.Pos()), tm.Of(a[1]))
				return res
			}
			ph, isPhi := via.Index.(*ssa.Phi)
			if !isPhi || ph.Block() != l.Header || (ctr != nil && ctr != ph) {
				failLoad("the value loaded at %s is sensors[%s]; its index is not one counter of consumed values that is carried from node to node", p.Pos(c.Pos()), tm.Of(via.Index))
				return res
			}
			ctr = ph
			loads = append(loads, load{c, true})
		}
		if ctr != nil {
			for i, e := range ctr.Edges {
				if !l.Blocks[l.Header.Preds[i]] && !IsConstIntValue(e, 0) {
					failLoad("the counter of consumed sensor values enters the loop as %s, not as 0", tm.Of(e))
				}
			}
		}
		for b := range l.Blocks {
			if b == l.Header {
				continue
			}
			for _, s := range b.Succs {
				if !l.Blocks[s] {
					failLoad("the loop over the input nodes can be left before the last node")
				}
			}
		}
		gsH := Guards(l.Header)
		for _, g := range gsH {
			if isSupplied(g) == 0 {
				failLoad("the loop over the input nodes runs only under a condition other than len(sensors) == len(inputs)")
			}
		}
		paths, complete := EnumIterPaths(nls, l, 400)
		if !complete {
			failLoad("too many ways through one iteration of the loop over the input nodes to decide them all")
			return res
		}
		for _, ip := range paths {
			if ip.End != "back" {
				if len(ip.Blocks) == 2 && ip.Blocks[0] == l.Header {
					continue // the header test ends the loop
				}
				failLoad("an iteration of the loop over the input nodes can leave the loop")
				continue
			}
			supplied, isInput, isSensor := 0, 0, 0
			for _, g := range append(append([]Guard{}, gsH...), ip.Conds...) {
				if m := isSupplied(g); m != 0 {
					supplied = m
				}
				if x, y, op, ok := CmpFact(g.Cond, g.True); ok && (op == token.EQL || op == token.NEQ) {
					tx := tm.Of(x)
					if tx.Op == "field" && tx.Name == "NeuronType" && len(tx.Args) == 1 && node != nil && CanonTerm(tx.Args[0]) == CanonTerm(tm.Of(node)) && tm.Of(y).String() == inputConst {
						if op == token.EQL {
							isInput = 1
						} else {
							isInput = -1
						}
					}
				}
				if c, neg := c13StripNot(g.Cond); true {
					if call, isCall := c.(*ssa.Call); isCall && call.Call.StaticCallee() == isSensorFn && len(call.Call.Args) > 0 && node != nil && same(call.Call.Args[0], node) {
						if g.True != neg {
							isSensor = 1
						} else {
							isSensor = -1
						}
					}
				}
			}
			nValue, nBias := 0, 0
			for _, ld := range loads {
				if ip.OnPath(ld.c) {
					if ld.value {
						nValue++
					} else {
						nBias++
					}
				}
			}
			advanced, unchanged := false, true
			if ctr != nil {
				next := ip.NextValue(ctr)
				advanced = next != nil && c13IsPlusOne(next, ctr)
				unchanged = next == ssa.Value(ctr)
			}
			if supplied == 0 {
				failLoad("on a way through the loop over the input nodes it is not known whether the bias values were supplied (len(sensors) == len(inputs))")
				continue
			}
			seenMode[supplied] = true
			takes := (supplied == 1 && isSensor == 1) || (supplied == -1 && isInput == 1)
			skips := (supplied == 1 && isSensor == -1) || (supplied == -1 && isInput == -1)
			switch {
			case takes:
				if nValue != 1 || nBias != 0 || !advanced {
					failLoad("a node that takes a sensor value (bias supplied=%v) receives %d value(s) and %d constant(s), counter advanced by one=%v; expected SensorLoad(sensors[k]) once and k+1 for the next node", supplied == 1, nValue, nBias, advanced)
				}
			case skips:
				if nValue != 0 || !unchanged {
					failLoad("a node that takes no sensor value (bias supplied=%v) consumes one (loads=%d, counter unchanged=%v): the following input nodes receive the wrong elements", supplied == 1, nValue, unchanged)
				}
				if supplied == -1 {
					biasPaths++
					if nBias != 1 {
						failBias("with the bias values not supplied, a node of n.inputs that is not an InputNeuron (a bias node) receives %d constant load(s); it must be loaded with 1.0 exactly once", nBias)
					}
				}
			default:
				failLoad("on a way through the loop over the input nodes (bias supplied=%v) neither IsSensor() nor NeuronType == InputNeuron decides whether the node takes a value", supplied == 1)
			}
		}
	}
	if !seenMode[1] || !seenMode[-1] {
		failLoad("the input nodes are not loaded in both cases: bias values supplied=%v, not supplied=%v", seenMode[1], seenMode[-1])
	}
	if biasPaths == 0 {
		failBias("no way through the loop handles a non-input node when the bias values are not supplied")
	}
	return res
}
