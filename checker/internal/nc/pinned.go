package nc

import (
	_ "embed"
	"go/ast"
	"go/types"
	"sort"
	"strings"

	"golang.org/x/tools/go/packages"
)

// pinned_funcs.txt lists every function and method with a body in the pinned
// tree (types.Func.FullName). It is used only to decide which functions are
// NEW (see normalize.go); it never produces an alarm by itself. Regenerate with
// `neatcheck pinned > internal/nc/pinned_funcs.txt` after a fix: commit that
// adds functions to /repo.
//
//go:embed pinned_funcs.txt
var pinnedFuncsTxt string

func PinnedFuncs() map[string]bool {
	out := map[string]bool{}
	for _, l := range strings.Split(pinnedFuncsTxt, "\n") {
		if l = strings.TrimSpace(l); l != "" {
			out[l] = true
		}
	}
	return out
}

// ListFuncs lists the functions with bodies of the repository at dir.
func ListFuncs(dir string) []string {
	cfg := &packages.Config{Mode: packages.LoadSyntax, Dir: dir, Tests: false, Env: loadEnv()}
	pkgs, err := packages.Load(cfg, "./...")
	if err != nil {
		return nil
	}
	var out []string
	for _, pk := range pkgs {
		if !strings.HasPrefix(pk.PkgPath, Mod) {
			continue
		}
		for _, f := range pk.Syntax {
			for _, d := range f.Decls {
				if fd, ok := d.(*ast.FuncDecl); ok && fd.Body != nil {
					if obj, ok := pk.TypesInfo.Defs[fd.Name].(*types.Func); ok {
						out = append(out, obj.FullName())
					}
				}
			}
		}
	}
	sort.Strings(out)
	return out
}
