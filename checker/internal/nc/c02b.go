package nc

import (
	"fmt"
	"go/token"
	"sort"
	"strings"

	"golang.org/x/tools/go/ssa"
)

// c02BestFlag: the epoch fails with "best species died without offspring" when
// the best species is gone and the bestSpeciesReproduced flag is false. The
// flag therefore has to remember that the best species reproduced for the rest
// of the reproduction loop: a store may set it under `id == bestSpeciesId`, or
// keep a previous true (flag = flag || x); a store that every other species'
// result overwrites loses the fact.
func (r *Run) c02BestFlag() {
	p := r.P
	fld := p.Field(PkgG, "SequentialPopulationEpochExecutor", "bestSpeciesReproduced")
	n := 0
	for _, fn := range p.SrcFuncs() {
		if fn.Pkg == nil || fn.Pkg.Pkg.Path() != PkgG {
			continue
		}
		sts := FieldStores(fn, fld)
		if len(sts) == 0 {
			continue
		}
		r.Fn(FuncName(fn))
		tm := NewTermer(fn)
		loops := Loops(fn)
		for _, st := range sts {
			n++
			label := "best-flag." + fn.Name()
			if InnermostLoop(loops, st.Block()) == nil {
				// outside the reproduction loops: initialisation
				r.OK(label, p.Pos(st.Pos()), "store outside a loop (initialisation)")
				continue
			}
			guarded := false
			for _, g := range Guards(st.Block()) {
				gt := tm.Of(g.Cond)
				if gt.Op == "bin" && ((gt.Name == "==" && g.True) || (gt.Name == "!=" && !g.True)) {
					a, b := gt.Args[0].String(), gt.Args[1].String()
					if strings.HasSuffix(a, ".bestSpeciesId") != strings.HasSuffix(b, ".bestSpeciesId") {
						guarded = true
					}
				}
			}
			if guarded {
				r.OK(label, p.Pos(st.Pos()), "set only for the result of the species whose id is bestSpeciesId")
				continue
			}
			// monotone form: every leaf of the stored value is `true` where the
			// old flag was true, anything where it was false
			mono := true
			var walk func(v ssa.Value, pred *ssa.BasicBlock, d int)
			walk = func(v ssa.Value, pred *ssa.BasicBlock, d int) {
				if ph, ok := v.(*ssa.Phi); ok && d < 6 {
					for i, e := range ph.Edges {
						walk(e, ph.Block().Preds[i], d+1)
					}
					return
				}
				oldTrue, oldFalse := false, false
				bs := []*ssa.BasicBlock{st.Block()}
				if pred != nil {
					bs = append(bs, pred)
				}
				for _, b := range bs {
					for _, g := range Guards(b) {
						if ld, ok := g.Cond.(*ssa.UnOp); ok {
							if fa, ok := ld.X.(*ssa.FieldAddr); ok && fieldOf(fa.X.Type(), fa.Field) == fld {
								if g.True {
									oldTrue = true
								} else {
									oldFalse = true
								}
							}
						}
					}
				}
				if pred != nil {
					if iff, ok := pred.Instrs[len(pred.Instrs)-1].(*ssa.If); ok {
						if ld, ok := iff.Cond.(*ssa.UnOp); ok {
							if fa, ok := ld.X.(*ssa.FieldAddr); ok && fieldOf(fa.X.Type(), fa.Field) == fld && IsConstBool(v, true) {
								oldTrue = true // short-circuit edge of `flag || x`
							}
						}
					}
				}
				if oldFalse || (oldTrue && IsConstBool(v, true)) {
					return
				}
				mono = false
			}
			walk(st.Val, nil, 0)
			r.Check(mono, label, p.Pos(st.Pos()), "the store keeps a previous true (flag = flag || x)",
				"bestSpeciesReproduced is overwritten for every species' result (value "+tm.Of(st.Val).String()+"), not only for the species whose id is bestSpeciesId; the results of the other species reset it, and an epoch in which the best species dissolved into other species fails with 'best species died without offspring'")
		}
	}
	r.Floor("stores to bestSpeciesReproduced", n, 2)
}

// c02NewGenomes: every organism a species delivers wraps a genome made in this call (the result of duplicate or of
// one of the crossovers), never the genome object of a parent: the old generation is destroyed afterwards, genome
// ids are renumbered per organism, and two organisms sharing one genome end up with the same id.
func (r *Run) c02NewGenomes() {
	p := r.P
	fn := p.Func(PkgG, "Species.reproduce")
	newOrg := p.Func(PkgG, "NewOrganism")
	makers := map[*ssa.Function]bool{}
	for _, n := range []string{"Genome.duplicate", "Genome.mateMultipoint", "Genome.mateMultipointAvg", "Genome.mateSinglePoint"} {
		makers[p.Func(PkgG, n)] = true
	}
	tm := NewTermer(fn)
	calls := CallsTo(fn, newOrg)
	for _, c := range calls {
		arg := c.Common().Args[1]
		var bad []string
		for _, v := range NarrowAt(arg, c.Block()) {
			v = stripPtr(v)
			ok := false
			if ex, isEx := v.(*ssa.Extract); isEx && ex.Index == 0 {
				if call, isCall := ex.Tuple.(*ssa.Call); isCall && makers[call.Call.StaticCallee()] {
					ok = true
				}
			}
			if !ok {
				bad = append(bad, tm.Of(v).String())
			}
		}
		sort.Strings(bad)
		r.Check(len(bad) == 0, "reproduce.new-genome", p.Pos(c.Pos()), "the baby's genome is the result of duplicate or of a crossover made in this call",
			"a new organism is created around "+strings.Join(bad, ", ")+", which is not a genome produced by duplicate/mate* in this call: the baby shares its genome with an organism of the old generation (same object, same genome id after renumbering)")
	}
	r.Floor("NewOrganism calls in Species.reproduce", len(calls), 3)
}

// c02ErrorExits: "turning over an epoch succeeds without error" - the reproduction step of both executors fails only
// when something it called failed (the error is handed on) or when the progeny count differs from PopSize. A freshly
// made error under any other condition turns a legal state (e.g. a species left without quota by delta coding) into a
// failed epoch.
func (r *Run) c02ErrorExits() {
	p := r.P
	for _, name := range []string{"SequentialPopulationEpochExecutor.reproduce", "ParallelPopulationEpochExecutor.reproduce"} {
		fn := p.Func(PkgG, name)
		tm := NewTermer(fn)
		n := 0
		okAll := true
		var why string
		for _, b := range fn.Blocks {
			ret, ok := b.Instrs[len(b.Instrs)-1].(*ssa.Return)
			if !ok || len(ret.Results) == 0 {
				continue
			}
			for _, v := range NarrowAt(ret.Results[len(ret.Results)-1], b) {
				fresh := false
				if mi, isMI := v.(*ssa.MakeInterface); isMI {
					v = mi.X
				}
				if c, isC := v.(*ssa.Call); isC {
					if nm, _ := calleeName(&c.Call); nonNilErrorMakers[nm] {
						fresh = true
					}
				}
				if !fresh {
					continue
				}
				n++
				sized := false
				for _, g := range Guards(definingBlock(v, b)) {
					// wrapping the error of something that failed: made under `err != nil` (any spelling: nil != err, !(err == nil), ...)
					if GuardNilness(g, func(x ssa.Value) bool { return x.Type().String() == "error" }) == -1 {
						sized = true
					}
					// the progeny-size check: `len(babies) != PopSize` holds (any spelling)
					if cx, cy, op, isCmp := CmpFact(g.Cond, g.True); isCmp && op == token.NEQ {
						tx, ty := tm.Of(cx).String(), tm.Of(cy).String()
						if strings.Contains(tx+ty, ".PopSize") && strings.Contains(tx+ty, "len(") {
							sized = true
						}
					}
				}
				if !sized {
					okAll = false
					why = "an error made at " + p.Pos(v.Pos()) + " is returned under a condition other than `number of babies != PopSize`"
				}
			}
		}
		r.Check(okAll, "error-exits:"+name, p.Pos(fn.Pos()), fmt.Sprintf("%d freshly made error(s), all under the progeny-size check; every other failure hands on the error of a callee", n),
			name+": "+why+": an epoch over a legal population state fails although no callee failed and the progeny count is right")
	}
}

func definingBlock(v ssa.Value, dflt *ssa.BasicBlock) *ssa.BasicBlock {
	if in, ok := v.(ssa.Instruction); ok && in.Block() != nil {
		return in.Block()
	}
	return dflt
}
