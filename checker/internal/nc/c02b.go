package nc

import (
	"strings"

	"golang.org/x/tools/go/ssa"
)

// c02BestFlag: the epoch fails with "best species died without offspring" when
// the best species is gone and the bestSpeciesReproduced flag is false. The
// flag therefore has to remember that the best species reproduced for the rest
// of the reproduction loop: a store may set it under `id == bestSpeciesId`, or
// keep a previous true (flag = flag || x); a store that every other species'
// result overwrites loses the fact.
func (r *Run) c02BestFlag() {
	p := r.P
	fld := p.Field(PkgG, "SequentialPopulationEpochExecutor", "bestSpeciesReproduced")
	n := 0
	for _, fn := range p.SrcFuncs() {
		if fn.Pkg == nil || fn.Pkg.Pkg.Path() != PkgG {
			continue
		}
		sts := FieldStores(fn, fld)
		if len(sts) == 0 {
			continue
		}
		r.Fn(FuncName(fn))
		tm := NewTermer(fn)
		loops := Loops(fn)
		for _, st := range sts {
			n++
			label := "best-flag." + fn.Name()
			if InnermostLoop(loops, st.Block()) == nil {
				// outside the reproduction loops: initialisation
				r.OK(label, p.Pos(st.Pos()), "store outside a loop (initialisation)")
				continue
			}
			guarded := false
			for _, g := range Guards(st.Block()) {
				gt := tm.Of(g.Cond)
				if gt.Op == "bin" && gt.Name == "==" && g.True {
					a, b := gt.Args[0].String(), gt.Args[1].String()
					if strings.HasSuffix(a, ".bestSpeciesId") != strings.HasSuffix(b, ".bestSpeciesId") {
						guarded = true
					}
				}
			}
			if guarded {
				r.OK(label, p.Pos(st.Pos()), "set only for the result of the species whose id is bestSpeciesId")
				continue
			}
			// monotone form: every leaf of the stored value is `true` where the
			// old flag was true, anything where it was false
			mono := true
			var walk func(v ssa.Value, pred *ssa.BasicBlock, d int)
			walk = func(v ssa.Value, pred *ssa.BasicBlock, d int) {
				if ph, ok := v.(*ssa.Phi); ok && d < 6 {
					for i, e := range ph.Edges {
						walk(e, ph.Block().Preds[i], d+1)
					}
					return
				}
				oldTrue, oldFalse := false, false
				bs := []*ssa.BasicBlock{st.Block()}
				if pred != nil {
					bs = append(bs, pred)
				}
				for _, b := range bs {
					for _, g := range Guards(b) {
						if ld, ok := g.Cond.(*ssa.UnOp); ok {
							if fa, ok := ld.X.(*ssa.FieldAddr); ok && fieldOf(fa.X.Type(), fa.Field) == fld {
								if g.True {
									oldTrue = true
								} else {
									oldFalse = true
								}
							}
						}
					}
				}
				if pred != nil {
					if iff, ok := pred.Instrs[len(pred.Instrs)-1].(*ssa.If); ok {
						if ld, ok := iff.Cond.(*ssa.UnOp); ok {
							if fa, ok := ld.X.(*ssa.FieldAddr); ok && fieldOf(fa.X.Type(), fa.Field) == fld && IsConstBool(v, true) {
								oldTrue = true // short-circuit edge of `flag || x`
							}
						}
					}
				}
				if oldFalse || (oldTrue && IsConstBool(v, true)) {
					return
				}
				mono = false
			}
			walk(st.Val, nil, 0)
			r.Check(mono, label, p.Pos(st.Pos()), "the store keeps a previous true (flag = flag || x)",
				"bestSpeciesReproduced is overwritten for every species' result (value "+tm.Of(st.Val).String()+"), not only for the species whose id is bestSpeciesId; the results of the other species reset it, and an epoch in which the best species dissolved into other species fails with 'best species died without offspring'")
		}
	}
	r.Floor("stores to bestSpeciesReproduced", n, 2)
}
