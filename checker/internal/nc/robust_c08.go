package nc

import (
	"go/constant"
	"go/token"
	"go/types"
	"strings"

	"golang.org/x/tools/go/ssa"
)

// Helpers that let the C08 rules (and the partition rule shared with C02.4 / C10.5)
// recognise the same facts when the small helpers of the library (Species.addOrganism,
// Species.firstOrganism, NewSpeciesNovel) are written out in place.

// memberAdd is one "organism joins a species" action: a call of Species.addOrganism, or
// the body of that helper written in place: S.Organisms = append(S.Organisms, org).
type memberAdd struct {
	In      ssa.Instruction
	Species ssa.Value
	Org     ssa.Value
}

// memberWrite classifies an instruction with respect to a species' organism list.
// add != nil: the instruction lists exactly one organism in one species.
// other: the instruction stores to Species.Organisms in some other way (the list is replaced).
func memberWrite(p *Prog, in ssa.Instruction) (add *memberAdd, other bool) {
	orgsF := p.Field(PkgG, "Species", "Organisms")
	switch x := in.(type) {
	case ssa.CallInstruction:
		if helper := p.FuncOpt(PkgG, "Species.addOrganism"); helper != nil && x.Common().StaticCallee() == helper && len(x.Common().Args) == 2 {
			return &memberAdd{In: in, Species: x.Common().Args[0], Org: x.Common().Args[1]}, false
		}
	case *ssa.Store:
		if StoredField(x) != orgsF {
			return nil, false
		}
		fa := x.Addr.(*ssa.FieldAddr)
		if _, fresh := fa.X.(*ssa.Alloc); fresh {
			// a composite literal initialising its own object
			return nil, false
		}
		if base, elems, ok := appendCall(x.Val); ok && len(elems) == 1 {
			// the whole current list of the same species (not a sub-slice of it) plus one organism
			if _, whole := base.(*ssa.UnOp); whole && fieldLoadedFrom(base, stripPtr(fa.X)) == orgsF {
				return &memberAdd{In: in, Species: fa.X, Org: elems[0]}, false
			}
		}
		return nil, true
	}
	return nil, false
}

// mirrorCmp: the comparison operator after swapping the operands.
func mirrorCmp(op token.Token) token.Token {
	switch op {
	case token.GTR:
		return token.LSS
	case token.LSS:
		return token.GTR
	case token.GEQ:
		return token.LEQ
	case token.LEQ:
		return token.GEQ
	}
	return op
}

// negateCmp: the comparison that holds when `a op b` is false.
func negateCmp(op token.Token) token.Token {
	switch op {
	case token.EQL:
		return token.NEQ
	case token.NEQ:
		return token.EQL
	case token.LSS:
		return token.GEQ
	case token.GEQ:
		return token.LSS
	case token.GTR:
		return token.LEQ
	case token.LEQ:
		return token.GTR
	}
	return token.ILLEGAL
}

// condImpliesEmpty: the branch outcome g implies len(<list>) == 0, where list is the
// origin term of the slice (e.g. "recv.Species[*].Organisms").
func condImpliesEmpty(tm *Termer, g Guard, list string) bool {
	return LenZeroFact(g.Cond, g.True, func(v ssa.Value) bool { return tm.Of(v).String() == list }) > 0
}

// mayPrecede: some execution runs a and later b.
func mayPrecede(a, b ssa.Instruction) bool {
	if a.Block() == b.Block() && instrIndex(a) < instrIndex(b) {
		return true
	}
	seen := map[*ssa.BasicBlock]bool{}
	stack := append([]*ssa.BasicBlock{}, a.Block().Succs...)
	for len(stack) > 0 {
		x := stack[len(stack)-1]
		stack = stack[:len(stack)-1]
		if seen[x] {
			continue
		}
		seen[x] = true
		if x == b.Block() {
			return true
		}
		stack = append(stack, x.Succs...)
	}
	return false
}

// instrDominates: whenever b executes, a has executed before (in the same activation).
func instrDominates(a, b ssa.Instruction) bool {
	if a.Block() == b.Block() {
		return instrIndex(a) < instrIndex(b)
	}
	return a.Block().Dominates(b.Block())
}

// loadOfParamField: v is `*(&pN.f)` for parameter idx of fn; returns the load.
func loadOfParamField(tm *Termer, v ssa.Value, idx int, f *types.Var) *ssa.UnOp {
	u, ok := v.(*ssa.UnOp)
	if !ok || u.Op != token.MUL {
		return nil
	}
	fa, ok := u.X.(*ssa.FieldAddr)
	if !ok || fieldOf(fa.X.Type(), fa.Field) != f || !isParamIdx(tm.Of(fa.X), idx) {
		return nil
	}
	return u
}

// plusOneOfField: v is `pN.f + 1`; returns the load of pN.f it is computed from.
func plusOneOfField(tm *Termer, v ssa.Value, idx int, f *types.Var) *ssa.UnOp {
	b, ok := v.(*ssa.BinOp)
	if !ok || b.Op != token.ADD {
		return nil
	}
	isOne := func(x ssa.Value) bool {
		c, ok := x.(*ssa.Const)
		if !ok || c.Value == nil || c.Value.Kind() != constant.Int {
			return false
		}
		n, exact := constant.Int64Val(c.Value)
		return exact && n == 1
	}
	if isOne(b.Y) {
		return loadOfParamField(tm, b.X, idx, f)
	}
	if isOne(b.X) {
		return loadOfParamField(tm, b.Y, idx, f)
	}
	return nil
}

// freshSpeciesValues lists the values of fn that are a species created in fn: an allocation
// of Species or a call of a function whose constructor summary says it returns a fresh one.
func freshSpeciesValues(p *Prog, sums *Summaries, fn *ssa.Function) []ssa.Value {
	var out []ssa.Value
	isSpeciesPtr := func(t types.Type) bool {
		pt, ok := t.Underlying().(*types.Pointer)
		if !ok {
			return false
		}
		n, ok := pt.Elem().(*types.Named)
		return ok && n.Obj().Name() == "Species" && n.Obj().Pkg() != nil && n.Obj().Pkg().Path() == PkgG
	}
	Instrs(fn, func(_ *ssa.BasicBlock, _ int, in ssa.Instruction) {
		switch x := in.(type) {
		case *ssa.Alloc:
			if isSpeciesPtr(x.Type()) {
				out = append(out, x)
			}
		case *ssa.Call:
			if !isSpeciesPtr(x.Type()) {
				return
			}
			callee := x.Call.StaticCallee()
			if callee == nil || callee.Blocks == nil {
				return
			}
			if sm := sums.Ctor(callee); sm.Why == "" && sm.Fresh {
				out = append(out, x)
			}
		}
	})
	return out
}

// definitelyNonNil: v is never nil - a fresh object, a value boxed into an interface, or the
// result of a library function that never returns a nil error (nonNilErrorMakers, narrow.go).
func definitelyNonNil(v ssa.Value) bool {
	switch y := v.(type) {
	case *ssa.Alloc, *ssa.MakeInterface, *ssa.MakeSlice, *ssa.MakeMap, *ssa.MakeClosure:
		return true
	case *ssa.Call:
		if n, _ := calleeName(&y.Call); nonNilErrorMakers[n] {
			return true
		}
	}
	return false
}

// pathContradictsNil: the path takes a branch `x == nil` (or the false side of `x != nil`) at a
// point where x, as it is on this very path, is a value that is never nil - or the non-nil side
// where x is the constant nil. No execution follows such a path. This is what a helper's
// `return errors.New(...)` followed by the caller's `if err != nil { return err }` looks like once
// the helper is expanded in place: the result variable is a phi, and the edge that carries the
// fresh error cannot continue on the `err == nil` side.
func pathContradictsNil(ip *IterPath) bool {
	for i := 0; i+1 < len(ip.Blocks); i++ {
		b := ip.Blocks[i]
		iff, ok := b.Instrs[len(b.Instrs)-1].(*ssa.If)
		if !ok || len(b.Succs) != 2 || b.Succs[0] == b.Succs[1] {
			continue
		}
		outcome := ip.Blocks[i+1] == b.Succs[0]
		if !outcome && ip.Blocks[i+1] != b.Succs[1] {
			continue
		}
		c, ok := iff.Cond.(*ssa.BinOp)
		if !ok || (c.Op != token.EQL && c.Op != token.NEQ) {
			continue
		}
		x, y := c.X, c.Y
		if k, isK := x.(*ssa.Const); isK && k.Value == nil {
			x, y = y, x
		}
		if k, isK := y.(*ssa.Const); !isK || k.Value != nil {
			continue
		}
		switch x.Type().Underlying().(type) {
		case *types.Pointer, *types.Interface, *types.Slice, *types.Map, *types.Chan, *types.Signature:
		default:
			continue // the zero constant of a type that has no nil
		}
		saysNil := (c.Op == token.EQL) == outcome
		xv := (&IterPath{Blocks: ip.Blocks[:i+1], End: "partial"}).Resolve(x)
		if ct, isCT := xv.(*ssa.ChangeType); isCT {
			xv = ct.X
		}
		if saysNil && definitelyNonNil(xv) {
			return true
		}
		if k, isK := xv.(*ssa.Const); isK && k.Value == nil && !saysNil {
			return true
		}
	}
	return false
}

// expandedHelper: fn (or the function it is nested in) is a function the pinned tree does not have,
// it is not exported, and nothing in the repository refers to it any more - no static call, no use as
// a value, no interface call that could dispatch to it. That is what remains of a helper introduced
// by a refactoring after the source normalisation expanded every call of it in place: its body is
// examined where it was expanded, as part of its callers; the declaration itself is never executed.
func expandedHelper(p *Prog, fn *ssa.Function) bool {
	for fn.Parent() != nil {
		fn = fn.Parent()
	}
	obj, ok := fn.Object().(*types.Func)
	if !ok || obj.Exported() || PinnedFuncs()[obj.FullName()] {
		return false
	}
	sites, closed := repoCallSites(p, fn)
	return closed && len(sites) == 0
}

// ---------------------------------------------------------------------------
// Struct-valued locals. `best := struct{species *Species; compat float64; found bool}{...}` keeps three
// variables in one local that go/ssa does not promote to registers: its fields are read and written
// through FieldAddr of one Alloc. When the address of such a local is used for nothing but reading and
// writing it (whole or field by field), every field is an ordinary private variable, and along a given
// block sequence its value at any point is the value of the last store before that point. The helpers
// below give the rules the same facts for such a field as they get for an SSA-promoted local: the value
// it holds at a point of a path, its value when a loop is entered, whether two reads see the same value.

// cell is one field of a struct-valued local.
type localCell struct {
	a *ssa.Alloc
	f int
}

func (c localCell) typ() types.Type {
	st, ok := deref(c.a.Type()).Underlying().(*types.Struct)
	if !ok || c.f >= st.NumFields() {
		return nil
	}
	return st.Field(c.f).Type()
}

// structLocals lists the allocations of fn that hold a struct whose address never leaves the function and is
// never aliased: every use of the address is a field address that is only loaded from / stored to, a load
// of the whole struct, or a store of a whole struct into it.
func structLocals(fn *ssa.Function) map[*ssa.Alloc]bool {
	out := map[*ssa.Alloc]bool{}
	Instrs(fn, func(_ *ssa.BasicBlock, _ int, in ssa.Instruction) {
		a, ok := in.(*ssa.Alloc)
		if !ok || a.Referrers() == nil {
			return
		}
		if _, isStruct := deref(a.Type()).Underlying().(*types.Struct); !isStruct {
			return
		}
		private := true
		for _, ref := range *a.Referrers() {
			switch x := ref.(type) {
			case *ssa.FieldAddr:
				if x.Referrers() == nil {
					private = false
					break
				}
				for _, r2 := range *x.Referrers() {
					switch y := r2.(type) {
					case *ssa.UnOp:
						private = private && y.Op == token.MUL
					case *ssa.Store:
						private = private && y.Addr == ssa.Value(x) && y.Val != ssa.Value(x)
					case *ssa.DebugRef:
					default:
						private = false
					}
				}
			case *ssa.Store:
				private = private && x.Addr == ssa.Value(a) && x.Val != ssa.Value(a)
			case *ssa.UnOp:
				private = private && x.Op == token.MUL
			case *ssa.DebugRef:
			default:
				private = false
			}
		}
		if private {
			out[a] = true
		}
	})
	return out
}

// cellOfAddr: addr is the address of a field of a tracked struct-valued local.
func cellOfAddr(locals map[*ssa.Alloc]bool, addr ssa.Value) (localCell, bool) {
	fa, ok := addr.(*ssa.FieldAddr)
	if !ok {
		return localCell{}, false
	}
	a, ok := fa.X.(*ssa.Alloc)
	if !ok || !locals[a] {
		return localCell{}, false
	}
	return localCell{a, fa.Field}, true
}

// cellOfLoad: v reads a field of a tracked struct-valued local.
func cellOfLoad(locals map[*ssa.Alloc]bool, v ssa.Value) (localCell, bool) {
	u, ok := v.(*ssa.UnOp)
	if !ok || u.Op != token.MUL {
		return localCell{}, false
	}
	return cellOfAddr(locals, u.X)
}

// writesCell: the instruction (re)defines the cell: a store to the field, a store of a whole struct into the
// local, or the local coming into being (zeroed) again.
func writesCell(locals map[*ssa.Alloc]bool, in ssa.Instruction, c localCell) bool {
	switch x := in.(type) {
	case *ssa.Store:
		if cc, ok := cellOfAddr(locals, x.Addr); ok && cc == c {
			return true
		}
		return x.Addr == ssa.Value(c.a)
	case *ssa.Alloc:
		return x == c.a
	}
	return false
}

// zeroScalarConst: the zero value of a scalar type as an SSA constant (nil for types it is not needed for).
func zeroScalarConst(t types.Type) ssa.Value {
	if t == nil {
		return nil
	}
	switch u := t.Underlying().(type) {
	case *types.Pointer, *types.Slice, *types.Map, *types.Interface, *types.Chan, *types.Signature:
		return ssa.NewConst(nil, t)
	case *types.Basic:
		switch {
		case u.Info()&types.IsBoolean != 0:
			return ssa.NewConst(constant.MakeBool(false), t)
		case u.Info()&types.IsInteger != 0:
			return ssa.NewConst(constant.MakeInt64(0), t)
		case u.Info()&types.IsFloat != 0:
			return ssa.NewConst(constant.MakeFloat64(0), t)
		case u.Info()&types.IsString != 0:
			return ssa.NewConst(constant.MakeString(""), t)
		}
	}
	return nil
}

// localPathSeq is the instruction sequence of a block sequence (one execution order).
type localPathSeq struct {
	fn     *ssa.Function
	locals map[*ssa.Alloc]bool
	ins    []ssa.Instruction
	at     map[ssa.Instruction][]int
}

func newLocalPathSeq(fn *ssa.Function, locals map[*ssa.Alloc]bool, blocks []*ssa.BasicBlock) *localPathSeq {
	s := &localPathSeq{fn: fn, locals: locals, at: map[ssa.Instruction][]int{}}
	for _, b := range blocks {
		for _, in := range b.Instrs {
			s.at[in] = append(s.at[in], len(s.ins))
			s.ins = append(s.ins, in)
		}
	}
	return s
}

// posOf: the one position of an instruction that executes exactly once on the path (-1 otherwise).
func (s *localPathSeq) posOf(v ssa.Value) int {
	in, ok := v.(ssa.Instruction)
	if !ok || len(s.at[in]) != 1 {
		return -1
	}
	return s.at[in][0]
}

// localCellVal is what a cell holds at a point of a path.
type localCellVal struct {
	V     ssa.Value // the value stored last (a constant for a field never written since the local was created)
	Start bool      // not written on the path before that point: the value the cell had when the path began
}

// before: the value of cell c just before position k of the path. ok=false: written in a way that is not understood.
func (s *localPathSeq) before(c localCell, k int, depth int) (cv localCellVal, ok bool) {
	if depth > 8 {
		return localCellVal{}, false
	}
	if k > len(s.ins) {
		k = len(s.ins)
	}
	for i := k - 1; i >= 0; i-- {
		switch x := s.ins[i].(type) {
		case *ssa.Alloc:
			if x == c.a {
				z := zeroScalarConst(c.typ())
				return localCellVal{V: z}, z != nil
			}
		case *ssa.Store:
			if cc, isCell := cellOfAddr(s.locals, x.Addr); isCell && cc == c {
				return s.resolve(x.Val, i, depth+1)
			}
			if x.Addr != ssa.Value(c.a) {
				continue
			}
			// a whole struct stored into the local: the field of the struct stored
			switch y := x.Val.(type) {
			case *ssa.Const:
				z := zeroScalarConst(c.typ())
				return localCellVal{V: z}, z != nil
			case *ssa.UnOp:
				src, isLocal := y.X.(*ssa.Alloc)
				if y.Op != token.MUL || !isLocal || !s.locals[src] || !types.Identical(deref(src.Type()), deref(c.a.Type())) {
					return localCellVal{}, false
				}
				j := -1
				for _, q := range s.at[y] {
					if q < i && q > j {
						j = q
					}
				}
				if j < 0 {
					return localCellVal{}, false
				}
				cv, ok := s.before(localCell{src, c.f}, j, depth+1)
				if ok && cv.Start {
					return localCellVal{}, false // the source local's state at the start of the path says nothing about c
				}
				return cv, ok
			}
			return localCellVal{}, false
		}
	}
	return localCellVal{Start: true}, true
}

// resolve: the value v (used at position k) stands for: a read of a cell is replaced by what the cell held.
func (s *localPathSeq) resolve(v ssa.Value, k int, depth int) (localCellVal, bool) {
	c, isLoad := cellOfLoad(s.locals, v)
	if !isLoad {
		return localCellVal{V: v}, true
	}
	j := -1
	for _, q := range s.at[v.(ssa.Instruction)] {
		if q <= k && q > j {
			j = q
		}
	}
	if j < 0 {
		return localCellVal{}, false // read before the path began
	}
	cv, ok := s.before(c, j, depth+1)
	if !ok {
		return localCellVal{}, false
	}
	if cv.Start {
		// the start value of another cell (or of the same one: then nothing changes, which the caller sees as V == load of c)
		return localCellVal{V: v, Start: true}, true
	}
	return cv, true
}

// sameValue: a and b are the same value on this path: the same SSA value, or two reads of the same cell with
// no write to the cell between them - neither on the path nor in a loop nested in `within` that the path
// segment passes through (the path shows such a loop at most once, an execution may go round it many times).
func (s *localPathSeq) sameValue(a, b ssa.Value, loops []*Loop, within *Loop) bool {
	if a == b {
		return true
	}
	ca, okA := cellOfLoad(s.locals, a)
	cb, okB := cellOfLoad(s.locals, b)
	if !okA || !okB || ca != cb {
		return false
	}
	i, j := s.posOf(a), s.posOf(b)
	if i < 0 || j < 0 {
		return false
	}
	if i > j {
		i, j = j, i
	}
	for k := i; k <= j; k++ {
		if writesCell(s.locals, s.ins[k], ca) {
			return false
		}
		blk := s.ins[k].Block()
		for _, l := range loops {
			if !l.Blocks[blk] || (within != nil && l.Blocks[within.Header]) {
				continue // not around this point, or `within` itself / a loop around it
			}
			for lb := range l.Blocks {
				for _, in := range lb.Instrs {
					if writesCell(s.locals, in, ca) {
						return false
					}
				}
			}
		}
	}
	return true
}

// scanVar is a variable carried around a loop: an SSA-promoted local (a phi of the loop header) or a field of
// a struct-valued local that is written inside the loop.
type scanVar struct {
	phi  *ssa.Phi
	cell *localCell
}

func (v *scanVar) typ() types.Type {
	if v.phi != nil {
		return v.phi.Type()
	}
	return v.cell.typ()
}

// loopCells: the cells written inside loop l whose local is created outside it.
func loopCells(fn *ssa.Function, locals map[*ssa.Alloc]bool, l *Loop) []localCell {
	var out []localCell
	seen := map[localCell]bool{}
	for _, b := range fn.Blocks {
		if !l.Blocks[b] {
			continue
		}
		for _, in := range b.Instrs {
			st, ok := in.(*ssa.Store)
			if !ok {
				continue
			}
			if c, isCell := cellOfAddr(locals, st.Addr); isCell && !seen[c] && !l.Blocks[c.a.Block()] {
				seen[c] = true
				out = append(out, c)
			}
		}
	}
	return out
}

// initValues: the values the variable can have when loop l is entered.
func (v *scanVar) initValues(fn *ssa.Function, locals map[*ssa.Alloc]bool, l *Loop) (vals []ssa.Value, ok bool) {
	if v.phi != nil {
		for i, e := range v.phi.Edges {
			if !l.Blocks[v.phi.Block().Preds[i]] {
				vals = append(vals, e)
			}
		}
		return vals, len(vals) > 0
	}
	// the straight-line code in front of the loop: the entering predecessor and its chain of single predecessors
	for _, pr := range l.Header.Preds {
		if l.Blocks[pr] {
			continue
		}
		chain := []*ssa.BasicBlock{pr}
		for n := 0; n < 64 && len(chain[0].Preds) == 1 && !l.Blocks[chain[0].Preds[0]]; n++ {
			chain = append([]*ssa.BasicBlock{chain[0].Preds[0]}, chain...)
		}
		s := newLocalPathSeq(fn, locals, chain)
		cv, known := s.before(*v.cell, len(s.ins), 0)
		if !known || cv.Start || cv.V == nil {
			return nil, false
		}
		vals = append(vals, cv.V)
	}
	return vals, len(vals) > 0
}

// next: the value the variable has at the end of the iteration path (seq = the path without the closing header
// revisit). updated=false: the variable is left as it was. known=false: written in a way that is not understood.
func (v *scanVar) next(ip *IterPath, s *localPathSeq) (val ssa.Value, updated, known bool) {
	if v.phi != nil {
		n := ip.NextValue(v.phi)
		return n, n != ssa.Value(v.phi), n != nil
	}
	cv, ok := s.before(*v.cell, len(s.ins), 0)
	if !ok {
		return nil, true, false
	}
	if cv.Start {
		if cv.V != nil {
			// overwritten with the start value of some cell: unchanged only when it is this one
			if c, isLoad := cellOfLoad(s.locals, cv.V); isLoad && c == *v.cell {
				return cv.V, false, true
			}
			return cv.V, true, false
		}
		return nil, false, true
	}
	return cv.V, true, true
}

// isCurrent: x is the value the variable has at the start of the iteration (the running value the step compares with).
func (v *scanVar) isCurrent(x ssa.Value, s *localPathSeq) bool {
	if v.phi != nil {
		return x == ssa.Value(v.phi)
	}
	c, isLoad := cellOfLoad(s.locals, x)
	if !isLoad || c != *v.cell {
		return false
	}
	k := s.posOf(x)
	if k < 0 {
		return false
	}
	cv, ok := s.before(c, k, 0)
	return ok && cv.Start && cv.V == nil
}

// ---------------------------------------------------------------------------
// Founding a species: the pinned tree does it in createFirstSpecies(pop, organism). A refactoring may turn
// that function into a method of Population, or write its body in place in speciate (by hand, or - for a
// function the pinned tree does not have, such as the method form - through the source normalisation, which
// expands every call of it). The rules look for the founding itself: a fresh species that lists the
// organism, is pointed back to by it, is appended to the population and gets LastSpecies+1 as its id.

// foundingFunc resolves the function that founds a species: createFirstSpecies, or the same as a method of
// Population. nil: there is none that anything calls (founding is written in place, see foundingOnPath).
func foundingFunc(p *Prog) *ssa.Function {
	if f := p.FuncOpt(PkgG, "createFirstSpecies"); f != nil {
		return f
	}
	if f := p.FuncOpt(PkgG, "Population.createFirstSpecies"); f != nil && !expandedHelper(p, f) {
		return f
	}
	return nil
}

// isPopSpecies: t is the Species list of the population that is parameter 0 / the receiver.
func isPopSpecies(t *Term) bool {
	return t != nil && t.Op == "field" && t.Name == "Species" && len(t.Args) == 1 && isParamIdx(t.Args[0], 0)
}

// isSpeciateOrg: t is an element of the organisms handed to speciate (parameter 2).
func isSpeciateOrg(t *Term) bool {
	return t != nil && t.Op == "elem" && isParamIdx(t.Args[0], 2)
}

// foundingFacts: what one pass over an organism (one iteration path of speciate's organism loop) does with the
// fresh species Sp it creates.
type foundingFacts struct {
	Sp                    ssa.Value
	Inc                   *ssa.Store // the store recv.LastSpecies = recv.LastSpecies + 1 on the path
	NLast                 int        // stores to LastSpecies on the path
	IncOK                 bool       // exactly one, an increment by one of the receiver's counter, executed once
	Once                  bool       // creation, listing and back pointer execute exactly once per pass (not in a nested loop)
	IdOK, After           bool
	IdDesc                string
	Novel, Age            bool
	Why                   string
	Appended, Added, Back bool
}

// foundingOnPath examines the founding written in place on one iteration path of loop `outer` of fn (speciate):
// the population is the receiver, the organism an element of parameter 2.
func foundingOnPath(p *Prog, sums *Summaries, fn *ssa.Function, tm *Termer, loops []*Loop, outer *Loop, ip *IterPath, sp ssa.Value) *foundingFacts {
	ff := &foundingFacts{Sp: sp, IdDesc: "?"}
	body := ip.Blocks
	if ip.End == "back" {
		body = body[:len(body)-1]
	}
	seq := newLocalPathSeq(fn, nil, body)
	once := func(v interface{}) bool {
		in, ok := v.(ssa.Instruction)
		if !ok || len(seq.at[in]) != 1 {
			return false
		}
		l := InnermostLoop(loops, in.Block())
		return l != nil && l.Header == outer.Header
	}
	last := p.Field(PkgG, "Population", "LastSpecies")
	popSpecies := p.Field(PkgG, "Population", "Species")
	backF := p.Field(PkgG, "Organism", "Species")
	ff.Once = once(sp)
	var incLoad *ssa.UnOp
	seenStore := map[*ssa.Store]bool{}
	for _, in := range seq.ins {
		if m, _ := memberWrite(p, in); m != nil && m.Species == sp && isSpeciateOrg(tm.Of(m.Org)) {
			ff.Added = true
			ff.Once = ff.Once && once(in)
		}
		st, ok := in.(*ssa.Store)
		if !ok || seenStore[st] {
			continue
		}
		seenStore[st] = true
		switch StoredField(st) {
		case last:
			ff.NLast += len(seq.at[in])
			if ld := plusOneOfField(tm, st.Val, 0, last); ld != nil && isParamIdx(tm.Of(st.Addr.(*ssa.FieldAddr).X), 0) && once(st) {
				ff.Inc, incLoad = st, ld
			}
		case popSpecies:
			if base, elems, ok := appendCall(st.Val); ok && len(elems) == 1 && elems[0] == sp && isPopSpecies(tm.Of(base)) && isParamIdx(tm.Of(st.Addr.(*ssa.FieldAddr).X), 0) {
				ff.Appended = true
			}
		case backF:
			if st.Val == sp && isSpeciateOrg(tm.Of(st.Addr.(*ssa.FieldAddr).X)) {
				ff.Back = true
				ff.Once = ff.Once && once(st)
			}
		}
	}
	// the counter is read, incremented and written back once, with nothing writing it in between (this path has one store to it;
	// that no other function writes it is a separate obligation)
	ff.IncOK = ff.Inc != nil && ff.NLast == 1 && seq.posOf(incLoad) >= 0 && seq.posOf(incLoad) < seq.at[ff.Inc][0]
	// the state of the new species when the pass over the organism ends
	end := body[len(body)-1].Instrs[len(body[len(body)-1].Instrs)-1]
	st := sums.ObjectAt(fn, sp, end)
	if st.Why != "" {
		ff.Why = st.Why
		return ff
	}
	idF, novF, ageF := p.Field(PkgG, "Species", "Id"), p.Field(PkgG, "Species", "IsNovel"), p.Field(PkgG, "Species", "Age")
	if id := st.Fields[idF]; id != nil {
		ff.IdDesc = id.String()
		if ff.IncOK && id.Op != "phi" && id.V != nil {
			incPos := seq.at[ff.Inc][0]
			switch {
			case id.V == ff.Inc.Val:
				// the very value stored into LastSpecies
				ff.IdOK, ff.After = true, true
			case loadOfParamField(tm, id.V, 0, last) != nil:
				// LastSpecies read back after the increment, the only store to it on this path
				k := seq.posOf(id.V)
				ff.After = k > incPos
				ff.IdOK = ff.After
			default:
				// LastSpecies + 1 computed again from a read that precedes the increment
				if ld := plusOneOfField(tm, id.V, 0, last); ld != nil {
					k := seq.posOf(ld)
					ff.After = k >= 0 && k < incPos
					ff.IdOK = ff.After
				}
			}
		}
	}
	nov := st.Fields[novF]
	ff.Novel = nov != nil && nov.String() == "true"
	age := st.Fields[ageF]
	ff.Age = age != nil && age.String() == "1" && st.Fresh
	return ff
}

// freshOnPath: the fresh species created on the path.
func freshOnPath(ip *IterPath, all []ssa.Value) []ssa.Value {
	var out []ssa.Value
	for _, v := range all {
		if in, ok := v.(ssa.Instruction); ok && ip.OnPath(in) {
			out = append(out, v)
		}
	}
	return out
}

// ---------------------------------------------------------------------------
// "No species was selected" known through a flag. speciate may test a boolean (`done`) instead of, or besides, the
// selected species itself. `!done` justifies a founding only when done is true WHENEVER a species is selected - an
// invariant of the scan loop: every scan step that sets the running best species sets the flag to true, and no step
// takes it back (the flag is left as it is, or set to true). With `done = false` in the update (or a reset on another
// branch) every organism would found a species of its own although a compatible one was found.

// selectionFlags decides and caches that invariant per flag.
type selectionFlags struct {
	fn     *ssa.Function
	locals map[*ssa.Alloc]bool
	loops  []*Loop
	outer  *Loop
	memo   map[interface{}]bool
}

// speciesVarsOf: the variables of type *Species carried around loop l (header phis, fields of struct-valued locals).
func speciesVarsOf(fn *ssa.Function, locals map[*ssa.Alloc]bool, l *Loop) []*scanVar {
	var out []*scanVar
	for _, ph := range HeaderPhis(l) {
		if strings.HasSuffix(typeShort(ph.Type()), "genetics.Species") {
			out = append(out, &scanVar{phi: ph})
		}
	}
	for _, c := range loopCells(fn, locals, l) {
		c := c
		if c.typ() != nil && strings.HasSuffix(typeShort(c.typ()), "genetics.Species") {
			out = append(out, &scanVar{cell: &c})
		}
	}
	return out
}

// soundIn: around loop l, flag is true whenever one of the loop's species variables has been set.
func (sf *selectionFlags) soundIn(l *Loop, flag *scanVar) bool {
	sps := speciesVarsOf(sf.fn, sf.locals, l)
	if len(sps) == 0 {
		return false
	}
	paths, complete := EnumIterPaths(sf.fn, l, 500)
	if !complete {
		return false
	}
	n := 0
	for _, ip := range paths {
		if ip.End != "back" {
			continue
		}
		n++
		seq := newLocalPathSeq(sf.fn, sf.locals, ip.Blocks[:len(ip.Blocks)-1])
		fv, updF, knownF := flag.next(ip, seq)
		if !knownF {
			return false
		}
		setTrue := updF && fv != nil && IsConstBool(fv, true)
		if updF && !setTrue {
			return false // taken back, or set to something that is not known to be true
		}
		for _, sp := range sps {
			_, updSp, knownSp := sp.next(ip, seq)
			if !knownSp || (updSp && !setTrue) {
				return false // a species is selected on a step that does not raise the flag
			}
		}
	}
	return n > 0
}

// phiSound: the boolean phi is such a flag of a scan loop inside the loop over the organisms.
func (sf *selectionFlags) phiSound(ph *ssa.Phi) bool {
	if v, ok := sf.memo[ph]; ok {
		return v
	}
	sf.memo[ph] = false
	res := false
	for _, l := range sf.loops {
		if l.Header == ph.Block() && l != sf.outer && sf.outer.Blocks[l.Header] {
			res = sf.soundIn(l, &scanVar{phi: ph})
		}
	}
	if !res && !isLoopHeader(sf.loops, ph.Block()) {
		// a merge behind the scan: every value it can take is the constant true or such a flag
		res = len(ph.Edges) > 0
		for _, e := range ph.Edges {
			switch x := e.(type) {
			case *ssa.Const:
				res = res && IsConstBool(x, true)
			case *ssa.Phi:
				res = res && x != ph && sf.phiSound(x)
			default:
				res = false
			}
		}
	}
	sf.memo[ph] = res
	return res
}

func isLoopHeader(loops []*Loop, b *ssa.BasicBlock) bool {
	for _, l := range loops {
		if l.Header == b {
			return true
		}
	}
	return false
}

// cellSound: the boolean field of a struct-valued local is such a flag: it is written only inside scan loops (inside the
// loop over the organisms) in which it obeys the invariant, and outside them only to start a new scan.
func (sf *selectionFlags) cellSound(c localCell) bool {
	if v, ok := sf.memo[c]; ok {
		return v
	}
	res, n := true, 0
	for _, l := range sf.loops {
		if l == sf.outer || !sf.outer.Blocks[l.Header] {
			continue
		}
		writes := false
		for _, lc := range loopCells(sf.fn, sf.locals, l) {
			if lc == c {
				writes = true
			}
		}
		if !writes {
			continue
		}
		n++
		cc := c
		res = res && sf.soundIn(l, &scanVar{cell: &cc})
	}
	res = res && n > 0
	sf.memo[c] = res
	return res
}

// ---------------------------------------------------------------------------
// Variables captured by function literals. A local variable or parameter that a function literal refers to lives
// in a memory cell (an Alloc of the function that declares it); the declaring function reads it by loading from
// the cell, a literal by loading from the free variable the cell is bound to when the literal is created (a literal
// nested in a literal gets it from its parent's free variable). Such a read yields ONE known value when the cell is
// written exactly once - by the declaring function, before any literal that captures it is created - and neither the
// declaring function nor any literal that gets hold of the cell does anything with it but load it (or hand it on to a
// nested literal that only loads it). Then, whenever and however often a literal runs, the variable has the value
// stored. This is what `func() error { return s.reproduce(ctx, generation, population) }` reads for ctx when the
// enclosing function never assigns to its parameter.

// c08CapturedValue: load reads such a variable - in the declaring function or in a literal (at any depth) that
// captures it; the result is the value the variable always holds. ok=false: load is something else, or the variable
// may hold other values.
func c08CapturedValue(load ssa.Value) (ssa.Value, bool) {
	u, ok := load.(*ssa.UnOp)
	if !ok || u.Op != token.MUL {
		return nil, false
	}
	// the cell: follow the free variable up to the allocation it was bound to
	ref := u.X
	for depth := 0; depth < 8; depth++ {
		fv, isFV := ref.(*ssa.FreeVar)
		if !isFV {
			break
		}
		lit := fv.Parent()
		if lit == nil || lit.Parent() == nil {
			return nil, false
		}
		idx := -1
		for i, f := range lit.FreeVars {
			if f == fv {
				idx = i
			}
		}
		if idx < 0 {
			return nil, false
		}
		// every creation of the literal binds the free variable to the same variable of the parent
		var bound ssa.Value
		n := 0
		Instrs(lit.Parent(), func(_ *ssa.BasicBlock, _ int, in ssa.Instruction) {
			mc, isMC := in.(*ssa.MakeClosure)
			if !isMC || mc.Fn != ssa.Value(lit) {
				return
			}
			n++
			if idx < len(mc.Bindings) && (bound == nil || bound == mc.Bindings[idx]) {
				bound = mc.Bindings[idx]
			} else {
				n = -1 << 20
			}
		})
		if n <= 0 || bound == nil {
			return nil, false
		}
		ref = bound
	}
	cell, ok := ref.(*ssa.Alloc)
	if !ok || cell.Referrers() == nil {
		return nil, false
	}
	var st *ssa.Store
	var makers []*ssa.MakeClosure
	for _, r := range *cell.Referrers() {
		switch x := r.(type) {
		case *ssa.Store:
			if x.Addr != ssa.Value(cell) || x.Val == ssa.Value(cell) || st != nil {
				return nil, false
			}
			st = x
		case *ssa.UnOp:
			if x.Op != token.MUL {
				return nil, false
			}
		case *ssa.MakeClosure:
			if !c04ClosureOnlyLoads(x, cell, 0) {
				return nil, false
			}
			makers = append(makers, x)
		case *ssa.DebugRef:
		default:
			return nil, false
		}
	}
	if st == nil {
		return nil, false
	}
	if u.Parent() == cell.Parent() {
		// a read by the declaring function itself: after the store
		if !instrDominates(st, u) {
			return nil, false
		}
	}
	// no literal that captures the variable exists before the variable has its value
	for _, mc := range makers {
		if !instrDominates(st, mc) {
			return nil, false
		}
	}
	return st.Val, true
}

// c08Encloses: outer is fn or a function fn is (transitively) a literal of.
func c08Encloses(outer, fn *ssa.Function) bool {
	for f := fn; f != nil; f = f.Parent() {
		if f == outer {
			return true
		}
	}
	return false
}

// c08Outermost: the declared function fn is (a literal of a literal of ...) part of.
func c08Outermost(fn *ssa.Function) *ssa.Function {
	for fn.Parent() != nil {
		fn = fn.Parent()
	}
	return fn
}

// c08LiteralCallSites: the calls that can run function literal lit inside the declared function it is part of: calls
// of a function VALUE (not of a named function, not through an interface) whose type is lit's signature, made by that
// declared function or any literal of it - and calls of the literal where it is created. An over-approximation of the
// literal's call sites within the function (any function value of the same type may be the literal).
func c08LiteralCallSites(lit *ssa.Function) []ssa.CallInstruction {
	var out []ssa.CallInstruction
	var visit func(f *ssa.Function)
	visit = func(f *ssa.Function) {
		Instrs(f, func(_ *ssa.BasicBlock, _ int, in ssa.Instruction) {
			c, ok := in.(ssa.CallInstruction)
			if !ok || c.Common().IsInvoke() {
				return
			}
			cc := c.Common()
			if callee := cc.StaticCallee(); callee != nil {
				if callee == lit {
					out = append(out, c)
				}
				return
			}
			if _, isBuiltin := cc.Value.(*ssa.Builtin); isBuiltin {
				return
			}
			if sig, isSig := cc.Value.Type().Underlying().(*types.Signature); isSig && types.Identical(sig, lit.Signature) {
				out = append(out, c)
			}
		})
		for _, a := range f.AnonFuncs {
			visit(a)
		}
	}
	visit(c08Outermost(lit))
	return out
}
