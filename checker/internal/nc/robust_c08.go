package nc

import (
	"go/constant"
	"go/token"
	"go/types"

	"golang.org/x/tools/go/ssa"
)

// Helpers that let the C08 rules (and the partition rule shared with C02.4 / C10.5)
// recognise the same facts when the small helpers of the library (Species.addOrganism,
// Species.firstOrganism, NewSpeciesNovel) are written out in place.

// memberAdd is one "organism joins a species" action: a call of Species.addOrganism, or
// the body of that helper written in place: S.Organisms = append(S.Organisms, org).
type memberAdd struct {
	In      ssa.Instruction
	Species ssa.Value
	Org     ssa.Value
}

// memberWrite classifies an instruction with respect to a species' organism list.
// add != nil: the instruction lists exactly one organism in one species.
// other: the instruction stores to Species.Organisms in some other way (the list is replaced).
func memberWrite(p *Prog, in ssa.Instruction) (add *memberAdd, other bool) {
	orgsF := p.Field(PkgG, "Species", "Organisms")
	switch x := in.(type) {
	case ssa.CallInstruction:
		if helper := p.FuncOpt(PkgG, "Species.addOrganism"); helper != nil && x.Common().StaticCallee() == helper && len(x.Common().Args) == 2 {
			return &memberAdd{In: in, Species: x.Common().Args[0], Org: x.Common().Args[1]}, false
		}
	case *ssa.Store:
		if StoredField(x) != orgsF {
			return nil, false
		}
		fa := x.Addr.(*ssa.FieldAddr)
		if _, fresh := fa.X.(*ssa.Alloc); fresh {
			// a composite literal initialising its own object
			return nil, false
		}
		if base, elems, ok := appendCall(x.Val); ok && len(elems) == 1 {
			// the whole current list of the same species (not a sub-slice of it) plus one organism
			if _, whole := base.(*ssa.UnOp); whole && fieldLoadedFrom(base, stripPtr(fa.X)) == orgsF {
				return &memberAdd{In: in, Species: fa.X, Org: elems[0]}, false
			}
		}
		return nil, true
	}
	return nil, false
}

// mirrorCmp: the comparison operator after swapping the operands.
func mirrorCmp(op token.Token) token.Token {
	switch op {
	case token.GTR:
		return token.LSS
	case token.LSS:
		return token.GTR
	case token.GEQ:
		return token.LEQ
	case token.LEQ:
		return token.GEQ
	}
	return op
}

// negateCmp: the comparison that holds when `a op b` is false.
func negateCmp(op token.Token) token.Token {
	switch op {
	case token.EQL:
		return token.NEQ
	case token.NEQ:
		return token.EQL
	case token.LSS:
		return token.GEQ
	case token.GEQ:
		return token.LSS
	case token.GTR:
		return token.LEQ
	case token.LEQ:
		return token.GTR
	}
	return token.ILLEGAL
}

// condImpliesEmpty: the branch outcome g implies len(<list>) == 0, where list is the
// origin term of the slice (e.g. "recv.Species[*].Organisms").
func condImpliesEmpty(tm *Termer, g Guard, list string) bool {
	b, ok := g.Cond.(*ssa.BinOp)
	if !ok {
		return false
	}
	op := b.Op
	lenSide, cSide := b.X, b.Y
	if _, isC := lenSide.(*ssa.Const); isC {
		lenSide, cSide = cSide, lenSide
		op = mirrorCmp(op)
	}
	c, ok := cSide.(*ssa.Const)
	if !ok || c.Value == nil || c.Value.Kind() != constant.Int {
		return false
	}
	n, exact := constant.Int64Val(c.Value)
	if !exact {
		return false
	}
	lt := tm.Of(lenSide)
	if lt.Op != "len" || lt.Args[0].String() != list {
		return false
	}
	if !g.True {
		op = negateCmp(op)
	}
	switch op {
	case token.EQL, token.LEQ:
		return n == 0 // a length is never negative
	case token.LSS:
		return n == 1
	}
	return false
}

// mayPrecede: some execution runs a and later b.
func mayPrecede(a, b ssa.Instruction) bool {
	if a.Block() == b.Block() && instrIndex(a) < instrIndex(b) {
		return true
	}
	seen := map[*ssa.BasicBlock]bool{}
	stack := append([]*ssa.BasicBlock{}, a.Block().Succs...)
	for len(stack) > 0 {
		x := stack[len(stack)-1]
		stack = stack[:len(stack)-1]
		if seen[x] {
			continue
		}
		seen[x] = true
		if x == b.Block() {
			return true
		}
		stack = append(stack, x.Succs...)
	}
	return false
}

// instrDominates: whenever b executes, a has executed before (in the same activation).
func instrDominates(a, b ssa.Instruction) bool {
	if a.Block() == b.Block() {
		return instrIndex(a) < instrIndex(b)
	}
	return a.Block().Dominates(b.Block())
}

// loadOfParamField: v is `*(&pN.f)` for parameter idx of fn; returns the load.
func loadOfParamField(tm *Termer, v ssa.Value, idx int, f *types.Var) *ssa.UnOp {
	u, ok := v.(*ssa.UnOp)
	if !ok || u.Op != token.MUL {
		return nil
	}
	fa, ok := u.X.(*ssa.FieldAddr)
	if !ok || fieldOf(fa.X.Type(), fa.Field) != f || !isParamIdx(tm.Of(fa.X), idx) {
		return nil
	}
	return u
}

// plusOneOfField: v is `pN.f + 1`; returns the load of pN.f it is computed from.
func plusOneOfField(tm *Termer, v ssa.Value, idx int, f *types.Var) *ssa.UnOp {
	b, ok := v.(*ssa.BinOp)
	if !ok || b.Op != token.ADD {
		return nil
	}
	isOne := func(x ssa.Value) bool {
		c, ok := x.(*ssa.Const)
		if !ok || c.Value == nil || c.Value.Kind() != constant.Int {
			return false
		}
		n, exact := constant.Int64Val(c.Value)
		return exact && n == 1
	}
	if isOne(b.Y) {
		return loadOfParamField(tm, b.X, idx, f)
	}
	if isOne(b.X) {
		return loadOfParamField(tm, b.Y, idx, f)
	}
	return nil
}

// freshSpeciesValues lists the values of fn that are a species created in fn: an allocation
// of Species or a call of a function whose constructor summary says it returns a fresh one.
func freshSpeciesValues(p *Prog, sums *Summaries, fn *ssa.Function) []ssa.Value {
	var out []ssa.Value
	isSpeciesPtr := func(t types.Type) bool {
		pt, ok := t.Underlying().(*types.Pointer)
		if !ok {
			return false
		}
		n, ok := pt.Elem().(*types.Named)
		return ok && n.Obj().Name() == "Species" && n.Obj().Pkg() != nil && n.Obj().Pkg().Path() == PkgG
	}
	Instrs(fn, func(_ *ssa.BasicBlock, _ int, in ssa.Instruction) {
		switch x := in.(type) {
		case *ssa.Alloc:
			if isSpeciesPtr(x.Type()) {
				out = append(out, x)
			}
		case *ssa.Call:
			if !isSpeciesPtr(x.Type()) {
				return
			}
			callee := x.Call.StaticCallee()
			if callee == nil || callee.Blocks == nil {
				return
			}
			if sm := sums.Ctor(callee); sm.Why == "" && sm.Fresh {
				out = append(out, x)
			}
		}
	})
	return out
}

// definitelyNonNil: v is never nil - a fresh object, a value boxed into an interface, or the
// result of a library function that never returns a nil error (nonNilErrorMakers, narrow.go).
func definitelyNonNil(v ssa.Value) bool {
	switch y := v.(type) {
	case *ssa.Alloc, *ssa.MakeInterface, *ssa.MakeSlice, *ssa.MakeMap, *ssa.MakeClosure:
		return true
	case *ssa.Call:
		if n, _ := calleeName(&y.Call); nonNilErrorMakers[n] {
			return true
		}
	}
	return false
}

// pathContradictsNil: the path takes a branch `x == nil` (or the false side of `x != nil`) at a
// point where x, as it is on this very path, is a value that is never nil - or the non-nil side
// where x is the constant nil. No execution follows such a path. This is what a helper's
// `return errors.New(...)` followed by the caller's `if err != nil { return err }` looks like once
// the helper is expanded in place: the result variable is a phi, and the edge that carries the
// fresh error cannot continue on the `err == nil` side.
func pathContradictsNil(ip *IterPath) bool {
	for i := 0; i+1 < len(ip.Blocks); i++ {
		b := ip.Blocks[i]
		iff, ok := b.Instrs[len(b.Instrs)-1].(*ssa.If)
		if !ok || len(b.Succs) != 2 || b.Succs[0] == b.Succs[1] {
			continue
		}
		outcome := ip.Blocks[i+1] == b.Succs[0]
		if !outcome && ip.Blocks[i+1] != b.Succs[1] {
			continue
		}
		c, ok := iff.Cond.(*ssa.BinOp)
		if !ok || (c.Op != token.EQL && c.Op != token.NEQ) {
			continue
		}
		x, y := c.X, c.Y
		if k, isK := x.(*ssa.Const); isK && k.Value == nil {
			x, y = y, x
		}
		if k, isK := y.(*ssa.Const); !isK || k.Value != nil {
			continue
		}
		switch x.Type().Underlying().(type) {
		case *types.Pointer, *types.Interface, *types.Slice, *types.Map, *types.Chan, *types.Signature:
		default:
			continue // the zero constant of a type that has no nil
		}
		saysNil := (c.Op == token.EQL) == outcome
		xv := (&IterPath{Blocks: ip.Blocks[:i+1], End: "partial"}).Resolve(x)
		if ct, isCT := xv.(*ssa.ChangeType); isCT {
			xv = ct.X
		}
		if saysNil && definitelyNonNil(xv) {
			return true
		}
		if k, isK := xv.(*ssa.Const); isK && k.Value == nil && !saysNil {
			return true
		}
	}
	return false
}

// expandedHelper: fn (or the function it is nested in) is a function the pinned tree does not have,
// it is not exported, and nothing in the repository refers to it any more - no static call, no use as
// a value, no interface call that could dispatch to it. That is what remains of a helper introduced
// by a refactoring after the source normalisation expanded every call of it in place: its body is
// examined where it was expanded, as part of its callers; the declaration itself is never executed.
func expandedHelper(p *Prog, fn *ssa.Function) bool {
	for fn.Parent() != nil {
		fn = fn.Parent()
	}
	obj, ok := fn.Object().(*types.Func)
	if !ok || obj.Exported() || PinnedFuncs()[obj.FullName()] {
		return false
	}
	sites, closed := repoCallSites(p, fn)
	return closed && len(sites) == 0
}
