package nc

import (
	"fmt"
	"go/token"
	"sort"
	"strings"

	"golang.org/x/tools/go/ssa"
)

// c01SinglePointOrder — ascending gene order of single-point crossover children.
//
// The walk of mateSinglePoint advances two cursors over the parents' (ascending) gene lists. A step is a
// STUCK step for list A when it appends the current gene of the other list B although A's current gene has the
// smaller innovation number, and leaves A's cursor where it is (past the crossover point the genes of the second
// parent are taken although the first parent's gene is smaller). After such a step every gene of A still to come
// is smaller than something already appended, so no later step may append from A ... except steps the walk can
// never take. The rule enumerates the paths of one step (flag-sensitive, acyclic) and reports a feasible path
// that appends A's current gene "because B is exhausted" (`cursorB == boundB` taken) when A can have been stuck.
// Feasibility is decided relationally over the outcomes of the path: `i2 < X` (the loop's own test, in any
// spelling) and `i2 == Y` contradict each other when X and Y are the same value - the same SSA value, the
// same length, or two phis of one block that receive pairwise equal values on every edge (`stopper` and
// `p2stop` in the pinned code).
func (r *Run) c01SinglePointOrder() {
	p := r.P
	s := r.mateShapeOf("mateSinglePoint")
	if s.why != "" || s.walk == nil || s.skip1 == nil {
		r.Undecided("mateSinglePoint.order", p.Pos(s.fn.Pos()), "the gene walk of mateSinglePoint was not recognised: "+s.why)
		return
	}
	tm := s.tm
	loopHdr := map[*ssa.BasicBlock]bool{}
	for _, l := range s.loops {
		loopHdr[l.Header] = true
	}
	var canon func(v ssa.Value, d int) string
	canon = func(v ssa.Value, d int) string {
		switch x := v.(type) {
		case *ssa.Const:
			return "C:" + tm.Of(x).String()
		case *ssa.Phi:
			if d > 4 || loopHdr[x.Block()] {
				return fmt.Sprintf("V:%p", v)
			}
			var es []string
			for _, e := range x.Edges {
				es = append(es, canon(e, d+1))
			}
			return fmt.Sprintf("Φ%d(%s)", x.Block().Index, strings.Join(es, ","))
		case *ssa.Call:
			if b, ok := x.Call.Value.(*ssa.Builtin); ok && b.Name() == "len" {
				return "len:" + canon(x.Call.Args[0], d+1)
			}
		case *ssa.UnOp:
			if x.Op == token.MUL {
				t := tm.Of(v).String()
				if !strings.Contains(t, "φ") && !strings.Contains(t, "loop") {
					return "T:" + t
				}
			}
		}
		return fmt.Sprintf("V:%p", v)
	}
	// relational feasibility of a set of outcomes
	feasible := func(conds []Guard) bool {
		const lt, eq, gt = 1, 2, 4
		allowed := map[string]int{}
		for _, g := range conds {
			b, ok := g.Cond.(*ssa.BinOp)
			if !ok {
				continue
			}
			var set int
			switch b.Op {
			case token.LSS:
				set = lt
			case token.LEQ:
				set = lt | eq
			case token.GTR:
				set = gt
			case token.GEQ:
				set = gt | eq
			case token.EQL:
				set = eq
			case token.NEQ:
				set = lt | gt
			default:
				continue
			}
			if !g.True {
				set = (lt | eq | gt) &^ set
			}
			kx, ky := canon(b.X, 0), canon(b.Y, 0)
			if kx > ky {
				kx, ky = ky, kx
				// mirror
				m := 0
				if set&lt != 0 {
					m |= gt
				}
				if set&gt != 0 {
					m |= lt
				}
				if set&eq != 0 {
					m |= eq
				}
				set = m
			}
			k := kx + "|" + ky
			if cur, ok := allowed[k]; ok {
				allowed[k] = cur & set
			} else {
				allowed[k] = set
			}
			if allowed[k] == 0 {
				return false
			}
		}
		return true
	}
	stop := s.skip1.Block()
	paths, complete := EnumRegionPaths(s.fn, s.walk.Header, func(b *ssa.BasicBlock) bool { return b == stop }, 6000)
	if !complete {
		r.Undecided("mateSinglePoint.order", p.Pos(s.fn.Pos()), "too many paths through one walk step")
		return
	}
	r.PathsExplored += len(paths)
	// cursors = integer header phis of the walk that index a gene list
	cursorOf := func(v ssa.Value) (*ssa.Phi, string) {
		// v is the chosen gene: a load of list[cursor]
		ld, ok := v.(*ssa.UnOp)
		if !ok || ld.Op != token.MUL {
			return nil, ""
		}
		ia, ok := ld.X.(*ssa.IndexAddr)
		if !ok {
			return nil, ""
		}
		ph, ok := ia.Index.(*ssa.Phi)
		if !ok || ph.Block() != s.walk.Header {
			return nil, ""
		}
		return ph, canon(ia.X, 0)
	}
	latchVal := func(ph *ssa.Phi) ssa.Value {
		for i, pr := range ph.Block().Preds {
			if s.walk.Blocks[pr] {
				return ph.Edges[i]
			}
		}
		return nil
	}
	type take struct {
		cur      *ssa.Phi
		ip       *IterPath
		exhausts []*ssa.Phi // cursors tested `== bound` (taken) on the path
	}
	stuck := map[*ssa.Phi]string{} // cursor of the list that can be stuck -> witness
	var takes []take
	n := 0
	for _, ip := range paths {
		if ip.End != "stop" || !feasible(ip.Conds) {
			continue
		}
		n++
		ch := ip.ResolveAt(s.chosen)
		cur, _ := cursorOf(ch)
		// which cursors does the step leave in place? (their latch value resolves to themselves)
		advanced := map[*ssa.Phi]bool{}
		for _, ph := range HeaderPhis(s.walk) {
			if lv := latchVal(ph); lv != nil {
				if rv := ip.ResolveAt(lv); rv != ssa.Value(ph) {
					advanced[ph] = true
				}
			}
		}
		var ex []*ssa.Phi
		for _, g := range ip.Conds {
			b, ok := g.Cond.(*ssa.BinOp)
			if !ok {
				continue
			}
			if ph, isPhi := b.X.(*ssa.Phi); isPhi && ph.Block() == s.walk.Header {
				if (b.Op == token.EQL && g.True) || (b.Op == token.NEQ && !g.True) || (b.Op == token.GEQ && g.True) || (b.Op == token.LSS && !g.True) {
					ex = append(ex, ph)
				}
			}
		}
		if cur != nil {
			takes = append(takes, take{cur, ip, ex})
			// stuck step: the other list's current gene is smaller and its cursor stays
			g1, g2, rel := s.matchedPair(ip.Conds)
			if g1 != nil && g2 != nil && (rel == "<" || rel == ">") {
				small := g1
				if rel == ">" {
					small = g2
				}
				sc, _ := cursorOf(small)
				if sc != nil && sc != cur && !advanced[sc] {
					stuck[sc] = strings.Join(ip.Describe(p), " > ")
				}
			}
		}
	}
	if n == 0 {
		r.Bad("mateSinglePoint.order", p.Pos(s.fn.Pos()), "no feasible path through a walk step was found; the order rule cannot be applied")
		return
	}
	var bad []string
	var witness []string
	for _, t := range takes {
		if _, canBeStuck := stuck[t.cur]; !canBeStuck {
			continue
		}
		for _, e := range t.exhausts {
			if e != t.cur {
				bad = append(bad, p.Pos(firstPos(t.ip)))
				witness = t.ip.Describe(p)
			}
		}
	}
	sort.Strings(bad)
	r.Check(len(bad) == 0, "mateSinglePoint.order", p.Pos(s.walk.Header.Instrs[0].Pos()),
		fmt.Sprintf("%d feasible step paths; a parent whose current gene can be passed over is never drawn from again after the other parent's list ended", n),
		"a step can append the current gene of a parent because the other parent's list is exhausted, although an earlier step may have appended a larger gene of that other parent while this one was waiting: the child's genes are no longer in ascending innovation order (the loop must end with the longer list)", witness...)
}
