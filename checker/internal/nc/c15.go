package nc

import (
	"fmt"
	"go/constant"
	"go/token"
	"go/types"
	"sort"
	"strings"

	"golang.org/x/tools/go/ssa"
)

func init() { register("C15", C15) }

// ---------------------------------------------------------------------------
// record tables: which genetic field travels in which form

type wireEntry struct {
	path string // field path below the record, e.g. Link.ConnectionWeight
	form string // direct | nodeById | traitById | actName | neuronName | elems
}

type wireTable struct {
	name    string
	nested  map[string]bool // pointer fields whose object is built by the reader and is part of the record
	entries []wireEntry
	ignored map[string]string // writer slots that the reader must not consume, with the reason
}

var (
	geneTable = wireTable{name: "connection gene", nested: map[string]bool{"Link": true}, entries: []wireEntry{
		{"InnovationNum", "direct"}, {"MutationNum", "direct"}, {"IsEnabled", "direct"},
		{"Link.ConnectionWeight", "direct"}, {"Link.IsRecurrent", "direct"},
		{"Link.InNode", "nodeById"}, {"Link.OutNode", "nodeById"}, {"Link.Trait", "traitById"}}}
	plainNodeTable = wireTable{name: "node (plain)", entries: []wireEntry{
		{"Id", "direct"}, {"NeuronType", "direct"}, {"ActivationType", "actName"}, {"Trait", "traitById"}},
		ignored: map[string]string{"#2": "NodeType() is derived from NeuronType; the reader skips this column"}}
	yamlNodeTable = wireTable{name: "node (YAML)", entries: []wireEntry{
		{"Id", "direct"}, {"NeuronType", "neuronName"}, {"ActivationType", "actName"}, {"Trait", "traitById"}}}
	yamlTraitTable = wireTable{name: "trait (YAML)", entries: []wireEntry{{"Id", "direct"}, {"Params", "elems"}}}
	mimoTable      = wireTable{name: "module gene (YAML)", nested: map[string]bool{"ControlNode": true}, entries: []wireEntry{
		{"InnovationNum", "direct"}, {"MutationNum", "direct"}, {"IsEnabled", "direct"},
		{"ControlNode.Id", "direct"}, {"ControlNode.ActivationType", "actName"}, {"ControlNode.Trait", "traitById"}},
		ignored: map[string]string{"inputs": "checked by the module-link rule", "outputs": "checked by the module-link rule"}}
)

// writerSlot is one value a writer puts on the wire.
type writerSlot struct {
	slot  string
	vals  []ssa.Value // one per write site of the slot (if/else writes of one key)
	verb  *fmtItem
	instr ssa.Instruction
}

// wform is the classified origin of a written value.
type wform struct {
	path    string // raw field path from the record, e.g. Link.Trait.Id
	kind    string // field | actName | neuronName | other
	zeroAlt bool   // 0 is written on the branch where the path's pointer is nil
	typ     types.Type
	guarded bool // the dereference through a pointer that may be nil is guarded
	detail  string
}

type c15 struct {
	r    *Run
	p    *Prog
	sums *Summaries
	// YAML record readers: the pinned helper or the section loop that restores the records in place (robust_c15_inline.go)
	yamlRd map[string]*c15YamlReader
	yamlRg map[*ssa.Function][]*c15YamlRegion
}

func (c *c15) isActName(t *Term) (*Term, bool) {
	if t.Op == "extract" && t.Idx == 0 && t.Args[0].Op == "call" && strings.HasSuffix(t.Args[0].Name, "ActivationNameFromType") {
		a := t.Args[0].Args
		return a[len(a)-1], true
	}
	return nil, false
}

// classifyWritten decides what a writer puts into one slot, relative to the record parameter subj.
func (c *c15) classifyWritten(fn *ssa.Function, tm *Termer, ws writerSlot, subj int) wform {
	var alts []*Term
	var srcVals []ssa.Value
	for _, v := range ws.vals {
		for _, a := range tm.Of(v).Alternatives() {
			alts = append(alts, a)
			srcVals = append(srcVals, v)
		}
	}
	out := wform{kind: "other"}
	var main *Term
	for _, a := range alts {
		if a.Op == "const" && a.Name == "0" {
			out.zeroAlt = true
			continue
		}
		if main != nil && main.String() != a.String() {
			out.detail = "written from several different origins: " + joinTerms(alts)
			return out
		}
		main = a
	}
	if main == nil {
		out.detail = "a constant is written"
		return out
	}
	inner := main
	if x, ok := c.isActName(main); ok {
		out.kind, inner = "actName", x
	} else if main.Op == "call" && main.Name == "NeuronTypeName" && len(main.Args) == 1 {
		out.kind, inner = "neuronName", main.Args[0]
	} else {
		out.kind = "field"
	}
	base, fp := inner.FieldPath()
	if !isParamIdx(base, subj) || len(fp) == 0 {
		out.kind = "other"
		out.detail = "written value " + main.String() + " is not a field of the record"
		return out
	}
	out.path = strings.Join(fp, ".")
	if v, ok := inner.Obj.(*types.Var); ok {
		out.typ = v.Type()
	}
	// nil-guard of the last pointer hop when a zero alternative exists (x.Trait may be nil)
	out.guarded = true
	if out.zeroAlt && len(fp) >= 2 {
		holder := inner.Args[0].String() // e.g. p1.Link.Trait
		out.guarded = false
		if in, ok := inner.V.(ssa.Instruction); ok && in.Block() != nil {
			for _, g := range Guards(in.Block()) {
				if GuardNilness(g, func(v ssa.Value) bool { return tm.Of(v).String() == holder }) == -1 {
					out.guarded = true
				}
			}
		}
	}
	return out
}

// plainWriterSlots: the single Fprintf of a record writer.
func (c *c15) plainWriterSlots(fn *ssa.Function, label string) ([]writerSlot, []fmtItem, bool) {
	calls, und := fmtCalls(fn)
	if len(und) > 0 {
		c.r.Undecided(label+".writer", c.p.Pos(und[0].Pos()), "a fmt call with a non-constant format or argument list")
		return nil, nil, false
	}
	var pf []fmtCall
	for _, fc := range calls {
		if fc.Kind == "printf" || fc.Kind == "print" || fc.Kind == "println" {
			pf = append(pf, fc)
		}
	}
	if len(pf) != 1 || pf[0].Kind != "printf" {
		c.r.Undecided(label+".writer", c.p.Pos(fn.Pos()), fmt.Sprintf("expected exactly one Fprintf in %s, found %d print calls", fn.Name(), len(pf)))
		return nil, nil, false
	}
	items := parseFormat(pf[0].Format)
	verbs := verbsOf(items)
	if len(verbs) != len(pf[0].Args) {
		c.r.Bad(label+".writer.arity", c.p.Pos(pf[0].Call.Pos()), fmt.Sprintf("format %q has %d verbs for %d operands", pf[0].Format, len(verbs), len(pf[0].Args)))
		return nil, nil, false
	}
	var out []writerSlot
	for i, a := range pf[0].Args {
		v := verbs[i]
		out = append(out, writerSlot{slot: fmt.Sprintf("#%d", i), vals: []ssa.Value{a}, verb: &v, instr: pf[0].Call})
	}
	return out, items, true
}

// yamlWriterSlots: the m[key] = v updates of an encode function.
func (c *c15) yamlWriterSlots(fn *ssa.Function, label string) ([]writerSlot, bool) {
	ws, dyn := mapWrites(fn)
	if len(dyn) > 0 {
		c.r.Undecided(label+".writer", c.p.Pos(dyn[0].Pos()), "a document key that is not a constant string")
		return nil, false
	}
	by := map[string]*writerSlot{}
	var order []string
	for _, w := range ws {
		s := by[w.Key]
		if s == nil {
			s = &writerSlot{slot: w.Key, instr: w.In}
			by[w.Key] = s
			order = append(order, w.Key)
		}
		s.vals = append(s.vals, w.Val)
	}
	var out []writerSlot
	for _, k := range order {
		out = append(out, *by[k])
	}
	return out, true
}

// readerObject flattens the object a reader returns into path -> alternatives.
type readerObject struct {
	fields map[string][]*Term
	raw    map[string][]*Term // unflattened (phis kept), for lookups that must inspect the selection loop
	elems  map[string][]*Term
	why    string
}

func (c *c15) flatten(fn *ssa.Function, sm *Summary, prefix string, tab *wireTable, out *readerObject, depth int) {
	for f, t := range sm.Fields {
		path := prefix + f.Name()
		if tab.nested[f.Name()] && depth < 3 {
			for _, alt := range t.Alternatives() {
				call, ok := alt.V.(*ssa.Call)
				if !ok || call.Call.StaticCallee() == nil {
					out.why = fmt.Sprintf("%s is %s, not an object built by a constructor call", path, alt)
					continue
				}
				named, _ := deref(call.Type()).(*types.Named)
				if named == nil {
					out.why = path + ": constructor does not return a named struct"
					continue
				}
				var inner *Summary
				if call.Parent() == fn {
					inner = &Summary{Fn: fn, Type: named, Fields: map[*types.Var]*Term{}, Elems: map[*types.Var]*Term{}}
					c.sums.objectState(fn, NewTermer(fn), named, call, inner, func(in ssa.Instruction) bool {
						ret, ok := in.(*ssa.Return)
						if !ok {
							return false
						}
						k, isC := ret.Results[0].(*ssa.Const)
						return !(isC && k.Value == nil)
					})
				} else {
					cs := c.sums.Ctor(call.Call.StaticCallee())
					inner = &Summary{Fn: cs.Fn, Type: cs.Type, Why: cs.Why, Fields: map[*types.Var]*Term{}, Elems: map[*types.Var]*Term{}}
					for k, v := range cs.Fields {
						inner.Fields[k] = Subst(v, alt.Args)
					}
					for k, v := range cs.Elems {
						inner.Elems[k] = Subst(v, alt.Args)
					}
				}
				if inner.Why != "" {
					out.why = path + ": " + inner.Why
					continue
				}
				c.flatten(fn, inner, path+".", tab, out, depth+1)
			}
			continue
		}
		out.fields[path] = append(out.fields[path], t.Alternatives()...)
		if out.raw == nil {
			out.raw = map[string][]*Term{}
		}
		out.raw[path] = append(out.raw[path], t)
	}
	for f, t := range sm.Elems {
		out.elems[prefix+f.Name()] = append(out.elems[prefix+f.Name()], t.Alternatives()...)
	}
}

// nodeByIdSlot: v selects, from a node list, the node whose Id equals one slot.
func (c *c15) nodeByIdSlot(fn *ssa.Function, tm *Termer, sf *slotFinder, t *Term) (string, string) {
	return c.byIdSlot(fn, tm, sf, t, "NodeWithId", "node")
}

// byIdSlot: the selection by id, either through the selector function (NodeWithId / TraitWithId, decided by C15.0)
// or by the same search written out as a loop in the reader.
func (c *c15) byIdSlot(fn *ssa.Function, tm *Termer, sf *slotFinder, t *Term, selector, what string) (string, string) {
	if t.Op == "call" && t.Name == selector && len(t.Args) == 2 {
		if r, ok := sf.direct(t.Args[0]); ok {
			if n := narrowingParsers(t.Args[0], types.Typ[types.Int]); len(n) > 0 {
				return "", "the " + what + " id: " + strings.Join(n, "; ")
			}
			return r.Slot, ""
		}
		return "", selector + " is not called with a value read from the wire: " + t.String()
	}
	phi, ok := t.V.(*ssa.Phi)
	if !ok {
		return "", "the " + what + " is " + t.String() + ", not a lookup by id"
	}
	slot := ""
	seen := map[*ssa.Phi]bool{}
	var visit func(ph *ssa.Phi) string
	visit = func(ph *ssa.Phi) string {
		if seen[ph] {
			return ""
		}
		seen[ph] = true
		for i, e := range ph.Edges {
			if k, isC := e.(*ssa.Const); isC && k.Value == nil {
				continue
			}
			if inner, isPhi := e.(*ssa.Phi); isPhi {
				if why := visit(inner); why != "" {
					return why
				}
				continue
			}
			et := tm.Of(e)
			if et.Op == "call" && et.Name == selector && len(et.Args) == 2 {
				// the selector function on one path
				r, ok := sf.direct(et.Args[0])
				if !ok {
					return selector + " is not called with a value read from the wire: " + et.String()
				}
				if n := narrowingParsers(et.Args[0], types.Typ[types.Int]); len(n) > 0 {
					return "the " + what + " id: " + strings.Join(n, "; ")
				}
				if slot != "" && slot != r.Slot {
					return "candidates selected by two different wire values (" + slot + ", " + r.Slot + ")"
				}
				slot = r.Slot
				continue
			}
			if et.Op != "elem" && et.Op != "next" {
				return "a candidate " + et.String() + " that is not an element of the " + what + " list"
			}
			pred := ph.Block().Preds[i]
			found := ""
			conds := Guards(pred)
			if iff, ok := pred.Instrs[len(pred.Instrs)-1].(*ssa.If); ok && pred.Succs[0] != pred.Succs[1] {
				conds = append(conds, Guard{iff.Cond, pred.Succs[0] == ph.Block(), pred})
			}
			for _, g := range conds {
				l, rr, op, okc := c15HeldFact(tm, g)
				if !okc || op != token.EQL {
					continue
				}
				if !(l.Op == "field" && l.Name == "Id") {
					l, rr = rr, l
				}
				if l.Op == "field" && l.Name == "Id" && l.Args[0].String() == et.String() {
					if r, ok := sf.direct(rr); ok {
						found = r.Slot
					}
				}
			}
			if found == "" {
				return "the candidate " + what + " is not selected by " + what + ".Id == <value read from the wire>"
			}
			if why := c.selectionRestricted(fn, tm, sf, phi, pred, conds, et, found); why != "" {
				return why
			}
			if slot != "" && slot != found {
				return "candidates selected by two different wire values (" + slot + ", " + found + ")"
			}
			slot = found
		}
		return ""
	}
	if why := visit(phi); why != "" {
		return "", why
	}
	if slot == "" {
		return "", "no candidate " + what
	}
	return slot, ""
}

// selectionRestricted: the node with the written id must be taken whenever the
// search meets it. conds are the branch outcomes under which the candidate et
// is assigned; one of them is `et.Id == <slot>`. Any further outcome decided
// inside the search loop narrows the selection (`switch np.Id { case in: ..;
// case out: .. }` assigns the second endpoint only when the id differs from
// the first one: a self-loop gene reads back with a nil target). Accepted
// besides the equality itself: the loop's own continuation test and nil tests
// of the candidate or of the variable being selected (first match wins; ids
// are unique in a written node list).
func (c *c15) selectionRestricted(fn *ssa.Function, tm *Termer, sf *slotFinder, sel *ssa.Phi, pred *ssa.BasicBlock, conds []Guard, et *Term, slot string) string {
	l := InnermostLoop(Loops(fn), pred)
	if l == nil {
		return ""
	}
	web := phiWeb(sel)
	inWeb := func(t *Term) bool {
		if ph, ok := t.V.(*ssa.Phi); ok && web.Phis[ph] {
			return true
		}
		return false
	}
	for _, g := range conds {
		if g.At == nil || !l.Blocks[g.At] || g.At == l.Header {
			continue
		}
		gt := tm.Of(g.Cond)
		if a, b, op, okc := c15HeldFact(tm, g); okc && (op == token.EQL || op == token.NEQ) {
			if a.Op == "nil" {
				a, b = b, a
			}
			if b.Op == "nil" && (a.String() == et.String() || inWeb(a)) {
				continue
			}
			if op == token.EQL {
				if !(a.Op == "field" && a.Name == "Id") {
					a, b = b, a
				}
				if a.Op == "field" && a.Name == "Id" && a.Args[0].String() == et.String() {
					if r, ok := sf.direct(b); ok && r.Slot == slot {
						continue
					}
				}
			}
		}
		outcome := "false"
		if g.True {
			outcome = "true"
		}
		if gt.Op == "bin" && len(gt.Args) == 2 {
			// name the wire slots in the message (scan targets have no readable origin term)
			show := func(x *Term) string {
				if r, ok := sf.direct(x); ok {
					return "<wire slot " + r.Slot + ">"
				}
				return x.String()
			}
			gt = &Term{Op: "bin", Name: gt.Name, Args: []*Term{{Op: "const", Name: show(gt.Args[0])}, {Op: "const", Name: show(gt.Args[1])}}}
		}
		return fmt.Sprintf("the node whose Id equals the written id (%s) is taken only when, in addition, %s is %s (%s): a written record for which that does not hold is restored with a nil node (e.g. a gene whose source and target are the same node)",
			slot, gt, outcome, c.p.Pos(g.Cond.Pos()))
	}
	return ""
}

// splitSelections: the alternatives of t, keeping a phi together when it merges list elements (a search loop).
func splitSelections(t *Term) []*Term {
	if t == nil {
		return nil
	}
	if t.Op == "iface" {
		return splitSelections(t.Args[0])
	}
	if t.Op != "phi" {
		return []*Term{t}
	}
	for _, a := range t.Alternatives() {
		if a.Op == "elem" || a.Op == "next" {
			return []*Term{t}
		}
	}
	var out []*Term
	for _, a := range t.Args {
		out = append(out, splitSelections(a)...)
	}
	return out
}

// readerForm classifies what the reader puts at a table path; returns the slot it comes from.
func (c *c15) readerForm(fn *ssa.Function, tm *Termer, sf *slotFinder, e wireEntry, alts []*Term, want types.Type) (slot string, why string) {
	set := func(s string) bool {
		if slot != "" && slot != s {
			why = fmt.Sprintf("restored from two different wire slots (%s and %s)", slot, s)
			return false
		}
		slot = s
		return true
	}
	for _, a := range alts {
		switch e.form {
		case "direct":
			r, ok := sf.direct(a)
			if !ok || r.Elem {
				return "", "restored from " + a.String() + ", which is not a value read from the wire"
			}
			if want != nil {
				if n := narrowingParsers(a, want); len(n) > 0 {
					return "", strings.Join(n, "; ")
				}
			}
			if !set(r.Slot) {
				return
			}
		case "traitById":
			if a.Op == "nil" || (a.Op == "const" && a.Name == "zero") {
				continue
			}
			if a.Op == "call" && a.Name == "TraitWithId" && len(a.Args) == 2 {
				r, ok := sf.direct(a.Args[0])
				if !ok {
					return "", "TraitWithId is not called with a value read from the wire: " + a.String()
				}
				// the id itself must be parsed faithfully (decimal, wide enough): another id selects another trait
				if n := narrowingParsers(a.Args[0], types.Typ[types.Int]); len(n) > 0 {
					return "", "the trait id: " + strings.Join(n, "; ")
				}
				if !set(r.Slot) {
					return
				}
				continue
			}
			if _, isPhi := a.V.(*ssa.Phi); isPhi {
				// the search of TraitWithId written out in the reader
				s, w := c.byIdSlot(fn, tm, sf, a, "TraitWithId", "trait")
				if w != "" {
					return "", w
				}
				if !set(s) {
					return
				}
				continue
			}
			return "", "the trait is " + a.String() + ", not a lookup by the written trait id"
		case "nodeById":
			s, w := c.nodeByIdSlot(fn, tm, sf, a)
			if w != "" {
				return "", w
			}
			if !set(s) {
				return
			}
		case "actName":
			if a.Op == "extract" && a.Idx == 0 && a.Args[0].Op == "call" && strings.HasSuffix(a.Args[0].Name, "ActivationTypeFromName") {
				args := a.Args[0].Args
				r, ok := sf.direct(args[len(args)-1])
				if !ok {
					return "", "ActivationTypeFromName is not applied to a value read from the wire"
				}
				if !set(r.Slot) {
					return
				}
				continue
			}
			if a.Op == "const" {
				// constructor default left in place on some path: accepted only when that path is impossible for written records (checked by the caller)
				continue
			}
			return "", "the activation type is " + a.String() + ", not the type named by the written activation name"
		case "neuronName":
			if a.Op == "extract" && a.Idx == 0 && a.Args[0].Op == "call" && a.Args[0].Name == "NeuronTypeByName" {
				r, ok := sf.direct(a.Args[0].Args[0])
				if !ok {
					return "", "NeuronTypeByName is not applied to a value read from the wire"
				}
				if !set(r.Slot) {
					return
				}
				continue
			}
			return "", "the neuron type is " + a.String() + ", not the type named by the written name"
		}
	}
	if slot == "" && why == "" {
		why = "never restored from the wire"
	}
	return
}

// recordPair decides one writer/reader pair against its table.
func (c *c15) recordPair(label string, tab *wireTable, wfn *ssa.Function, wsubj int, slots []writerSlot, rfn *ssa.Function, sf *slotFinder, robj *readerObject, readerVerbs map[string]fmtItem) {
	r, p := c.r, c.p
	r.Fn(FuncName(wfn), FuncName(rfn))
	wtm, rtm := NewTermer(wfn), NewTermer(rfn)
	wpos, rpos := p.Pos(wfn.Pos()), p.Pos(rfn.Pos())
	if robj.why != "" {
		r.Undecided(label+".reader", rpos, robj.why)
		return
	}
	// classify the writer's slots
	byPath := map[string]writerSlot{}
	forms := map[string]wform{}
	consumed := map[string]bool{}
	for _, ws := range slots {
		wf := c.classifyWritten(wfn, wtm, ws, wsubj)
		forms[ws.slot] = wf
		if wf.kind == "other" {
			if _, ok := tab.ignored[ws.slot]; ok {
				continue
			}
			r.Bad(label+".writer.slot:"+ws.slot, p.Pos(ws.instr.Pos()), "slot "+ws.slot+" of the "+tab.name+" record: "+wf.detail)
			continue
		}
		if prev, dup := byPath[wf.path]; dup {
			r.Bad(label+".writer.dup:"+wf.path, p.Pos(ws.instr.Pos()), fmt.Sprintf("%s is written to two slots (%s and %s)", wf.path, prev.slot, ws.slot))
			continue
		}
		byPath[wf.path] = ws
	}
	for _, e := range tab.entries {
		r.FieldsChecked++
		cons := label + "." + e.path
		raw := e.path
		if e.form == "nodeById" || e.form == "traitById" {
			raw += ".Id"
		}
		ws, ok := byPath[raw]
		if !ok {
			r.Bad(cons, wpos, fmt.Sprintf("the %s writer %s does not write %s: the field cannot be restored", tab.name, wfn.Name(), raw))
			continue
		}
		consumed[ws.slot] = true
		wf := forms[ws.slot]
		// form agreement on the writer side
		wantKind := map[string]string{"direct": "field", "nodeById": "field", "traitById": "field", "actName": "actName", "neuronName": "neuronName", "elems": "field"}[e.form]
		if wf.kind != wantKind {
			r.Bad(cons, p.Pos(ws.instr.Pos()), fmt.Sprintf("%s is written as %s but read back as %s", e.path, wf.kind, e.form))
			continue
		}
		if e.form == "traitById" && !(wf.zeroAlt && wf.guarded) {
			r.Bad(cons, p.Pos(ws.instr.Pos()), e.path+" may be nil (genes and nodes without a trait are legal) but its id is written without the nil test that writes 0 instead")
			continue
		}
		if e.form != "traitById" && wf.zeroAlt {
			r.Bad(cons, p.Pos(ws.instr.Pos()), e.path+" is replaced by 0 on some path")
			continue
		}
		// faithfulness of the text form
		if ws.verb != nil {
			vt := wf.typ
			if wf.kind == "actName" || wf.kind == "neuronName" {
				vt = types.Typ[types.String]
			}
			if vt == nil {
				r.Undecided(cons, p.Pos(ws.instr.Pos()), "type of the written operand unknown")
				continue
			}
			if ok, why := verbFaithful(*ws.verb, vt); !ok {
				r.Bad(cons, p.Pos(ws.instr.Pos()), fmt.Sprintf("%s (slot %s): %s", e.path, ws.slot, why))
				continue
			}
			if rv, ok := readerVerbs[ws.slot]; ok {
				if rv.Verb != ws.verb.Verb || rv.Flags != "" {
					okPair := (rv.Verb == 'v' || ws.verb.Verb == 'v') && rv.Flags == ""
					if !okPair {
						r.Bad(cons, rpos, fmt.Sprintf("%s is written with %%%c and scanned with %%%s%c", e.path, ws.verb.Verb, rv.Flags, rv.Verb))
						continue
					}
				}
			}
		}
		// reader side
		if e.form == "elems" {
			alts := robj.elems[e.path]
			if len(alts) == 0 {
				r.Bad(cons, rpos, fmt.Sprintf("the elements of %s are never restored by %s", e.path, rfn.Name()))
				continue
			}
			okE := true
			for _, a := range alts {
				sr, ok := sf.direct(a)
				if !ok || !sr.Elem || sr.Slot != ws.slot {
					r.Bad(cons, rpos, fmt.Sprintf("elements of %s are restored from %s, not from the elements of slot %q", e.path, a, ws.slot))
					okE = false
					break
				}
				if n := narrowingParsers(a, types.Typ[types.Float64]); len(n) > 0 {
					r.Bad(cons, rpos, strings.Join(n, "; "))
					okE = false
					break
				}
			}
			if okE {
				r.OK(cons, rpos, fmt.Sprintf("%s: written to slot %q, every element read back from it", e.path, ws.slot))
			}
			continue
		}
		alts := robj.fields[e.path]
		if e.form == "nodeById" {
			alts = robj.raw[e.path]
		}
		if e.form == "traitById" {
			// flattened alternatives unless one of them is the element of a list (a search loop in the reader): then
			// the selection loop has to be inspected, which needs the phis
			for _, a := range alts {
				if a.Op == "elem" || a.Op == "next" {
					alts = nil
					for _, rt := range robj.raw[e.path] {
						alts = append(alts, splitSelections(rt)...)
					}
					break
				}
			}
		}
		if len(alts) == 0 {
			r.Bad(cons, rpos, fmt.Sprintf("%s is written (slot %s) but %s never restores it", e.path, ws.slot, rfn.Name()))
			continue
		}
		slot, why := c.readerForm(rfn, rtm, sf, e, alts, wf.typ)
		if why != "" {
			r.Bad(cons, rpos, fmt.Sprintf("%s: %s", e.path, why))
			continue
		}
		if slot != ws.slot {
			r.Bad(cons, rpos, fmt.Sprintf("%s is written to slot %s but restored from slot %s: the two sides disagree on the position/key", e.path, ws.slot, slot))
			continue
		}
		r.OK(cons, rpos, fmt.Sprintf("%s: written to slot %s (%s), restored from the same slot (%s)", e.path, ws.slot, wf.kind, e.form))
	}
	// unconsumed writer slots
	for _, ws := range slots {
		if consumed[ws.slot] {
			continue
		}
		if _, ok := tab.ignored[ws.slot]; ok {
			continue
		}
		if forms[ws.slot].kind != "other" {
			r.Note("%s: slot %s (%s) is written but not part of the %s table", label, ws.slot, forms[ws.slot].path, tab.name)
		}
	}
}

// scanTargets resolves the single Fscanf of a plain reader.
func (c *c15) scanTargets(fn *ssa.Function, label string) (*fmtCall, map[*ssa.Alloc]string, map[string]fmtItem, bool) {
	calls, und := fmtCalls(fn)
	if len(und) > 0 {
		c.r.Undecided(label+".reader", c.p.Pos(und[0].Pos()), "a fmt call with a non-constant format or argument list")
		return nil, nil, nil, false
	}
	var sc []fmtCall
	for _, fc := range calls {
		if fc.Kind == "scanf" || fc.Kind == "scanln" || fc.Kind == "scan" || fc.Kind == "sscanf" {
			sc = append(sc, fc)
		}
	}
	if len(sc) != 1 || !sc[0].HasFormat {
		c.r.Undecided(label+".reader", c.p.Pos(fn.Pos()), fmt.Sprintf("expected exactly one Fscanf in %s, found %d scan calls", fn.Name(), len(sc)))
		return nil, nil, nil, false
	}
	verbs := verbsOf(parseFormat(sc[0].Format))
	if len(verbs) != len(sc[0].Args) {
		c.r.Bad(label+".reader.arity", c.p.Pos(sc[0].Call.Pos()), fmt.Sprintf("format %q has %d verbs for %d targets", sc[0].Format, len(verbs), len(sc[0].Args)))
		return nil, nil, nil, false
	}
	targets := map[*ssa.Alloc]string{}
	rv := map[string]fmtItem{}
	for i, a := range sc[0].Args {
		al, ok := a.(*ssa.Alloc)
		if !ok {
			c.r.Undecided(label+".reader", c.p.Pos(sc[0].Call.Pos()), "a scan target that is not a local variable")
			return nil, nil, nil, false
		}
		s := fmt.Sprintf("#%d", i)
		if _, dup := targets[al]; dup {
			c.r.Bad(label+".reader.target", c.p.Pos(sc[0].Call.Pos()), "the same variable is scanned twice")
			return nil, nil, nil, false
		}
		targets[al] = s
		rv[s] = verbs[i]
	}
	return &sc[0], targets, rv, true
}

// checkSeparators: a writer format must separate its verbs by exactly one blank for a reader that splits on one blank / scans with blanks.
func (c *c15) checkSeparators(label string, items []fmtItem, pos string) {
	ok := true
	for i, it := range items {
		if it.Verb != 0 {
			if i+1 < len(items) && items[i+1].Verb != 0 {
				ok = false
			}
			continue
		}
		if it.Literal != " " || i == 0 || i == len(items)-1 {
			ok = false
		}
	}
	c.r.Check(ok, label+".separators", pos, "verbs are separated by single blanks, no leading or trailing text",
		"the record's fields are not separated by exactly one blank each: the reader splits / scans on single blanks")
}

// C15 — everything the library writes it reads back unchanged.
func C15(p *Prog, r *Run) {
	r.Explanation = "Decided, per wire format, is the identity reader-slot-map ∘ writer-slot-map on the genetic fields: for every field the property names (gene: innovation and mutation number, enabled flag, weight, recurrence flag, endpoints by node id, trait by id; node: id, neuron type, activation type, trait; trait: id and every parameter; module gene: control node, numbers, flag, inputs and outputs in order) the writer puts it into exactly one slot (format-verb position, split-line column, or YAML key) in a form that reads back exactly (%g/%v for floats, no width or precision, ids guarded against nil traits), and the reader restores the same field from the same slot through the inverse lookup (TraitWithId / node selection by Id / activation and neuron names through inverse tables) without narrowing conversions. Further: the genome framing (keywords, line breaks, section order, genome id), the organism header line, the population re-framing (every re-framed line ends in a newline before the next write), gob encode/decode sequences of experiment, trial, generation and champion (same order, same guards), and the solver-model field mapping through its JSON struct. Selections by id written out as loops must take the matching element whenever they meet it (no further condition inside the search); the YAML record readers must receive trait/node lists that are already complete; the bytes MarshalBinary returns and the population re-framing buffer must live in memory private to the call (no pooled or borrowed storage). Decoders that fill an object handed in by the caller (Organism.UnmarshalBinary, Experiment/Trial/Generation.Decode, and decodeOrganism for its local organism) are decided by path search to leave a state that is a function of the bytes read only: no field of the receiver is read before the call has written it, and every field the encoder writes is assigned from the wire on every path to a nil error. The YAML module reader must have written the last link into the control node before anything (the gene constructor, which copies the link endpoints into ioNodes) reads the link lists. Every codec function that returns a nil error has performed each of its wire operations under the conditions that operation is written for, none of them failed, loops over lists are left early only with an error, and an (object, error) pair is never (nil, nil) (path search with the nilness of the returned error tracked). Lookups by id: the selectors search the whole list for every id other than 0; what a lookup finds is carried into the restored record, and the uniqueness probes of the genome readers let new ids pass. Presence tests around optional sections (modules) have the polarity that writes / reads a section that is there; tests of the number of columns / parts of a line accept what the writer emits; integers are parsed in base 10; the buffered writers are flushed on every successful path. Not decided: float fidelity inside fmt, yaml.v3, encoding/json and encoding/gob (trusted to round-trip float64 exactly); semantic equality of whole documents."
	c := &c15{r: r, p: p, sums: NewSummaries(p)}

	r.Rule("C15.0", "the id-based selectors used by every reader return nil or the list element whose Id equals the requested id, and return that element whenever the list holds one (id 0 means \"none\" on the wire)", func() {
		for _, n := range []string{"TraitWithId", "NodeWithId"} {
			fn := p.Func(PkgG, n)
			r.Fn(FuncName(fn))
			ok, why := selectorByIdOK(p, fn)
			r.Check(ok, n, p.Pos(fn.Pos()), "returns nil or the element with element.Id == id", n+": "+why)
			okC, whyC, pathC := c15SelectorComplete(p, fn, &r.PathsExplored)
			r.Check(okC, n+".complete", p.Pos(fn.Pos()), "for an id other than 0 the whole list is searched and the search ends early only with the element found",
				n+": "+whyC+" (records that refer to it by id are restored without it)", pathC...)
		}
	})

	r.Rule("C15.1", "plain encoding, per record: every genetic field is written to one column with an exactly-reversible verb and restored from the same column", func() {
		c.plainGene()
		c.plainNode()
		c.plainTrait()
	})

	r.Rule("C15.2", "YAML encoding, per record: every genetic field is stored under one key and restored from the same key through the inverse lookup, without narrowing", func() {
		c.yamlRecords()
	})

	r.Rule("C15.3", "plain genome framing: each list is written as `keyword record newline` per element, traits before nodes before genes, and the reader dispatches each keyword to the matching record reader appending to the same list; header/trailer carry the genome id; Genome.Write/ReadGenome agree on the encoding", func() {
		c.plainFraming()
	})

	r.Rule("C15.4", "YAML genome framing: each list is stored element-wise under one key by the matching encoder and restored from the same key by the matching reader into the same list; id and document root agree; module inputs/outputs are restored in order at the right end of the link", func() {
		c.yamlFraming()
	})

	r.Rule("C15.5", "name tables are inverse: neuron type names, and activation names through the registry maps", func() {
		c.inverseNames()
		c.activationNames()
	})

	r.Rule("C15.6", "organism binary form: the header line carries fitness, generation and genome id, each scanned back into the same field at the same position; the genome follows in the same buffer and is restored with the scanned id", func() {
		c.organismBinary()
	})

	r.Rule("C15.7", "population re-framing: every write into the buffer handed to the line-oriented genome reader ends in a newline unless the reader consumes the buffer next; record lines are copied verbatim; every restored genome becomes an organism in file order", func() {
		c.populationIO()
	})

	r.Rule("C15.8", "gob streams: Encode and Decode of experiment, trial, generation and champion organism list the same values in the same order under the same conditions; lists are length-prefixed and decoded for every index", func() {
		c.gobPairs()
	})

	r.Rule("C15.13", "a list restored from a gob stream stays as decoded: neither the decoder nor the encoder hands a list field of the record (or a view of it: a conversion, a sort.Reverse wrapper) to a library function that rearranges or rewrites a list (sort.Sort/Stable/Slice..., slices.Sort*/Reverse/Compact/Delete/Insert/Replace, rand.Shuffle) - the order written is the order read back, and encoding does not rearrange the record it encodes", func() {
		c.gobListsUntouched()
	})

	r.Rule("C15.9", "solver model: every model field of the fast solver is saved in one holder field and restored from the same holder field (constructor argument position or later store); modules element-wise; activation types as registry names", func() {
		c.solverModel()
	})

	r.Rule("C15.10", "decoders that fill an object in place (Organism.UnmarshalBinary, Experiment/Trial/Generation.Decode, decodeOrganism): what a successful decode leaves in the object is a function of the bytes read only - no field of the receiver is read before this call has written it (otherwise decoding into a reused object differs from decoding into a zero object), and every field the encoder writes is assigned from the wire on every path that returns a nil error (otherwise the object keeps a stale value)", func() {
		c.decodeDeterminacy()
	})

	r.Rule("C15.12", "references by id in the genome readers: a trait or node that the lookup finds is carried into the restored record on every path that returns without an error, and the uniqueness probes on the lists being built let ids pass that are not there yet", func() {
		c.lookupsByID()
	})

	r.Rule("C15.11", "an encoder or decoder (gob streams, organism binary form, plain/YAML genome codecs, population and solver-model files, the Read/Write wrappers) that returns a nil error has performed every wire operation of its sequence and none of them failed (the streams are unframed: a writer that reports success after a prefix produces a file that cannot be read back, a reader restores a prefix): no success path skips an operation whose presence condition holds, and a loop over a list is left early only with an error", func() {
		c.wireOpsComplete()
	})
}

func (c *c15) plainGene() {
	p, r := c.p, c.r
	label := "plain.gene"
	wfn := p.Func(PkgG, "plainGenomeWriter.writeConnectionGene")
	rfn := p.Func(PkgG, "readPlainConnectionGene")
	slots, items, ok := c.plainWriterSlots(wfn, label)
	if !ok {
		return
	}
	c.checkSeparators(label, items, p.Pos(wfn.Pos()))
	_, targets, rverbs, ok := c.scanTargets(rfn, label)
	if !ok {
		return
	}
	r.Check(len(targets) == len(slots), label+".columns", p.Pos(rfn.Pos()), fmt.Sprintf("%d columns written, %d scanned", len(slots), len(targets)),
		fmt.Sprintf("the writer emits %d columns but the reader scans %d", len(slots), len(targets)))
	sf := &slotFinder{allocSlot: targets}
	sm := c.sums.Ctor(rfn)
	robj := &readerObject{fields: map[string][]*Term{}, elems: map[string][]*Term{}, why: sm.Why}
	if sm.Why == "" {
		c.flatten(rfn, sm, "", &geneTable, robj, 0)
	}
	c.recordPair(label, &geneTable, wfn, 1, slots, rfn, sf, robj, rverbs)
}

func (c *c15) plainNode() {
	p, r := c.p, c.r
	label := "plain.node"
	wfn := p.Func(PkgG, "plainGenomeWriter.writeNetworkNode")
	rfn := p.Func(PkgG, "readPlainNetworkNode")
	slots, items, ok := c.plainWriterSlots(wfn, label)
	if !ok {
		return
	}
	c.checkSeparators(label, items, p.Pos(wfn.Pos()))
	rtm := NewTermer(rfn)
	// the reader splits one line on single blanks
	isSplit := func(t *Term) bool {
		return t.Op == "call" && t.Name == "strings.Split" && len(t.Args) == 2 && t.Args[1].Op == "const" && t.Args[1].Name == `" "`
	}
	sf := &slotFinder{splitOf: isSplit}
	sm := c.sums.Ctor(rfn)
	robj := &readerObject{fields: map[string][]*Term{}, elems: map[string][]*Term{}, why: sm.Why}
	if sm.Why == "" {
		c.flatten(rfn, sm, "", &plainNodeTable, robj, 0)
	}
	c.recordPair(label, &plainNodeTable, wfn, 1, slots, rfn, sf, robj, nil)
	// the reader must not consume an ignored column
	for slot, why := range plainNodeTable.ignored {
		used := false
		for _, alts := range robj.fields {
			for _, a := range alts {
				a.Walk(func(x *Term) bool {
					if sr, ok := sf.direct(x); ok && sr.Slot == slot {
						used = true
					}
					return true
				})
			}
		}
		r.Check(!used, label+".ignored:"+slot, p.Pos(rfn.Pos()), "column "+slot+" is not consumed ("+why+")", "the reader consumes column "+slot+", which holds a derived value")
	}
	// every comparison of the number of columns with a constant must accept what the writer emits. The comparison is read
	// as a fact (CmpFact: `4 > len(parts)`, `!(len(parts) < 4)` and an exchanged if/else are the same test), its outcome
	// for the number of columns the writer emits is fixed, and under these outcomes (path search, robust_c15/c15d):
	//   - the branch taken can still end in a return without an error (the written line is not rejected);
	//   - every field the reader assigns at all is assigned on every path that returns without an error (no field read
	//     is skipped for the written number of columns).
	n := int64(len(slots))
	type colTest struct {
		iff     *ssa.If
		op      token.Token
		k       constant.Value
		outcome bool
	}
	var tests []colTest
	var fixed []Guard
	Instrs(rfn, func(b *ssa.BasicBlock, _ int, in ssa.Instruction) {
		iff, ok := in.(*ssa.If)
		if !ok {
			return
		}
		cx, cy, op, okc := CmpFact(iff.Cond, true)
		if !okc {
			return
		}
		lt := rtm.Of(cx)
		k, isC := cy.(*ssa.Const)
		if lt.Op != "len" || !isSplit(lt.Args[0]) || !isC || k.Value == nil {
			return
		}
		outcome := constant.Compare(constant.MakeInt64(n), op, k.Value)
		tests = append(tests, colTest{iff, op, k.Value, outcome})
		fixed = append(fixed, Guard{iff.Cond, outcome, b})
	})
	// the object that is filled: what the returns hand out
	var subj ssa.Value
	nSubj := 0
	Instrs(rfn, func(_ *ssa.BasicBlock, _ int, in ssa.Instruction) {
		if ret, ok := in.(*ssa.Return); ok && len(ret.Results) > 0 {
			if k, isC := ret.Results[0].(*ssa.Const); isC && k.Value == nil {
				return
			}
			if ret.Results[0] != subj {
				subj = ret.Results[0]
				nSubj++
			}
		}
	})
	skipped := ""
	if nSubj == 1 {
		assigned := map[string]bool{}
		Instrs(rfn, func(_ *ssa.BasicBlock, _ int, in ssa.Instruction) {
			for _, f := range c15Writes(in, subj, true) {
				assigned[f] = true
			}
		})
		for _, f := range sortedKeys(assigned) {
			f := f
			if path := c15SuccessPath(p, c15SuccessQuery{fn: rfn, fixed: fixed, explored: &r.PathsExplored,
				avoid: func(i ssa.Instruction) bool { return c15Has(c15Writes(i, subj, true), f) }}); path != nil {
				skipped = f
				break
			}
		}
	} else {
		skipped = "(the reader does not return one object)"
	}
	for _, t := range tests {
		b := t.iff.Block()
		taken := b.Succs[1]
		if t.outcome {
			taken = b.Succs[0]
		}
		accepts := c15SuccessPath(p, c15SuccessQuery{fn: rfn, fixed: fixed, startEdge: [2]*ssa.BasicBlock{b, taken}, explored: &r.PathsExplored}) != nil
		why := ""
		switch {
		case !accepts:
			why = "it rejects the line (the branch taken only returns errors)"
		case skipped != "":
			why = "the field " + skipped + " is not read on some path that returns without an error"
		}
		r.Check(why == "", label+".column-count:"+t.op.String()+t.k.ExactString(), p.Pos(t.iff.Pos()),
			fmt.Sprintf("len(columns) %s %s with the %d written columns takes the branch that reads every field", t.op, t.k.ExactString(), n),
			fmt.Sprintf("the reader tests len(columns) %s %s; with the %d columns the writer emits %s", t.op, t.k.ExactString(), n, why))
	}
	r.Floor("column-count tests of the plain node reader", len(tests), 2)
}

func (c *c15) plainTrait() {
	p, r := c.p, c.r
	label := "plain.trait"
	wfn := p.Func(PkgG, "plainGenomeWriter.writeTrait")
	rfn := p.Func(PkgG, "readPlainTrait")
	r.Fn(FuncName(wfn), FuncName(rfn))
	wtm, rtm := NewTermer(wfn), NewTermer(rfn)
	// the writer may pick the format of one Fprintf among constants (`"%g "` / `"%g"` for the last parameter):
	// every alternative of every call is decided like a call of its own
	wcallsAlt, und := fmtCallsAlt(wfn, true)
	rcalls, und2 := fmtCalls(rfn)
	if len(und)+len(und2) > 0 {
		r.Undecided(label, p.Pos(wfn.Pos()), "a fmt call with a non-constant format or argument list")
		return
	}
	var wcalls []fmtCall
	for _, fc := range wcallsAlt {
		if len(fc.Formats) <= 1 {
			wcalls = append(wcalls, fc)
			continue
		}
		for _, f := range fc.Formats {
			one := fc
			one.Format, one.Formats = f, []string{f}
			wcalls = append(wcalls, one)
		}
	}
	loopsW, loopsR := Loops(wfn), Loops(rfn)
	idW, parW, idR, parR := 0, 0, 0, 0
	idSites := map[ssa.Instruction]bool{}
	for _, fc := range wcalls {
		if fc.Kind != "printf" || len(fc.Args) != 1 {
			r.Bad(label+".writer.shape", p.Pos(fc.Call.Pos()), "unexpected print call in the trait writer")
			continue
		}
		items := parseFormat(fc.Format)
		v := verbsOf(items)
		t := wtm.Of(fc.Args[0])
		inLoop := InnermostLoop(loopsW, fc.Call.Block()) != nil
		okText := len(v) == 1 && items[0].Verb != 0 && (len(items) == 1 || (len(items) == 2 && items[1].Literal == " "))
		switch {
		case t.String() == "p1.Id" && !inLoop:
			if !idSites[fc.Call] {
				idW++ // one site, whatever the number of format alternatives (each alternative is checked below)
			}
			idSites[fc.Call] = true
			ok, why := verbFaithful(v[0], types.Typ[types.Int])
			r.Check(ok && okText && len(items) == 2, label+".Id.writer", p.Pos(fc.Call.Pos()), "trait id written first, followed by a blank", "trait id: "+why+" / not followed by exactly one blank")
		case t.Op == "elem" && t.Args[0].String() == "p1.Params" && inLoop:
			parW++
			ok, why := verbFaithful(v[0], types.Typ[types.Float64])
			// a parameter printed without a blank behind it runs into the next one ("0.10.2"): that spelling is for the
			// last parameter only
			if ok && okText && len(items) == 1 && !c15OnlyForLast(wtm, fc, InnermostLoop(loopsW, fc.Call.Block())) {
				ok, why = false, "the format without a trailing blank is not restricted to the last parameter (i >= len(Params)-1): two parameters run together"
			}
			r.Check(ok && okText, label+".Params.writer", p.Pos(fc.Call.Pos()), "parameter written with an exactly-reversible verb", "trait parameter: "+why+" / not separated by single blanks")
		default:
			r.Bad(label+".writer.operand", p.Pos(fc.Call.Pos()), "the trait writer prints "+t.String())
		}
	}
	// the writer's loop covers all parameters
	for _, l := range loopsW {
		if iff, ok := l.Header.Instrs[len(l.Header.Instrs)-1].(*ssa.If); ok {
			// the loop counts 0..len(p1.Params)-1, however the test is spelled
			_, bound, okc := countsUp(l)
			r.Check(okc && wtm.Of(bound).String() == "len(p1.Params)", label+".Params.writer-range", p.Pos(wfn.Pos()), "all parameters are written", "the writer does not range over all trait parameters: "+wtm.Of(iff.Cond).String())
		}
	}
	newTrait := p.Func(PkgT, "NewTrait")
	nParams := p.constVal(PkgT, "NumTraitParams", "")
	for _, fc := range rcalls {
		if fc.Kind != "scanf" || len(fc.Args) != 1 {
			r.Bad(label+".reader.shape", p.Pos(fc.Call.Pos()), "unexpected scan call in the trait reader")
			continue
		}
		v := verbsOf(parseFormat(fc.Format))
		t := rtm.Of(fc.Args[0])
		inLoop := InnermostLoop(loopsR, fc.Call.Block()) != nil
		switch {
		case t.Op == "field" && t.Name == "Id" && isCallTo(t.Args[0], newTrait) && !inLoop:
			idR++
			r.Check(len(v) == 1 && v[0].Verb == 'd' && v[0].Flags == "", label+".Id.reader", p.Pos(fc.Call.Pos()), "trait id scanned into the new trait's Id", "trait id scanned with "+fc.Format)
		case t.Op == "elem" && t.Args[0].Op == "field" && t.Args[0].Name == "Params" && isCallTo(t.Args[0].Args[0], newTrait) && inLoop:
			parR++
			okV := len(v) == 1 && (v[0].Verb == 'g' || v[0].Verb == 'v') && v[0].Flags == ""
			// index = loop counter 0,1,..,< NumTraitParams
			l := InnermostLoop(loopsR, fc.Call.Block())
			okIdx := false
			if ia, ok := fc.Args[0].(*ssa.IndexAddr); ok && l != nil {
				// the index is the counter of a loop over 0..NumTraitParams-1 (`for i := 0; i < N; i++` or `for i := range nt.Params`)
				if idx, bnd, okc := countsUp(l); okc && ia.Index == idx {
					bt := rtm.Of(bnd)
					okIdx = (bt.Op == "const" && bt.Name == nParams) || bt.String() == "len(NewTrait().Params)"
				}
			}
			r.Check(okV && okIdx, label+".Params.reader", p.Pos(fc.Call.Pos()), "parameters 0..NumTraitParams-1 scanned with %g into Params[i]",
				fmt.Sprintf("trait parameters are not scanned one by one into Params[0..NumTraitParams-1] with an exact verb (verb ok=%v, index/bound ok=%v)", okV, okIdx))
		default:
			r.Bad(label+".reader.target", p.Pos(fc.Call.Pos()), "the trait reader scans into "+t.String())
		}
	}
	r.Check(idW == 1 && idR == 1 && parW >= 1 && parR == 1, label+".shape", p.Pos(wfn.Pos()), "id then parameters on both sides",
		fmt.Sprintf("trait record shape: writer id sites=%d param sites=%d, reader id sites=%d param sites=%d", idW, parW, idR, parR))
	// NewTrait allocates NumTraitParams parameters
	sm := c.sums.Ctor(newTrait)
	pt := sm.Fields[p.Field(PkgT, "Trait", "Params")]
	r.Check(pt != nil && pt.Op == "make" && len(pt.Args) == 1 && pt.Args[0].String() == nParams, label+".NewTrait", p.Pos(newTrait.Pos()), "NewTrait allocates NumTraitParams parameters", fmt.Sprintf("NewTrait allocates %v parameters, NumTraitParams is %s", pt, nParams))
}

func (c *c15) yamlRecords() {
	p := c.p
	type pair struct {
		label    string
		w, rd    string
		tab      *wireTable
		docParam int
	}
	pairs := []pair{
		{"yaml.gene", "yamlGenomeWriter.encodeConnectionGene", "readGene", &geneTable, 0},
		{"yaml.node", "yamlGenomeWriter.encodeNetworkNode", "readNNode", &yamlNodeTable, 0},
		{"yaml.trait", "yamlGenomeWriter.encodeGenomeTrait", "readTrait", &yamlTraitTable, 0},
		{"yaml.module", "yamlGenomeWriter.encodeControlGene", "readMIMOControlGene", &mimoTable, 0},
	}
	for _, pr := range pairs {
		wfn := p.Func(PkgG, pr.w)
		rd := c.yamlReader(pr.rd)
		if rd.why != "" {
			// fail closed: neither the helper nor a loop that restores the records in place
			c.r.Undecided(pr.label+".reader", p.Pos(rd.fn.Pos()), rd.why)
			continue
		}
		rfn := rd.fn
		slots, ok := c.yamlWriterSlots(wfn, pr.label)
		if !ok {
			continue
		}
		if g := rd.region; g != nil {
			// the record is built by the section loop itself: the element document of the iteration stands for the
			// helper's document parameter, the state of the object at its hand-over for the helper's returned object
			sf := &slotFinder{docParam: g.isDoc}
			robj := &readerObject{fields: map[string][]*Term{}, elems: map[string][]*Term{}}
			c.flatten(rfn, g.sm, "", pr.tab, robj, 0)
			c.recordPair(pr.label, pr.tab, wfn, 1, slots, rfn, sf, robj, nil)
			continue
		}
		dp := pr.docParam
		sf := &slotFinder{docParam: func(t *Term) bool { return isParamIdx(t, dp) }}
		sm := c.sums.Ctor(rfn)
		robj := &readerObject{fields: map[string][]*Term{}, elems: map[string][]*Term{}, why: sm.Why}
		if sm.Why == "" {
			c.flatten(rfn, sm, "", pr.tab, robj, 0)
		}
		c.recordPair(pr.label, pr.tab, wfn, 1, slots, rfn, sf, robj, nil)
	}
	c.r.Floor("YAML record pairs", len(pairs), 4)
}

var _ = sort.Strings
