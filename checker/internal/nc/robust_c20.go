package nc

import (
	"fmt"
	"go/token"
	"go/types"
	"sort"

	"golang.org/x/tools/go/ssa"
)

// Helpers of the C20 rules that make them independent of the surface form of a loop
// (three-clause for / while-style for / `for { if c { break } ... }` / a flag tested in the
// loop condition).
//
// Model of a loop iteration used by C20:
//
//	header --(condition region R: effect-free blocks that are reached only through R)--> body
//
// The exits taken from R are the loop *condition*: they end the loop before anything of the
// iteration happened. Every such exit has to be justified (counter exhausted, or - generation
// loop only - a flag that is raised only under generation.Solved). An iteration *starts* on an
// edge from R into the rest of the loop and *ends normally* when control returns to the header
// or leaves the loop from a block outside R towards code that stays in the surrounding loop
// (break). Leaving the function from inside the body is an error path, the returns reachable
// that way are checked separately to carry an error.

// c20PureBlock: the block evaluates only loads, address computations, arithmetic/comparisons
// and phis before its terminator (no call, store, channel operation, allocation ...).
func c20PureBlock(b *ssa.BasicBlock) bool {
	for _, in := range b.Instrs {
		switch x := in.(type) {
		case *ssa.Phi, *ssa.BinOp, *ssa.FieldAddr, *ssa.IndexAddr, *ssa.Field, *ssa.Index,
			*ssa.Convert, *ssa.ChangeType, *ssa.If, *ssa.Jump, *ssa.DebugRef:
		case *ssa.UnOp:
			if x.Op == token.ARROW {
				return false
			}
		default:
			return false
		}
	}
	return true
}

// c20CondRegion returns the condition region of l (may be empty when the header itself has effects).
func c20CondRegion(l *Loop) map[*ssa.BasicBlock]bool {
	R := map[*ssa.BasicBlock]bool{}
	if !c20PureBlock(l.Header) {
		return R
	}
	R[l.Header] = true
	for changed := true; changed; {
		changed = false
		for b := range l.Blocks {
			if R[b] || b == l.Header || !c20PureBlock(b) || len(b.Preds) == 0 {
				continue
			}
			all := true
			for _, p := range b.Preds {
				if !R[p] {
					all = false
				}
			}
			if all {
				R[b] = true
				changed = true
			}
		}
	}
	return R
}

// c20Loop bundles a loop with its condition region.
type c20Loop struct {
	L *Loop
	R map[*ssa.BasicBlock]bool
}

func newC20Loop(l *Loop) *c20Loop { return &c20Loop{L: l, R: c20CondRegion(l)} }

// Starts: the CFG edges on which an iteration begins.
func (c *c20Loop) Starts() [][2]*ssa.BasicBlock {
	var out [][2]*ssa.BasicBlock
	if len(c.R) == 0 {
		for _, p := range c.L.Header.Preds {
			out = append(out, [2]*ssa.BasicBlock{p, c.L.Header})
		}
		return out
	}
	for _, b := range c.L.Header.Parent().Blocks { // deterministic order
		if !c.R[b] {
			continue
		}
		for _, s := range b.Succs {
			if c.L.Blocks[s] && !c.R[s] {
				out = append(out, [2]*ssa.BasicBlock{b, s})
			}
		}
	}
	return out
}

// IsStart: edge predicate of Starts.
func (c *c20Loop) IsStart(a, b *ssa.BasicBlock) bool {
	if len(c.R) == 0 {
		return b == c.L.Header
	}
	return c.R[a] && c.L.Blocks[b] && !c.R[b]
}

// CondExits: the exits of the loop condition (edges from R out of the loop).
func (c *c20Loop) CondExits() [][2]*ssa.BasicBlock {
	var out [][2]*ssa.BasicBlock
	for _, b := range c.L.Header.Parent().Blocks {
		if !c.R[b] {
			continue
		}
		for _, s := range b.Succs {
			if !c.L.Blocks[s] {
				out = append(out, [2]*ssa.BasicBlock{b, s})
			}
		}
	}
	return out
}

// IsCondExit: edge predicate of CondExits.
func (c *c20Loop) IsCondExit(a, b *ssa.BasicBlock) bool { return c.R[a] && !c.L.Blocks[b] }

// BodyExits: edges that leave the loop from a block that is not part of the loop condition (break / return paths).
func (c *c20Loop) BodyExits() [][2]*ssa.BasicBlock {
	var out [][2]*ssa.BasicBlock
	for _, b := range c.L.Header.Parent().Blocks {
		if !c.L.Blocks[b] || c.R[b] {
			continue
		}
		for _, s := range b.Succs {
			if !c.L.Blocks[s] {
				out = append(out, [2]*ssa.BasicBlock{b, s})
			}
		}
	}
	return out
}

func c20IsConstInt(v ssa.Value, want string) bool {
	c, ok := v.(*ssa.Const)
	return ok && c.Value != nil && c.Value.ExactString() == want
}

// c20StepOf: v is ph+1 on every way it can be computed (looks through phis inside the loop).
func c20StepOf(v ssa.Value, ph *ssa.Phi, l *Loop, depth int) bool {
	if depth > 4 {
		return false
	}
	switch x := v.(type) {
	case *ssa.BinOp:
		if x.Op != token.ADD {
			return false
		}
		return (x.X == ssa.Value(ph) && c20IsConstInt(x.Y, "1")) || (x.Y == ssa.Value(ph) && c20IsConstInt(x.X, "1"))
	case *ssa.Phi:
		if x == ph || !l.Blocks[x.Block()] || len(x.Edges) == 0 {
			return false
		}
		for _, e := range x.Edges {
			if !c20StepOf(e, ph, l, depth+1) {
				return false
			}
		}
		return true
	}
	return false
}

// c20Counter finds the exit test `counter < bound` of the loop condition, in any of its spellings
// (c < n continues, c >= n exits, n > c continues, n <= c exits, with negations), where counter is a
// header phi that is 0 on every entry edge and counter+1 on every back edge. It returns the bound's
// term, the phi, and the exit edge of the test.
func (c *c20Loop) Counter(tm *Termer) (bound *Term, phi *ssa.Phi, exit [2]*ssa.BasicBlock, ok bool) {
	l := c.L
	for _, b := range l.Header.Parent().Blocks {
		if !c.R[b] {
			continue
		}
		iff, isIf := b.Instrs[len(b.Instrs)-1].(*ssa.If)
		if !isIf || b.Succs[0] == b.Succs[1] {
			continue
		}
		in0, in1 := l.Blocks[b.Succs[0]], l.Blocks[b.Succs[1]]
		if in0 == in1 {
			continue
		}
		contWhen := in0 // the outcome of the condition on which the loop continues
		cond := iff.Cond
		for {
			u, isNot := cond.(*ssa.UnOp)
			if !isNot || u.Op != token.NOT {
				break
			}
			cond = u.X
			contWhen = !contWhen
		}
		bin, isBin := cond.(*ssa.BinOp)
		if !isBin {
			continue
		}
		var cnt, bnd ssa.Value
		switch bin.Op {
		case token.LSS: // cnt < bnd : continue when true
			cnt, bnd = bin.X, bin.Y
		case token.GTR: // bnd > cnt : continue when true
			cnt, bnd = bin.Y, bin.X
		case token.GEQ: // cnt >= bnd : continue when false
			cnt, bnd = bin.X, bin.Y
			contWhen = !contWhen
		case token.LEQ: // bnd <= cnt : continue when false
			cnt, bnd = bin.Y, bin.X
			contWhen = !contWhen
		default:
			continue
		}
		if !contWhen {
			continue
		}
		ph, isPhi := cnt.(*ssa.Phi)
		if !isPhi || ph.Block() != l.Header {
			continue
		}
		good := len(ph.Edges) >= 2
		entries, backs := 0, 0
		for i, e := range ph.Edges {
			if l.Blocks[l.Header.Preds[i]] {
				backs++
				if !c20StepOf(e, ph, l, 0) {
					good = false
				}
			} else {
				entries++
				if !c20IsConstInt(e, "0") {
					good = false
				}
			}
		}
		if !good || entries == 0 || backs == 0 {
			continue
		}
		ex := b.Succs[0]
		if in0 {
			ex = b.Succs[1]
		}
		return tm.Of(bnd), ph, [2]*ssa.BasicBlock{b, ex}, true
	}
	return nil, nil, [2]*ssa.BasicBlock{}, false
}

// c20StripNot removes `!` wrappers of a condition term; neg reports an odd number of them.
func c20StripNot(t *Term) (*Term, bool) {
	neg := false
	for t != nil && t.Op == "un" && t.Name == "!" && len(t.Args) == 1 {
		t = t.Args[0]
		neg = !neg
	}
	return t, neg
}

// c20SolvedGuard: the guard says that <record>.Solved has the value want.
func c20SolvedGuard(tm *Termer, g Guard, want bool) bool {
	t, neg := c20StripNot(tm.Of(g.Cond))
	if t == nil || t.Op != "field" || t.Name != "Solved" {
		return false
	}
	return (g.True != neg) == want
}

// c20After: instruction y executes only after x executed (same block later, or x's block strictly dominates y's).
func c20After(x, y ssa.Instruction) bool {
	if x.Block() == y.Block() {
		return instrIndex(y) > instrIndex(x)
	}
	return x.Block().Dominates(y.Block())
}

// c20SolvedFlagExit: the edge a->s of the loop condition is taken exactly when a boolean flag is true, the flag
// takes only constants, is false on entry of the loop, and every edge on which it becomes true is taken only
// under <record>.Solved == true read after an evaluation (evals = the GenerationEvaluate calls).
func c20SolvedFlagExit(tm *Termer, l *Loop, a, s *ssa.BasicBlock, evals []ssa.Instruction) (bool, string) {
	iff, ok := a.Instrs[len(a.Instrs)-1].(*ssa.If)
	if !ok || a.Succs[0] == a.Succs[1] {
		return false, "not a conditional exit"
	}
	flag, trueOutcome, ok := boolFlagOf(iff.Cond)
	if !ok {
		return false, "the exit condition is neither the counter test nor a boolean flag"
	}
	exitOutcome := a.Succs[0] == s
	if exitOutcome != trueOutcome {
		return false, "the loop is left while the flag is false"
	}
	w := phiWeb(flag)
	if len(w.Feeders) > 0 || w.HasNil {
		return false, "the flag is not a phi of boolean constants"
	}
	hdr := false
	for ph := range w.Phis {
		if !l.Blocks[ph.Block()] {
			return false, "the flag lives outside the generation loop"
		}
		if ph.Block() == l.Header {
			hdr = true
			for i, e := range ph.Edges {
				if !l.Blocks[l.Header.Preds[i]] && !IsConstBool(e, false) {
					return false, "the flag is not false when the generation loop is entered"
				}
			}
		}
	}
	if !hdr {
		return false, "the flag is not carried by the loop header"
	}
	sites := flagSites(flag, true)
	if len(sites) == 0 {
		return false, "the flag is never raised"
	}
	for _, fs := range sites {
		okSite := false
		for _, g := range condsAt(fs.From, fs.To) {
			if !c20SolvedGuard(tm, g, true) {
				continue
			}
			ld, isInstr := g.Cond.(ssa.Instruction)
			for isInstr {
				u, isNot := ld.(*ssa.UnOp)
				if !isNot || u.Op != token.NOT {
					break
				}
				ld, isInstr = u.X.(ssa.Instruction)
			}
			if !isInstr {
				continue
			}
			for _, ev := range evals {
				if c20After(ev, ld) {
					okSite = true
				}
			}
		}
		if !okSite {
			return false, "the flag is raised on an edge that is not guarded by generation.Solved read after the evaluation"
		}
	}
	return true, ""
}

// c20AllocOf looks through type changes and degenerate phis to the allocation a pointer denotes.
func c20AllocOf(v ssa.Value) *ssa.Alloc {
	for depth := 0; depth < 6; depth++ {
		switch x := v.(type) {
		case *ssa.Alloc:
			return x
		case *ssa.ChangeType:
			v = x.X
		case *ssa.Phi:
			var only ssa.Value
			for _, e := range x.Edges {
				if only == nil {
					only = e
				} else if only != e {
					return nil
				}
			}
			if only == nil {
				return nil
			}
			v = only
		default:
			return nil
		}
	}
	return nil
}

// c20FreshStructValue: v is the value of a composite literal / zero value built in the loop l without
// touching field `avoid`: a load of an allocation placed in l that is written only field-wise, never at `avoid`.
func c20FreshStructValue(v ssa.Value, l *Loop, avoid *types.Var) bool {
	if c, ok := v.(*ssa.Const); ok {
		return c.Value == nil // zero value of the struct
	}
	u, ok := v.(*ssa.UnOp)
	if !ok || u.Op != token.MUL {
		return false
	}
	a, ok := u.X.(*ssa.Alloc)
	if !ok || !l.Blocks[a.Block()] || a.Referrers() == nil {
		return false
	}
	for _, ref := range *a.Referrers() {
		switch r := ref.(type) {
		case *ssa.FieldAddr:
			if fieldOf(r.X.Type(), r.Field) == avoid {
				return false
			}
			if r.Referrers() != nil {
				for _, rr := range *r.Referrers() {
					if st, isSt := rr.(*ssa.Store); !isSt || st.Addr != ssa.Value(r) {
						return false // the field's address escapes or is read: keep it simple
					}
				}
			}
		case *ssa.UnOp:
			if r.Op != token.MUL {
				return false
			}
		case *ssa.DebugRef:
		default:
			return false // whole-value store, call argument, ...
		}
	}
	return true
}

// ---------------------------------------------------------------------------
// Second robustness round
//
// (1) receivers of the observer notifications: `if observer != nil { observer.X() }` and the null-object form
//     `o := observer; if o == nil { o = noop{} }; ...; o.X()` are the same protocol. What the rules claim about a
//     notification site is (a) with an observer present the call is delivered to that observer, (b) without an
//     observer nothing is delivered (and nothing is dereferenced). c20RecvLeaves decomposes the receiver of a site
//     into the values that can flow into it together with the CFG edge on which each of them is chosen, so that
//     both claims can be decided by the flag-sensitive path search on those edges.
// (2) "the error of X is returned": decided on every path after the failing call instead of by looking for a
//     `return <that very SSA value>` (the value may travel through the result variable of an inlined helper).
// (3) the executor selection: a `return a, b` whose operands are phis (named results, single exit) is split into
//     one leaf per way the operands can be chosen, with the branch outcomes known on that way.

// c20RecvLeaf: value Val can be the receiver; it is selected when the edge From->To is taken (From == nil: the
// value is the receiver operand itself, selected whenever the site executes).
type c20RecvLeaf struct {
	Val      ssa.Value
	From, To *ssa.BasicBlock
}

func c20RecvLeaves(v ssa.Value) []c20RecvLeaf {
	strip := func(x ssa.Value) ssa.Value {
		for {
			ct, ok := x.(*ssa.ChangeType)
			if !ok {
				return x
			}
			x = ct.X
		}
	}
	v = strip(v)
	ph, ok := v.(*ssa.Phi)
	if !ok {
		return []c20RecvLeaf{{Val: v}}
	}
	var out []c20RecvLeaf
	seen := map[*ssa.Phi]bool{}
	var visit func(q *ssa.Phi)
	visit = func(q *ssa.Phi) {
		if seen[q] {
			return
		}
		seen[q] = true
		for i, e := range q.Edges {
			e = strip(e)
			if inner, isPhi := e.(*ssa.Phi); isPhi {
				visit(inner)
				continue
			}
			out = append(out, c20RecvLeaf{Val: e, From: q.Block().Preds[i], To: q.Block()})
		}
	}
	visit(ph)
	return out
}

// c20NoopMethod: the method `name` of the dynamic type wrapped by mi has no effect at all (its body, and the body
// of whatever a promotion/pointer wrapper forwards to, only returns).
func c20NoopMethod(p *Prog, mi *ssa.MakeInterface, name string) bool {
	T := mi.X.Type()
	ms := p.SSA.MethodSets.MethodSet(T)
	var fn *ssa.Function
	for i := 0; i < ms.Len(); i++ {
		if ms.At(i).Obj().Name() == name {
			fn = p.SSA.MethodValue(ms.At(i))
		}
	}
	return fn != nil && c20EffectFree(fn, 0)
}

func c20EffectFree(fn *ssa.Function, depth int) bool {
	if depth > 3 || len(fn.Blocks) == 0 || fn.Recover != nil {
		return false
	}
	for _, b := range fn.Blocks {
		for _, in := range b.Instrs {
			switch x := in.(type) {
			case *ssa.Return, *ssa.DebugRef, *ssa.Jump, *ssa.If, *ssa.Phi, *ssa.FieldAddr, *ssa.Field, *ssa.BinOp, *ssa.ChangeType:
			case *ssa.UnOp:
				if x.Op == token.ARROW {
					return false
				}
			case *ssa.Call:
				if bi, ok := x.Call.Value.(*ssa.Builtin); ok && bi.Name() == "ssa:wrapnilchk" {
					continue
				}
				callee := x.Call.StaticCallee()
				if callee == nil || !c20EffectFree(callee, depth+1) {
					return false
				}
			default:
				return false
			}
		}
	}
	return true
}

// c20RecvVerdict is what is known about the receiver of one notification site.
type c20RecvVerdict struct {
	NilSafe  bool // without an observer: the site is not executed, or it addresses a substitute whose method does nothing
	NilWhy   string
	NilPath  []string
	Identity bool // with an observer: the receiver is that observer
	IdWhy    string
	IdPath   []string
}

func c20CheckReceiver(p *Prog, fn *ssa.Function, site ssa.CallInstruction, observer ssa.Value, method string, explored *int) c20RecvVerdict {
	v := c20RecvVerdict{NilSafe: true, Identity: true}
	reach := func(lf c20RecvLeaf, nonNil, isNil []ssa.Value) []string {
		q := PathQuery{Fn: fn, NonNil: nonNil, IsNil: isNil, Explored: explored}
		if lf.From == nil {
			q.Target = func(in ssa.Instruction) bool { return in == ssa.Instruction(site) }
		} else {
			q.TargetEdge = func(a, b *ssa.BasicBlock) bool { return a == lf.From && b == lf.To }
		}
		return FindPath(p, q)
	}
	failNil := func(why string, path []string) {
		if v.NilSafe {
			v.NilSafe, v.NilWhy, v.NilPath = false, why, path
		}
	}
	failID := func(why string, path []string) {
		if v.Identity {
			v.Identity, v.IdWhy, v.IdPath = false, why, path
		}
	}
	for _, lf := range c20RecvLeaves(site.Common().Value) {
		switch x := lf.Val.(type) {
		case *ssa.Parameter:
			if ssa.Value(x) != observer {
				failNil("the receiver can be "+x.Name()+", which is not the observer", nil)
				failID("the receiver can be "+x.Name()+", which is not the observer", nil)
				continue
			}
			// the observer itself: must not be selected when it is nil
			if path := reach(lf, nil, []ssa.Value{observer}); path != nil {
				failNil(method+" is reachable with a nil observer (nil dereference)", path)
			}
		case *ssa.MakeInterface:
			// a substitute: only when there is no observer, and it must ignore the notification
			if !c20NoopMethod(p, x, method) {
				failNil("without an observer "+method+" is delivered to a "+x.X.Type().String()+" whose method is not empty", nil)
			}
			if path := reach(lf, []ssa.Value{observer}, nil); path != nil {
				failID("with an observer present "+method+" can be delivered to a "+x.X.Type().String()+" instead of the observer", path)
			}
		default:
			failNil("the receiver can be "+lf.Val.String()+", which is neither the observer nor a fresh substitute", nil)
			failID("the receiver can be "+lf.Val.String()+", which is not the observer", nil)
		}
	}
	return v
}

// c20ErrReturned: on every path that starts right after the call `s` under the assumption that its error result
// errV is non-nil, the Return that ends the path returns exactly errV (phis are resolved along the path, branch
// conditions on values known along the path - nil tests of the error, boolean flags - are decided); at least one
// such Return exists. Paths that come back to an already visited state are not followed (what may happen after an
// error before the function returns is the business of the `error-stops` obligation).
func c20ErrReturned(p *Prog, s ssa.Instruction, errV ssa.Value) (bool, string) {
	type bind map[*ssa.Phi]ssa.Value
	resolve := func(b bind, v ssa.Value) ssa.Value {
		for {
			ct, ok := v.(*ssa.ChangeType)
			if !ok {
				break
			}
			v = ct.X
		}
		if ph, ok := v.(*ssa.Phi); ok {
			if r, bound := b[ph]; bound {
				return r
			}
		}
		return v
	}
	const (
		unknown = iota
		isNil
		nonNil
	)
	nilness := func(b bind, v ssa.Value) int {
		r := resolve(b, v)
		if r == errV {
			return nonNil
		}
		switch x := r.(type) {
		case *ssa.Const:
			if x.Value == nil {
				switch x.Type().Underlying().(type) {
				case *types.Pointer, *types.Interface, *types.Slice, *types.Map, *types.Signature:
					return isNil
				}
			}
		case *ssa.MakeInterface, *ssa.Alloc:
			return nonNil
		}
		return unknown
	}
	var evalCond func(b bind, c ssa.Value) (bool, bool)
	evalCond = func(b bind, c ssa.Value) (bool, bool) {
		r := resolve(b, c)
		switch x := r.(type) {
		case *ssa.Const:
			if IsConstBool(x, true) {
				return true, true
			}
			if IsConstBool(x, false) {
				return false, true
			}
		case *ssa.UnOp:
			if x.Op == token.NOT {
				v, ok := evalCond(b, x.X)
				return !v, ok
			}
		case *ssa.BinOp:
			if x.Op != token.EQL && x.Op != token.NEQ {
				return false, false
			}
			l, r := nilness(b, x.X), nilness(b, x.Y)
			if l == unknown || r == unknown || (l == nonNil && r == nonNil) {
				return false, false
			}
			eq := l == isNil && r == isNil
			return eq == (x.Op == token.EQL), true
		}
		return false, false
	}
	name := func(v ssa.Value) string {
		if c, ok := v.(*ssa.Const); ok {
			return c.String()
		}
		return v.Name()
	}
	seen := map[string]bool{}
	states, returns, why := 0, 0, ""
	var walk func(blk, from *ssa.BasicBlock, idx int, b bind)
	walk = func(blk, from *ssa.BasicBlock, idx int, b bind) {
		if why != "" {
			return
		}
		if from != nil {
			nb := bind{}
			for k, v := range b {
				nb[k] = v
			}
			for _, in := range blk.Instrs {
				ph, ok := in.(*ssa.Phi)
				if !ok {
					break
				}
				for i, pr := range blk.Preds {
					if pr == from {
						nb[ph] = resolve(b, ph.Edges[i])
						break
					}
				}
			}
			b = nb
			var ks []string
			for k, v := range b {
				ks = append(ks, k.Name()+"="+name(v))
			}
			sort.Strings(ks)
			key := fmt.Sprint(blk.Index, ks)
			if seen[key] {
				return
			}
			seen[key] = true
			if states++; states > 50000 {
				why = "too many paths after the failing call"
				return
			}
		}
		for i := idx; i < len(blk.Instrs); i++ {
			switch x := blk.Instrs[i].(type) {
			case *ssa.Return:
				returns++
				if len(x.Results) == 0 || resolve(b, x.Results[0]) != errV {
					got := "nothing"
					if len(x.Results) > 0 {
						got = resolve(b, x.Results[0]).String()
					}
					why = "a path after the failing call returns " + got + " @" + p.Pos(x.Pos())
				}
				return
			case *ssa.If:
				if val, known := evalCond(b, x.Cond); known {
					if val {
						walk(blk.Succs[0], blk, 0, b)
					} else {
						walk(blk.Succs[1], blk, 0, b)
					}
					return
				}
			}
		}
		for _, s := range blk.Succs {
			walk(s, blk, 0, b)
		}
	}
	walk(s.Block(), nil, instrIndex(s)+1, bind{})
	if why != "" {
		return false, why
	}
	if returns == 0 {
		return false, "no return is reachable after the failing call"
	}
	return true, ""
}

// c20RetLeaf: one way the operands of a Return can be chosen (phis among them resolved over the incoming edges of
// their blocks), with the branch outcomes known on that way.
type c20RetLeaf struct {
	Ret    *ssa.Return
	Vals   []ssa.Value
	Guards []Guard
}

func c20ReturnLeaves(ret *ssa.Return) []c20RetLeaf {
	var out []c20RetLeaf
	var walk func(vals []ssa.Value, gs []Guard, depth int)
	walk = func(vals []ssa.Value, gs []Guard, depth int) {
		// the phi closest to the return first
		var ph *ssa.Phi
		for _, v := range vals {
			if q, ok := v.(*ssa.Phi); ok {
				if ph == nil || (ph.Block() != q.Block() && ph.Block().Dominates(q.Block())) {
					ph = q
				}
			}
		}
		if ph == nil || depth > 8 {
			out = append(out, c20RetLeaf{Ret: ret, Vals: vals, Guards: gs})
			return
		}
		B := ph.Block()
		for i, pred := range B.Preds {
			nv := append([]ssa.Value{}, vals...)
			for j, v := range vals {
				if q, ok := v.(*ssa.Phi); ok && q.Block() == B {
					nv[j] = q.Edges[i]
				}
			}
			ng := append(append([]Guard{}, gs...), condsAt(pred, B)...)
			walk(nv, ng, depth+1)
		}
	}
	walk(ret.Results, append([]Guard{}, Guards(ret.Block())...), 0)
	return out
}
