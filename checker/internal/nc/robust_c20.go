package nc

import (
	"fmt"
	"go/token"
	"go/types"
	"sort"

	"golang.org/x/tools/go/ssa"
	"golang.org/x/tools/go/ssa/ssautil"
)

// Helpers of the C20 rules that make them independent of the surface form of a loop
// (three-clause for / while-style for / `for { if c { break } ... }` / a flag tested in the
// loop condition).
//
// Model of a loop iteration used by C20:
//
//	header --(condition region R: effect-free blocks that are reached only through R)--> body
//
// The exits taken from R are the loop *condition*: they end the loop before anything of the
// iteration happened. Every such exit has to be justified (counter exhausted, or - generation
// loop only - a flag that is raised only under generation.Solved). An iteration *starts* on an
// edge from R into the rest of the loop and *ends normally* when control returns to the header
// or leaves the loop from a block outside R towards code that stays in the surrounding loop
// (break). Leaving the function from inside the body is an error path, the returns reachable
// that way are checked separately to carry an error.

// c20PureBlock: the block evaluates only loads, address computations, arithmetic/comparisons
// and phis before its terminator (no call, store, channel operation, allocation ...).
func c20PureBlock(b *ssa.BasicBlock) bool {
	for _, in := range b.Instrs {
		switch x := in.(type) {
		case *ssa.Phi, *ssa.BinOp, *ssa.FieldAddr, *ssa.IndexAddr, *ssa.Field, *ssa.Index,
			*ssa.Convert, *ssa.ChangeType, *ssa.If, *ssa.Jump, *ssa.DebugRef:
		case *ssa.UnOp:
			if x.Op == token.ARROW {
				return false
			}
		default:
			return false
		}
	}
	return true
}

// c20CondRegion returns the condition region of l (may be empty when the header itself has effects).
func c20CondRegion(l *Loop) map[*ssa.BasicBlock]bool {
	R := map[*ssa.BasicBlock]bool{}
	if !c20PureBlock(l.Header) {
		return R
	}
	R[l.Header] = true
	for changed := true; changed; {
		changed = false
		for b := range l.Blocks {
			if R[b] || b == l.Header || !c20PureBlock(b) || len(b.Preds) == 0 {
				continue
			}
			all := true
			for _, p := range b.Preds {
				if !R[p] {
					all = false
				}
			}
			if all {
				R[b] = true
				changed = true
			}
		}
	}
	return R
}

// c20Loop bundles a loop with its condition region.
type c20Loop struct {
	L *Loop
	R map[*ssa.BasicBlock]bool
}

func newC20Loop(l *Loop) *c20Loop { return &c20Loop{L: l, R: c20CondRegion(l)} }

// Starts: the CFG edges on which an iteration begins.
func (c *c20Loop) Starts() [][2]*ssa.BasicBlock {
	var out [][2]*ssa.BasicBlock
	if len(c.R) == 0 {
		for _, p := range c.L.Header.Preds {
			out = append(out, [2]*ssa.BasicBlock{p, c.L.Header})
		}
		return out
	}
	for _, b := range c.L.Header.Parent().Blocks { // deterministic order
		if !c.R[b] {
			continue
		}
		for _, s := range b.Succs {
			if c.L.Blocks[s] && !c.R[s] {
				out = append(out, [2]*ssa.BasicBlock{b, s})
			}
		}
	}
	return out
}

// IsStart: edge predicate of Starts.
func (c *c20Loop) IsStart(a, b *ssa.BasicBlock) bool {
	if len(c.R) == 0 {
		return b == c.L.Header
	}
	return c.R[a] && c.L.Blocks[b] && !c.R[b]
}

// CondExits: the exits of the loop condition (edges from R out of the loop).
func (c *c20Loop) CondExits() [][2]*ssa.BasicBlock {
	var out [][2]*ssa.BasicBlock
	for _, b := range c.L.Header.Parent().Blocks {
		if !c.R[b] {
			continue
		}
		for _, s := range b.Succs {
			if !c.L.Blocks[s] {
				out = append(out, [2]*ssa.BasicBlock{b, s})
			}
		}
	}
	return out
}

// IsCondExit: edge predicate of CondExits.
func (c *c20Loop) IsCondExit(a, b *ssa.BasicBlock) bool { return c.R[a] && !c.L.Blocks[b] }

// BodyExits: edges that leave the loop from a block that is not part of the loop condition (break / return paths).
func (c *c20Loop) BodyExits() [][2]*ssa.BasicBlock {
	var out [][2]*ssa.BasicBlock
	for _, b := range c.L.Header.Parent().Blocks {
		if !c.L.Blocks[b] || c.R[b] {
			continue
		}
		for _, s := range b.Succs {
			if !c.L.Blocks[s] {
				out = append(out, [2]*ssa.BasicBlock{b, s})
			}
		}
	}
	return out
}

func c20IsConstInt(v ssa.Value, want string) bool {
	c, ok := v.(*ssa.Const)
	return ok && c.Value != nil && c.Value.ExactString() == want
}

// c20StepOf: v is ph+1 on every way it can be computed (looks through phis inside the loop).
func c20StepOf(v ssa.Value, ph *ssa.Phi, l *Loop, depth int) bool {
	if depth > 4 {
		return false
	}
	switch x := v.(type) {
	case *ssa.BinOp:
		if x.Op != token.ADD {
			return false
		}
		return (x.X == ssa.Value(ph) && c20IsConstInt(x.Y, "1")) || (x.Y == ssa.Value(ph) && c20IsConstInt(x.X, "1"))
	case *ssa.Phi:
		if x == ph || !l.Blocks[x.Block()] || len(x.Edges) == 0 {
			return false
		}
		for _, e := range x.Edges {
			if !c20StepOf(e, ph, l, depth+1) {
				return false
			}
		}
		return true
	}
	return false
}

// c20Counter finds the exit test `counter < bound` of the loop condition, in any of its spellings
// (c < n continues, c >= n exits, n > c continues, n <= c exits, with negations), where counter is a
// header phi that is 0 on every entry edge and counter+1 on every back edge. It returns the bound's
// term, the phi, and the exit edge of the test.
func (c *c20Loop) Counter(tm *Termer) (bound *Term, phi *ssa.Phi, exit [2]*ssa.BasicBlock, ok bool) {
	l := c.L
	for _, b := range l.Header.Parent().Blocks {
		if !c.R[b] {
			continue
		}
		iff, isIf := b.Instrs[len(b.Instrs)-1].(*ssa.If)
		if !isIf || b.Succs[0] == b.Succs[1] {
			continue
		}
		in0, in1 := l.Blocks[b.Succs[0]], l.Blocks[b.Succs[1]]
		if in0 == in1 {
			continue
		}
		contWhen := in0 // the outcome of the condition on which the loop continues
		cond := iff.Cond
		for {
			u, isNot := cond.(*ssa.UnOp)
			if !isNot || u.Op != token.NOT {
				break
			}
			cond = u.X
			contWhen = !contWhen
		}
		bin, isBin := cond.(*ssa.BinOp)
		if !isBin {
			continue
		}
		var cnt, bnd ssa.Value
		switch bin.Op {
		case token.LSS: // cnt < bnd : continue when true
			cnt, bnd = bin.X, bin.Y
		case token.GTR: // bnd > cnt : continue when true
			cnt, bnd = bin.Y, bin.X
		case token.GEQ: // cnt >= bnd : continue when false
			cnt, bnd = bin.X, bin.Y
			contWhen = !contWhen
		case token.LEQ: // bnd <= cnt : continue when false
			cnt, bnd = bin.Y, bin.X
			contWhen = !contWhen
		default:
			continue
		}
		if !contWhen {
			continue
		}
		ph, isPhi := cnt.(*ssa.Phi)
		if !isPhi || ph.Block() != l.Header {
			continue
		}
		good := len(ph.Edges) >= 2
		entries, backs := 0, 0
		for i, e := range ph.Edges {
			if l.Blocks[l.Header.Preds[i]] {
				backs++
				if !c20StepOf(e, ph, l, 0) {
					good = false
				}
			} else {
				entries++
				if !c20IsConstInt(e, "0") {
					good = false
				}
			}
		}
		if !good || entries == 0 || backs == 0 {
			continue
		}
		ex := b.Succs[0]
		if in0 {
			ex = b.Succs[1]
		}
		return tm.Of(bnd), ph, [2]*ssa.BasicBlock{b, ex}, true
	}
	return nil, nil, [2]*ssa.BasicBlock{}, false
}

// c20StripNot removes `!` wrappers of a condition term; neg reports an odd number of them.
func c20StripNot(t *Term) (*Term, bool) {
	neg := false
	for t != nil && t.Op == "un" && t.Name == "!" && len(t.Args) == 1 {
		t = t.Args[0]
		neg = !neg
	}
	return t, neg
}

// c20SolvedGuard: the guard says that <record>.Solved has the value want.
func c20SolvedGuard(tm *Termer, g Guard, want bool) bool {
	t, neg := c20StripNot(tm.Of(g.Cond))
	if t == nil || t.Op != "field" || t.Name != "Solved" {
		return false
	}
	return (g.True != neg) == want
}

// c20After: instruction y executes only after x executed (same block later, or x's block strictly dominates y's).
func c20After(x, y ssa.Instruction) bool {
	if x.Block() == y.Block() {
		return instrIndex(y) > instrIndex(x)
	}
	return x.Block().Dominates(y.Block())
}

// c20SolvedFlagExit: the edge a->s of the loop condition is taken exactly when a boolean flag is true, the flag
// takes only constants, is false on entry of the loop, and every edge on which it becomes true is taken only
// under <record>.Solved == true read after an evaluation (evals = the GenerationEvaluate calls).
func c20SolvedFlagExit(tm *Termer, l *Loop, a, s *ssa.BasicBlock, evals []ssa.Instruction) (bool, string) {
	iff, ok := a.Instrs[len(a.Instrs)-1].(*ssa.If)
	if !ok || a.Succs[0] == a.Succs[1] {
		return false, "not a conditional exit"
	}
	flag, trueOutcome, ok := boolFlagOf(iff.Cond)
	if !ok {
		return false, "the exit condition is neither the counter test nor a boolean flag"
	}
	exitOutcome := a.Succs[0] == s
	if exitOutcome != trueOutcome {
		return false, "the loop is left while the flag is false"
	}
	w := phiWeb(flag)
	if len(w.Feeders) > 0 || w.HasNil {
		return false, "the flag is not a phi of boolean constants"
	}
	hdr := false
	for ph := range w.Phis {
		if !l.Blocks[ph.Block()] {
			return false, "the flag lives outside the generation loop"
		}
		if ph.Block() == l.Header {
			hdr = true
			for i, e := range ph.Edges {
				if !l.Blocks[l.Header.Preds[i]] && !IsConstBool(e, false) {
					return false, "the flag is not false when the generation loop is entered"
				}
			}
		}
	}
	if !hdr {
		return false, "the flag is not carried by the loop header"
	}
	sites := flagSites(flag, true)
	if len(sites) == 0 {
		return false, "the flag is never raised"
	}
	for _, fs := range sites {
		okSite := false
		for _, g := range condsAt(fs.From, fs.To) {
			if !c20SolvedGuard(tm, g, true) {
				continue
			}
			ld, isInstr := g.Cond.(ssa.Instruction)
			for isInstr {
				u, isNot := ld.(*ssa.UnOp)
				if !isNot || u.Op != token.NOT {
					break
				}
				ld, isInstr = u.X.(ssa.Instruction)
			}
			if !isInstr {
				continue
			}
			for _, ev := range evals {
				if c20After(ev, ld) {
					okSite = true
				}
			}
		}
		if !okSite {
			return false, "the flag is raised on an edge that is not guarded by generation.Solved read after the evaluation"
		}
	}
	return true, ""
}

// c20AllocOf looks through type changes and degenerate phis to the allocation a pointer denotes.
func c20AllocOf(v ssa.Value) *ssa.Alloc {
	for depth := 0; depth < 6; depth++ {
		switch x := v.(type) {
		case *ssa.Alloc:
			return x
		case *ssa.ChangeType:
			v = x.X
		case *ssa.Phi:
			var only ssa.Value
			for _, e := range x.Edges {
				if only == nil {
					only = e
				} else if only != e {
					return nil
				}
			}
			if only == nil {
				return nil
			}
			v = only
		default:
			return nil
		}
	}
	return nil
}

// c20FreshStructValue: v is the value of a composite literal / zero value built in the loop l without
// touching field `avoid`: a load of an allocation placed in l that is written only field-wise, never at `avoid`.
func c20FreshStructValue(v ssa.Value, l *Loop, avoid *types.Var) bool {
	if c, ok := v.(*ssa.Const); ok {
		return c.Value == nil // zero value of the struct
	}
	u, ok := v.(*ssa.UnOp)
	if !ok || u.Op != token.MUL {
		return false
	}
	a, ok := u.X.(*ssa.Alloc)
	if !ok || !l.Blocks[a.Block()] || a.Referrers() == nil {
		return false
	}
	for _, ref := range *a.Referrers() {
		switch r := ref.(type) {
		case *ssa.FieldAddr:
			if fieldOf(r.X.Type(), r.Field) == avoid {
				return false
			}
			if r.Referrers() != nil {
				for _, rr := range *r.Referrers() {
					if st, isSt := rr.(*ssa.Store); !isSt || st.Addr != ssa.Value(r) {
						return false // the field's address escapes or is read: keep it simple
					}
				}
			}
		case *ssa.UnOp:
			if r.Op != token.MUL {
				return false
			}
		case *ssa.DebugRef:
		case *ssa.Store:
			// a whole-value store of a value that is itself fresh (the result variable of an inlined constructor helper)
			if r.Addr != ssa.Value(a) || r.Val == v || !l.Blocks[r.Block()] || !c20FreshStructValue(r.Val, l, avoid) {
				return false
			}
		default:
			return false // call argument, ...
		}
	}
	return true
}

// ---------------------------------------------------------------------------
// Second robustness round
//
// (1) receivers of the observer notifications: `if observer != nil { observer.X() }` and the null-object form
//     `o := observer; if o == nil { o = noop{} }; ...; o.X()` are the same protocol. What the rules claim about a
//     notification site is (a) with an observer present the call is delivered to that observer, (b) without an
//     observer nothing is delivered (and nothing is dereferenced). c20RecvLeaves decomposes the receiver of a site
//     into the values that can flow into it together with the CFG edge on which each of them is chosen, so that
//     both claims can be decided by the flag-sensitive path search on those edges.
// (2) "the error of X is returned": decided on every path after the failing call instead of by looking for a
//     `return <that very SSA value>` (the value may travel through the result variable of an inlined helper).
// (3) the executor selection: a `return a, b` whose operands are phis (named results, single exit) is split into
//     one leaf per way the operands can be chosen, with the branch outcomes known on that way.

// c20RecvLeaf: value Val can be the receiver; it is selected when the edge From->To is taken (From == nil: the
// value is the receiver operand itself, selected whenever the site executes).
type c20RecvLeaf struct {
	Val      ssa.Value
	From, To *ssa.BasicBlock
}

func c20RecvLeaves(v ssa.Value) []c20RecvLeaf {
	strip := func(x ssa.Value) ssa.Value {
		for {
			ct, ok := x.(*ssa.ChangeType)
			if !ok {
				return x
			}
			x = ct.X
		}
	}
	v = strip(v)
	ph, ok := v.(*ssa.Phi)
	if !ok {
		return []c20RecvLeaf{{Val: v}}
	}
	var out []c20RecvLeaf
	seen := map[*ssa.Phi]bool{}
	var visit func(q *ssa.Phi)
	visit = func(q *ssa.Phi) {
		if seen[q] {
			return
		}
		seen[q] = true
		for i, e := range q.Edges {
			e = strip(e)
			if inner, isPhi := e.(*ssa.Phi); isPhi {
				visit(inner)
				continue
			}
			out = append(out, c20RecvLeaf{Val: e, From: q.Block().Preds[i], To: q.Block()})
		}
	}
	visit(ph)
	return out
}

// c20NoopMethod: the method `name` of the dynamic type wrapped by mi has no effect at all (its body, and the body
// of whatever a promotion/pointer wrapper forwards to, only returns).
func c20NoopMethod(p *Prog, mi *ssa.MakeInterface, name string) bool {
	T := mi.X.Type()
	ms := p.SSA.MethodSets.MethodSet(T)
	var fn *ssa.Function
	for i := 0; i < ms.Len(); i++ {
		if ms.At(i).Obj().Name() == name {
			fn = p.SSA.MethodValue(ms.At(i))
		}
	}
	return fn != nil && c20EffectFree(fn, 0)
}

func c20EffectFree(fn *ssa.Function, depth int) bool {
	if depth > 3 || len(fn.Blocks) == 0 || fn.Recover != nil {
		return false
	}
	for _, b := range fn.Blocks {
		for _, in := range b.Instrs {
			switch x := in.(type) {
			case *ssa.Return, *ssa.DebugRef, *ssa.Jump, *ssa.If, *ssa.Phi, *ssa.FieldAddr, *ssa.Field, *ssa.BinOp, *ssa.ChangeType:
			case *ssa.UnOp:
				if x.Op == token.ARROW {
					return false
				}
			case *ssa.Call:
				if bi, ok := x.Call.Value.(*ssa.Builtin); ok && bi.Name() == "ssa:wrapnilchk" {
					continue
				}
				callee := x.Call.StaticCallee()
				if callee == nil || !c20EffectFree(callee, depth+1) {
					return false
				}
			default:
				return false
			}
		}
	}
	return true
}

// c20RecvVerdict is what is known about the receiver of one notification site.
type c20RecvVerdict struct {
	NilSafe  bool // without an observer: the site is not executed, or it addresses a substitute whose method does nothing
	NilWhy   string
	NilPath  []string
	Identity bool // with an observer: the receiver is that observer
	IdWhy    string
	IdPath   []string
}

func c20CheckReceiver(p *Prog, fn *ssa.Function, site ssa.CallInstruction, observer ssa.Value, method string, explored *int) c20RecvVerdict {
	v := c20RecvVerdict{NilSafe: true, Identity: true}
	reach := func(lf c20RecvLeaf, nonNil, isNil []ssa.Value) []string {
		q := PathQuery{Fn: fn, NonNil: nonNil, IsNil: isNil, Explored: explored}
		if lf.From == nil {
			q.Target = func(in ssa.Instruction) bool { return in == ssa.Instruction(site) }
		} else {
			q.TargetEdge = func(a, b *ssa.BasicBlock) bool { return a == lf.From && b == lf.To }
		}
		return FindPath(p, q)
	}
	failNil := func(why string, path []string) {
		if v.NilSafe {
			v.NilSafe, v.NilWhy, v.NilPath = false, why, path
		}
	}
	failID := func(why string, path []string) {
		if v.Identity {
			v.Identity, v.IdWhy, v.IdPath = false, why, path
		}
	}
	for _, lf := range c20RecvLeaves(site.Common().Value) {
		switch x := lf.Val.(type) {
		case *ssa.Parameter:
			if ssa.Value(x) != observer {
				failNil("the receiver can be "+x.Name()+", which is not the observer", nil)
				failID("the receiver can be "+x.Name()+", which is not the observer", nil)
				continue
			}
			// the observer itself: must not be selected when it is nil
			if path := reach(lf, nil, []ssa.Value{observer}); path != nil {
				failNil(method+" is reachable with a nil observer (nil dereference)", path)
			}
		case *ssa.MakeInterface:
			// a substitute: only when there is no observer, and it must ignore the notification
			if !c20NoopMethod(p, x, method) {
				failNil("without an observer "+method+" is delivered to a "+x.X.Type().String()+" whose method is not empty", nil)
			}
			if path := reach(lf, []ssa.Value{observer}, nil); path != nil {
				failID("with an observer present "+method+" can be delivered to a "+x.X.Type().String()+" instead of the observer", path)
			}
		default:
			failNil("the receiver can be "+lf.Val.String()+", which is neither the observer nor a fresh substitute", nil)
			failID("the receiver can be "+lf.Val.String()+", which is not the observer", nil)
		}
	}
	return v
}

// c20ErrReturned: on every path that starts right after the call `s` under the assumption that its error result
// errV is non-nil, the Return that ends the path returns exactly errV (phis are resolved along the path, branch
// conditions on values known along the path - nil tests of the error, boolean flags - are decided); at least one
// such Return exists. Paths that come back to an already visited state are not followed (what may happen after an
// error before the function returns is the business of the `error-stops` obligation).
func c20ErrReturned(p *Prog, s ssa.Instruction, errV ssa.Value) (bool, string) {
	w := &c20RetWalk{P: p, NonNil: errV}
	returns := 0
	why := w.Run(s.Block(), nil, instrIndex(s)+1, func(ret *ssa.Return, got ssa.Value) string {
		returns++
		if got != errV {
			g := "nothing"
			if got != nil {
				g = got.String()
			}
			return "a path after the failing call returns " + g + " @" + p.Pos(ret.Pos())
		}
		return ""
	})
	if why != "" {
		return false, why
	}
	if returns == 0 {
		return false, "no return is reachable after the failing call"
	}
	return true, ""
}

// c20RetWalk walks every path from a program point to the Returns it can reach. Phis are resolved along the path
// (a phi is bound to the operand of the edge the path came in on); a branch whose condition is known along the
// path is followed on the known side only: boolean constants (flags), nil tests of values of known nil-ness
// (NonNil is assumed non-nil; nil constants; fresh allocations / interface wrappings), and - when Ready is set -
// tests of the index delivered by that select against an integer constant, under the assumption that its case 0
// was ready. Every Return reached is handed to the callback together with its first result resolved along the
// path (nil when it has none); a non-empty answer stops the walk and is the verdict.
// A path that comes back to an already visited (block, bindings) state is not followed further.
type c20RetWalk struct {
	P      *Prog
	NonNil ssa.Value   // assumed non-nil (may be nil: no assumption)
	Ready  *ssa.Select // assumed to have delivered index 0 (may be nil)
	// OnInstr (optional) sees every instruction on the paths walked; a non-empty answer stops the walk and is the verdict.
	OnInstr func(ssa.Instruction) string
	// Fourth round:
	True     []ssa.Value                         // boolean values assumed true on every path
	Init     []Guard                             // branch outcomes known when the walk starts (nil-ness facts are taken from them)
	Learn    bool                                // learn nil-ness facts from the outcome of every undecided `x == nil` / `x != nil` branch taken
	StopEdge func(from, to *ssa.BasicBlock) bool // edges the walk does not take
	RetNil   int                                 // set before onReturn is called: nil-ness of the returned value on this path (c20NilUnknown / c20IsNil / c20NonNil)
	facts    c20Facts                            // facts of the path being walked (valid inside callbacks)
	// Sixth round: values that are non-nil by a contract the caller has established (the result of Err() of a context read
	// after its Done channel was found closed); asked with the value as resolved along the path.
	NonNilIf func(ssa.Value) bool
}

// c20Facts: nil-ness learnt along a path, keyed by the value as resolved on that path.
type c20Facts map[ssa.Value]int

func (f c20Facts) with(k ssa.Value, n int) c20Facts {
	nf := make(c20Facts, len(f)+1)
	for k0, v0 := range f {
		nf[k0] = v0
	}
	nf[k] = n
	return nf
}

// learn adds what the outcome of cond says about the nil-ness of a value.
func (w *c20RetWalk) learn(b c20Bind, f c20Facts, cond ssa.Value, outcome bool) c20Facts {
	if r := w.resolve(b, cond); r != nil {
		cond = r
	}
	x, y, op, ok := CmpFact(cond, outcome)
	if !ok || !c20IsNilConst(w.resolve(b, y)) {
		return f
	}
	switch op {
	case token.EQL:
		return f.with(w.resolve(b, x), c20IsNil)
	case token.NEQ:
		return f.with(w.resolve(b, x), c20NonNil)
	}
	return f
}

// c20Bind: what is known along a path - a phi is bound to the operand it received; a local variable that lives in
// memory only because of a defer/closure-free technicality (c20PrivateCell: an Alloc that is only stored to and
// loaded from directly, e.g. the result slot of a function with defers) is bound to the value last stored; a load
// of such a cell is bound to the cell's content at the time of the load.
type c20Bind map[ssa.Value]ssa.Value

func (b c20Bind) with(k, v ssa.Value) c20Bind {
	nb := make(c20Bind, len(b)+1)
	for k0, v0 := range b {
		nb[k0] = v0
	}
	nb[k] = v
	return nb
}

// c20PrivateCell: the allocation's address is used only as the direct address of stores and loads.
func c20PrivateCell(a *ssa.Alloc) bool {
	if a.Referrers() == nil {
		return false
	}
	for _, ref := range *a.Referrers() {
		switch x := ref.(type) {
		case *ssa.Store:
			if x.Addr != ssa.Value(a) || x.Val == ssa.Value(a) {
				return false
			}
		case *ssa.UnOp:
			if x.Op != token.MUL {
				return false
			}
		case *ssa.DebugRef:
		default:
			return false
		}
	}
	return true
}

func (w *c20RetWalk) resolve(b c20Bind, v ssa.Value) ssa.Value {
	for {
		ct, ok := v.(*ssa.ChangeType)
		if !ok {
			break
		}
		v = ct.X
	}
	switch v.(type) {
	case *ssa.Phi, *ssa.UnOp:
		if r, bound := b[v]; bound {
			return r
		}
	}
	return v
}

const (
	c20NilUnknown = iota
	c20IsNil
	c20NonNil
)

func (w *c20RetWalk) nilness(b c20Bind, v ssa.Value) int {
	r := w.resolve(b, v)
	if w.NonNil != nil && r == w.NonNil {
		return c20NonNil
	}
	if n, ok := w.facts[r]; ok {
		return n
	}
	if w.NonNilIf != nil && w.NonNilIf(r) {
		return c20NonNil
	}
	switch x := r.(type) {
	case *ssa.Const:
		if x.Value == nil {
			switch x.Type().Underlying().(type) {
			case *types.Pointer, *types.Interface, *types.Slice, *types.Map, *types.Signature:
				return c20IsNil
			}
		}
	case *ssa.MakeInterface, *ssa.Alloc:
		return c20NonNil
	}
	return c20NilUnknown
}

// selIndex: v is the index result of the select assumed ready.
func (w *c20RetWalk) selIndex(b c20Bind, v ssa.Value) bool {
	if w.Ready == nil {
		return false
	}
	e, ok := w.resolve(b, v).(*ssa.Extract)
	return ok && e.Index == 0 && e.Tuple == ssa.Value(w.Ready)
}

func (w *c20RetWalk) evalCond(b c20Bind, c ssa.Value) (bool, bool) {
	r := w.resolve(b, c)
	for _, t := range w.True {
		if r == t || c == t {
			return true, true
		}
	}
	switch x := r.(type) {
	case *ssa.Const:
		if IsConstBool(x, true) {
			return true, true
		}
		if IsConstBool(x, false) {
			return false, true
		}
	case *ssa.UnOp:
		if x.Op == token.NOT {
			v, ok := w.evalCond(b, x.X)
			return !v, ok
		}
	case *ssa.BinOp:
		if x.Op != token.EQL && x.Op != token.NEQ {
			return false, false
		}
		for _, pr := range [][2]ssa.Value{{x.X, x.Y}, {x.Y, x.X}} {
			if w.selIndex(b, pr[0]) {
				if k, isC := w.resolve(b, pr[1]).(*ssa.Const); isC && k.Value != nil {
					eq := k.Value.ExactString() == "0"
					return eq == (x.Op == token.EQL), true
				}
				return false, false
			}
		}
		l, r := w.nilness(b, x.X), w.nilness(b, x.Y)
		if l == c20NilUnknown || r == c20NilUnknown || (l == c20NonNil && r == c20NonNil) {
			return false, false
		}
		eq := l == c20IsNil && r == c20IsNil
		return eq == (x.Op == token.EQL), true
	}
	return false, false
}

// Run starts at instruction idx of blk; from != nil means the walk enters blk over the edge from->blk (its phis are
// bound accordingly, idx is ignored).
func (w *c20RetWalk) Run(blk, from *ssa.BasicBlock, idx int, onReturn func(ret *ssa.Return, got ssa.Value) string) string {
	name := func(v ssa.Value) string {
		if c, ok := v.(*ssa.Const); ok {
			return c.String()
		}
		return v.Name()
	}
	seen := map[string]bool{}
	states, why := 0, ""
	var walk func(blk, from *ssa.BasicBlock, idx int, b c20Bind, f c20Facts)
	walk = func(blk, from *ssa.BasicBlock, idx int, b c20Bind, f c20Facts) {
		if why != "" {
			return
		}
		if from != nil {
			if w.StopEdge != nil && w.StopEdge(from, blk) {
				return
			}
			nb := c20Bind{}
			for k, v := range b {
				nb[k] = v
			}
			for _, in := range blk.Instrs {
				ph, ok := in.(*ssa.Phi)
				if !ok {
					break
				}
				for i, pr := range blk.Preds {
					if pr == from {
						nb[ph] = w.resolve(b, ph.Edges[i])
						break
					}
				}
			}
			b = nb
			var ks []string
			for k, v := range b {
				ks = append(ks, k.Name()+"="+name(v))
			}
			for k, n := range f {
				ks = append(ks, fmt.Sprint("fact:", name(k), "=", n))
			}
			sort.Strings(ks)
			key := fmt.Sprint(blk.Index, ks)
			if seen[key] {
				return
			}
			seen[key] = true
			if states++; states > 50000 {
				why = "too many paths to follow"
				return
			}
		}
		for i := idx; i < len(blk.Instrs); i++ {
			if v, isVal := blk.Instrs[i].(ssa.Value); isVal {
				if _, stale := f[v]; stale { // the value is computed anew: what was learnt about its previous incarnation is void
					nf := c20Facts{}
					for k0, v0 := range f {
						if k0 != v {
							nf[k0] = v0
						}
					}
					f = nf
				}
			}
			w.facts = f
			if w.OnInstr != nil {
				if msg := w.OnInstr(blk.Instrs[i]); msg != "" {
					why = msg
					return
				}
			}
			switch x := blk.Instrs[i].(type) {
			case *ssa.Store:
				if a, isAlloc := x.Addr.(*ssa.Alloc); isAlloc && c20PrivateCell(a) {
					b = b.with(a, w.resolve(b, x.Val))
				}
			case *ssa.UnOp:
				if a, isAlloc := x.X.(*ssa.Alloc); isAlloc && x.Op == token.MUL && c20PrivateCell(a) {
					if cur, bound := b[a]; bound {
						b = b.with(x, cur)
					}
				}
			case *ssa.Return:
				var got ssa.Value
				w.RetNil = c20NilUnknown
				if len(x.Results) > 0 {
					got = w.resolve(b, x.Results[0])
					w.RetNil = w.nilness(b, x.Results[0])
				}
				if msg := onReturn(x, got); msg != "" {
					why = msg
				}
				return
			case *ssa.If:
				if val, known := w.evalCond(b, x.Cond); known {
					if val {
						walk(blk.Succs[0], blk, 0, b, f)
					} else {
						walk(blk.Succs[1], blk, 0, b, f)
					}
					return
				}
				if w.Learn && len(blk.Succs) == 2 && blk.Succs[0] != blk.Succs[1] {
					walk(blk.Succs[0], blk, 0, b, w.learn(b, f, x.Cond, true))
					walk(blk.Succs[1], blk, 0, b, w.learn(b, f, x.Cond, false))
					return
				}
			}
		}
		for _, s := range blk.Succs {
			walk(s, blk, 0, b, f)
		}
	}
	if from != nil {
		idx = 0
	}
	f0 := c20Facts{}
	for _, g := range w.Init {
		f0 = w.learn(c20Bind{}, f0, g.Cond, g.True)
	}
	walk(blk, from, idx, c20Bind{}, f0)
	return why
}

// c20IsNilConst: v is the nil constant of a nilable type.
func c20IsNilConst(v ssa.Value) bool {
	c, ok := v.(*ssa.Const)
	if !ok || c.Value != nil {
		return false
	}
	switch c.Type().Underlying().(type) {
	case *types.Pointer, *types.Interface, *types.Slice, *types.Map, *types.Signature:
		return true
	}
	return false
}

// c20CancelReturns: what Execute does when the non-blocking select `sel` on ctx.Done() finds the channel closed.
// On every path that continues after the select under the assumption that its receive case was ready (tests of the
// select's index are decided accordingly, result variables of an inlined helper - `canceled, cause` - are resolved
// along the path), the path ends in a Return whose value is the result of Err() invoked on the very context whose
// Done() channel the select reads, the call being made after the select; at least one such Return exists; and none
// of the protocol events (isEvent) is reachable on the way.
func c20CancelReturns(p *Prog, tm *Termer, sel *ssa.Select, isEvent func(ssa.Instruction) bool) (bool, string) {
	if len(sel.States) != 1 {
		return false, "the cancellation test has more than one case"
	}
	strip := func(v ssa.Value) ssa.Value {
		for {
			switch x := v.(type) {
			case *ssa.ChangeType:
				v = x.X
				continue
			case *ssa.Phi:
				var only ssa.Value
				same := true
				for _, e := range x.Edges {
					if only == nil {
						only = e
					} else if only != e {
						same = false
					}
				}
				if same && only != nil {
					v = only
					continue
				}
			}
			return v
		}
	}
	done, ok := strip(sel.States[0].Chan).(*ssa.Call)
	if !ok || !done.Call.IsInvoke() || done.Call.Method.Name() != "Done" {
		return false, "the channel tested is not the result of a Done() call"
	}
	ctxV := strip(done.Call.Value)
	ctxT := tm.Of(done.Call.Value).String()
	// the walk assumes that the receive case was ready, i.e. that the Done channel of ctxV is closed. By the contract of
	// context.Context, Err() of that context is non-nil from then on: a nil test of such a value that lies between the
	// select and the return (the error handed out of a helper through a result variable and tested by the caller -
	// `if err = runGenerations(..); err != nil { return err }`) is decided accordingly.
	cancelErr := func(v ssa.Value) bool {
		call, isCall := strip(v).(*ssa.Call)
		return isCall && call.Call.IsInvoke() && call.Call.Method.Name() == "Err" && len(call.Call.Args) == 0 &&
			strip(call.Call.Value) == ctxV && c20After(sel, call)
	}
	w := &c20RetWalk{P: p, Ready: sel, NonNilIf: cancelErr, OnInstr: func(in ssa.Instruction) string {
		if isEvent(in) {
			return "after the context was found cancelled the run goes on: " + in.String() + " @" + p.Pos(in.Pos())
		}
		return ""
	}}
	returns := 0
	why := w.Run(sel.Block(), nil, instrIndex(sel)+1, func(ret *ssa.Return, got ssa.Value) string {
		returns++
		at := " @" + p.Pos(ret.Pos())
		if got == nil {
			return "after a cancelled context a path returns nothing" + at
		}
		call, isCall := strip(got).(*ssa.Call)
		if !isCall || !call.Call.IsInvoke() || call.Call.Method.Name() != "Err" {
			return "after a cancelled context a path returns " + tm.Of(got).String() + at
		}
		if strip(call.Call.Value) != ctxV && tm.Of(call.Call.Value).String() != ctxT {
			return "the error returned after cancellation is Err() of " + tm.Of(call.Call.Value).String() + ", the channel tested is Done() of " + ctxT + at
		}
		if !c20After(sel, call) {
			return "the error returned after cancellation was read before the context was tested" + at
		}
		return ""
	})
	if why != "" {
		return false, why
	}
	if returns == 0 {
		return false, "no return is reachable after the context was found cancelled"
	}
	return true, ""
}

// c20CancelErrs: the Err() results that are non-nil by the contract of context.Context - Err() invoked on the context
// whose Done() channel a non-blocking single-case select of fn reads, the call sitting where that select is known to
// have found the channel ready (a dominating branch outcome says that the index the select delivered is 0).
func c20CancelErrs(fn *ssa.Function) []ssa.Value {
	var out []ssa.Value
	Instrs(fn, func(_ *ssa.BasicBlock, _ int, in ssa.Instruction) {
		call, ok := in.(*ssa.Call)
		if !ok || !call.Call.IsInvoke() || call.Call.Method.Name() != "Err" || len(call.Call.Args) != 0 {
			return
		}
		for _, g := range Guards(call.Block()) {
			x, y, op, okCmp := CmpFact(g.Cond, g.True)
			if !okCmp || op != token.EQL || !c20IsConstInt(y, "0") {
				continue
			}
			ext, isExt := c20Strip(x).(*ssa.Extract)
			if !isExt || ext.Index != 0 {
				continue
			}
			sel, isSel := ext.Tuple.(*ssa.Select)
			if !isSel || sel.Blocking || len(sel.States) != 1 || sel.States[0].Dir != types.RecvOnly {
				continue
			}
			done, isCall := c20Strip(sel.States[0].Chan).(*ssa.Call)
			if !isCall || !done.Call.IsInvoke() || done.Call.Method.Name() != "Done" || len(done.Call.Args) != 0 {
				continue
			}
			if c20Strip(done.Call.Value) == c20Strip(call.Call.Value) {
				out = append(out, call)
				return
			}
		}
	})
	return out
}

// c20RetLeaf: one way the operands of a Return can be chosen (phis among them resolved over the incoming edges of
// their blocks), with the branch outcomes known on that way.
type c20RetLeaf struct {
	Ret    *ssa.Return
	Vals   []ssa.Value
	Guards []Guard
}

func c20ReturnLeaves(ret *ssa.Return) []c20RetLeaf {
	var out []c20RetLeaf
	var walk func(vals []ssa.Value, gs []Guard, depth int)
	walk = func(vals []ssa.Value, gs []Guard, depth int) {
		// the phi closest to the return first
		var ph *ssa.Phi
		for _, v := range vals {
			if q, ok := v.(*ssa.Phi); ok {
				if ph == nil || (ph.Block() != q.Block() && ph.Block().Dominates(q.Block())) {
					ph = q
				}
			}
		}
		if ph == nil || depth > 8 {
			out = append(out, c20RetLeaf{Ret: ret, Vals: vals, Guards: gs})
			return
		}
		B := ph.Block()
		for i, pred := range B.Preds {
			nv := append([]ssa.Value{}, vals...)
			for j, v := range vals {
				if q, ok := v.(*ssa.Phi); ok && q.Block() == B {
					nv[j] = q.Edges[i]
				}
			}
			ng := append(append([]Guard{}, gs...), condsAt(pred, B)...)
			walk(nv, ng, depth+1)
		}
	}
	walk(ret.Results, append([]Guard{}, Guards(ret.Block())...), 0)
	return out
}

// ---------------------------------------------------------------------------
// Fourth round: the result holder (Experiment.Trials) has exactly one slot per executed trial.
//
// Execute records trial `run` at e.Trials[run] and runs NumRuns trials of the options it finds in its context. It
// allocates the holder only when the caller passed none. So "every trial's result is recorded, one per run" needs
//   (a) inside Execute: whatever Execute stores into e.Trials is make(Trials, <the trial loop's bound>), stored before
//       the first trial (or only while the holder is still nil), and a nil holder never reaches the recording store;
//   (b) at every caller that hands a pre-sized holder over: the holder is make(Trials, opts.NumRuns) of the very options
//       object the call's context carries, and NumRuns is not written between that read and the call (otherwise the
//       holder has phantom empty trials, or the recording store runs out of range after the trial was evaluated).
// (b) is decided over the caller's "family" (the function and the function literals nested in it): variables shared
// with closures are memory cells; an instruction inside a closure is ordered relative to its parent's code by the
// places where the closure is called / started.

// c20Family: fn's outermost enclosing function and every function literal nested in it.
func c20Family(fn *ssa.Function) []*ssa.Function {
	for fn.Parent() != nil {
		fn = fn.Parent()
	}
	var out []*ssa.Function
	var add func(f *ssa.Function)
	add = func(f *ssa.Function) {
		out = append(out, f)
		for _, a := range f.AnonFuncs {
			add(a)
		}
	}
	add(fn)
	return out
}

// c20ClosureOf: the MakeClosure instruction that creates fn in its parent (nil when fn is not a literal or is never closed over).
func c20ClosureOf(fn *ssa.Function) *ssa.MakeClosure {
	par := fn.Parent()
	if par == nil {
		return nil
	}
	var mc *ssa.MakeClosure
	Instrs(par, func(_ *ssa.BasicBlock, _ int, in ssa.Instruction) {
		if m, ok := in.(*ssa.MakeClosure); ok && m.Fn == ssa.Value(fn) && mc == nil {
			mc = m
		}
	})
	return mc
}

// c20CellOf: the local variable (Alloc) an address denotes, looking through the free variables of closures.
func c20CellOf(addr ssa.Value) *ssa.Alloc {
	for depth := 0; depth < 6; depth++ {
		switch a := addr.(type) {
		case *ssa.Alloc:
			return a
		case *ssa.FreeVar:
			fn := a.Parent()
			mc := c20ClosureOf(fn)
			if mc == nil {
				return nil
			}
			found := false
			for i, fv := range fn.FreeVars {
				if fv == a && i < len(mc.Bindings) {
					addr, found = mc.Bindings[i], true
				}
			}
			if !found {
				return nil
			}
		default:
			return nil
		}
	}
	return nil
}

// c20Aliases: every SSA value that is the address of the cell (the Alloc and the free variables bound to it).
func c20Aliases(cell *ssa.Alloc) []ssa.Value {
	out := []ssa.Value{cell}
	for i := 0; i < len(out); i++ {
		refs := out[i].Referrers()
		if refs == nil {
			continue
		}
		for _, ref := range *refs {
			mc, ok := ref.(*ssa.MakeClosure)
			if !ok {
				continue
			}
			fn, ok := mc.Fn.(*ssa.Function)
			if !ok {
				continue
			}
			for j, b := range mc.Bindings {
				if b == out[i] && j < len(fn.FreeVars) {
					out = append(out, fn.FreeVars[j])
				}
			}
		}
	}
	return out
}

// c20CellStores: the stores that assign the whole cell.
func c20CellStores(cell *ssa.Alloc) []*ssa.Store {
	var out []*ssa.Store
	for _, a := range c20Aliases(cell) {
		if a.Referrers() == nil {
			continue
		}
		for _, ref := range *a.Referrers() {
			if st, ok := ref.(*ssa.Store); ok && st.Addr == a {
				out = append(out, st)
			}
		}
	}
	return out
}

// c20Origin follows a value through type changes and through loads of local variables that are assigned exactly once
// (in the function or any closure sharing the variable) to the value they hold. A variable assigned more than once is
// its own origin (the cell).
func c20Origin(v ssa.Value) ssa.Value {
	for depth := 0; depth < 8; depth++ {
		switch x := v.(type) {
		case *ssa.ChangeType:
			v = x.X
			continue
		case *ssa.UnOp:
			if x.Op != token.MUL {
				return v
			}
			cell := c20CellOf(x.X)
			if cell == nil {
				return v
			}
			sts := c20CellStores(cell)
			if len(sts) != 1 {
				return cell
			}
			v = sts[0].Val
			continue
		}
		return v
	}
	return v
}

// c20Reach: instruction b can execute after instruction a in their common function.
func c20Reach(a, b ssa.Instruction) bool { return c20ReachAvoiding(a, b, nil) }

// c20ReachAvoiding: b can execute after a on a path (of their common function) that executes none of `avoid` in between.
func c20ReachAvoiding(a, b ssa.Instruction, avoid map[ssa.Instruction]bool) bool {
	// scan returns true when b is met in blk from index i on; cut=true when an avoided instruction ends the scan
	scan := func(blk *ssa.BasicBlock, i int) (hit, cut bool) {
		for ; i < len(blk.Instrs); i++ {
			if blk.Instrs[i] == b {
				return true, false
			}
			if avoid[blk.Instrs[i]] {
				return false, true
			}
		}
		return false, false
	}
	hit, cut := scan(a.Block(), instrIndex(a)+1)
	if hit {
		return true
	}
	if cut {
		return false
	}
	seen := map[*ssa.BasicBlock]bool{}
	stack := append([]*ssa.BasicBlock{}, a.Block().Succs...)
	for len(stack) > 0 {
		blk := stack[len(stack)-1]
		stack = stack[:len(stack)-1]
		if seen[blk] {
			continue
		}
		seen[blk] = true
		hit, cut := scan(blk, 0)
		if hit {
			return true
		}
		if !cut {
			stack = append(stack, blk.Succs...)
		}
	}
	return false
}

// c20Project: the instructions of function h (an ancestor of in's function, or that function itself) at which `in`
// executes: itself, or the places where the closure that contains it is called or started. ok=false when the closure is
// used in any other way (stored, passed on, deferred): its time of execution is then not known.
func c20Project(in ssa.Instruction, h *ssa.Function) ([]ssa.Instruction, bool) {
	fn := in.Parent()
	if fn == h {
		return []ssa.Instruction{in}, true
	}
	mc := c20ClosureOf(fn)
	if mc == nil || mc.Referrers() == nil {
		return nil, false
	}
	var out []ssa.Instruction
	for _, ref := range *mc.Referrers() {
		switch x := ref.(type) {
		case *ssa.DebugRef:
		case *ssa.Call:
			if x.Call.Value != ssa.Value(mc) {
				return nil, false
			}
			s, ok := c20Project(x, h)
			if !ok {
				return nil, false
			}
			out = append(out, s...)
		case *ssa.Go:
			if x.Call.Value != ssa.Value(mc) {
				return nil, false
			}
			s, ok := c20Project(x, h)
			if !ok {
				return nil, false
			}
			out = append(out, s...)
		default:
			return nil, false
		}
	}
	return out, len(out) > 0
}

func c20Chain(fn *ssa.Function) []*ssa.Function {
	var out []*ssa.Function
	for ; fn != nil; fn = fn.Parent() {
		out = append(out, fn)
	}
	return out
}

// c20MayPrecede: a can execute before b (both in functions of one family): decided in their closest common enclosing
// function on the places where each of them executes. known=false: a closure involved has no known time of execution.
func c20MayPrecede(a, b ssa.Instruction) (may, known bool) { return c20MayPrecedeAvoiding(a, b, nil) }

// c20MayPrecedeAvoiding: as c20MayPrecede, on a path that executes none of `avoid` in between (only avoided
// instructions that lie in the common enclosing function itself cut a path).
func c20MayPrecedeAvoiding(a, b ssa.Instruction, avoid map[ssa.Instruction]bool) (may, known bool) {
	var h *ssa.Function
	cb := c20Chain(b.Parent())
outer:
	for _, f := range c20Chain(a.Parent()) {
		for _, g := range cb {
			if f == g {
				h = f
				break outer
			}
		}
	}
	if h == nil {
		return false, false
	}
	as, ok1 := c20Project(a, h)
	bs, ok2 := c20Project(b, h)
	if !ok1 || !ok2 {
		return false, false
	}
	for _, x := range as {
		for _, y := range bs {
			if x == y || c20ReachAvoiding(x, y, avoid) {
				return true, true
			}
		}
	}
	return false, true
}

// c20FieldWriter: fn, or a repository function it calls statically (closures it creates included), stores to field fld
// of a struct that is not a fresh local, or overwrites a whole value of the struct type that owns fld through a pointer.
// Dynamic calls are not followed.
func c20FieldWriter(fn *ssa.Function, fld *types.Var, owner types.Type, memo map[*ssa.Function]bool) bool {
	if fn == nil || fn.Blocks == nil || !InRepo(fn) {
		return false
	}
	if v, ok := memo[fn]; ok {
		return v
	}
	memo[fn] = false
	res := false
	Instrs(fn, func(_ *ssa.BasicBlock, _ int, in ssa.Instruction) {
		if res {
			return
		}
		if c20WritesFieldAt(in, fld, owner) {
			res = true
			return
		}
		switch x := in.(type) {
		case ssa.CallInstruction:
			if c20FieldWriter(x.Common().StaticCallee(), fld, owner, memo) {
				res = true
			}
		case *ssa.MakeClosure:
			if f, ok := x.Fn.(*ssa.Function); ok && c20FieldWriter(f, fld, owner, memo) {
				res = true
			}
		}
	})
	memo[fn] = res
	return res
}

// c20WritesFieldAt: the instruction itself stores to fld, or overwrites a whole value of fld's struct type through a
// pointer that is not a local variable.
func c20WritesFieldAt(in ssa.Instruction, fld *types.Var, owner types.Type) bool {
	st, ok := in.(*ssa.Store)
	if !ok {
		return false
	}
	if StoredField(st) == fld {
		return true
	}
	if _, isLocal := st.Addr.(*ssa.Alloc); !isLocal && types.Identical(deref(st.Addr.Type()), owner) {
		return true
	}
	return false
}

// c20HolderDef: one value that can become the Trials field of an experiment variable.
type c20HolderDef struct {
	Val ssa.Value       // nil: the field is left at its zero value
	At  ssa.Instruction // the store
	Why string          // non-empty: the definition cannot be read off the code
}

// c20HolderDefs: every definition of field fld of the struct variable `cell`: field stores through any alias of the
// variable, whole-value stores of a composite literal (its field stores, or the zero value when it has none), and
// anything else that can write the field (reported through Why).
func c20HolderDefs(cell *ssa.Alloc, fld *types.Var) []c20HolderDef {
	return c20HolderDefsAt(c20Aliases(cell), cell, fld)
}

// c20HolderDefsAt: as c20HolderDefs, for a struct variable given by the SSA values that are its address (cell: the
// allocation the variable is, or lives in).
func c20HolderDefsAt(addrs []ssa.Value, cell *ssa.Alloc, fld *types.Var) []c20HolderDef {
	var out []c20HolderDef
	fieldDefs := func(base ssa.Value) (defs []c20HolderDef, clean bool) {
		clean = true
		if base.Referrers() == nil {
			return nil, true
		}
		for _, ref := range *base.Referrers() {
			fa, ok := ref.(*ssa.FieldAddr)
			if !ok || fa.X != base || fieldOf(fa.X.Type(), fa.Field) != fld || fa.Referrers() == nil {
				continue
			}
			for _, rr := range *fa.Referrers() {
				switch y := rr.(type) {
				case *ssa.Store:
					if y.Addr == ssa.Value(fa) {
						defs = append(defs, c20HolderDef{Val: y.Val, At: y})
					} else {
						clean = false
					}
				case *ssa.UnOp, *ssa.DebugRef:
				default:
					clean = false
				}
			}
		}
		return defs, clean
	}
	// tempDefs: the definitions of the field in a temporary that is copied as a whole into the variable: a composite
	// literal built field by field (no store of the field: zero value), possibly itself assigned as a whole from another
	// such temporary (the result variable of an inlined helper). Only field stores, whole-value stores and loads may touch it.
	var tempDefs func(tmp *ssa.Alloc, at ssa.Instruction, depth int) ([]c20HolderDef, string)
	tempDefs = func(tmp *ssa.Alloc, at ssa.Instruction, depth int) ([]c20HolderDef, string) {
		if depth > 4 || tmp.Referrers() == nil {
			return nil, "the variable is copied through too many temporaries"
		}
		var whole []*ssa.Store
		for _, tr := range *tmp.Referrers() {
			switch z := tr.(type) {
			case *ssa.FieldAddr, *ssa.DebugRef:
			case *ssa.UnOp:
				if z.Op != token.MUL {
					return nil, "the variable is copied from a temporary that is not a plain composite literal"
				}
			case *ssa.Store:
				if z.Addr != ssa.Value(tmp) {
					return nil, "the variable is copied from a temporary whose address is stored"
				}
				whole = append(whole, z)
			default:
				return nil, "the variable is copied from a temporary that is not a plain composite literal"
			}
		}
		d, clean := fieldDefs(tmp)
		if !clean {
			return nil, "the variable is copied from a temporary whose field address is taken"
		}
		if len(whole) == 0 {
			if len(d) == 0 {
				d = append(d, c20HolderDef{At: at})
			}
			return d, ""
		}
		for _, ws := range whole {
			switch v := ws.Val.(type) {
			case *ssa.Const:
				d = append(d, c20HolderDef{At: ws})
			case *ssa.UnOp:
				src, isAlloc := v.X.(*ssa.Alloc)
				if v.Op != token.MUL || !isAlloc || src == tmp {
					return nil, "the variable is copied from " + v.String()
				}
				dd, why := tempDefs(src, ws, depth+1)
				if why != "" {
					return nil, why
				}
				d = append(d, dd...)
			default:
				return nil, "the variable is copied from " + v.String()
			}
		}
		return d, ""
	}
	for _, a := range addrs {
		defs, clean := fieldDefs(a)
		out = append(out, defs...)
		if !clean {
			out = append(out, c20HolderDef{Why: "the address of the holder field is taken"})
		}
		if a.Referrers() == nil {
			continue
		}
		for _, ref := range *a.Referrers() {
			st, ok := ref.(*ssa.Store)
			if !ok || st.Addr != a {
				continue
			}
			switch v := st.Val.(type) {
			case *ssa.Const:
				out = append(out, c20HolderDef{At: st}) // zero value
			case *ssa.UnOp:
				tmp, isAlloc := v.X.(*ssa.Alloc)
				if v.Op != token.MUL || !isAlloc || tmp == cell {
					out = append(out, c20HolderDef{At: st, Why: "the variable is copied from " + v.String()})
					continue
				}
				d, why := tempDefs(tmp, st, 0)
				if why != "" {
					out = append(out, c20HolderDef{At: st, Why: why})
					continue
				}
				out = append(out, d...)
			default:
				out = append(out, c20HolderDef{At: st, Why: "the variable is assigned from " + v.String()})
			}
		}
	}
	return out
}

// c20ErrorByConstruction: the value is a non-nil error whatever path produced it: the result of Err() of a context
// (Execute reads it only after the Done channel was found ready - generation.ctx.returns-err), a concrete value wrapped
// into the interface, the result of errors.New / fmt.Errorf and the like, or a package-level Err… variable.
func c20ErrorByConstruction(v ssa.Value) bool {
	for {
		ct, ok := v.(*ssa.ChangeType)
		if !ok {
			break
		}
		v = ct.X
	}
	switch x := v.(type) {
	case *ssa.MakeInterface:
		return true
	case *ssa.Call:
		if x.Call.IsInvoke() {
			return x.Call.Method.Name() == "Err"
		}
		if f := x.Call.StaticCallee(); f != nil && f.Pkg != nil {
			switch f.Pkg.Pkg.Path() + "." + f.Name() {
			case "errors.New", "fmt.Errorf", "errors.Join":
				return true
			}
		}
	case *ssa.UnOp:
		if g, ok := x.X.(*ssa.Global); ok && x.Op == token.MUL {
			return len(g.Name()) > 3 && g.Name()[:3] == "Err"
		}
	}
	return false
}

// c20Strip looks through type changes and phis whose edges all carry the same value.
func c20Strip(v ssa.Value) ssa.Value {
	for depth := 0; depth < 8; depth++ {
		switch x := v.(type) {
		case *ssa.ChangeType:
			v = x.X
			continue
		case *ssa.Phi:
			var only ssa.Value
			same := true
			for _, e := range x.Edges {
				if only == nil {
					only = e
				} else if only != e {
					same = false
				}
			}
			if same && only != nil {
				v = only
				continue
			}
		}
		return v
	}
	return v
}

// c20AppendsRecord: the store `X.Generations = append(Y.Generations, elems...)` has X and Y both the trial variable T
// and appends exactly one element, the content of the record variable G.
func c20AppendsRecord(st *ssa.Store, T c20Place, G *ssa.Alloc) (bool, string) {
	isT := func(addr ssa.Value) bool { pl, ok := c20PlaceOf(addr); return ok && pl == T }
	fa, ok := st.Addr.(*ssa.FieldAddr)
	if !ok || !isT(fa.X) {
		return false, "the result is not stored into the recorded trial"
	}
	call, ok := c20Strip(st.Val).(*ssa.Call)
	if !ok || len(call.Call.Args) != 2 {
		return false, "the value stored is not an append"
	}
	if bi, isB := call.Call.Value.(*ssa.Builtin); !isB || bi.Name() != "append" {
		return false, "the value stored is not an append"
	}
	base, ok := c20Strip(call.Call.Args[0]).(*ssa.UnOp)
	if !ok || base.Op != token.MUL {
		return false, "the slice appended to is not the trial's Generations"
	}
	bfa, ok := base.X.(*ssa.FieldAddr)
	if !ok || !isT(bfa.X) || fieldOf(bfa.X.Type(), bfa.Field) != fieldOf(fa.X.Type(), fa.Field) {
		return false, "the slice appended to is not the Generations of the recorded trial"
	}
	sl, ok := c20Strip(call.Call.Args[1]).(*ssa.Slice)
	if !ok {
		return false, "the appended elements are not a literal argument list"
	}
	arr, ok := sl.X.(*ssa.Alloc)
	if !ok || arr.Referrers() == nil {
		return false, "the appended elements are not a literal argument list"
	}
	at, isArr := deref(arr.Type()).Underlying().(*types.Array)
	if !isArr || at.Len() != 1 {
		return false, "not exactly one element is appended"
	}
	found := false
	for _, ref := range *arr.Referrers() {
		ia, isIA := ref.(*ssa.IndexAddr)
		if !isIA || ia.Referrers() == nil {
			continue
		}
		for _, rr := range *ia.Referrers() {
			es, isSt := rr.(*ssa.Store)
			if !isSt || es.Addr != ssa.Value(ia) {
				continue
			}
			ld, isLd := c20Strip(es.Val).(*ssa.UnOp)
			if !isLd || ld.Op != token.MUL || c20AllocOf(ld.X) != G {
				return false, "the appended element is not the content of the record handed to the evaluator"
			}
			found = true
		}
	}
	if !found {
		return false, "the appended element cannot be identified"
	}
	return true, ""
}

// ---------------------------------------------------------------------------
// Fifth round (1): a selection made by a lookup in a local literal map.
//
//	table := map[K]V{k1: v1, k2: v2}
//	if v, ok := table[x]; ok { return use(v), nil }
//	return nil, err
//
// is the switch `case k1: .. v1 ..; case k2: .. v2 ..; default: ..` written as data: `ok` is true exactly when x equals
// one of the keys, and then v is the value stored under that key. This holds when the map is a literal of the function
// that nobody else can write: it is created by make, every write is a store of a constant key made right after the
// creation (the literal's entries, each executed exactly once before anything else can see the map), the keys are
// distinct, and apart from those stores the map is only looked up (no range, no delete, no call receives it, it is not
// stored anywhere).

// c20MapEntry is one entry of a literal map.
type c20MapEntry struct {
	Key *ssa.Const
	Val ssa.Value
}

// c20LiteralMap: m is such a literal map; its entries are returned.
func c20LiteralMap(m ssa.Value) (*ssa.MakeMap, []c20MapEntry, bool) {
	for {
		ct, ok := m.(*ssa.ChangeType)
		if !ok {
			break
		}
		m = ct.X
	}
	if ld, isLoad := m.(*ssa.UnOp); isLoad && ld.Op == token.MUL {
		if g, isG := ld.X.(*ssa.Global); isG {
			return c20GlobalLiteralMap(g)
		}
	}
	mk, ok := m.(*ssa.MakeMap)
	if !ok || mk.Referrers() == nil {
		return nil, nil, false
	}
	var entries []c20MapEntry
	var lookups []*ssa.Lookup
	seen := map[string]bool{}
	for _, ref := range *mk.Referrers() {
		switch x := ref.(type) {
		case *ssa.DebugRef:
		case *ssa.MapUpdate:
			k, isC := x.Key.(*ssa.Const)
			if x.Map != ssa.Value(mk) || x.Value == ssa.Value(mk) || !isC || k.Value == nil {
				return nil, nil, false
			}
			// an entry of the literal: stored in the block that creates the map, after the creation
			if x.Block() != mk.Block() || !c20After(mk, x) {
				return nil, nil, false
			}
			ks := k.Value.ExactString()
			if seen[ks] {
				return nil, nil, false
			}
			seen[ks] = true
			entries = append(entries, c20MapEntry{Key: k, Val: x.Value})
		case *ssa.Lookup:
			if x.X != ssa.Value(mk) || x.Index == ssa.Value(mk) {
				return nil, nil, false
			}
			lookups = append(lookups, x)
		default:
			return nil, nil, false
		}
	}
	// every lookup sees the complete literal
	for _, lk := range lookups {
		for _, ref := range *mk.Referrers() {
			if mu, isMU := ref.(*ssa.MapUpdate); isMU && !c20After(mu, lk) {
				return nil, nil, false
			}
		}
	}
	return mk, entries, len(entries) > 0
}

// c20GlobalLiteralMap: the same table kept in a package-level variable (`var table = map[K]V{k1: v1, k2: v2}`). The
// content of the variable is the literal at every lookup when
//   - the variable is stored exactly once in the whole program, by the package initialiser, and what is stored is a
//     map created by make in the initialiser whose only other uses are the stores of the literal's entries (constant,
//     distinct keys; same block, after the creation and before the store to the variable: nothing can see the map
//     earlier);
//   - every other mention of the variable anywhere in the program (all functions, function literals included) is a
//     load whose value is only ever the map operand of a lookup: nobody writes an entry, deletes one, ranges over it,
//     hands the map or the variable's address to anything or stores it somewhere else;
//   - no such load sits in the package initialiser itself (every lookup happens after the initialisation: the
//     functions of a package run only after its variables are initialised).
func c20GlobalLiteralMap(g *ssa.Global) (*ssa.MakeMap, []c20MapEntry, bool) {
	if g == nil || g.Pkg == nil || g.Pkg.Prog == nil {
		return nil, nil, false
	}
	initFn := g.Pkg.Func("init")
	if initFn == nil {
		return nil, nil, false
	}
	var stores []*ssa.Store
	fine := true
	for fn := range ssautil.AllFunctions(g.Pkg.Prog) {
		for _, b := range fn.Blocks {
			for _, in := range b.Instrs {
				mentions := false
				for _, op := range in.Operands(nil) {
					if op != nil && *op == ssa.Value(g) {
						mentions = true
					}
				}
				if !mentions {
					continue
				}
				switch x := in.(type) {
				case *ssa.DebugRef:
				case *ssa.Store:
					if x.Addr != ssa.Value(g) || x.Val == ssa.Value(g) || fn != initFn {
						fine = false
						continue
					}
					stores = append(stores, x)
				case *ssa.UnOp:
					if x.Op != token.MUL || fn == initFn || x.Referrers() == nil {
						fine = false
						continue
					}
					for _, ref := range *x.Referrers() {
						switch y := ref.(type) {
						case *ssa.DebugRef:
						case *ssa.Lookup:
							if y.X != ssa.Value(x) || y.Index == ssa.Value(x) {
								fine = false
							}
						default:
							fine = false
						}
					}
				default:
					fine = false
				}
			}
		}
	}
	if !fine || len(stores) != 1 {
		return nil, nil, false
	}
	st := stores[0]
	mk, ok := st.Val.(*ssa.MakeMap)
	if !ok || mk.Parent() != initFn || mk.Referrers() == nil || mk.Block() != st.Block() || !c20After(mk, st) {
		return nil, nil, false
	}
	var entries []c20MapEntry
	seen := map[string]bool{}
	for _, ref := range *mk.Referrers() {
		switch x := ref.(type) {
		case *ssa.DebugRef:
		case *ssa.Store:
			if x != st {
				return nil, nil, false
			}
		case *ssa.MapUpdate:
			k, isC := x.Key.(*ssa.Const)
			if x.Map != ssa.Value(mk) || x.Value == ssa.Value(mk) || !isC || k.Value == nil {
				return nil, nil, false
			}
			if x.Block() != mk.Block() || !c20After(mk, x) || !c20After(x, st) {
				return nil, nil, false
			}
			ks := k.Value.ExactString()
			if seen[ks] {
				return nil, nil, false
			}
			seen[ks] = true
			entries = append(entries, c20MapEntry{Key: k, Val: x.Value})
		default:
			return nil, nil, false
		}
	}
	return mk, entries, len(entries) > 0
}

// c20SelCase is one case of the executor selection behind a way a Return gets its operands (c20RetLeaf): the terms
// of the executor and of the error returned and, when the way is taken on the outcome of a lookup of the executor type
// in a literal map, what that outcome says about the executor type: it equals Key (one case per entry of the map, the
// executor being read off the value stored under that key), or it is none of the keys (Miss).
type c20SelCase struct {
	V, E *Term
	Key  *ssa.Const
	Miss bool
}

// c20SelectionCases splits a leaf of epochExecutorForContext into its cases. keyOK decides whether the index of a
// lookup is the executor type of the options.
func c20SelectionCases(lf c20RetLeaf, ts *Termer, keyOK func(ssa.Value) bool) []c20SelCase {
	plain := []c20SelCase{{V: ts.Of(lf.Vals[0]), E: ts.Of(lf.Vals[1])}}
	for _, g := range lf.Guards {
		c, val := g.Cond, g.True
		for {
			u, isNot := c.(*ssa.UnOp)
			if !isNot || u.Op != token.NOT {
				break
			}
			c, val = u.X, !val
		}
		ext, ok := c.(*ssa.Extract)
		if !ok || ext.Index != 1 {
			continue
		}
		lk, ok := ext.Tuple.(*ssa.Lookup)
		if !ok || !lk.CommaOk || !keyOK(lk.Index) {
			continue
		}
		_, entries, ok := c20LiteralMap(lk.X)
		if !ok {
			continue
		}
		if !val {
			plain[0].Miss = true
			return plain
		}
		// the value looked up: the first result of the same lookup
		isHit := func(v ssa.Value) bool {
			for {
				ct, isCT := v.(*ssa.ChangeType)
				if !isCT {
					break
				}
				v = ct.X
			}
			x, isX := v.(*ssa.Extract)
			return isX && x.Index == 0 && x.Tuple == ssa.Value(lk)
		}
		var out []c20SelCase
		for _, en := range entries {
			e := ts.Of(lf.Vals[1])
			ret0 := lf.Vals[0]
			for {
				ct, isCT := ret0.(*ssa.ChangeType)
				if !isCT {
					break
				}
				ret0 = ct.X
			}
			switch {
			case isHit(ret0):
				// the executor is the value stored under the key
				out = append(out, c20SelCase{V: ts.Of(en.Val), E: e, Key: en.Key})
			default:
				call, isCall := ret0.(*ssa.Call)
				if !isCall || call.Call.IsInvoke() || len(call.Call.Args) != 0 || !isHit(call.Call.Value) {
					// the executor does not depend on the value looked up
					out = append(out, c20SelCase{V: ts.Of(lf.Vals[0]), E: e, Key: en.Key})
					continue
				}
				// the executor is what the constructor stored under the key returns
				var fn *ssa.Function
				switch f := en.Val.(type) {
				case *ssa.Function:
					fn = f
				case *ssa.MakeClosure:
					fn, _ = f.Fn.(*ssa.Function)
				}
				n := 0
				if fn != nil && fn.Signature.Results().Len() == 1 {
					ft := NewTermer(fn)
					for _, b := range fn.Blocks {
						if ret, isRet := b.Instrs[len(b.Instrs)-1].(*ssa.Return); isRet && len(ret.Results) == 1 {
							out = append(out, c20SelCase{V: ft.Of(ret.Results[0]), E: e, Key: en.Key})
							n++
						}
					}
				}
				if n == 0 {
					out = append(out, c20SelCase{V: &Term{Op: "unknown", Name: "result of " + en.Val.String()}, E: e, Key: en.Key})
				}
			}
		}
		return out
	}
	return plain
}

// ---------------------------------------------------------------------------
// Fifth round (2): variables gathered into a by-value local struct.
//
// `current := trialRun{...}` keeps the trial, the population and the executor of a trial as fields of one local. A
// field of a struct-valued local is a variable like any other: c20Place names a variable of the function - a local
// allocation, or a field (path) of a struct-valued local allocation, reached by field addresses only (never through a
// pointer load) - so that "the same variable" can be decided for both forms.

type c20Place struct {
	A    *ssa.Alloc
	Path string // "" for the allocation itself, ".3" for its field 3, ".3.1" for field 1 of that field
}

func (pl c20Place) valid() bool { return pl.A != nil }

// c20PlaceOf: the variable an address denotes (type changes and phis that carry one value are looked through).
func c20PlaceOf(addr ssa.Value) (c20Place, bool) {
	path := ""
	for depth := 0; depth < 8; depth++ {
		switch x := addr.(type) {
		case *ssa.Alloc:
			return c20Place{A: x, Path: path}, true
		case *ssa.ChangeType:
			addr = x.X
		case *ssa.Phi:
			var only ssa.Value
			for _, e := range x.Edges {
				if only == nil {
					only = e
				} else if only != e {
					return c20Place{}, false
				}
			}
			if only == nil {
				return c20Place{}, false
			}
			addr = only
		case *ssa.FieldAddr:
			if _, isPtr := x.X.Type().Underlying().(*types.Pointer); !isPtr {
				return c20Place{}, false
			}
			path = fmt.Sprintf(".%d", x.Field) + path
			addr = x.X
		default:
			return c20Place{}, false
		}
	}
	return c20Place{}, false
}

// c20PlaceAddrs: every SSA value that is the address of the variable: for an allocation the allocation and the free
// variables of closures bound to it (c20Aliases); for a field the field addresses that denote it. whole lists the
// reasons why the field cannot be treated as a variable of its own: the enclosing struct variable (or an enclosing
// field) is used as a whole for anything but reading it.
func c20PlaceAddrs(pl c20Place) (addrs []ssa.Value, whole []string) {
	if pl.Path == "" {
		return c20Aliases(pl.A), nil
	}
	fn := pl.A.Parent()
	Instrs(fn, func(_ *ssa.BasicBlock, _ int, in ssa.Instruction) {
		fa, ok := in.(*ssa.FieldAddr)
		if !ok {
			return
		}
		q, ok := c20PlaceOf(fa)
		if !ok || q.A != pl.A {
			return
		}
		if q == pl {
			addrs = append(addrs, fa)
		}
	})
	// the enclosing variables: the allocation and the fields on the path above pl
	check := func(v ssa.Value) {
		if v.Referrers() == nil {
			return
		}
		for _, ref := range *v.Referrers() {
			switch x := ref.(type) {
			case *ssa.FieldAddr, *ssa.DebugRef:
			case *ssa.UnOp:
				if x.Op != token.MUL {
					whole = append(whole, "the enclosing struct variable is used by "+x.String())
				}
			case *ssa.Store:
				if x.Addr == v {
					whole = append(whole, "the enclosing struct variable is assigned as a whole")
				} else {
					whole = append(whole, "the address of the enclosing struct variable is stored away")
				}
			default:
				whole = append(whole, "the enclosing struct variable is handed to "+ref.String())
			}
		}
	}
	check(pl.A)
	Instrs(fn, func(_ *ssa.BasicBlock, _ int, in ssa.Instruction) {
		fa, ok := in.(*ssa.FieldAddr)
		if !ok {
			return
		}
		q, ok := c20PlaceOf(fa)
		if ok && q.A == pl.A && q != pl && len(q.Path) < len(pl.Path) && pl.Path[:len(q.Path)] == q.Path && pl.Path[len(q.Path)] == '.' {
			check(fa)
		}
	})
	return addrs, whole
}

// c20PlaceDefs: every definition of field fld of the struct variable pl (see c20HolderDefs).
func c20PlaceDefs(pl c20Place, fld *types.Var) []c20HolderDef {
	if pl.Path == "" {
		return c20HolderDefs(pl.A, fld)
	}
	addrs, whole := c20PlaceAddrs(pl)
	out := c20HolderDefsAt(addrs, pl.A, fld)
	for _, w := range whole {
		out = append(out, c20HolderDef{Why: w})
	}
	return out
}

// c20PrivatePlace: the variable is only ever read and written directly: every address of it is used for loads and for
// stores to it and nothing else (closures that share a local allocation included). The stores are returned.
func c20PrivatePlace(pl c20Place) ([]*ssa.Store, bool) {
	addrs, whole := c20PlaceAddrs(pl)
	if len(whole) > 0 {
		return nil, false
	}
	var stores []*ssa.Store
	for _, a := range addrs {
		if a.Referrers() == nil {
			continue
		}
		for _, ref := range *a.Referrers() {
			switch x := ref.(type) {
			case *ssa.DebugRef:
			case *ssa.UnOp:
				if x.Op != token.MUL {
					return nil, false
				}
			case *ssa.Store:
				if x.Addr != a || x.Val == a {
					return nil, false
				}
				stores = append(stores, x)
			case *ssa.MakeClosure:
				// the closure shares the variable: its free variable is among the addresses
				if pl.Path != "" {
					return nil, false
				}
			default:
				return nil, false
			}
		}
	}
	return stores, true
}

// c20CellOrigins resolves a value to the values it can have come from: phis are followed over all their edges, a load
// of a private variable (c20PrivatePlace; a local shared with closures through free variables included) over everything
// stored to it. cells reports the stores passed through.
func c20CellOrigins(v ssa.Value) (leaves []ssa.Value, through []*ssa.Store) {
	seen := map[ssa.Value]bool{}
	var visit func(v ssa.Value, depth int)
	visit = func(v ssa.Value, depth int) {
		for {
			ct, ok := v.(*ssa.ChangeType)
			if !ok {
				break
			}
			v = ct.X
		}
		if seen[v] {
			return
		}
		seen[v] = true
		if depth > 8 {
			leaves = append(leaves, v)
			return
		}
		switch x := v.(type) {
		case *ssa.Phi:
			for _, e := range x.Edges {
				visit(e, depth+1)
			}
			return
		case *ssa.UnOp:
			if x.Op != token.MUL {
				break
			}
			var pl c20Place
			ok := false
			if fv, isFV := x.X.(*ssa.FreeVar); isFV {
				if cell := c20CellOf(fv); cell != nil {
					pl, ok = c20Place{A: cell}, true
				}
			} else {
				pl, ok = c20PlaceOf(x.X)
			}
			if !ok {
				break
			}
			stores, private := c20PrivatePlace(pl)
			if !private || len(stores) == 0 {
				break
			}
			for _, st := range stores {
				through = append(through, st)
				visit(st.Val, depth+1)
			}
			return
		}
		leaves = append(leaves, v)
	}
	visit(v, 0)
	return leaves, through
}

// ---------------------------------------------------------------------------
// Fifth round (3): a ladder of steps written as a loop over a literal slice of closures.
//
//	steps := []func() error{ func() error {A}, func() error {B}, func() error {C} }
//	for _, step := range steps { if err := step(); err != nil { return err } }
//
// is `if err := A'(); err != nil { return err }; if err := B'(); ...` (c15TableLoop establishes exactly this: every
// closure is called once, in index order, the run is cut short only by a non-nil error of the closure just called, and
// nothing else happens in the loop). Such a loop is no loop of the protocol; C20 treats it as the place where its
// closures run: taking the exit edge of the loop's counter test means every step has run to a nil result.
//
// What a step closure may do is restricted so that the rules decided on Execute's own code stay complete: it makes no
// protocol call (observer, evaluator, executor methods), contains no channel operation, go, defer or nested closure,
// and writes no memory but its own locals and local variables of Execute it captured (those are cells to every rule
// that reads them). The protocol steps that may sit in a step closure are the static calls NewPopulation and
// epochExecutorForContext; the rules on them are decided on the closure's code plus the place of the loop.

type c20StepLoop struct {
	L        *Loop
	At       *ssa.Call
	Fns      []*ssa.Function    // the closures, in the order they are called
	Mcs      []*ssa.MakeClosure // the instruction that made each of them (nil for a plain function)
	ErrExits []*ssa.BasicBlock
}

// c20StepSite: instruction In of the K-th closure of step loop S.
type c20StepSite struct {
	S  *c20StepLoop
	K  int
	In ssa.Instruction
}

// c20StepLoops splits the loops of fn into step loops and the rest.
func c20StepLoops(fn *ssa.Function, loops []*Loop) (steps []*c20StepLoop, rest []*Loop) {
	for _, l := range loops {
		var found *c20StepLoop
		for b := range l.Blocks {
			if InnermostLoop(loops, b) != l {
				continue
			}
			for _, in := range b.Instrs {
				call, ok := in.(*ssa.Call)
				if !ok || call.Call.IsInvoke() || call.Call.StaticCallee() != nil || len(call.Call.Args) != 0 {
					continue
				}
				if _, isB := call.Call.Value.(*ssa.Builtin); isB {
					continue
				}
				vals, errExits, ok := c15TableLoop(l, call, call.Call.Value)
				if !ok || found != nil {
					continue
				}
				s := &c20StepLoop{L: l, At: call, ErrExits: errExits}
				for _, v := range vals {
					switch f := v.(type) {
					case *ssa.MakeClosure:
						cf, isFn := f.Fn.(*ssa.Function)
						if !isFn || cf.Parent() != fn {
							s = nil
						} else {
							s.Fns, s.Mcs = append(s.Fns, cf), append(s.Mcs, f)
						}
					case *ssa.Function:
						s.Fns, s.Mcs = append(s.Fns, f), append(s.Mcs, nil)
					default:
						s = nil
					}
					if s == nil {
						break
					}
				}
				if s != nil && len(s.Fns) > 0 {
					found = s
				}
			}
		}
		if found != nil {
			steps = append(steps, found)
		} else {
			rest = append(rest, l)
		}
	}
	return steps, rest
}

// CompleteExit: the edge a->b leaves the step loop through its counter test (every step has run to a nil result).
func (s *c20StepLoop) CompleteExit(a, b *ssa.BasicBlock) bool {
	return a == s.L.Header && !s.L.Blocks[b]
}

// c20StepClosureProblem: why the closure is not a plain step ("" when it is): see the comment above.
func c20StepClosureProblem(p *Prog, fn *ssa.Function) string {
	if len(fn.Blocks) == 0 || fn.Recover != nil {
		return "it has no analysable body"
	}
	localAddr := func(a ssa.Value) bool {
		for depth := 0; depth < 8; depth++ {
			switch x := a.(type) {
			case *ssa.FreeVar:
				return true // a local variable of Execute, assigned as a whole
			case *ssa.Alloc:
				return true
			case *ssa.FieldAddr:
				if _, isAlloc := x.X.(*ssa.Alloc); !isAlloc {
					if _, isFA := x.X.(*ssa.FieldAddr); !isFA {
						return false
					}
				}
				a = x.X
			case *ssa.IndexAddr:
				al, isAlloc := x.X.(*ssa.Alloc)
				if !isAlloc {
					return false
				}
				a = al
			default:
				return false
			}
		}
		return false
	}
	why := ""
	// a captured variable is read and assigned, its address goes nowhere else
	for _, fv := range fn.FreeVars {
		if fv.Referrers() == nil {
			continue
		}
		for _, ref := range *fv.Referrers() {
			switch x := ref.(type) {
			case *ssa.DebugRef:
			case *ssa.UnOp:
				if x.Op != token.MUL {
					why = "it uses the address of the captured variable " + fv.Name()
				}
			case *ssa.Store:
				if x.Addr != ssa.Value(fv) || x.Val == ssa.Value(fv) {
					why = "it stores the address of the captured variable " + fv.Name() + " @" + p.Pos(x.Pos())
				}
			case *ssa.FieldAddr:
				if x.Referrers() != nil {
					for _, r2 := range *x.Referrers() {
						if u, isLd := r2.(*ssa.UnOp); isLd && u.Op == token.MUL {
							continue
						}
						if _, isDbg := r2.(*ssa.DebugRef); isDbg {
							continue
						}
						why = "it uses the address of a field of the captured variable " + fv.Name() + " @" + p.Pos(x.Pos())
					}
				}
			default:
				why = "it uses the address of the captured variable " + fv.Name() + " @" + p.Pos(ref.Pos())
			}
		}
	}
	Instrs(fn, func(_ *ssa.BasicBlock, _ int, in ssa.Instruction) {
		if why != "" {
			return
		}
		at := " @" + p.Pos(in.Pos())
		switch x := in.(type) {
		case *ssa.Go, *ssa.Defer, *ssa.Select, *ssa.Send, *ssa.MapUpdate, *ssa.MakeClosure, *ssa.Panic, *ssa.RunDefers:
			why = fmt.Sprintf("it contains %T", in) + at
		case *ssa.UnOp:
			if x.Op == token.ARROW {
				why = "it receives from a channel" + at
			}
		case *ssa.Store:
			if !localAddr(x.Addr) {
				why = "it writes memory that is not a local variable" + at
			}
			if _, isFV := x.Val.(*ssa.FreeVar); isFV {
				why = "it stores the address of a captured variable" + at
			}
		case *ssa.Call:
			if x.Call.IsInvoke() {
				switch x.Call.Method.Name() {
				case "TrialRunStarted", "TrialRunFinished", "EpochEvaluated", "GenerationEvaluate", "NextEpoch", "Done", "Err":
					why = "it makes the protocol call " + x.Call.Method.Name() + at
				}
				return
			}
			// the address of a captured variable must not travel into a call
			for _, a := range x.Call.Args {
				if _, isFV := a.(*ssa.FreeVar); isFV {
					why = "it hands the address of a captured variable to a call" + at
				}
			}
			if callee := x.Call.StaticCallee(); callee == nil {
				if _, isB := x.Call.Value.(*ssa.Builtin); isB {
					return
				}
				// a call of a function value: only package-level function variables (the loggers)
				ld, isLd := x.Call.Value.(*ssa.UnOp)
				if isLd && ld.Op == token.MUL {
					if _, isG := ld.X.(*ssa.Global); isG {
						return
					}
				}
				why = "it calls a function value" + at
			}
		}
	})
	return why
}

// c20CapturedParam: operand a of an instruction of step closure k holds parameter prm of the function that made the
// closure: it loads a captured variable that is written exactly once, with that parameter, before the closure is made.
func (s *c20StepLoop) capturedValue(k int, a ssa.Value) ssa.Value {
	if s.Mcs[k] == nil {
		if c, ok := a.(*ssa.Const); ok {
			return c
		}
		return nil
	}
	return c15CapturedValue(s.Mcs[k], s.Fns[k], a)
}
