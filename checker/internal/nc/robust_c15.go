package nc

import (
	"go/constant"
	"go/token"
	"go/types"

	"golang.org/x/tools/go/ssa"
)

// c15TableLoop recognises the "table + loop" form of a run of repeated statements:
//
//	tab := []E{v0, v1, .., vN-1}
//	for _, v := range tab { if err := use(v); err != nil { return err } }
//
// `at` is the call `use(..)` inside the loop l and `operand` the value it consumes. It returns v0..vN-1 (the values
// stored into the table, in index order): the operand of `at` in iteration k is exactly vk, `at` runs once for every
// k = 0..N-1 in this order, and the only way the run is cut short is a non-nil error result of `at` itself. That is the
// same fact as N consecutive `if err := use(vk); err != nil { return err }` statements.
//
// errExits are the blocks entered when the loop is left on such an error; the caller must make sure nothing it counts as
// "after the loop" is reachable from them.
//
// Conditions (each one is needed for the claim):
//   - operand (interface boxing stripped) is the load of T[i], T a literal table: a local array `new [N]E` (possibly
//     through a full slice of it, or a whole-array copy taken after the last store) that is referenced only by
//     constant-index element stores - exactly one per index 0..N-1, every one executed before the loop is entered -
//     and by element loads / len(); it does not escape and is not written anywhere else;
//   - i is the counter of l and runs 0,1,..,len(T)-1 (countsUp with bound len(T) or the constant N);
//   - the block of `at` dominates every latch of l (no iteration skips the call);
//   - every edge leaving l other than the counter test leaves on "result of at != nil";
//   - l contains no other call than `at`, the calls that compute its operand, and builtins (nothing else happens
//     between two uses).
func c15TableLoop(l *Loop, at *ssa.Call, operand ssa.Value) (_ []ssa.Value, errExits []*ssa.BasicBlock, _ bool) {
	if l == nil || !l.Blocks[at.Block()] {
		return nil, nil, false
	}
	for {
		if mi, ok := operand.(*ssa.MakeInterface); ok {
			operand = mi.X
			continue
		}
		break
	}
	idx, bound, okc := countsUp(l)
	if !okc {
		return nil, nil, false
	}
	var tab ssa.Value
	switch x := operand.(type) {
	case *ssa.UnOp: // *(&T[i])
		ia, isIA := x.X.(*ssa.IndexAddr)
		if x.Op != token.MUL || !isIA || ia.Index != idx {
			return nil, nil, false
		}
		tab = ia.X
	case *ssa.Index: // (*T)[i]: element of a copy of the whole array, taken after the table was filled (checked below)
		cp, isCp := x.X.(*ssa.UnOp)
		if !isCp || cp.Op != token.MUL || x.Index != idx {
			return nil, nil, false
		}
		tab = cp.X
	default:
		return nil, nil, false
	}
	root, n, ok := c15TableRoot(tab)
	if !ok {
		return nil, nil, false
	}
	// bound: len(T) or the constant N
	switch b := bound.(type) {
	case *ssa.Const:
		if b.Value == nil || b.Value.Kind() != constant.Int {
			return nil, nil, false
		}
		if v, exact := constant.Int64Val(b.Value); !exact || v != n {
			return nil, nil, false
		}
	case *ssa.Call:
		bi, isB := b.Call.Value.(*ssa.Builtin)
		if !isB || bi.Name() != "len" || len(b.Call.Args) != 1 {
			return nil, nil, false
		}
		if r2, n2, ok2 := c15TableRoot(b.Call.Args[0]); !ok2 || r2 != root || n2 != n {
			return nil, nil, false
		}
	default:
		return nil, nil, false
	}
	// the table: who refers to the array
	vals := make([]ssa.Value, n)
	seen := make([]bool, n)
	var stores []*ssa.Store
	var copies []*ssa.UnOp
	loadsOnly := func(a *ssa.IndexAddr) bool {
		for _, r := range *a.Referrers() {
			switch u := r.(type) {
			case *ssa.UnOp:
				if u.Op != token.MUL {
					return false
				}
			case *ssa.DebugRef:
			default:
				return false
			}
		}
		return true
	}
	for _, r := range *root.Referrers() {
		switch x := r.(type) {
		case *ssa.DebugRef:
		case *ssa.IndexAddr:
			if x.X != ssa.Value(root) {
				return nil, nil, false
			}
			k, isC := x.Index.(*ssa.Const)
			if !isC {
				// a read at a computed index
				if !loadsOnly(x) {
					return nil, nil, false
				}
				continue
			}
			if k.Value == nil || k.Value.Kind() != constant.Int {
				return nil, nil, false
			}
			ki, exact := constant.Int64Val(k.Value)
			if !exact || ki < 0 || ki >= n {
				return nil, nil, false
			}
			if loadsOnly(x) {
				continue
			}
			// the initialising store of index ki: the address is used for that store and nothing else
			var st *ssa.Store
			for _, rr := range *x.Referrers() {
				switch s := rr.(type) {
				case *ssa.DebugRef:
				case *ssa.Store:
					if st != nil || s.Addr != ssa.Value(x) || s.Val == ssa.Value(x) {
						return nil, nil, false
					}
					st = s
				default:
					return nil, nil, false
				}
			}
			if st == nil || seen[ki] {
				return nil, nil, false
			}
			// executed before the loop is entered
			if l.Blocks[st.Block()] || !st.Block().Dominates(l.Header) {
				return nil, nil, false
			}
			seen[ki], vals[ki] = true, st.Val
			stores = append(stores, st)
		case *ssa.UnOp:
			// a copy of the whole array, read by index only
			if x.Op != token.MUL {
				return nil, nil, false
			}
			for _, rr := range *x.Referrers() {
				switch u := rr.(type) {
				case *ssa.DebugRef:
				case *ssa.Index:
					if u.X != ssa.Value(x) {
						return nil, nil, false
					}
				default:
					return nil, nil, false
				}
			}
			copies = append(copies, x)
		case *ssa.Slice:
			if x.X != ssa.Value(root) || x.Low != nil || x.High != nil || x.Max != nil {
				return nil, nil, false
			}
			for _, rr := range *x.Referrers() {
				switch u := rr.(type) {
				case *ssa.DebugRef:
				case *ssa.IndexAddr:
					if u.X != ssa.Value(x) || !loadsOnly(u) {
						return nil, nil, false
					}
				case *ssa.Call:
					bi, isB := u.Call.Value.(*ssa.Builtin)
					if !isB || (bi.Name() != "len" && bi.Name() != "cap") {
						return nil, nil, false
					}
				default:
					return nil, nil, false
				}
			}
		default:
			return nil, nil, false
		}
	}
	for _, s := range seen {
		if !s {
			return nil, nil, false
		}
	}
	// a copy of the array holds the table only when it is taken after every entry was stored
	for _, cp := range copies {
		for _, st := range stores {
			if !instrBefore(st, cp) {
				return nil, nil, false
			}
		}
	}
	// every iteration runs the call
	for _, lt := range l.Latch {
		if !at.Block().Dominates(lt) {
			return nil, nil, false
		}
	}
	// early exits only on the error result of the call
	for b := range l.Blocks {
		for si, s := range b.Succs {
			if l.Blocks[s] || b == l.Header {
				continue
			}
			iff, isIf := b.Instrs[len(b.Instrs)-1].(*ssa.If)
			if !isIf {
				return nil, nil, false
			}
			// the fact on the leaving edge is `result of at != nil`
			cx, cy, cop, okc := CmpFact(iff.Cond, si == 0)
			if !okc || cx != ssa.Value(at) || !isErrorType(at.Type()) || cop != token.NEQ {
				return nil, nil, false
			}
			if k, isC := cy.(*ssa.Const); !isC || !k.IsNil() {
				return nil, nil, false
			}
			errExits = append(errExits, s)
		}
	}
	// nothing else happens in the loop
	for b := range l.Blocks {
		for _, in := range b.Instrs {
			switch x := in.(type) {
			case *ssa.Call:
				if x == at {
					continue
				}
				if _, isB := x.Call.Value.(*ssa.Builtin); isB {
					continue
				}
				nm, _ := calleeName(&x.Call)
				feeds := nm == "reflect.ValueOf" && len(*x.Referrers()) > 0
				for _, rr := range *x.Referrers() {
					if rr != ssa.Instruction(at) {
						feeds = false
					}
				}
				if !feeds {
					return nil, nil, false
				}
			case *ssa.Go, *ssa.Defer, *ssa.Store, *ssa.MapUpdate, *ssa.Send:
				return nil, nil, false
			}
		}
	}
	return vals, errExits, true
}

// c15TableRoot: v is a local array allocation or a full slice of one; returns the allocation and its length.
func c15TableRoot(v ssa.Value) (*ssa.Alloc, int64, bool) {
	if sl, ok := v.(*ssa.Slice); ok {
		if sl.Low != nil || sl.High != nil || sl.Max != nil {
			return nil, 0, false
		}
		v = sl.X
	}
	al, ok := v.(*ssa.Alloc)
	if !ok {
		return nil, 0, false
	}
	arr, ok := deref(al.Type()).Underlying().(*types.Array)
	if !ok {
		return nil, 0, false
	}
	return al, arr.Len(), true
}

// c15ReachableFrom: the blocks reachable from the given blocks (including them).
func c15ReachableFrom(from []*ssa.BasicBlock) map[*ssa.BasicBlock]bool {
	seen := map[*ssa.BasicBlock]bool{}
	stack := append([]*ssa.BasicBlock(nil), from...)
	for len(stack) > 0 {
		b := stack[len(stack)-1]
		stack = stack[:len(stack)-1]
		if seen[b] {
			continue
		}
		seen[b] = true
		stack = append(stack, b.Succs...)
	}
	return seen
}

// ---------------------------------------------------------------------------
// Calls of thin local closures

// c15WriteOnce: the cell a is written exactly once, by a store that precedes (same block, earlier) or dominates every
// other use, its address does not escape, and every closure that captures it only loads from it. A load from the cell -
// in the function itself or in such a closure - therefore yields the stored value.
func c15WriteOnce(a *ssa.Alloc) ssa.Value {
	if a == nil || a.Referrers() == nil {
		return nil
	}
	var st *ssa.Store
	for _, ref := range *a.Referrers() {
		if s, ok := ref.(*ssa.Store); ok {
			if s.Val == ssa.Value(a) || s.Addr != ssa.Value(a) || st != nil {
				return nil
			}
			st = s
		}
	}
	if st == nil {
		return nil
	}
	for _, ref := range *a.Referrers() {
		switch x := ref.(type) {
		case *ssa.Store, *ssa.DebugRef:
		case *ssa.UnOp:
			if x.Op != token.MUL || !instrBefore(st, x) {
				return nil
			}
		case *ssa.MakeClosure:
			if !instrBefore(st, x) {
				return nil
			}
			fn, _ := x.Fn.(*ssa.Function)
			if fn == nil {
				return nil
			}
			for i, b := range x.Bindings {
				if b != ssa.Value(a) {
					continue
				}
				if i >= len(fn.FreeVars) || fn.FreeVars[i].Referrers() == nil {
					return nil
				}
				for _, r2 := range *fn.FreeVars[i].Referrers() {
					if u, ok := r2.(*ssa.UnOp); ok && u.Op == token.MUL {
						continue
					}
					if _, dbg := r2.(*ssa.DebugRef); dbg {
						continue
					}
					return nil
				}
			}
		default:
			return nil
		}
	}
	return st.Val
}

// c15EffCall is what a call instruction amounts to: the function that runs and the operands it receives, as values of
// the calling function.
type c15EffCall struct {
	At     ssa.CallInstruction
	Callee *ssa.Function
	Args   []ssa.Value // receiver first for methods; nil entries are operands that could not be traced to the caller
}

// c15EffectiveCall resolves the call `at`.
//
//   - A static call of a declared function is itself.
//   - A call of a closure made in the same function, `f := func() R { return h(x, y) }; ..; f()`, whose body is a thin
//     wrapper - one basic block that only loads captured cells / fields of them, makes exactly one call h(..) and returns
//     h's results unchanged - amounts to the call h(x, y) at the place of `f()`: running f runs h once with those
//     operands and nothing else, and hands back what h returned. An operand that is the load of a captured cell is
//     replaced by the value the enclosing function stored into that cell (c15WriteOnce: the only store, executed
//     before the closure was made, the cell is only read elsewhere), a constant stays itself.
//
// ok is false when `at` is neither (a dynamic call, a closure with a richer body).
func c15EffectiveCall(at ssa.CallInstruction) (c15EffCall, bool) {
	com := at.Common()
	if com.IsInvoke() {
		return c15EffCall{}, false
	}
	switch v := com.Value.(type) {
	case *ssa.Function:
		if v.Parent() == nil {
			return c15EffCall{At: at, Callee: v, Args: com.Args}, true
		}
	case *ssa.MakeClosure:
		fn, _ := v.Fn.(*ssa.Function)
		if fn == nil || v.Parent() != at.Parent() || len(fn.Blocks) != 1 || len(com.Args) != 0 || len(fn.Params) != 0 || fn.Recover != nil {
			return c15EffCall{}, false
		}
		var inner *ssa.Call
		var ret *ssa.Return
		for _, in := range fn.Blocks[0].Instrs {
			switch x := in.(type) {
			case *ssa.DebugRef:
			case *ssa.UnOp:
				if x.Op != token.MUL {
					return c15EffCall{}, false
				}
			case *ssa.FieldAddr, *ssa.Field, *ssa.Extract:
			case *ssa.Call:
				if inner != nil {
					return c15EffCall{}, false
				}
				inner = x
			case *ssa.Return:
				ret = x
			default:
				return c15EffCall{}, false
			}
		}
		if inner == nil || ret == nil || inner.Call.IsInvoke() {
			return c15EffCall{}, false
		}
		callee, _ := inner.Call.Value.(*ssa.Function)
		if callee == nil || callee.Parent() != nil {
			return c15EffCall{}, false
		}
		// the wrapper returns exactly what the inner call returned
		if tup, isTup := inner.Type().(*types.Tuple); isTup {
			if len(ret.Results) != tup.Len() {
				return c15EffCall{}, false
			}
			for i, rv := range ret.Results {
				ex, isEx := rv.(*ssa.Extract)
				if !isEx || ex.Tuple != ssa.Value(inner) || ex.Index != i {
					return c15EffCall{}, false
				}
			}
		} else if len(ret.Results) != 1 || ret.Results[0] != ssa.Value(inner) {
			return c15EffCall{}, false
		}
		eff := c15EffCall{At: at, Callee: callee}
		for _, a := range inner.Call.Args {
			eff.Args = append(eff.Args, c15CapturedValue(v, fn, a))
		}
		return eff, true
	}
	return c15EffCall{}, false
}

// c15CapturedValue: the value - of the function that made the closure mc of fn - that the operand a of an instruction
// of fn holds: a constant, or the content of a captured write-once cell. nil when it cannot be traced.
func c15CapturedValue(mc *ssa.MakeClosure, fn *ssa.Function, a ssa.Value) ssa.Value {
	switch x := a.(type) {
	case *ssa.Const:
		return x
	case *ssa.UnOp:
		fv, ok := x.X.(*ssa.FreeVar)
		if !ok || x.Op != token.MUL {
			return nil
		}
		for i, f := range fn.FreeVars {
			if f == fv && i < len(mc.Bindings) {
				if cell, isCell := mc.Bindings[i].(*ssa.Alloc); isCell {
					return c15WriteOnce(cell)
				}
			}
		}
	}
	return nil
}

// ---------------------------------------------------------------------------
// Lists of a holder that are filled before the holder is built

// c15LocalListField: v is a local list `s := make([]T, n)` of tm.Fn that becomes the field F of a struct freshly made
// in tm.Fn as a whole (`h.F = s` / `&H{F: s}`), and is used for nothing else than element access and len/cap: the
// element s[i] is the element h.F[i], whether it is written before or after the list is installed. Returns F, "" if not.
func c15LocalListField(tm *Termer, v ssa.Value) string {
	mk, ok := v.(*ssa.MakeSlice)
	if !ok || mk.Referrers() == nil {
		return ""
	}
	field := ""
	for _, ref := range *mk.Referrers() {
		switch x := ref.(type) {
		case *ssa.DebugRef, *ssa.IndexAddr:
		case *ssa.Call:
			b, isB := x.Call.Value.(*ssa.Builtin)
			if !isB || (b.Name() != "len" && b.Name() != "cap") {
				return ""
			}
		case *ssa.Store:
			fa, isFA := x.Addr.(*ssa.FieldAddr)
			if x.Val != ssa.Value(mk) || !isFA || field != "" {
				return ""
			}
			if at := tm.Of(fa); !(at.Op == "field" && at.Args[0].Op == "new") {
				return ""
			}
			field = fieldOf(fa.X.Type(), fa.Field).Name()
		default:
			return ""
		}
	}
	return field
}

// c15HolderListField: the address term at is an element `L[i]` of a list of the holder under construction - L being
// the holder's field itself (`data.F[i]`) or a local list that becomes that field as a whole (c15LocalListField).
// Returns the holder field, "" if at is not such an element.
func c15HolderListField(tm *Termer, at *Term) string {
	if at == nil || at.Op != "elem" || len(at.Args) < 2 {
		return ""
	}
	if at.Args[0].Op == "field" {
		return at.Args[0].Name
	}
	if at.Args[0].V != nil {
		return c15LocalListField(tm, at.Args[0].V)
	}
	return ""
}

// ---------------------------------------------------------------------------
// Tables of records

// c15RecordTableRows recognises the "table of records + loop" form of a run of repeated calls:
//
//	tab := []struct{a A; b B; ..}{{a0, b0, ..}, {a1, b1, ..}, ..}
//	for _, e := range tab { use(e.a, e.b) }
//
// `at` is the call inside the loop and operands some of its arguments. It returns one row per table entry, row k
// holding for every operand the value the literal stored into the field that operand reads (operand j of the call in
// iteration k is exactly rows[k][j]); `at` runs once for every k = 0..N-1, in this order. That is the same fact as the
// N consecutive calls use(a0, b0); use(a1, b1); ..
//
// Conditions (each one is needed for the claim):
//   - every operand is the load of a field of the current entry: `T[i].f` directly or through the range variable, a
//     local cell whose only store is `cell = T[i]`, in the loop and before the load, and of which nothing but field
//     loads is taken;
//   - T is a literal table: a local array `new [N]E` (possibly through a full slice of it) that is referenced only by
//     the constant-index field stores of the literal - at most one per entry and field, every one executed before the
//     loop is entered -, by element/field loads and by len(); it does not escape and is not written anywhere else;
//     every field an operand reads was stored for every entry;
//   - i is the counter of the loop and runs 0,1,..,len(T)-1;
//   - the block of `at` dominates every latch (no iteration skips the call) and the counter test is the only way out
//     of the loop (no iteration is cut off).
func c15RecordTableRows(at ssa.CallInstruction, operands []ssa.Value) ([][]ssa.Value, bool) {
	fn := at.Parent()
	if fn == nil || len(operands) == 0 {
		return nil, false
	}
	l := InnermostLoop(Loops(fn), at.Block())
	if l == nil {
		return nil, false
	}
	idx, bound, okc := countsUp(l)
	if !okc {
		return nil, false
	}
	for _, lt := range l.Latch {
		if !at.Block().Dominates(lt) {
			return nil, false
		}
	}
	for b := range l.Blocks {
		if len(b.Succs) == 0 {
			return nil, false
		}
		for _, s := range b.Succs {
			if !l.Blocks[s] && b != l.Header {
				return nil, false
			}
		}
	}
	loadsOnly := func(v ssa.Value) bool {
		for _, r := range *v.Referrers() {
			switch u := r.(type) {
			case *ssa.UnOp:
				if u.Op != token.MUL {
					return false
				}
			case *ssa.DebugRef:
			default:
				return false
			}
		}
		return true
	}
	// element address: only loaded from, as a whole or field by field
	readOnlyElem := func(ia ssa.Value) bool {
		for _, r := range *ia.Referrers() {
			switch u := r.(type) {
			case *ssa.UnOp:
				if u.Op != token.MUL {
					return false
				}
			case *ssa.FieldAddr:
				if !loadsOnly(u) {
					return false
				}
			case *ssa.DebugRef:
			default:
				return false
			}
		}
		return true
	}
	// the current entry T[i]: returns T
	curEntry := func(addr ssa.Value) ssa.Value {
		ia, ok := addr.(*ssa.IndexAddr)
		if !ok || ia.Index != idx || !l.Blocks[ia.Block()] {
			return nil
		}
		return ia.X
	}
	var root *ssa.Alloc
	var n int64
	fields := make([]int, len(operands))
	for j, op := range operands {
		ld, ok := op.(*ssa.UnOp)
		if !ok || ld.Op != token.MUL || !l.Blocks[ld.Block()] {
			return nil, false
		}
		fa, ok := ld.X.(*ssa.FieldAddr)
		if !ok {
			return nil, false
		}
		var tab ssa.Value
		switch x := fa.X.(type) {
		case *ssa.IndexAddr:
			tab = curEntry(x)
		case *ssa.Alloc:
			// the range variable
			var st *ssa.Store
			for _, r := range *x.Referrers() {
				switch u := r.(type) {
				case *ssa.Store:
					if u.Addr != ssa.Value(x) || u.Val == ssa.Value(x) || st != nil {
						return nil, false
					}
					st = u
				case *ssa.FieldAddr:
					if !loadsOnly(u) {
						return nil, false
					}
				case *ssa.DebugRef:
				default:
					return nil, false
				}
			}
			if st == nil || !l.Blocks[st.Block()] || !instrBefore(st, ld) {
				return nil, false
			}
			whole, isLd := st.Val.(*ssa.UnOp)
			if !isLd || whole.Op != token.MUL {
				return nil, false
			}
			tab = curEntry(whole.X)
		}
		if tab == nil {
			return nil, false
		}
		r2, n2, ok := c15TableRoot(tab)
		if !ok || (root != nil && r2 != root) {
			return nil, false
		}
		root, n = r2, n2
		fields[j] = fa.Field
	}
	if _, isStruct := deref(root.Type()).Underlying().(*types.Array).Elem().Underlying().(*types.Struct); !isStruct {
		return nil, false
	}
	// bound: len(T) or the constant N
	switch b := bound.(type) {
	case *ssa.Const:
		if b.Value == nil || b.Value.Kind() != constant.Int {
			return nil, false
		}
		if v, exact := constant.Int64Val(b.Value); !exact || v != n {
			return nil, false
		}
	case *ssa.Call:
		bi, isB := b.Call.Value.(*ssa.Builtin)
		if !isB || bi.Name() != "len" || len(b.Call.Args) != 1 {
			return nil, false
		}
		if r2, _, ok2 := c15TableRoot(b.Call.Args[0]); !ok2 || r2 != root {
			return nil, false
		}
	default:
		return nil, false
	}
	// the table: who refers to the array
	cells := make([]map[int]ssa.Value, n)
	for k := range cells {
		cells[k] = map[int]ssa.Value{}
	}
	for _, r := range *root.Referrers() {
		switch x := r.(type) {
		case *ssa.DebugRef:
		case *ssa.IndexAddr:
			if x.X != ssa.Value(root) {
				return nil, false
			}
			k, isC := x.Index.(*ssa.Const)
			if !isC {
				if !readOnlyElem(x) {
					return nil, false
				}
				continue
			}
			if k.Value == nil || k.Value.Kind() != constant.Int {
				return nil, false
			}
			ki, exact := constant.Int64Val(k.Value)
			if !exact || ki < 0 || ki >= n {
				return nil, false
			}
			for _, rr := range *x.Referrers() {
				switch fa := rr.(type) {
				case *ssa.DebugRef:
				case *ssa.UnOp:
					if fa.Op != token.MUL {
						return nil, false
					}
				case *ssa.FieldAddr:
					if loadsOnly(fa) {
						continue
					}
					// the initialising store of field fa.Field of entry ki: the address is used for that store and nothing else
					var st *ssa.Store
					for _, r3 := range *fa.Referrers() {
						switch s := r3.(type) {
						case *ssa.DebugRef:
						case *ssa.Store:
							if st != nil || s.Addr != ssa.Value(fa) || s.Val == ssa.Value(fa) {
								return nil, false
							}
							st = s
						default:
							return nil, false
						}
					}
					if st == nil {
						return nil, false
					}
					if _, dup := cells[ki][fa.Field]; dup {
						return nil, false
					}
					// executed before the loop is entered
					if l.Blocks[st.Block()] || !st.Block().Dominates(l.Header) {
						return nil, false
					}
					cells[ki][fa.Field] = st.Val
				default:
					return nil, false
				}
			}
		case *ssa.Slice:
			if x.X != ssa.Value(root) || x.Low != nil || x.High != nil || x.Max != nil {
				return nil, false
			}
			for _, rr := range *x.Referrers() {
				switch u := rr.(type) {
				case *ssa.DebugRef:
				case *ssa.IndexAddr:
					if u.X != ssa.Value(x) || !readOnlyElem(u) {
						return nil, false
					}
				case *ssa.Call:
					bi, isB := u.Call.Value.(*ssa.Builtin)
					if !isB || (bi.Name() != "len" && bi.Name() != "cap") {
						return nil, false
					}
				default:
					return nil, false
				}
			}
		default:
			return nil, false
		}
	}
	rows := make([][]ssa.Value, n)
	for k := range rows {
		for _, f := range fields {
			v, ok := cells[k][f]
			if !ok {
				return nil, false
			}
			rows[k] = append(rows[k], v)
		}
	}
	return rows, true
}

// ---------------------------------------------------------------------------
// Lists resolved in a first pass and consumed by index in a second one

// c15SameLen: a and b are the same length: the same value, or len() of the same list.
func c15SameLen(a, b ssa.Value) bool {
	if a == b {
		return true
	}
	la, okA := a.(*ssa.Call)
	lb, okB := b.(*ssa.Call)
	if !okA || !okB {
		return false
	}
	ba, isBa := la.Call.Value.(*ssa.Builtin)
	bb, isBb := lb.Call.Value.(*ssa.Builtin)
	return isBa && isBb && ba.Name() == "len" && bb.Name() == "len" && la.Call.Args[0] == lb.Call.Args[0]
}

// c15ResolvedListElem recognises the two-pass form
//
//	res := make([]T, len(src)); for j := range src { ..; res[j] = w(src[j]); .. }   // every way out but the end of the loop is an error
//	..; for i := range res { use(res[i]) }
//
// v is the load `res[i]`. It returns the value w stored by the first pass, the index j of that store and the index i of
// the load: at the load, res[i] holds what the store put there in the iteration j = i of a loop that ran to its end.
// That is the same fact as `use(w(src[i]))` in one pass.
//
// Conditions (each one is needed for the claim):
//   - res is a local list made with make([]T, n) (seen through the result phi of an inlined helper: only the
//     alternatives that are feasible at the load count, and all of them are this list); it and its aliases are used for
//     nothing but element access, len/cap and such phis (no append, no slicing, not handed to a call);
//   - there is exactly one element store into it; it is indexed by the counter of a loop that counts 0..n-1 with n the
//     length res was made with, and its block is passed in every iteration that goes on (dominates the latches);
//   - the load can only be reached through the loop's regular exit: the phi edges feasible at the load come from
//     blocks behind the exit edge of the loop header, or (no phi) no other exit of the loop reaches the load.
func c15ResolvedListElem(v ssa.Value) (w ssa.Value, storeIdx, loadIdx ssa.Value, ok bool) {
	ld, isLd := v.(*ssa.UnOp)
	if !isLd || ld.Op != token.MUL {
		return nil, nil, nil, false
	}
	lia, isIA := ld.X.(*ssa.IndexAddr)
	if !isIA {
		return nil, nil, nil, false
	}
	strip := func(x ssa.Value) ssa.Value {
		for {
			ct, isCT := x.(*ssa.ChangeType)
			if !isCT {
				return x
			}
			x = ct.X
		}
	}
	list := strip(lia.X)
	var ms *ssa.MakeSlice
	var viaPhi *ssa.Phi
	switch x := list.(type) {
	case *ssa.MakeSlice:
		ms = x
	case *ssa.Phi:
		viaPhi = x
		feasible := c15FeasibleEdges(x, Guards(ld.Block()))
		n := 0
		for i, e := range x.Edges {
			if !feasible[i] {
				continue
			}
			n++
			m, isMS := strip(e).(*ssa.MakeSlice)
			if !isMS || (ms != nil && ms != m) {
				return nil, nil, nil, false
			}
			ms = m
		}
		if n == 0 {
			return nil, nil, nil, false
		}
	}
	if ms == nil {
		return nil, nil, nil, false
	}
	// aliases: the list, type changes of it, phis that merge it with nil
	alias := map[ssa.Value]bool{ms: true}
	var stores []*ssa.Store
	work := []ssa.Value{ms}
	for len(work) > 0 {
		a := work[len(work)-1]
		work = work[:len(work)-1]
		refs := a.Referrers()
		if refs == nil {
			return nil, nil, nil, false
		}
		for _, ref := range *refs {
			switch x := ref.(type) {
			case *ssa.DebugRef:
			case *ssa.ChangeType:
				if !alias[x] {
					alias[x] = true
					work = append(work, x)
				}
			case *ssa.Phi:
				for _, e := range x.Edges {
					if k, isC := e.(*ssa.Const); isC && k.Value == nil {
						continue
					}
					if !alias[strip(e)] && strip(e) != ssa.Value(x) {
						return nil, nil, nil, false
					}
				}
				if !alias[x] {
					alias[x] = true
					work = append(work, x)
				}
			case *ssa.IndexAddr:
				if x.X != a {
					return nil, nil, nil, false
				}
				for _, r2 := range *x.Referrers() {
					switch y := r2.(type) {
					case *ssa.DebugRef:
					case *ssa.Store:
						if y.Addr != ssa.Value(x) {
							return nil, nil, nil, false // the element address itself is stored somewhere
						}
						stores = append(stores, y)
					case *ssa.UnOp:
						if y.Op != token.MUL {
							return nil, nil, nil, false
						}
					default:
						return nil, nil, nil, false
					}
				}
			case *ssa.Call:
				b, isB := x.Call.Value.(*ssa.Builtin)
				if !isB || (b.Name() != "len" && b.Name() != "cap") {
					return nil, nil, nil, false
				}
			default:
				return nil, nil, nil, false
			}
		}
	}
	if len(stores) != 1 {
		return nil, nil, nil, false
	}
	st := stores[0]
	sia := st.Addr.(*ssa.IndexAddr)
	fn := st.Parent()
	l := InnermostLoop(Loops(fn), st.Block())
	if l == nil || l.Blocks[ld.Block()] {
		return nil, nil, nil, false
	}
	idx, bound, okc := countsUp(l)
	if !okc || sia.Index != idx || !c15SameLen(bound, ms.Len) {
		return nil, nil, nil, false
	}
	if !l.Blocks[ms.Block()] && !(ms.Block() == l.Header || ms.Block().Dominates(l.Header)) {
		return nil, nil, nil, false
	}
	if l.Blocks[ms.Block()] {
		return nil, nil, nil, false // made anew in every iteration
	}
	for _, lt := range l.Latch {
		if !(st.Block() == lt || st.Block().Dominates(lt)) {
			return nil, nil, nil, false
		}
	}
	// the regular exit: the header's edge out of the loop
	var exit *ssa.BasicBlock
	for _, s := range l.Header.Succs {
		if !l.Blocks[s] {
			exit = s
		}
	}
	if exit == nil {
		return nil, nil, nil, false
	}
	if viaPhi != nil {
		feasible := c15FeasibleEdges(viaPhi, Guards(ld.Block()))
		for i := range viaPhi.Edges {
			if feasible[i] && !edgeDominates(l.Header, exit, viaPhi.Block().Preds[i]) {
				return nil, nil, nil, false
			}
		}
	} else {
		var others []*ssa.BasicBlock
		for b := range l.Blocks {
			if b == l.Header {
				continue
			}
			for _, s := range b.Succs {
				if !l.Blocks[s] {
					others = append(others, s)
				}
			}
		}
		if c15ReachableFrom(others)[ld.Block()] || !(l.Header.Dominates(ld.Block())) {
			return nil, nil, nil, false
		}
	}
	return st.Val, sia.Index, lia.Index, true
}

// c15FeasibleEdges: FeasibleEdges, and additionally an edge is infeasible under an outcome "q is nil" about a sibling phi
// q when the value q receives on that edge is known not to be nil where the edge is taken (the edge's source block is
// dominated by `e != nil`, as after `if err != nil { return nil, err }` in an inlined helper).
func c15FeasibleEdges(ph *ssa.Phi, gs []Guard) []bool {
	feasible := FeasibleEdges(ph, gs)
	blk := ph.Block()
	for _, in := range blk.Instrs {
		q, isPhi := in.(*ssa.Phi)
		if !isPhi {
			break
		}
		for _, g := range gs {
			want, kind := guardOn(g, q)
			if kind != "nil" || !want {
				continue
			}
			for i, e := range q.Edges {
				if !feasible[i] {
					continue
				}
				pred := blk.Preds[i]
				egs := Guards(pred)
				if iff, isIf := pred.Instrs[len(pred.Instrs)-1].(*ssa.If); isIf && pred.Succs[0] != pred.Succs[1] {
					egs = append(egs, Guard{iff.Cond, pred.Succs[0] == blk, pred})
				}
				for _, eg := range egs {
					if GuardNilness(eg, func(v ssa.Value) bool { return v == e }) == -1 {
						feasible[i] = false
					}
				}
			}
		}
	}
	return feasible
}

// c15HeldFact: the comparison `x op y` that HOLDS under the branch outcome g, as origin terms (CmpFact: negations removed,
// a false outcome complemented, a constant or nil moved to the right) - `a == b` taken true, `!(a != b)` taken true and
// `a != b` taken false are the same fact.
func c15HeldFact(tm *Termer, g Guard) (x, y *Term, op token.Token, ok bool) {
	cx, cy, op, ok := CmpFact(g.Cond, g.True)
	if !ok {
		return nil, nil, 0, false
	}
	return tm.Of(cx), tm.Of(cy), op, true
}

// c15LocalListOfSubject: v is a local list `s := make([]T, n)` that is installed as a whole into a field of the object
// being decoded (`subj.F = s`, exactly one such store) and is otherwise used only for element access and len/cap: the
// element s[i] is the element subj.F[i] of the decoded object, whether it is filled before or after the list is
// installed. Returns the field path (as subjPath names it), "" if not.
func c15LocalListOfSubject(tm *Termer, v ssa.Value, subjPath func(*Term) (string, bool)) string {
	mk, ok := v.(*ssa.MakeSlice)
	if !ok || mk.Referrers() == nil {
		return ""
	}
	field := ""
	refs := append([]ssa.Instruction(nil), *mk.Referrers()...)
	alias := map[ssa.Value]bool{mk: true}
	for k := 0; k < len(refs); k++ {
		switch x := refs[k].(type) {
		case *ssa.DebugRef, *ssa.IndexAddr:
		case *ssa.ChangeType: // the named slice type of the field
			if x.Referrers() == nil {
				return ""
			}
			alias[x] = true
			refs = append(refs, *x.Referrers()...)
		case *ssa.Call:
			b, isB := x.Call.Value.(*ssa.Builtin)
			if !isB || (b.Name() != "len" && b.Name() != "cap") {
				return ""
			}
		case *ssa.Store:
			if !alias[x.Val] || field != "" {
				return ""
			}
			ps, isF := subjPath(tm.Of(x.Addr))
			if !isF {
				return ""
			}
			field = ps
		default:
			return ""
		}
	}
	return field
}

// c15OnlyForLast: the print call fc, with the format alternative fc.Format, is performed only in the last iteration of the
// counted loop l (counter i, bound n): the branch outcomes it runs under - those that dominate the call when the format
// is a constant operand, those of the incoming edge when the format is a phi of constants and this alternative arrives on
// that edge - contain a fact that implies i >= n-1: `i >= n-1`, `i == n-1`, `i > n-1`, `i+1 >= n`, .. in any spelling
// (CmpFact), with n-1 written as `len(list) - 1`.
func c15OnlyForLast(tm *Termer, fc fmtCall, l *Loop) bool {
	if l == nil {
		return false
	}
	// the same length: the same value, len() of the same list value, or the same origin term (`len(t.Params)` evaluated
	// again inside the loop loads the field anew)
	sameLen := func(a, b ssa.Value) bool {
		return c15SameLen(a, b) || tm.Of(a).String() == tm.Of(b).String()
	}
	idx, bound, ok := countsUp(l)
	if !ok {
		return false
	}
	isOne := func(v ssa.Value) bool {
		k, isC := v.(*ssa.Const)
		return isC && k.Value != nil && k.Value.ExactString() == "1"
	}
	isLast := func(gs []Guard) bool {
		for _, g := range gs {
			x, y, op, okc := CmpFact(g.Cond, g.True)
			if !okc {
				continue
			}
			switch op { // bring into the form  x >= y  /  x == y  /  x > y
			case token.LEQ:
				x, y, op = y, x, token.GEQ
			case token.LSS:
				x, y, op = y, x, token.GTR
			}
			if op != token.GEQ && op != token.EQL && op != token.GTR {
				continue
			}
			for k := 0; k < 2; k++ {
				// i >= n-1
				if sub, isB := y.(*ssa.BinOp); isB && sub.Op == token.SUB && x == idx && sameLen(sub.X, bound) && isOne(sub.Y) {
					return true
				}
				// i+1 >= n
				if add, isB := x.(*ssa.BinOp); isB && add.Op == token.ADD && add != idx && ((add.X == idx && isOne(add.Y)) || (add.Y == idx && isOne(add.X))) && sameLen(y, bound) {
					return true
				}
				if op != token.EQL {
					break
				}
				x, y = y, x // equality reads both ways
			}
		}
		return false
	}
	args := fc.Call.Common().Args
	if len(args) < 2 {
		return false
	}
	switch f := args[1].(type) {
	case *ssa.Const:
		return isLast(Guards(fc.Call.Block()))
	case *ssa.Phi:
		blk := f.Block()
		for i, e := range f.Edges {
			k, isC := e.(*ssa.Const)
			if !isC {
				return false // (nested phis of formats are not produced by the writers at hand)
			}
			if s, isS := constString(k); !isS || s != fc.Format {
				continue
			}
			pred := blk.Preds[i]
			gs := Guards(pred)
			if iff, isIf := pred.Instrs[len(pred.Instrs)-1].(*ssa.If); isIf && pred.Succs[0] != pred.Succs[1] {
				gs = append(gs, Guard{iff.Cond, pred.Succs[0] == blk, pred})
			}
			if !isLast(gs) {
				return false
			}
		}
		return true
	}
	return false
}
