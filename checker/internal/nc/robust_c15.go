package nc

import (
	"go/constant"
	"go/token"
	"go/types"

	"golang.org/x/tools/go/ssa"
)

// c15TableLoop recognises the "table + loop" form of a run of repeated statements:
//
//	tab := []E{v0, v1, .., vN-1}
//	for _, v := range tab { if err := use(v); err != nil { return err } }
//
// `at` is the call `use(..)` inside the loop l and `operand` the value it consumes. It returns v0..vN-1 (the values
// stored into the table, in index order): the operand of `at` in iteration k is exactly vk, `at` runs once for every
// k = 0..N-1 in this order, and the only way the run is cut short is a non-nil error result of `at` itself. That is the
// same fact as N consecutive `if err := use(vk); err != nil { return err }` statements.
//
// errExits are the blocks entered when the loop is left on such an error; the caller must make sure nothing it counts as
// "after the loop" is reachable from them.
//
// Conditions (each one is needed for the claim):
//   - operand (interface boxing stripped) is the load of T[i], T a literal table: a local array `new [N]E` (possibly
//     through a full slice of it, or a whole-array copy taken after the last store) that is referenced only by
//     constant-index element stores - exactly one per index 0..N-1, every one executed before the loop is entered -
//     and by element loads / len(); it does not escape and is not written anywhere else;
//   - i is the counter of l and runs 0,1,..,len(T)-1 (countsUp with bound len(T) or the constant N);
//   - the block of `at` dominates every latch of l (no iteration skips the call);
//   - every edge leaving l other than the counter test leaves on "result of at != nil";
//   - l contains no other call than `at`, the calls that compute its operand, and builtins (nothing else happens
//     between two uses).
func c15TableLoop(l *Loop, at *ssa.Call, operand ssa.Value) (_ []ssa.Value, errExits []*ssa.BasicBlock, _ bool) {
	if l == nil || !l.Blocks[at.Block()] {
		return nil, nil, false
	}
	for {
		if mi, ok := operand.(*ssa.MakeInterface); ok {
			operand = mi.X
			continue
		}
		break
	}
	idx, bound, okc := countsUp(l)
	if !okc {
		return nil, nil, false
	}
	var tab ssa.Value
	switch x := operand.(type) {
	case *ssa.UnOp: // *(&T[i])
		ia, isIA := x.X.(*ssa.IndexAddr)
		if x.Op != token.MUL || !isIA || ia.Index != idx {
			return nil, nil, false
		}
		tab = ia.X
	case *ssa.Index: // (*T)[i]: element of a copy of the whole array, taken after the table was filled (checked below)
		cp, isCp := x.X.(*ssa.UnOp)
		if !isCp || cp.Op != token.MUL || x.Index != idx {
			return nil, nil, false
		}
		tab = cp.X
	default:
		return nil, nil, false
	}
	root, n, ok := c15TableRoot(tab)
	if !ok {
		return nil, nil, false
	}
	// bound: len(T) or the constant N
	switch b := bound.(type) {
	case *ssa.Const:
		if b.Value == nil || b.Value.Kind() != constant.Int {
			return nil, nil, false
		}
		if v, exact := constant.Int64Val(b.Value); !exact || v != n {
			return nil, nil, false
		}
	case *ssa.Call:
		bi, isB := b.Call.Value.(*ssa.Builtin)
		if !isB || bi.Name() != "len" || len(b.Call.Args) != 1 {
			return nil, nil, false
		}
		if r2, n2, ok2 := c15TableRoot(b.Call.Args[0]); !ok2 || r2 != root || n2 != n {
			return nil, nil, false
		}
	default:
		return nil, nil, false
	}
	// the table: who refers to the array
	vals := make([]ssa.Value, n)
	seen := make([]bool, n)
	var stores []*ssa.Store
	var copies []*ssa.UnOp
	loadsOnly := func(a *ssa.IndexAddr) bool {
		for _, r := range *a.Referrers() {
			switch u := r.(type) {
			case *ssa.UnOp:
				if u.Op != token.MUL {
					return false
				}
			case *ssa.DebugRef:
			default:
				return false
			}
		}
		return true
	}
	for _, r := range *root.Referrers() {
		switch x := r.(type) {
		case *ssa.DebugRef:
		case *ssa.IndexAddr:
			if x.X != ssa.Value(root) {
				return nil, nil, false
			}
			k, isC := x.Index.(*ssa.Const)
			if !isC {
				// a read at a computed index
				if !loadsOnly(x) {
					return nil, nil, false
				}
				continue
			}
			if k.Value == nil || k.Value.Kind() != constant.Int {
				return nil, nil, false
			}
			ki, exact := constant.Int64Val(k.Value)
			if !exact || ki < 0 || ki >= n {
				return nil, nil, false
			}
			if loadsOnly(x) {
				continue
			}
			// the initialising store of index ki: the address is used for that store and nothing else
			var st *ssa.Store
			for _, rr := range *x.Referrers() {
				switch s := rr.(type) {
				case *ssa.DebugRef:
				case *ssa.Store:
					if st != nil || s.Addr != ssa.Value(x) || s.Val == ssa.Value(x) {
						return nil, nil, false
					}
					st = s
				default:
					return nil, nil, false
				}
			}
			if st == nil || seen[ki] {
				return nil, nil, false
			}
			// executed before the loop is entered
			if l.Blocks[st.Block()] || !st.Block().Dominates(l.Header) {
				return nil, nil, false
			}
			seen[ki], vals[ki] = true, st.Val
			stores = append(stores, st)
		case *ssa.UnOp:
			// a copy of the whole array, read by index only
			if x.Op != token.MUL {
				return nil, nil, false
			}
			for _, rr := range *x.Referrers() {
				switch u := rr.(type) {
				case *ssa.DebugRef:
				case *ssa.Index:
					if u.X != ssa.Value(x) {
						return nil, nil, false
					}
				default:
					return nil, nil, false
				}
			}
			copies = append(copies, x)
		case *ssa.Slice:
			if x.X != ssa.Value(root) || x.Low != nil || x.High != nil || x.Max != nil {
				return nil, nil, false
			}
			for _, rr := range *x.Referrers() {
				switch u := rr.(type) {
				case *ssa.DebugRef:
				case *ssa.IndexAddr:
					if u.X != ssa.Value(x) || !loadsOnly(u) {
						return nil, nil, false
					}
				case *ssa.Call:
					bi, isB := u.Call.Value.(*ssa.Builtin)
					if !isB || (bi.Name() != "len" && bi.Name() != "cap") {
						return nil, nil, false
					}
				default:
					return nil, nil, false
				}
			}
		default:
			return nil, nil, false
		}
	}
	for _, s := range seen {
		if !s {
			return nil, nil, false
		}
	}
	// a copy of the array holds the table only when it is taken after every entry was stored
	for _, cp := range copies {
		for _, st := range stores {
			if !instrBefore(st, cp) {
				return nil, nil, false
			}
		}
	}
	// every iteration runs the call
	for _, lt := range l.Latch {
		if !at.Block().Dominates(lt) {
			return nil, nil, false
		}
	}
	// early exits only on the error result of the call
	for b := range l.Blocks {
		for si, s := range b.Succs {
			if l.Blocks[s] || b == l.Header {
				continue
			}
			iff, isIf := b.Instrs[len(b.Instrs)-1].(*ssa.If)
			if !isIf {
				return nil, nil, false
			}
			cmp, isB := iff.Cond.(*ssa.BinOp)
			if !isB || cmp.X != ssa.Value(at) || !isErrorType(at.Type()) {
				return nil, nil, false
			}
			if k, isC := cmp.Y.(*ssa.Const); !isC || !k.IsNil() {
				return nil, nil, false
			}
			if !((cmp.Op == token.NEQ && si == 0) || (cmp.Op == token.EQL && si == 1)) {
				return nil, nil, false
			}
			errExits = append(errExits, s)
		}
	}
	// nothing else happens in the loop
	for b := range l.Blocks {
		for _, in := range b.Instrs {
			switch x := in.(type) {
			case *ssa.Call:
				if x == at {
					continue
				}
				if _, isB := x.Call.Value.(*ssa.Builtin); isB {
					continue
				}
				nm, _ := calleeName(&x.Call)
				feeds := nm == "reflect.ValueOf" && len(*x.Referrers()) > 0
				for _, rr := range *x.Referrers() {
					if rr != ssa.Instruction(at) {
						feeds = false
					}
				}
				if !feeds {
					return nil, nil, false
				}
			case *ssa.Go, *ssa.Defer, *ssa.Store, *ssa.MapUpdate, *ssa.Send:
				return nil, nil, false
			}
		}
	}
	return vals, errExits, true
}

// c15TableRoot: v is a local array allocation or a full slice of one; returns the allocation and its length.
func c15TableRoot(v ssa.Value) (*ssa.Alloc, int64, bool) {
	if sl, ok := v.(*ssa.Slice); ok {
		if sl.Low != nil || sl.High != nil || sl.Max != nil {
			return nil, 0, false
		}
		v = sl.X
	}
	al, ok := v.(*ssa.Alloc)
	if !ok {
		return nil, 0, false
	}
	arr, ok := deref(al.Type()).Underlying().(*types.Array)
	if !ok {
		return nil, 0, false
	}
	return al, arr.Len(), true
}

// c15ReachableFrom: the blocks reachable from the given blocks (including them).
func c15ReachableFrom(from []*ssa.BasicBlock) map[*ssa.BasicBlock]bool {
	seen := map[*ssa.BasicBlock]bool{}
	stack := append([]*ssa.BasicBlock(nil), from...)
	for len(stack) > 0 {
		b := stack[len(stack)-1]
		stack = stack[:len(stack)-1]
		if seen[b] {
			continue
		}
		seen[b] = true
		stack = append(stack, b.Succs...)
	}
	return seen
}
