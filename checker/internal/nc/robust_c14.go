package nc

import (
	"go/constant"
	"go/token"
	"go/types"
	"sort"
	"strconv"

	"golang.org/x/tools/go/ssa"
)

// Shape-independent helpers for the C14 rules. Everything here derives facts
// from value identity, dominance and branch outcomes; nothing matches a
// particular source layout.

// ---------------------------------------------------------------------------
// Value identity

// c14WriteOnce: the cell a is written exactly once, by a store that
// dominates every other use, its address does not escape, and closures that
// capture it only read it. Loading from such a cell yields the stored value.
// (go/ssa boxes a parameter into such a cell as soon as a closure - e.g. a
// deferred one - mentions it.)
func c14WriteOnce(a *ssa.Alloc) ssa.Value {
	if a.Referrers() == nil {
		return nil
	}
	var st *ssa.Store
	for _, ref := range *a.Referrers() {
		if s, ok := ref.(*ssa.Store); ok {
			if s.Val == ssa.Value(a) || s.Addr != ssa.Value(a) || st != nil {
				return nil
			}
			st = s
		}
	}
	if st == nil {
		return nil
	}
	after := func(in ssa.Instruction) bool {
		if in.Block() == st.Block() {
			return instrIndex(st) < instrIndex(in)
		}
		return st.Block().Dominates(in.Block())
	}
	for _, ref := range *a.Referrers() {
		switch x := ref.(type) {
		case *ssa.Store:
		case *ssa.DebugRef:
		case *ssa.UnOp:
			if x.Op != token.MUL || !after(x) {
				return nil
			}
		case *ssa.MakeClosure:
			if !after(x) {
				return nil
			}
			fn, _ := x.Fn.(*ssa.Function)
			if fn == nil {
				return nil
			}
			for i, b := range x.Bindings {
				if b != ssa.Value(a) {
					continue
				}
				if i >= len(fn.FreeVars) || fn.FreeVars[i].Referrers() == nil {
					return nil
				}
				for _, r2 := range *fn.FreeVars[i].Referrers() {
					if u, ok := r2.(*ssa.UnOp); !ok || u.Op != token.MUL {
						if _, dbg := r2.(*ssa.DebugRef); !dbg {
							return nil
						}
					}
				}
			}
		default:
			return nil
		}
	}
	return st.Val
}

// c14CellValue: the value held by the cell at addr when it is a write-once
// cell of this function or, for a free variable of a closure, of the
// enclosing function.
func c14CellValue(addr ssa.Value) ssa.Value {
	switch a := addr.(type) {
	case *ssa.Alloc:
		return c14WriteOnce(a)
	case *ssa.FreeVar:
		cl := a.Parent()
		if cl == nil || cl.Parent() == nil {
			return nil
		}
		idx := -1
		for i, fv := range cl.FreeVars {
			if fv == a {
				idx = i
			}
		}
		if idx < 0 {
			return nil
		}
		var val ssa.Value
		n := 0
		Instrs(cl.Parent(), func(_ *ssa.BasicBlock, _ int, in ssa.Instruction) {
			mc, ok := in.(*ssa.MakeClosure)
			if !ok || mc.Fn != ssa.Value(cl) {
				return
			}
			n++
			if idx >= len(mc.Bindings) {
				n = -1000
				return
			}
			cell, ok := mc.Bindings[idx].(*ssa.Alloc)
			if !ok {
				n = -1000
				return
			}
			v := c14WriteOnce(cell)
			if v == nil || (val != nil && val != v) {
				n = -1000
				return
			}
			val = v
		})
		if n < 1 {
			return nil
		}
		return val
	}
	return nil
}

// c14Canon resolves type changes and loads from write-once cells: two values
// with the same canonical form are the same value.
func c14Canon(v ssa.Value) ssa.Value {
	for i := 0; i < 8 && v != nil; i++ {
		switch x := v.(type) {
		case *ssa.ChangeType:
			v = x.X
			continue
		case *ssa.UnOp:
			if x.Op == token.MUL {
				if s := c14CellValue(x.X); s != nil {
					v = s
					continue
				}
			}
		}
		break
	}
	return v
}

// c14Simp collapses merge terms whose alternatives all render identically
// (a variable kept in memory with a single definition renders as φ{x}).
func c14Simp(t *Term) *Term {
	if t == nil {
		return nil
	}
	if len(t.Args) == 0 {
		return t
	}
	n := *t
	n.Args = make([]*Term, len(t.Args))
	for i, a := range t.Args {
		n.Args[i] = c14Simp(a)
	}
	if n.Op == "phi" {
		same := true
		for _, a := range n.Args[1:] {
			if a.String() != n.Args[0].String() {
				same = false
			}
		}
		if same {
			return n.Args[0]
		}
	}
	return &n
}

// c14T: the simplified origin term of the canonical form of v.
func c14T(tm *Termer, v ssa.Value) *Term { return c14Simp(tm.Of(c14Canon(v))) }

// c14IsParam: v is (a copy of) parameter idx of fn (0 = receiver).
func c14IsParam(fn *ssa.Function, v ssa.Value, idx int) bool {
	return idx < len(fn.Params) && c14Canon(v) == ssa.Value(fn.Params[idx])
}

// ---------------------------------------------------------------------------
// Function results

// c14PrivateCell: a local cell that is only stored to and loaded from in its
// own function (what go/ssa uses for results of functions with defers).
func c14PrivateCell(a *ssa.Alloc) bool {
	if a.Referrers() == nil {
		return false
	}
	for _, ref := range *a.Referrers() {
		switch x := ref.(type) {
		case *ssa.Store:
			if x.Addr != ssa.Value(a) || x.Val == ssa.Value(a) {
				return false
			}
		case *ssa.UnOp:
			if x.Op != token.MUL {
				return false
			}
		case *ssa.DebugRef:
		default:
			return false
		}
	}
	return true
}

// c14ReachingStore: for a load of a private cell, the value of the last store
// before it, searching backwards through the load's block and then through
// prev(block) as long as that is unambiguous. Returns v unchanged otherwise.
func c14ReachingStore(v ssa.Value, prev func(b *ssa.BasicBlock) *ssa.BasicBlock) ssa.Value {
	u, ok := v.(*ssa.UnOp)
	if !ok || u.Op != token.MUL {
		return v
	}
	a, ok := u.X.(*ssa.Alloc)
	if !ok || !c14PrivateCell(a) {
		return v
	}
	b, i := u.Block(), instrIndex(u)-1
	for steps := 0; steps < 64 && b != nil; steps++ {
		for ; i >= 0; i-- {
			if st, ok := b.Instrs[i].(*ssa.Store); ok && st.Addr == ssa.Value(a) {
				return st.Val
			}
		}
		b = prev(b)
		if b != nil {
			i = len(b.Instrs) - 1
		}
	}
	return v
}

func c14SinglePred(b *ssa.BasicBlock) *ssa.BasicBlock {
	if len(b.Preds) == 1 {
		return b.Preds[0]
	}
	return nil
}

func c14IsLoopHeader(b *ssa.BasicBlock) bool {
	for _, p := range b.Preds {
		if b.Dominates(p) {
			return true
		}
	}
	return false
}

// ---------------------------------------------------------------------------
// Branch outcomes

// c14Implied closes a set of branch outcomes under what they imply: !x, and a
// boolean merge (the value of `a && b` / `a || b`, or of an inlined predicate)
// whose outcome is compatible with exactly one incoming edge - then the
// conditions of that edge and the value it carries hold too.
func c14Implied(gs []Guard) []Guard {
	out := append([]Guard{}, gs...)
	seen := map[ssa.Value]bool{}
	for i := 0; i < len(out) && i < 200; i++ {
		g := out[i]
		if seen[g.Cond] {
			continue
		}
		seen[g.Cond] = true
		switch x := g.Cond.(type) {
		case *ssa.UnOp:
			if x.Op == token.NOT {
				out = append(out, Guard{x.X, !g.True, g.At})
			}
		case *ssa.Phi:
			if c14IsLoopHeader(x.Block()) {
				continue
			}
			cand := -1
			n := 0
			for k, e := range x.Edges {
				if IsConstBool(e, !g.True) {
					continue
				}
				n++
				cand = k
			}
			if n != 1 {
				continue
			}
			if !IsConstBool(x.Edges[cand], g.True) {
				out = append(out, Guard{x.Edges[cand], g.True, x.Block().Preds[cand]})
			}
			out = append(out, condsAt(x.Block().Preds[cand], x.Block())...)
		}
	}
	return out
}

func c14IsInt(t types.Type) bool {
	b, ok := t.Underlying().(*types.Basic)
	return ok && b.Info()&types.IsInteger != 0
}

// c14Lit turns a branch outcome into a literal over a canonical atom:
// negations are stripped, a != b is not(a == b) with ordered operands, and the
// integer comparisons > >= <= are all expressed with <.
func c14Lit(tm *Termer, cond ssa.Value, outcome bool) (string, bool) {
	for {
		if u, ok := cond.(*ssa.UnOp); ok && u.Op == token.NOT {
			cond, outcome = u.X, !outcome
			continue
		}
		break
	}
	if b, ok := cond.(*ssa.BinOp); ok {
		x, y := c14T(tm, b.X).String(), c14T(tm, b.Y).String()
		switch b.Op {
		case token.EQL, token.NEQ:
			if y < x {
				x, y = y, x
			}
			return x + "==" + y, outcome == (b.Op == token.EQL)
		case token.LSS:
			return x + "<" + y, outcome
		case token.GTR:
			return y + "<" + x, outcome
		case token.LEQ:
			if c14IsInt(b.X.Type()) {
				return y + "<" + x, !outcome
			}
		case token.GEQ:
			if c14IsInt(b.X.Type()) {
				return x + "<" + y, !outcome
			}
		}
	}
	return c14T(tm, cond).String(), outcome
}

// c14Lits: the literals established by a set of branch outcomes.
func c14Lits(tm *Termer, gs []Guard) map[string]bool {
	out := map[string]bool{}
	for _, g := range c14Implied(gs) {
		a, v := c14Lit(tm, g.Cond, g.True)
		out[a] = v
	}
	return out
}

// c14Holds: the literal (atom, val) is among lits.
func c14Holds(lits map[string]bool, atom string, val bool) bool {
	v, ok := lits[atom]
	return ok && v == val
}

// c14NonNil: v is provably a non-nil error when the outcomes gs hold: it was
// tested against nil, or it is the value of a package-level error variable.
func c14NonNil(v ssa.Value, gs []Guard) bool {
	v = c14Canon(v)
	if u, ok := v.(*ssa.UnOp); ok && u.Op == token.MUL {
		if _, isG := u.X.(*ssa.Global); isG {
			return true
		}
	}
	if _, ok := v.(*ssa.MakeInterface); ok {
		return true
	}
	for _, g := range c14Implied(gs) {
		b, ok := g.Cond.(*ssa.BinOp)
		if !ok || (b.Op != token.EQL && b.Op != token.NEQ) {
			continue
		}
		var other ssa.Value
		if c14Canon(b.X) == v {
			other = b.Y
		} else if c14Canon(b.Y) == v {
			other = b.X
		} else {
			continue
		}
		if c, isC := other.(*ssa.Const); isC && c.Value == nil && (b.Op == token.NEQ) == g.True {
			return true
		}
	}
	return false
}

// ---------------------------------------------------------------------------
// Linear forms over terms

// c14Lin renders an integer term as a linear expression; anything that is not
// a sum, difference or constant becomes an atom.
func c14Lin(t *Term) Lin {
	switch {
	case t.Op == "bin" && (t.Name == "+" || t.Name == "-"):
		sign := int64(1)
		if t.Name == "-" {
			sign = -1
		}
		return c14Lin(t.Args[0]).Add(c14Lin(t.Args[1]), sign)
	case t.Op == "const":
		if n, err := strconv.ParseInt(t.Name, 10, 64); err == nil {
			return linConst(n)
		}
	case t.Op == "conv" && len(t.Args) == 1:
		return c14Lin(t.Args[0])
	}
	return linAtom(t.String())
}

// ---------------------------------------------------------------------------
// Whole-function paths under assumptions

// c14Path is one entry-to-return path of a function.
type c14Path struct {
	Blocks  []*ssa.BasicBlock
	Conds   []Guard
	CondPos []int // index into Blocks of the block that decided Conds[i]
	Ret     *ssa.Return
}

// OnPath: the instruction's block is on the path.
func (p *c14Path) OnPath(in ssa.Instruction) bool {
	for _, b := range p.Blocks {
		if b == in.Block() {
			return true
		}
	}
	return false
}

// ResolveAt: the value v has when the path is at Blocks[pos] (phis replaced by
// the operand of the edge the path took, private result cells by their last
// store), and the position at which that value was selected.
func (p *c14Path) ResolveAt(v ssa.Value, pos int) (ssa.Value, int) {
	if u, ok := v.(*ssa.UnOp); ok && u.Op == token.MUL {
		if a, isA := u.X.(*ssa.Alloc); isA && c14PrivateCell(a) {
			// walk the path backwards from the load
			for k := pos; k >= 0; k-- {
				b := p.Blocks[k]
				i := len(b.Instrs) - 1
				if k == pos && b == u.Block() {
					i = instrIndex(u) - 1
				}
				found := false
				for ; i >= 0; i-- {
					if st, ok := b.Instrs[i].(*ssa.Store); ok && st.Addr == ssa.Value(a) {
						v, pos, found = st.Val, k, true
						break
					}
				}
				if found {
					break
				}
			}
		}
	}
	for steps := 0; steps < 64; steps++ {
		ph, ok := v.(*ssa.Phi)
		if !ok {
			break
		}
		idx := -1
		for k := pos; k >= 1; k-- {
			if p.Blocks[k] == ph.Block() {
				idx = k
				break
			}
		}
		if idx < 1 {
			break
		}
		moved := false
		for i, pr := range ph.Block().Preds {
			if pr == p.Blocks[idx-1] {
				v, pos, moved = ph.Edges[i], idx-1, true
				break
			}
		}
		if !moved {
			break
		}
	}
	return c14Canon(v), pos
}

// Resolve: the value v has at the end of the path.
func (p *c14Path) Resolve(v ssa.Value) ssa.Value {
	r, _ := p.ResolveAt(v, len(p.Blocks)-1)
	return r
}

// sameInstance: the value v seen at path positions i and j is the result of
// the same execution of its defining instruction (the block that defines it
// is not entered in between).
func (p *c14Path) sameInstance(v ssa.Value, i, j int) bool {
	in, ok := v.(ssa.Instruction)
	if !ok || in.Block() == nil {
		return true // parameters, constants, globals
	}
	if i > j {
		i, j = j, i
	}
	for k := i + 1; k <= j && k < len(p.Blocks); k++ {
		if p.Blocks[k] == in.Block() {
			return false
		}
	}
	return true
}

// EachCond reports the branch outcomes of the path with negations stripped
// and boolean merges (`a && b` as a value, results of inlined predicates)
// replaced by the operand the path selected.
func (p *c14Path) EachCond(f func(cond ssa.Value, outcome bool, pos int)) {
	for i, g := range p.Conds {
		c, out, pos := g.Cond, g.True, p.CondPos[i]
		for steps := 0; steps < 16; steps++ {
			if u, ok := c.(*ssa.UnOp); ok && u.Op == token.NOT {
				c, out = u.X, !out
				continue
			}
			if _, ok := c.(*ssa.Phi); ok {
				r, rp := p.ResolveAt(c, pos)
				if r != c {
					c, pos = r, rp
					continue
				}
			}
			break
		}
		if _, isC := c.(*ssa.Const); isC {
			continue
		}
		f(c, out, pos)
	}
}

// Lits: the literals over canonical atoms established along the path (a later
// outcome of the same atom replaces an earlier one; atoms over parameters and
// never-written fields cannot change).
func (p *c14Path) Lits(tm *Termer) map[string]bool {
	out := map[string]bool{}
	p.EachCond(func(c ssa.Value, o bool, _ int) {
		a, v := c14Lit(tm, c, o)
		out[a] = v
	})
	return out
}

// NilAt: the path established that the value v, as selected at position pos,
// is nil (want=true) resp. non-nil (want=false).
func (p *c14Path) NilAt(v ssa.Value, pos int, want bool) bool {
	v = c14Canon(v)
	if !want {
		if u, ok := v.(*ssa.UnOp); ok && u.Op == token.MUL {
			if _, isG := u.X.(*ssa.Global); isG {
				return true // a package-level error value
			}
		}
		if _, ok := v.(*ssa.MakeInterface); ok {
			return true
		}
	}
	found := false
	p.EachCond(func(c ssa.Value, o bool, cpos int) {
		b, ok := c.(*ssa.BinOp)
		if !ok || (b.Op != token.EQL && b.Op != token.NEQ) {
			return
		}
		var other ssa.Value
		if c14Canon(b.X) == v {
			other = b.Y
		} else if c14Canon(b.Y) == v {
			other = b.X
		} else {
			return
		}
		k, isC := other.(*ssa.Const)
		if !isC || k.Value != nil {
			return
		}
		isNil := (b.Op == token.EQL) == o
		if isNil == want && p.sameInstance(v, cpos, pos) {
			found = true
		}
	})
	return found
}

// c14RetCase groups the paths of a function that end in the same Return with
// the same resolved result values.
type c14RetCase struct {
	Ret   *ssa.Return
	Vals  []ssa.Value
	Paths []*c14Path
	Pos   [][]int // per path, per result: the position at which the value was selected
}

// c14ReturnCases enumerates what fn returns, path by path: value and error
// that are returned together stay together, whatever the layout (merged
// returns, result variables, flags, deferred calls).
func c14ReturnCases(fn *ssa.Function, limit int) ([]*c14RetCase, bool) {
	paths, complete := c14EnumPaths(fn, nil, limit)
	var out []*c14RetCase
	for _, pa := range paths {
		vals := make([]ssa.Value, len(pa.Ret.Results))
		pos := make([]int, len(pa.Ret.Results))
		for i, v := range pa.Ret.Results {
			vals[i], pos[i] = pa.ResolveAt(v, len(pa.Blocks)-1)
		}
		var rc *c14RetCase
		for _, c := range out {
			if c.Ret != pa.Ret || len(c.Vals) != len(vals) {
				continue
			}
			same := true
			for i := range vals {
				if c.Vals[i] != vals[i] {
					// equal constants are distinct SSA values
					a, okA := c.Vals[i].(*ssa.Const)
					b, okB := vals[i].(*ssa.Const)
					if !(okA && okB && types.Identical(a.Type(), b.Type()) && ((a.Value == nil && b.Value == nil) || (a.Value != nil && b.Value != nil && constant.Compare(a.Value, token.EQL, b.Value)))) {
						same = false
					}
				}
			}
			if same {
				rc = c
				break
			}
		}
		if rc == nil {
			rc = &c14RetCase{Ret: pa.Ret, Vals: vals}
			out = append(out, rc)
		}
		rc.Paths = append(rc.Paths, pa)
		rc.Pos = append(rc.Pos, pos)
	}
	return out, complete
}

// ErrNil: on every path of the case the error result (index i) is nil.
func (c *c14RetCase) ErrNil(i int) bool {
	if k, ok := c.Vals[i].(*ssa.Const); ok {
		return k.Value == nil
	}
	for j, pa := range c.Paths {
		if !pa.NilAt(c.Vals[i], c.Pos[j][i], true) {
			return false
		}
	}
	return true
}

// c14EnumPaths enumerates the entry-to-return paths of fn; every block is
// entered at most twice. decide may fix the outcome of a branch condition
// (assumptions); otherwise infeasible sides are pruned by the constant
// tracking of the path search engine. Never prunes a side it cannot decide.
func c14EnumPaths(fn *ssa.Function, decide func(cond ssa.Value) (bool, bool), limit int) ([]*c14Path, bool) {
	var out []*c14Path
	complete := true
	var walk func(b, from *ssa.BasicBlock, env pathEnv, blocks []*ssa.BasicBlock, conds []Guard, cpos []int, onPath map[*ssa.BasicBlock]int)
	walk = func(b, from *ssa.BasicBlock, env pathEnv, blocks []*ssa.BasicBlock, conds []Guard, cpos []int, onPath map[*ssa.BasicBlock]int) {
		if len(out) >= limit {
			complete = false
			return
		}
		if from != nil {
			newVals := map[ssa.Value]envVal{}
			for _, in := range b.Instrs {
				phi, ok := in.(*ssa.Phi)
				if !ok {
					break
				}
				for i, pr := range b.Preds {
					if pr == from {
						nv := env.eval(phi.Edges[i])
						if !nv.known && decide != nil {
							// a boolean merge (`a || b` as a value, the result of an inlined predicate) whose
							// operand on this edge is fixed by an assumption
							if bt, isB := phi.Type().Underlying().(*types.Basic); isB && bt.Kind() == types.Bool {
								if val, ok := decide(phi.Edges[i]); ok {
									nv = envVal{known: true, c: constant.MakeBool(val)}
								}
							}
						}
						newVals[phi] = nv
						break
					}
				}
			}
			for _, in := range b.Instrs {
				if v, ok := in.(ssa.Value); ok {
					delete(env, v)
				}
			}
			for k, v := range newVals {
				if v.known {
					env[k] = v
				}
			}
		}
		blocks = append(append([]*ssa.BasicBlock{}, blocks...), b)
		onPath[b]++
		defer func() { onPath[b]-- }()
		last := b.Instrs[len(b.Instrs)-1]
		if ret, ok := last.(*ssa.Return); ok {
			out = append(out, &c14Path{Blocks: blocks, Conds: conds, CondPos: cpos, Ret: ret})
			return
		}
		type nxt struct {
			s       *ssa.BasicBlock
			hasCond bool
			outcome bool
		}
		var nexts []nxt
		if iff, ok := last.(*ssa.If); ok && b.Succs[0] != b.Succs[1] {
			val, known := false, false
			if decide != nil {
				val, known = decide(iff.Cond)
			}
			if !known {
				if dec := env.eval(iff.Cond); dec.known && dec.c != nil && dec.c.Kind() == constant.Bool {
					val, known = constant.BoolVal(dec.c), true
				}
			}
			if known {
				if val {
					nexts = []nxt{{b.Succs[0], true, true}}
				} else {
					nexts = []nxt{{b.Succs[1], true, false}}
				}
			} else {
				nexts = []nxt{{b.Succs[0], true, true}, {b.Succs[1], true, false}}
			}
		} else {
			for _, s := range b.Succs {
				nexts = append(nexts, nxt{s, false, false})
			}
		}
		for _, n := range nexts {
			c2, p2 := conds, cpos
			e2 := env.clone()
			if n.hasCond {
				iff := last.(*ssa.If)
				c2 = append(append([]Guard{}, conds...), Guard{iff.Cond, n.outcome, b})
				p2 = append(append([]int{}, cpos...), len(blocks)-1)
				e2.assume(iff.Cond, n.outcome)
			}
			if onPath[n.s] >= 2 {
				continue
			}
			walk(n.s, b, e2, blocks, c2, p2, onPath)
		}
	}
	walk(fn.Blocks[0], nil, pathEnv{}, nil, nil, nil, map[*ssa.BasicBlock]int{})
	return out, complete
}

// c14TrueCases derives, from the body of a loop-free boolean predicate, the
// cases in which it returns true: each case is a consistent set of literals
// over the predicate's own terms (receiver = recv). fields lists the struct
// fields the literals read. nil when the body is not understood.
func c14TrueCases(fn *ssa.Function) (cases []map[string]bool, fields []*types.Var) {
	return c14CasesOf(fn, true)
}

// c14CasesOf: the cases in which the loop-free boolean predicate fn returns `want` (see c14TrueCases).
func c14CasesOf(fn *ssa.Function, want bool) (cases []map[string]bool, fields []*types.Var) {
	if fn == nil || fn.Blocks == nil || len(Loops(fn)) > 0 {
		return nil, nil
	}
	sig := fn.Signature
	if sig.Results().Len() != 1 || !types.Identical(sig.Results().At(0).Type().Underlying(), types.Typ[types.Bool]) {
		return nil, nil
	}
	// the predicate must not do anything but read
	pure := true
	Instrs(fn, func(_ *ssa.BasicBlock, _ int, in ssa.Instruction) {
		switch x := in.(type) {
		case *ssa.Store, *ssa.MapUpdate, *ssa.Send, *ssa.Go, *ssa.Defer, *ssa.Panic:
			pure = false
		case ssa.CallInstruction:
			if _, isB := x.Common().Value.(*ssa.Builtin); !isB {
				pure = false
			}
		}
	})
	if !pure {
		return nil, nil
	}
	tm := NewTermer(fn)
	paths, complete := c14EnumPaths(fn, nil, 64)
	if !complete {
		return nil, nil
	}
	seenF := map[*types.Var]bool{}
	note := func(t *Term) {
		t.Walk(func(x *Term) bool {
			if x.Op == "field" {
				if f, ok := x.Obj.(*types.Var); ok && !seenF[f] {
					seenF[f] = true
					fields = append(fields, f)
				}
			}
			return true
		})
	}
	for _, p := range paths {
		lits := map[string]bool{}
		consistent := true
		add := func(cond ssa.Value, outcome bool) {
			a, v := c14Lit(tm, cond, outcome)
			if old, ok := lits[a]; ok && old != v {
				consistent = false
			}
			lits[a] = v
			if x, cst, isEq := c14EqConst(tm, cond); isEq && v {
				lits[c14EqKey(x)+cst] = true // x is known to equal this constant
			}
			note(c14T(tm, cond))
		}
		for _, g := range p.Conds {
			add(g.Cond, g.True)
		}
		rv := p.Resolve(p.Ret.Results[0])
		switch {
		case IsConstBool(rv, want):
		case IsConstBool(rv, !want):
			continue
		default:
			if _, isC := rv.(*ssa.Const); isC {
				return nil, nil
			}
			add(rv, want)
		}
		if consistent {
			cases = append(cases, lits)
		}
	}
	if len(cases) == 0 {
		return nil, nil
	}
	return cases, fields
}

// c14EqKey: key prefix under which a case records "x equals the constant <suffix>".
func c14EqKey(x string) string { return "#eq:" + x + "\x00" }

// c14OtherConst: the case knows that x equals a constant different from cst.
func c14OtherConst(cs map[string]bool, x, cst string) bool {
	pre := c14EqKey(x)
	for k, v := range cs {
		if v && len(k) > len(pre) && k[:len(pre)] == pre && k[len(pre):] != cst {
			return true
		}
	}
	return false
}

// c14EqConst: atom is "<x>==<const>" - returns x and the constant.
func c14EqConst(tm *Termer, cond ssa.Value) (string, string, bool) {
	for {
		if u, ok := cond.(*ssa.UnOp); ok && u.Op == token.NOT {
			cond = u.X
			continue
		}
		break
	}
	b, ok := cond.(*ssa.BinOp)
	if !ok || (b.Op != token.EQL && b.Op != token.NEQ) {
		return "", "", false
	}
	if c, isC := b.Y.(*ssa.Const); isC && c.Value != nil {
		return c14T(tm, b.X).String(), c.Value.ExactString(), true
	}
	if c, isC := b.X.(*ssa.Const); isC && c.Value != nil {
		return c14T(tm, b.Y).String(), c.Value.ExactString(), true
	}
	return "", "", false
}

// ---------------------------------------------------------------------------
// Deferred releases

// c14ReleasingDefers: the RunDefers instructions of fn at which a deferred
// call that was certainly registered stores `false` into field fld of the
// object `base` on each of its paths. The deferred function may receive the
// object as an argument or capture it in a write-once cell.
func c14ReleasingDefers(p *Prog, fn *ssa.Function, fld *types.Var, base ssa.Value, explored *int) map[ssa.Instruction]bool {
	out := map[ssa.Instruction]bool{}
	base = c14Canon(base)
	var dfs []*ssa.Defer
	Instrs(fn, func(_ *ssa.BasicBlock, _ int, in ssa.Instruction) {
		df, ok := in.(*ssa.Defer)
		if !ok {
			return
		}
		callee := df.Call.StaticCallee()
		if callee == nil || callee.Blocks == nil || df.Call.IsInvoke() {
			return
		}
		// what does a value of the callee denote at this defer site?
		same := func(v ssa.Value) bool {
			v = c14Canon(v)
			if v == base {
				return true // resolved through a captured write-once cell
			}
			if prm, ok := v.(*ssa.Parameter); ok {
				for i, q := range callee.Params {
					if q == prm && i < len(df.Call.Args) {
						return c14Canon(df.Call.Args[i]) == base
					}
				}
			}
			return false
		}
		release := func(in ssa.Instruction) bool {
			st, ok := in.(*ssa.Store)
			if !ok {
				return false
			}
			fa, ok := st.Addr.(*ssa.FieldAddr)
			return ok && fieldOf(fa.X.Type(), fa.Field) == fld && IsConstBool(st.Val, false) && same(fa.X)
		}
		if FindPath(p, PathQuery{Fn: callee, Target: IsReturn, Avoid: release, Explored: explored}) == nil {
			dfs = append(dfs, df)
		}
	})
	// a deferred call that could set the field again after the release (deferred calls run in reverse order of
	// registration) voids the argument: then no deferred release is recognised
	conflict := false
	Instrs(fn, func(_ *ssa.BasicBlock, _ int, in ssa.Instruction) {
		df, ok := in.(*ssa.Defer)
		if !ok {
			return
		}
		callee := df.Call.StaticCallee()
		if callee == nil || callee.Blocks == nil {
			conflict = true
			return
		}
		for _, st := range FieldStores(callee, fld) {
			if !IsConstBool(st.Val, false) {
				conflict = true
			}
		}
	})
	if len(dfs) == 0 || conflict {
		return out
	}
	Instrs(fn, func(_ *ssa.BasicBlock, _ int, in ssa.Instruction) {
		rd, ok := in.(*ssa.RunDefers)
		if !ok {
			return
		}
		for _, df := range dfs {
			if (df.Block() == rd.Block() && instrIndex(df) < instrIndex(rd)) || (df.Block() != rd.Block() && df.Block().Dominates(rd.Block())) {
				out[rd] = true
			}
		}
	})
	return out
}

// c14MarkPairing: for every store `base.fld = true` in fn, a witness path to a
// return selected by isTarget that passes neither a store `base.fld = false`
// on the same object nor the run of a deferred release; nil witness = paired.
type c14Mark struct {
	Store   *ssa.Store
	Witness []string
}

func c14MarkPairing(p *Prog, fn *ssa.Function, fld *types.Var, isTarget func(ssa.Instruction) bool, explored *int) []c14Mark {
	var out []c14Mark
	for _, st := range FieldStores(fn, fld) {
		if !IsConstBool(st.Val, true) {
			continue
		}
		base := c14Canon(st.Addr.(*ssa.FieldAddr).X)
		deferred := c14ReleasingDefers(p, fn, fld, base, explored)
		release := func(in ssa.Instruction) bool {
			if deferred[in] {
				return true
			}
			s2, ok := in.(*ssa.Store)
			if !ok {
				return false
			}
			fa, ok := s2.Addr.(*ssa.FieldAddr)
			return ok && fieldOf(fa.X.Type(), fa.Field) == fld && c14Canon(fa.X) == base && IsConstBool(s2.Val, false)
		}
		out = append(out, c14Mark{st, FindPath(p, PathQuery{Fn: fn, StartAfter: st, Target: isTarget, Avoid: release, Explored: explored})})
	}
	return out
}

// c14SortedAtoms renders a literal set.
func c14SortedAtoms(l map[string]bool) string {
	var ks []string
	for k, v := range l {
		if len(k) > 0 && k[0] == '#' {
			continue
		}
		if v {
			ks = append(ks, k)
		} else {
			ks = append(ks, "!("+k+")")
		}
	}
	sort.Strings(ks)
	s := ""
	for i, k := range ks {
		if i > 0 {
			s += " && "
		}
		s += k
	}
	return s
}

// ---------------------------------------------------------------------------
// The family of depth functions

// c14FlatSig: the parameter types of fn with the receiver in front, and its
// result types.
func c14FlatSig(fn *ssa.Function) (params, results []types.Type) {
	for _, q := range fn.Params {
		params = append(params, q.Type())
	}
	res := fn.Signature.Results()
	for i := 0; i < res.Len(); i++ {
		results = append(results, res.At(i).Type())
	}
	return
}

// c14DepthFamily: NNode.Depth together with every function that is NEW with
// respect to the pinned tree, is statically called from a member of the family
// and takes (node, d, cap) and returns (depth, error) exactly as Depth does. A
// refactoring that moves the search into such a worker (and recurses through
// it) leaves a family of more than one member. The rules then establish every
// obligation on EVERY member, reading a call of any member as a depth query:
// when each member is a correct depth query provided the queries it makes are,
// all of them are (induction over the marks, as for the single function).
func c14DepthFamily(depth *ssa.Function) []*ssa.Function {
	pinned := PinnedFuncs()
	wantP, wantR := c14FlatSig(depth)
	same := func(a, b []types.Type) bool {
		if len(a) != len(b) {
			return false
		}
		for i := range a {
			if !types.Identical(a[i], b[i]) {
				return false
			}
		}
		return true
	}
	fam := []*ssa.Function{depth}
	in := map[*ssa.Function]bool{depth: true}
	for i := 0; i < len(fam); i++ {
		Instrs(fam[i], func(_ *ssa.BasicBlock, _ int, ins ssa.Instruction) {
			c, ok := ins.(*ssa.Call) // a depth query is an ordinary call: not deferred, not a goroutine
			if !ok || c.Call.IsInvoke() {
				return
			}
			g := c.Call.StaticCallee()
			if g == nil || in[g] || g.Blocks == nil || g.Parent() != nil || len(g.FreeVars) > 0 {
				return
			}
			obj, ok := g.Object().(*types.Func)
			if !ok || pinned[obj.FullName()] {
				return
			}
			gp, gr := c14FlatSig(g)
			if !same(gp, wantP) || !same(gr, wantR) {
				return
			}
			in[g] = true
			fam = append(fam, g)
		})
	}
	return fam
}

// c14Forwards: fn does nothing but hand its own (node, d, cap), in this order,
// to g and return g's two results, in this order - fn IS g.
func c14Forwards(fn *ssa.Function) *ssa.Function {
	if len(fn.Blocks) != 1 || fn.Recover != nil {
		return nil
	}
	var call *ssa.Call
	ex := map[int]ssa.Value{}
	for _, in := range fn.Blocks[0].Instrs {
		switch x := in.(type) {
		case *ssa.DebugRef:
		case *ssa.Call:
			if call != nil || x.Call.IsInvoke() || x.Call.StaticCallee() == nil || len(x.Call.Args) != len(fn.Params) {
				return nil
			}
			for i, a := range x.Call.Args {
				if a != ssa.Value(fn.Params[i]) {
					return nil
				}
			}
			call = x
		case *ssa.Extract:
			if call == nil || x.Tuple != ssa.Value(call) {
				return nil
			}
			ex[x.Index] = x
		case *ssa.Return:
			if call == nil || len(x.Results) != 2 || x.Results[0] != ex[0] || x.Results[1] != ex[1] || ex[0] == nil || ex[1] == nil {
				return nil
			}
			return call.Call.StaticCallee()
		default:
			return nil
		}
	}
	return nil
}

// c14RenameWord replaces the identifier `from` by `to` in a rendered term.
func c14RenameWord(s, from, to string) string {
	if from == to || from == "" {
		return s
	}
	isId := func(c byte) bool {
		return c == '_' || (c >= '0' && c <= '9') || (c >= 'a' && c <= 'z') || (c >= 'A' && c <= 'Z')
	}
	out := make([]byte, 0, len(s))
	for i := 0; i < len(s); {
		if i+len(from) <= len(s) && s[i:i+len(from)] == from && (i == 0 || !isId(s[i-1])) && (i+len(from) == len(s) || !isId(s[i+len(from)])) {
			out = append(out, to...)
			i += len(from)
			continue
		}
		out = append(out, s[i])
		i++
	}
	return string(out)
}

// ---------------------------------------------------------------------------
// Modular dispatch (fourth round)

// c14AtLeastOne: the branch outcome (cond, outcome) states that the slice held
// in field fld of the object rendered as base has at least one element:
// len(base.fld) > k (k >= 0), >= k (k >= 1), != 0 or == k (k >= 1), in any
// spelling (CmpFact removes negations, else-branches and mirrored operands). A
// test of nil-ness, of another field or of another object is not such a fact:
// an empty but non-nil slice is not nil and still has no element.
func c14AtLeastOne(tm *Termer, cond ssa.Value, outcome bool, base string, fld *types.Var) bool {
	x, y, op, ok := CmpFact(cond, outcome)
	if !ok {
		return false
	}
	isLen := func(v ssa.Value) bool {
		t := c14T(tm, v)
		return t != nil && t.Op == "len" && len(t.Args) == 1 && t.Args[0].Op == "field" && t.Args[0].Obj == types.Object(fld) &&
			len(t.Args[0].Args) == 1 && t.Args[0].Args[0].String() == base
	}
	intOf := func(v ssa.Value) (int64, bool) {
		k, isC := c14Canon(v).(*ssa.Const)
		if !isC || k.Value == nil || k.Value.Kind() != constant.Int {
			return 0, false
		}
		return constant.Int64Val(k.Value)
	}
	if !isLen(x) {
		return false
	}
	n, isK := intOf(y)
	if !isK {
		return false
	}
	switch op {
	case token.GTR:
		return n >= 0
	case token.GEQ, token.EQL:
		return n >= 1
	case token.NEQ:
		return n == 0 // a length is never negative
	}
	return false
}

// c14GuardedByElems: the outcomes that dominate block b (closed under boolean
// merges: flags, `a && b` values, results of predicates expanded in place)
// include the fact that base.fld has at least one element.
func c14GuardedByElems(tm *Termer, b *ssa.BasicBlock, base string, fld *types.Var) bool {
	for _, g := range c14Implied(Guards(b)) {
		if c14AtLeastOne(tm, g.Cond, g.True, base, fld) {
			return true
		}
	}
	return false
}

// HasElems: the path established that base.fld has at least one element.
func (p *c14Path) HasElems(tm *Termer, base string, fld *types.Var) bool {
	found := false
	p.EachCond(func(c ssa.Value, o bool, _ int) {
		if c14AtLeastOne(tm, c, o, base, fld) {
			found = true
		}
	})
	return found
}

// Describe renders the blocks of the path (witness of a failing obligation).
func (p *c14Path) Describe(pr *Prog) []string {
	var out []string
	for _, b := range p.Blocks {
		out = append(out, describeBlock(pr, b, nil))
	}
	return out
}

// ---------------------------------------------------------------------------
// Relay slices: collect in one loop, fold in a later one

// c14Relay describes a local slice S that carries one value per iteration from
// a writing loop to a later reading loop:
//
//	S := make([]T, n); for i in 0..n-1 { ...; S[i] = src }; for j in 0..len(S)-1 { use(S[j]) }
//
// When Why is empty the following facts were established, each from value
// identity, dominance and path enumeration (no source layout is matched):
//
//	(local)  S is the result of a make whose only uses are element addresses and len(S); an element address
//	         is only stored through or only loaded from; there is exactly one store instruction, and it stores Src.
//	(slot)   that store lies in a loop Lw that visits the indices 0,1,2,... below a bound that is the length S was
//	         made with, its index is the index of the current iteration (so no two iterations share a slot), Src is
//	         computed in the same iteration (same innermost loop, Src's block dominates the store's), and every
//	         iteration that goes back to the header of Lw passes the store.
//	(after)  every load of an element lies outside Lw, behind its header, and the store cannot be reached from it:
//	         the reads see what the iterations of Lw left behind and nothing written later.
//	(all)    the loads lie in one loop Lr that visits the indices 0,1,2,... below len(S), each load reads the element
//	         of the current iteration, every iteration passes a load, and Lr is left only through its header's own
//	         exit - every element is read.
//
// Hence the multiset of values the loads of Lr yield is: Src of iteration k of Lw for every k that Lw completed,
// and the zero value for the slots Lw did not reach. Whether Lw itself may stop early is the caller's obligation
// (for C14: `.outputs.all` on Lw).
type c14Relay struct {
	Slice *ssa.MakeSlice
	Store *ssa.Store
	Src   ssa.Value
	Loads []*ssa.UnOp
	Lw    *Loop
	Lr    *Loop
	Why   string
}

// c14RelaySliceOf: v is a load `*(&S[i])` of an element of a made slice; returns the make.
func c14RelaySliceOf(v ssa.Value) *ssa.MakeSlice {
	u, ok := v.(*ssa.UnOp)
	if !ok || u.Op != token.MUL {
		return nil
	}
	ia, ok := u.X.(*ssa.IndexAddr)
	if !ok {
		return nil
	}
	ms, _ := ia.X.(*ssa.MakeSlice)
	return ms
}

// c14RelayStoredIn: the made slice an element of which receives v by a store, if any.
func c14RelayStoredIn(v ssa.Value) *ssa.MakeSlice {
	if v.Referrers() == nil {
		return nil
	}
	for _, ref := range *v.Referrers() {
		st, ok := ref.(*ssa.Store)
		if !ok || st.Val != v {
			continue
		}
		if ia, isIA := st.Addr.(*ssa.IndexAddr); isIA {
			if ms, isMS := ia.X.(*ssa.MakeSlice); isMS {
				return ms
			}
		}
	}
	return nil
}

// c14BlockReaches: to can be reached from from over at least one edge.
func c14BlockReaches(from, to *ssa.BasicBlock) bool {
	seen := map[*ssa.BasicBlock]bool{}
	stack := append([]*ssa.BasicBlock{}, from.Succs...)
	for len(stack) > 0 {
		b := stack[len(stack)-1]
		stack = stack[:len(stack)-1]
		if seen[b] {
			continue
		}
		seen[b] = true
		if b == to {
			return true
		}
		stack = append(stack, b.Succs...)
	}
	return false
}

// c14IsLenOf: v is len(s).
func c14IsLenOf(v, s ssa.Value) bool {
	c, ok := v.(*ssa.Call)
	if !ok || len(c.Call.Args) != 1 || c.Call.Args[0] != s {
		return false
	}
	b, ok := c.Call.Value.(*ssa.Builtin)
	return ok && b.Name() == "len"
}

// c14AnalyseRelay establishes the facts listed at c14Relay for the made slice ms of fn.
func c14AnalyseRelay(fn *ssa.Function, ms *ssa.MakeSlice, explored *int) *c14Relay {
	rl := &c14Relay{Slice: ms}
	fail := func(why string) *c14Relay {
		if rl.Why == "" {
			rl.Why = why
		}
		return rl
	}
	tm := NewTermer(fn)
	loops := Loops(fn)
	// (local)
	var loadIdx []ssa.Value
	for _, ref := range *ms.Referrers() {
		switch x := ref.(type) {
		case *ssa.DebugRef:
		case *ssa.Call:
			if !c14IsLenOf(x, ms) {
				return fail("the slice is handed to a call")
			}
		case *ssa.IndexAddr:
			if x.X != ssa.Value(ms) {
				return fail("the slice is used as an index")
			}
			nSt, nLd := 0, 0
			for _, r2 := range *x.Referrers() {
				switch y := r2.(type) {
				case *ssa.DebugRef:
				case *ssa.Store:
					if y.Addr != ssa.Value(x) || y.Val == ssa.Value(x) {
						return fail("the address of an element is stored")
					}
					nSt++
					if rl.Store != nil && rl.Store != y {
						return fail("the slice is written by more than one store")
					}
					rl.Store, rl.Src = y, y.Val
				case *ssa.UnOp:
					if y.Op != token.MUL {
						return fail("the address of an element is used otherwise than for a load or store")
					}
					nLd++
					rl.Loads = append(rl.Loads, y)
					loadIdx = append(loadIdx, x.Index)
				default:
					return fail("the address of an element escapes")
				}
			}
			if nSt > 0 && nLd > 0 {
				return fail("an element address is both read and written")
			}
		default:
			return fail("the slice is used otherwise than by indexing and len (it may be aliased or resliced)")
		}
	}
	if rl.Store == nil || len(rl.Loads) == 0 {
		return fail("the slice is not both written and read")
	}
	// (slot)
	sb := rl.Store.Block()
	rl.Lw = InnermostLoop(loops, sb)
	if rl.Lw == nil {
		return fail("the store into the slice is not in a loop")
	}
	idx, bound, ok := scanFromZero(rl.Lw)
	if !ok {
		return fail("the loop that fills the slice does not visit the indices 0,1,2,... in order")
	}
	if rl.Store.Addr.(*ssa.IndexAddr).Index != idx {
		return fail("the slot that is written is not the one of the current iteration")
	}
	if tm.Of(bound).String() != tm.Of(ms.Len).String() {
		return fail("the slice is made with length " + tm.Of(ms.Len).String() + " but filled for indices below " + tm.Of(bound).String())
	}
	srcIn, isIn := rl.Src.(ssa.Instruction)
	if !isIn || srcIn.Block() == nil || InnermostLoop(loops, srcIn.Block()) != rl.Lw || !srcIn.Block().Dominates(sb) {
		return fail("the stored value is not computed in the iteration that stores it")
	}
	if _, isPhi := rl.Src.(*ssa.Phi); isPhi && srcIn.Block() == rl.Lw.Header {
		return fail("the stored value is carried over from an earlier iteration")
	}
	wpaths, complete := EnumIterPaths(fn, rl.Lw, 500)
	if !complete {
		return fail("too many paths through the loop that fills the slice")
	}
	*explored += len(wpaths)
	for _, ip := range wpaths {
		if ip.End == "back" && !ip.OnPath(rl.Store) {
			return fail("an iteration of the filling loop can go on to the next element without storing its value")
		}
	}
	// (after), (all)
	for i, ld := range rl.Loads {
		lb := ld.Block()
		if rl.Lw.Blocks[lb] || !rl.Lw.Header.Dominates(lb) || lb == sb || c14BlockReaches(lb, sb) {
			return fail("an element is read before the filling loop is over")
		}
		lr := InnermostLoop(loops, lb)
		if lr == nil {
			return fail("an element is read outside a loop over the slice")
		}
		if rl.Lr != nil && rl.Lr != lr {
			return fail("the slice is read by more than one loop")
		}
		rl.Lr = lr
		jdx, jbound, okr := scanFromZero(lr)
		if !okr || loadIdx[i] != jdx {
			return fail("the reading loop does not read the element of the current iteration of a scan 0,1,2,...")
		}
		if !c14IsLenOf(jbound, ms) && tm.Of(jbound).String() != tm.Of(ms.Len).String() {
			return fail("the reading loop runs below " + tm.Of(jbound).String() + ", not below the length of the slice")
		}
	}
	rpaths, complete := EnumIterPaths(fn, rl.Lr, 500)
	if !complete {
		return fail("too many paths through the loop that reads the slice")
	}
	*explored += len(rpaths)
	for _, ip := range rpaths {
		if ip.End == "back" {
			read := false
			for _, ld := range rl.Loads {
				read = read || ip.OnPath(ld)
			}
			if !read {
				return fail("an iteration of the reading loop does not read its element")
			}
			continue
		}
		if len(ip.Blocks) == 2 && ip.Blocks[0] == rl.Lr.Header {
			continue // the header's own exit: all elements were read
		}
		return fail("the reading loop can be left before all elements were read")
	}
	return rl
}

// ---------------------------------------------------------------------------
// The fold read off the iteration paths

// c14FoldOnPaths decides "v is folded into a running maximum" from the paths of one iteration of the loop that
// computes v, for the shapes foldsAsMax (one compare, one branch, one merge) does not read: a test that is one
// operand of a larger condition (`if err != nil || v > max { max = v }`), an inverted test with the update on the
// other side, an update merged through several blocks. acc is a value the loop carries (a phi of its header), and on
// EVERY iteration path that comes back to the header
//   - without computing v, acc is carried over unchanged;
//   - having computed v, the value carried on is v and the branch outcomes of the path say v > acc (v >= acc, v ==
//     acc), or it is acc and the outcomes say v <= acc (v < acc, v == acc):
//
// i.e. the value carried on is max(acc, v) in every case, and at least one path takes v. Paths that leave the loop
// (an error ends the query) are the business of the propagation rules. op is GTR when every path that takes v has
// seen v > acc, else GEQ.
func c14FoldOnPaths(fn *ssa.Function, v ssa.Value, explored *int) (op token.Token, acc *ssa.Phi, ok bool) {
	vin, isIn := v.(ssa.Instruction)
	if !isIn || vin.Block() == nil || !c14IsInt(v.Type()) {
		return 0, nil, false
	}
	l := scanLoopOf(Loops(fn), vin.Block())
	if l == nil || !l.Blocks[vin.Block()] {
		return 0, nil, false
	}
	paths, complete := EnumIterPaths(fn, l, 500)
	if !complete {
		return 0, nil, false
	}
	if explored != nil {
		*explored += len(paths)
	}
	flip := map[token.Token]token.Token{token.EQL: token.EQL, token.NEQ: token.NEQ, token.LSS: token.GTR, token.GTR: token.LSS, token.LEQ: token.GEQ, token.GEQ: token.LEQ}
	for _, ph := range HeaderPhis(l) {
		if !types.Identical(ph.Type(), v.Type()) {
			continue
		}
		good, takes, strict := true, 0, true
		for _, ip := range paths {
			if ip.End != "back" {
				continue
			}
			seen := map[*ssa.BasicBlock]bool{}
			for _, b := range ip.Blocks[:len(ip.Blocks)-1] {
				if seen[b] {
					good = false // an inner cycle: the outcomes of the path belong to different rounds of it
				}
				seen[b] = true
			}
			if !good {
				break
			}
			nv := ip.NextValue(ph)
			if !ip.OnPath(vin) {
				if nv != ssa.Value(ph) {
					good = false
					break
				}
				continue
			}
			// what the outcomes of this path say about v and acc: `v op acc`
			rel := map[token.Token]bool{}
			for _, g := range ip.Conds {
				x, y, o, okF := CmpFact(g.Cond, g.True)
				if !okF {
					continue
				}
				rx, ry := ip.ResolveAt(x), ip.ResolveAt(y)
				switch {
				case rx == v && ry == ssa.Value(ph):
					rel[o] = true
				case rx == ssa.Value(ph) && ry == v:
					rel[flip[o]] = true
				}
			}
			switch {
			case nv == v && rel[token.GTR]:
				takes++
			case nv == v && (rel[token.GEQ] || rel[token.EQL]):
				takes++
				strict = false
			case nv == ssa.Value(ph) && (rel[token.LEQ] || rel[token.LSS] || rel[token.EQL]):
			default:
				good = false
			}
			if !good {
				break
			}
		}
		if good && takes > 0 {
			if strict {
				return token.GTR, ph, true
			}
			return token.GEQ, ph, true
		}
	}
	return 0, nil, false
}
