package nc

import (
	"fmt"
	"go/constant"
	"go/token"
	"go/types"
	"sort"
	"strconv"
	"strings"

	"golang.org/x/tools/go/ssa"
)

// ---------------------------------------------------------------------------
// C15.10 - what a successful decode leaves behind is a function of the bytes read
//
// The round-trip statement quantifies over the decoded object only: "written, then read back, equals the original".
// A decoder that fills an object handed in by the caller (the receiver of Organism.UnmarshalBinary, Experiment.Decode,
// Trial.Decode, Generation.Decode; the local organism decodeOrganism returns) can only satisfy it for every caller if
//
//   (input-only)  no step of the decoder looks at what the object held before the call: a load of a field of the
//                 receiver that is not preceded, on every path from the entry, by a write of that field in this call
//                 makes the result depend on the receiver's history (a reused variable, a pooled slot, an object that
//                 is updated in place) - two calls on the same bytes then restore different objects;
//   (restores F)  every field F the encoder puts on the wire is assigned on EVERY path that ends in a nil error, by a
//                 decoding write (the field's address handed to the wire decoder, or a store of a value that is not a
//                 compile-time constant). A success path that skips the write keeps the receiver's old F, a constant
//                 cannot be the value the encoder wrote for every record.
//
// Both are decided by path search over the SSA form (branch spelling, early returns, inverted conditions, flags and
// loop forms do not matter): (input-only) "no path entry -> load avoids every write of the field", (restores F) "no path
// entry -> return with a possibly-nil error avoids every decoding write of F", the nilness of the returned error being
// tracked along the path through `err != nil` tests, phis and error constructors.

// c15DecoderSpec is one in-place decoder with the fields its encoder writes.
type c15DecoderSpec struct {
	label  string
	fn     *ssa.Function
	subj   ssa.Value // the receiver parameter, or the local object that is filled and returned
	fresh  bool      // subj is allocated by the decoder itself (zero before the first write)
	fields []string  // root fields of the record the encoder writes, in wire order
}

// c15RootField: addr is the address of (a part of) the field F of the object *subj. exact: it is the field itself.
func c15RootField(addr ssa.Value, subj ssa.Value) (f *types.Var, exact, ok bool) {
	switch x := addr.(type) {
	case *ssa.FieldAddr:
		if x.X == subj {
			return fieldOf(x.X.Type(), x.Field), true, true
		}
		if f, _, ok := c15RootField(x.X, subj); ok {
			return f, false, true
		}
	case *ssa.IndexAddr:
		if _, isPtr := x.X.Type().Underlying().(*types.Pointer); isPtr { // element of an array field
			if f, _, ok := c15RootField(x.X, subj); ok {
				return f, false, true
			}
		}
	}
	return nil, false, false
}

// decoding calls: the callee fills the memory behind the address arguments from the wire (or fails with an error)
func c15IsWireDecoder(ci ssa.CallInstruction) bool {
	name, _ := calleeName(ci.Common())
	switch name {
	case "gob.Decoder.Decode", "gob.Decoder.DecodeValue", "json.Decoder.Decode", "json.Unmarshal", "yaml.Decoder.Decode", "yaml.Unmarshal",
		"fmt.Fscan", "fmt.Fscanln", "fmt.Fscanf", "fmt.Sscan", "fmt.Sscanln", "fmt.Sscanf", "binary.Read":
		return true
	}
	if cal := ci.Common().StaticCallee(); cal != nil && InRepo(cal) && cal.Signature.Recv() != nil {
		switch cal.Name() {
		case "Decode", "UnmarshalBinary", "GobDecode", "UnmarshalJSON", "UnmarshalYAML", "UnmarshalText":
			return true
		}
	}
	return false
}

// c15CallOperands: the operands of a call with a packed variadic tail resolved and interface wrappers removed.
func c15CallOperands(ci ssa.CallInstruction) []ssa.Value {
	var out []ssa.Value
	args := ci.Common().Args
	for i, a := range args {
		if i == len(args)-1 {
			if sig, ok := ci.Common().Value.Type().Underlying().(*types.Signature); ok && sig.Variadic() && !ci.Common().IsInvoke() {
				if va, ok := variadicArgs(a); ok {
					for _, v := range va {
						out = append(out, stripPtr(v))
					}
					continue
				}
			}
		}
		out = append(out, stripPtr(a))
	}
	return out
}

// c15FromWire: v is not a compile-time constant on any of its phi alternatives.
func c15FromWire(v ssa.Value, seen map[ssa.Value]bool) bool {
	if seen[v] {
		return true
	}
	seen[v] = true
	switch x := v.(type) {
	case *ssa.Const:
		return false
	case *ssa.Phi:
		for _, e := range x.Edges {
			if !c15FromWire(e, seen) {
				return false
			}
		}
	case *ssa.ChangeType:
		return c15FromWire(x.X, seen)
	case *ssa.MakeInterface:
		return c15FromWire(x.X, seen)
	}
	return true
}

// c15Writes classifies the instruction `in` of a decoder: the set of root fields of *subj it overwrites ("*" = the whole
// object). decoding: only writes that can carry the encoder's value are listed (wire decoder calls, stores of
// non-constant values).
func c15Writes(in ssa.Instruction, subj ssa.Value, decoding bool) []string {
	switch x := in.(type) {
	case *ssa.Store:
		if decoding && !c15FromWire(x.Val, map[ssa.Value]bool{}) {
			return nil
		}
		if x.Addr == subj {
			return []string{"*"}
		}
		if f, exact, ok := c15RootField(x.Addr, subj); ok && exact {
			return []string{f.Name()}
		}
	case ssa.CallInstruction:
		if _, isGo := in.(*ssa.Go); isGo {
			return nil
		}
		if _, isDefer := in.(*ssa.Defer); isDefer {
			return nil
		}
		if !c15IsWireDecoder(x) {
			return nil
		}
		var out []string
		for _, a := range c15CallOperands(x) {
			if a == subj {
				out = append(out, "*")
			} else if f, exact, ok := c15RootField(a, subj); ok && exact {
				out = append(out, f.Name())
			}
		}
		return out
	}
	return nil
}

func c15Has(xs []string, f string) bool {
	for _, x := range xs {
		if x == f || x == "*" {
			return true
		}
	}
	return false
}

// c15NeverNil: an error value that is not nil wherever it is computed.
func c15NeverNil(env pathEnv, v ssa.Value) bool {
	if r := env.eval(v); r.known {
		return r.nonNil
	}
	switch x := v.(type) {
	case *ssa.MakeInterface:
		return true
	case *ssa.Call:
		name, _ := calleeName(&x.Call)
		switch name {
		case "errors.New", "fmt.Errorf", "errors.Errorf":
			return true
		case "errors.Wrap", "errors.Wrapf", "errors.WithMessage", "errors.WithMessagef", "errors.WithStack":
			// pkg/errors: nil in, nil out - not nil when the wrapped error is known not to be nil
			return len(x.Call.Args) > 0 && c15NeverNil(env, x.Call.Args[0])
		}
	}
	return false
}

// c15SuccessQuery describes a search for a feasible path to a return whose error result can be nil.
type c15SuccessQuery struct {
	fn         *ssa.Function
	avoid      func(ssa.Instruction) bool // paths are cut at these instructions (nil: none)
	startEdge  [2]*ssa.BasicBlock         // start by taking this edge instead of at the entry
	fixed      []Guard                    // branch outcomes assumed on the whole path (presence conditions)
	nonNil     []ssa.Value                // values assumed not to be nil wherever they are computed
	vals       map[ssa.Value]envVal       // values assumed to have this value wherever they are computed
	startAfter ssa.Instruction            // start right behind this instruction instead of at the entry
	nilResult  bool                       // only returns whose first result is nil count (an object/error pair without object)
	explored   *int
}

// c15SuccessPathAvoiding searches a feasible path from the entry of fn to a return whose error result can be nil that
// executes no instruction for which avoid holds. Branch outcomes are tracked like FindPath does (constants, nilness,
// phis bound on the edge taken), so `if err != nil { return err }` is not a success return. nil = no such path.
func c15SuccessPathAvoiding(p *Prog, fn *ssa.Function, avoid func(ssa.Instruction) bool, explored *int) []string {
	return c15SuccessPath(p, c15SuccessQuery{fn: fn, avoid: avoid, explored: explored})
}

func c15SuccessPath(p *Prog, q c15SuccessQuery) []string {
	fn := q.fn
	res := fn.Signature.Results()
	errIdx := -1
	if res.Len() > 0 && isErrorType(res.At(res.Len()-1).Type()) {
		errIdx = res.Len() - 1
	}
	fixedIn := map[*ssa.BasicBlock][]Guard{}
	for _, g := range q.fixed {
		if in, ok := g.Cond.(ssa.Instruction); ok && in.Block() != nil {
			fixedIn[in.Block()] = append(fixedIn[in.Block()], g)
		}
	}
	seen := map[string]bool{}
	var found *stateNode
	var walk func(b, from *ssa.BasicBlock, env pathEnv, par *stateNode) bool
	startIdx := 0
	walk = func(b, from *ssa.BasicBlock, env pathEnv, par *stateNode) bool {
		node := &stateNode{b: b, par: par}
		first := startIdx
		startIdx = 0
		if first > 0 {
			goto body
		}
		{
			newVals := map[ssa.Value]envVal{}
			for _, in := range b.Instrs {
				phi, ok := in.(*ssa.Phi)
				if !ok {
					break
				}
				if from != nil {
					for i, pr := range b.Preds {
						if pr == from {
							ev := env.eval(phi.Edges[i])
							if !ev.known && c15NeverNil(env, phi.Edges[i]) {
								ev = envVal{known: true, nonNil: true}
							}
							newVals[phi] = ev
							break
						}
					}
				}
			}
			for _, in := range b.Instrs {
				if v, ok := in.(ssa.Value); ok {
					delete(env, v)
				}
			}
			for k, v := range newVals {
				if v.known {
					env[k] = v
				}
			}
			for _, g := range fixedIn[b] {
				env.assume(g.Cond, g.True)
			}
			for _, v := range q.nonNil {
				if in, ok := v.(ssa.Instruction); ok && in.Block() == b {
					env[v] = envVal{known: true, nonNil: true}
				}
			}
			for v, ev := range q.vals {
				if in, ok := v.(ssa.Instruction); ok && in.Block() == b {
					env[v] = ev
				}
			}
			k := fmt.Sprintf("%d|%s", b.Index, env.key())
			if seen[k] {
				return false
			}
			seen[k] = true
			if q.explored != nil {
				*q.explored++
			}
		}
	body:
		for _, in := range b.Instrs[first:] {
			if q.avoid != nil && q.avoid(in) {
				return false
			}
			if ret, ok := in.(*ssa.Return); ok {
				if errIdx >= 0 && c15NeverNil(env, ret.Results[errIdx]) {
					return false
				}
				if q.nilResult && !(len(ret.Results) > 0 && env.eval(ret.Results[0]).isNil) {
					return false
				}
				node.hit = in
				found = node
				return true
			}
		}
		last := b.Instrs[len(b.Instrs)-1]
		type nxt struct {
			s       *ssa.BasicBlock
			assume  bool
			outcome bool
		}
		var nexts []nxt
		if t, ok := last.(*ssa.If); ok {
			dec := env.eval(t.Cond)
			if dec.known && dec.c != nil && dec.c.Kind() == constant.Bool {
				if constant.BoolVal(dec.c) {
					nexts = append(nexts, nxt{b.Succs[0], true, true})
				} else {
					nexts = append(nexts, nxt{b.Succs[1], true, false})
				}
			} else {
				nexts = append(nexts, nxt{b.Succs[0], true, true}, nxt{b.Succs[1], true, false})
			}
		} else {
			for _, s := range b.Succs {
				nexts = append(nexts, nxt{s, false, false})
			}
		}
		for _, n := range nexts {
			e2 := env.clone()
			if n.assume {
				e2.assume(last.(*ssa.If).Cond, n.outcome)
			}
			if walk(n.s, b, e2, node) {
				return true
			}
		}
		return false
	}
	env := pathEnv{}
	for _, g := range q.fixed {
		env.assume(g.Cond, g.True)
	}
	for _, v := range q.nonNil {
		env[v] = envVal{known: true, nonNil: true}
	}
	for v, ev := range q.vals {
		env[v] = ev
	}
	if q.startAfter != nil {
		startIdx = instrIndex(q.startAfter) + 1
		walk(q.startAfter.Block(), nil, env, nil)
	} else if from, to := q.startEdge[0], q.startEdge[1]; from != nil {
		if iff, ok := from.Instrs[len(from.Instrs)-1].(*ssa.If); ok && from.Succs[0] != from.Succs[1] {
			env.assume(iff.Cond, from.Succs[0] == to)
		}
		walk(to, from, env, &stateNode{b: from})
	} else {
		walk(fn.Blocks[0], nil, env, nil)
	}
	if found == nil {
		return nil
	}
	var out []string
	for n := found; n != nil; n = n.par {
		out = append([]string{describeBlock(p, n.b, n.hit)}, out...)
	}
	return out
}

// c15EncodedRootFields: the root fields of the record the gob encoder ef puts on the wire.
func (c *c15) c15EncodedRootFields(ef *ssa.Function, subjIdx int) ([]string, string) {
	items, why := c.gobSeq(ef, true, subjIdx)
	if why != "" {
		return nil, why
	}
	var out []string
	for _, it := range items {
		f := strings.SplitN(it.name, ".", 2)[0]
		if !c15Has(out, f) {
			out = append(out, f)
		}
	}
	return out, ""
}

func (c *c15) decodeDeterminacy() {
	p, r := c.p, c.r
	var specs []c15DecoderSpec

	// organism binary form: the header values and the genome
	{
		mfn, ufn := p.Func(PkgG, "Organism.MarshalBinary"), p.Func(PkgG, "Organism.UnmarshalBinary")
		mtm := NewTermer(mfn)
		var fields []string
		add := func(t *Term) {
			if base, path := t.FieldPath(); base != nil && base.Op == "recv" && len(path) > 0 && !c15Has(fields, path[0]) {
				fields = append(fields, path[0])
			}
		}
		mc, _ := fmtCalls(mfn)
		for _, w := range mc {
			for _, a := range w.Args {
				add(mtm.Of(a))
			}
		}
		for _, ci := range CallsTo(mfn, p.Func(PkgG, "Genome.Write")) {
			add(mtm.Of(ci.Common().Args[0]))
		}
		specs = append(specs, c15DecoderSpec{label: "decode:Organism.UnmarshalBinary", fn: ufn, subj: ufn.Params[0], fields: fields})
	}
	// gob records
	for _, x := range []struct {
		enc, dec string
		encS     int
	}{{"Experiment.Encode", "Experiment.Decode", 0}, {"Trial.Encode", "Trial.Decode", 0}, {"Generation.Encode", "Generation.Decode", 0}, {"encodeOrganism", "decodeOrganism", 1}} {
		ef, df := p.Func(PkgE, x.enc), p.Func(PkgE, x.dec)
		fields, why := c.c15EncodedRootFields(ef, x.encS)
		if why != "" {
			r.Undecided("decode:"+x.dec+".fields", p.Pos(ef.Pos()), x.enc+": "+why)
			continue
		}
		sp := c15DecoderSpec{label: "decode:" + x.dec, fn: df, fields: fields}
		if df.Signature.Recv() != nil {
			sp.subj = df.Params[0]
		} else {
			// the object that is filled is the one a success return hands out
			var cands []ssa.Value
			Instrs(df, func(_ *ssa.BasicBlock, _ int, in ssa.Instruction) {
				if ret, ok := in.(*ssa.Return); ok && len(ret.Results) > 0 {
					if al, isAl := ret.Results[0].(*ssa.Alloc); isAl {
						for _, cnd := range cands {
							if cnd == ssa.Value(al) {
								return
							}
						}
						cands = append(cands, al)
					}
				}
			})
			if len(cands) != 1 {
				r.Undecided(sp.label+".object", p.Pos(df.Pos()), fmt.Sprintf("%s does not return one local object (%d candidates)", x.dec, len(cands)))
				continue
			}
			sp.subj, sp.fresh = cands[0], true
		}
		specs = append(specs, sp)
		if x.dec == "Experiment.Decode" {
			// the exported entry point wraps Decode: whatever it does besides must not look at the receiver either, and no
			// success return may bypass the decoding
			rd := p.Func(PkgE, "Experiment.Read")
			specs = append(specs, c15DecoderSpec{label: "decode:Experiment.Read", fn: rd, subj: rd.Params[0], fields: fields})
		}
	}

	decoders := map[*ssa.Function]bool{}
	for _, sp := range specs {
		decoders[sp.fn] = true
	}
	for _, sp := range specs {
		fn, subj := sp.fn, sp.subj
		r.Fn(FuncName(fn))
		// --- (input-only)
		if !sp.fresh {
			var bad []string
			badPos := ""
			var badPath []string
			note := func(pos token.Pos, msg string, path []string) {
				if badPos == "" {
					badPos, badPath = p.Pos(pos), path
				}
				for _, b := range bad {
					if b == msg {
						return
					}
				}
				bad = append(bad, msg)
			}
			Instrs(fn, func(_ *ssa.BasicBlock, _ int, in ssa.Instruction) {
				switch x := in.(type) {
				case *ssa.UnOp:
					if x.Op != token.MUL {
						return
					}
					fname := ""
					if x.X == subj {
						fname = "*"
					} else if f, _, ok := c15RootField(x.X, subj); ok {
						fname = f.Name()
					} else {
						return
					}
					path := FindPath(p, PathQuery{Fn: fn, Explored: &r.PathsExplored,
						Target: func(i ssa.Instruction) bool { return i == ssa.Instruction(x) },
						Avoid: func(i ssa.Instruction) bool {
							return c15Has(c15Writes(i, subj, false), fname)
						}})
					if path != nil {
						what := "the receiver's " + fname
						if fname == "*" {
							what = "the whole receiver"
						}
						note(x.Pos(), fmt.Sprintf("%s is read at %s before this call has written it", what, p.Pos(x.Pos())), path)
					}
				case ssa.CallInstruction:
					// the receiver itself handed on: fine when it goes to a decoder that is checked here, otherwise unknown
					for _, a := range c15CallOperands(x) {
						if a != subj {
							continue
						}
						if cal := x.Common().StaticCallee(); cal != nil && decoders[cal] {
							continue
						}
						n, _ := calleeName(x.Common())
						note(in.Pos(), fmt.Sprintf("the receiver is handed to %s at %s, which may read its previous state", n, p.Pos(in.Pos())), nil)
					}
				case *ssa.MakeClosure:
					for _, bnd := range x.Bindings {
						if bnd == subj {
							note(in.Pos(), "the receiver is captured by a closure at "+p.Pos(in.Pos()), nil)
						}
					}
				}
			})
			sort.Strings(bad)
			if len(bad) == 0 {
				r.OK(sp.label+".input-only", p.Pos(fn.Pos()), "no field of the receiver is read before this call has written it: the decoded state does not depend on what the receiver held before")
			} else {
				r.Bad(sp.label+".input-only", badPos, "decoding depends on the previous content of the receiver (decoding the same bytes into a used object and into a zero object gives different results): "+strings.Join(bad, "; "), badPath...)
			}
		}
		// --- (restores F)
		for _, f := range sp.fields {
			f := f
			path := c15SuccessPathAvoiding(p, fn, func(i ssa.Instruction) bool { return c15Has(c15Writes(i, subj, true), f) }, &r.PathsExplored)
			r.FieldsChecked++
			r.Check(path == nil, sp.label+".restores:"+f, p.Pos(fn.Pos()), f+" is assigned from the wire on every path that returns without an error",
				fmt.Sprintf("%s can return without an error and without having assigned %s from the decoded data: the object keeps whatever %s it held before (or a constant), although the encoder wrote it", FuncName(fn), f, f), path...)
		}
	}
	r.Floor("in-place decoders", len(specs), 6)
}

// ---------------------------------------------------------------------------
// C15.11 - an encoder/decoder that reports success has performed every wire operation
//
// The streams carry no framing: the reader consumes exactly the values the writer's sequence lists. A writer that can
// return a nil error after a prefix of its sequence (an inverted error test that returns right after the first
// successful Encode, a loop that is left after the first element) produces a file that is reported as written but cannot
// be read back; a reader that does so restores a prefix. Decided per wire operation O of the sequence (the gob values
// of Experiment/Trial/Generation/champion organism, the header line and the genome of the organism binary form; in the
// plain, YAML, population and solver-model codecs and the Read/Write wrappers every call that has an error result):
//
//   (performed)  no feasible path from the entry to a return with a possibly-nil error avoids O, the conditions O is
//                performed under being assumed - all branch outcomes that dominate O except tests of an error against nil
//                (`x.F != nil` around an optional part, the choice between two spellings of a record; NOT `err == nil`
//                of an earlier operation, which is exactly what an inverted error test gets wrong); for an operation in a
//                loop, O is the loop itself (an empty list performs no operation);
//   (not cut)    no edge that leaves such a loop other than its counter test starts a path to a possibly-nil error return:
//                the loop ends early only by failing;
//   (hands out)  a function that returns (object, error) has no path that returns a nil object with a possibly-nil error;
//   (succeeded)  with the error result of O non-nil, no path returns a nil error (a failed write that is reported as
//                success leaves a file the reader cannot restore). An unexamined error of a fmt print call is accepted (the
//                organism header goes into a bytes.Buffer, which cannot fail); any other unexamined error result is not.

type c15WireOp struct {
	in   ssa.Instruction
	what string
}

func (c *c15) wireOpsComplete() {
	p, r := c.p, c.r
	type unit struct {
		label  string
		fn     *ssa.Function
		ops    []c15WireOp
		strict bool // the operations of a loop are the loop\'s whole body (list codecs of the gob streams): no iteration goes on without them
	}
	var units []unit
	nOps := 0
	for _, x := range []struct {
		name   string
		enc    bool
		subjIx int
	}{{"Experiment.Encode", true, 0}, {"Experiment.Decode", false, 0}, {"Trial.Encode", true, 0}, {"Trial.Decode", false, 0},
		{"Generation.Encode", true, 0}, {"Generation.Decode", false, 0}, {"encodeOrganism", true, 1}, {"decodeOrganism", false, -1}} {
		fn := p.Func(PkgE, x.name)
		items, why := c.gobSeq(fn, x.enc, x.subjIx)
		if why != "" {
			r.Undecided("wire-ops:"+x.name, p.Pos(fn.Pos()), why)
			continue
		}
		u := unit{label: "wire-ops:" + x.name, fn: fn, strict: true}
		seenIn := map[ssa.Instruction]bool{}
		nOps += len(items)
		for _, it := range items {
			if seenIn[it.in] {
				continue // the values of one table loop share the call
			}
			seenIn[it.in] = true
			u.ops = append(u.ops, c15WireOp{it.in, it.String()})
		}
		units = append(units, u)
	}
	for _, n := range []string{"Organism.MarshalBinary", "Organism.UnmarshalBinary"} {
		fn := p.Func(PkgG, n)
		u := unit{label: "wire-ops:" + n, fn: fn}
		fcs, _ := fmtCalls(fn)
		for _, fc := range fcs {
			u.ops = append(u.ops, c15WireOp{fc.Call, "the header line (F" + fc.Kind + ")"})
		}
		for _, tgt := range []string{"Genome.Write", "ReadGenome"} {
			for _, ci := range CallsTo(fn, p.Func(PkgG, tgt)) {
				u.ops = append(u.ops, c15WireOp{ci, "the genome (" + tgt + ")"})
			}
		}
		nOps += len(u.ops)
		units = append(units, u)
	}
	// the text and JSON codecs: every call that can fail (an error result; the error constructors excepted) is an operation
	for _, x := range [][2]string{
		{PkgG, "ReadGenome"}, {PkgG, "Genome.Write"},
		{PkgG, "plainGenomeWriter.WriteGenome"}, {PkgG, "plainGenomeWriter.writeTrait"}, {PkgG, "plainGenomeWriter.writeNetworkNode"}, {PkgG, "plainGenomeWriter.writeConnectionGene"},
		{PkgG, "yamlGenomeWriter.WriteGenome"}, {PkgG, "yamlGenomeWriter.encodeControlGene"}, {PkgG, "yamlGenomeWriter.encodeNetworkNode"},
		{PkgG, "plainGenomeReader.Read"}, {PkgG, "readPlainTrait"}, {PkgG, "readPlainNetworkNode"}, {PkgG, "readPlainConnectionGene"},
		{PkgG, "yamlGenomeReader.Read"}, {PkgG, "readGene"}, {PkgG, "readMIMOControlGene"}, {PkgG, "readNNode"}, {PkgG, "readTrait"},
		{PkgG, "ReadPopulation"}, {PkgG, "Population.Write"},
		{PkgN, "FastModularNetworkSolver.WriteModel"}, {PkgN, "ReadFMNSModel"},
		{PkgE, "Experiment.Write"}, {PkgE, "Experiment.Read"},
	} {
		fn := p.FuncOpt(x[0], x[1])
		if fn == nil || len(fn.Blocks) == 0 {
			continue
		}
		u := unit{label: "wire-ops:" + x[1], fn: fn}
		Instrs(fn, func(_ *ssa.BasicBlock, _ int, in ssa.Instruction) {
			cl, ok := in.(*ssa.Call)
			if !ok {
				return
			}
			name, _ := calleeName(&cl.Call)
			switch name {
			case "errors.New", "fmt.Errorf", "errors.Errorf", "errors.Wrap", "errors.Wrapf", "errors.WithMessage", "errors.WithMessagef", "errors.WithStack":
				return
			}
			last := types.Type(nil)
			if tup, isTup := cl.Type().(*types.Tuple); isTup && tup.Len() > 0 {
				last = tup.At(tup.Len() - 1).Type()
			} else if !isTup {
				last = cl.Type()
			}
			if last == nil || !isErrorType(last) {
				return
			}
			u.ops = append(u.ops, c15WireOp{in, name})
		})
		nOps += len(u.ops)
		units = append(units, u)
	}
	for _, u := range units {
		fn := u.fn
		r.Fn(FuncName(fn))
		loops := Loops(fn)
		var bad []string
		var badPath []string
		badPos := ""
		checkedLoop := map[*ssa.BasicBlock]bool{}
		for _, op := range u.ops {
			blk := op.in.Block()
			// presence conditions: nil tests of non-error values that dominate the operation
			l := InnermostLoop(loops, blk)
			avoid := func(in ssa.Instruction) bool { return in == op.in }
			fixed := c15NonErrorGuards(blk)
			if l != nil {
				avoid = func(in ssa.Instruction) bool { return in.Block() == l.Header }
				fixed = c15NonErrorGuards(l.Header)
			}
			if path := c15SuccessPath(p, c15SuccessQuery{fn: fn, avoid: avoid, fixed: fixed, explored: &r.PathsExplored}); path != nil {
				bad = append(bad, fmt.Sprintf("%s (%s) can be skipped on a path that returns without an error", op.what, p.Pos(op.in.Pos())))
				if badPos == "" {
					badPos, badPath = p.Pos(op.in.Pos()), path
				}
			}
			// (succeeded) the operation's error is not dropped: with a non-nil error result no path returns a nil error
			if errv, ignored := c15ErrResult(op.in); errv != nil {
				if path := c15SuccessPath(p, c15SuccessQuery{fn: fn, nonNil: []ssa.Value{errv}, startAfter: errv.(ssa.Instruction), explored: &r.PathsExplored}); path != nil {
					bad = append(bad, fmt.Sprintf("a failure of %s (%s) is not reported: with its error result non-nil the function can still return a nil error", op.what, p.Pos(op.in.Pos())))
					if badPos == "" {
						badPos, badPath = p.Pos(op.in.Pos()), path
					}
				}
			} else if ignored {
				bad = append(bad, fmt.Sprintf("the error result of %s (%s) is ignored", op.what, p.Pos(op.in.Pos())))
				if badPos == "" {
					badPos = p.Pos(op.in.Pos())
				}
			}
			if l != nil && !checkedLoop[l.Header] {
				checkedLoop[l.Header] = true
				// the operation runs in every iteration that goes on
				for _, lt := range l.Latch {
					if u.strict && !(blk == lt || blk.Dominates(lt)) {
						bad = append(bad, fmt.Sprintf("an iteration of the loop around %s (%s) can go on without performing it", op.what, p.Pos(op.in.Pos())))
						if badPos == "" {
							badPos = p.Pos(op.in.Pos())
						}
					}
				}
				for b := range l.Blocks {
					for _, s := range b.Succs {
						if l.Blocks[s] || b == l.Header {
							continue
						}
						if path := c15SuccessPath(p, c15SuccessQuery{fn: fn, startEdge: [2]*ssa.BasicBlock{b, s}, explored: &r.PathsExplored}); path != nil {
							bad = append(bad, fmt.Sprintf("the loop around %s (%s) can be left before the end of the list on a path that returns without an error", op.what, p.Pos(op.in.Pos())))
							if badPos == "" {
								badPos, badPath = p.Pos(op.in.Pos()), path
							}
						}
					}
				}
			}
		}
		// (hands out) a function that returns an object together with an error does not report success without an object
		if res := fn.Signature.Results(); res.Len() == 2 && isNillable(res.At(0).Type()) && isErrorType(res.At(1).Type()) {
			if path := c15SuccessPath(p, c15SuccessQuery{fn: fn, nilResult: true, explored: &r.PathsExplored}); path != nil {
				bad = append(bad, "a nil object can be returned together with a nil error")
				if badPos == "" {
					badPos, badPath = p.Pos(fn.Pos()), path
				}
			}
		}
		sort.Strings(bad)
		if len(bad) == 0 {
			r.OK(u.label, p.Pos(fn.Pos()), fmt.Sprintf("each of the %d wire operations is performed on every path that returns without an error; loops over lists end early only by failing", len(u.ops)))
		} else {
			r.Bad(u.label, badPos, "success is reported although the wire sequence is incomplete or an operation failed (the stream is truncated or misaligned, the other side cannot restore the record): "+strings.Join(bad, "; "), badPath...)
		}
	}
	r.Floor("wire operations of the gob and organism codecs", nOps, 50)
}

// c15ErrResult: the error result of the call instruction in (the call itself, or the extraction of the last component of
// its result tuple). ignored: the call has an error result that nothing looks at (fmt print calls excepted).
func c15ErrResult(in ssa.Instruction) (errv ssa.Value, ignored bool) {
	cl, ok := in.(*ssa.Call)
	if !ok {
		return nil, false
	}
	name, _ := calleeName(&cl.Call)
	isPrint := fmtKinds[name] == "print" || fmtKinds[name] == "println" || fmtKinds[name] == "printf"
	if isErrorType(cl.Type()) {
		if cl.Referrers() == nil || len(*cl.Referrers()) == 0 {
			return nil, !isPrint
		}
		return cl, false
	}
	tup, isTup := cl.Type().(*types.Tuple)
	if !isTup || tup.Len() == 0 || !isErrorType(tup.At(tup.Len()-1).Type()) {
		return nil, false
	}
	if cl.Referrers() != nil {
		for _, ref := range *cl.Referrers() {
			if ex, isEx := ref.(*ssa.Extract); isEx && ex.Index == tup.Len()-1 {
				if ex.Referrers() != nil && len(*ex.Referrers()) > 0 {
					return ex, false
				}
			}
		}
	}
	return nil, !isPrint
}

// c15NonErrorGuards: the branch outcomes b runs under, without the tests of an error value against nil (those decide
// whether an earlier operation failed; what remains are the conditions the operation itself is performed under: presence
// of an optional part, which of two spellings of a record is written, ..).
func c15NonErrorGuards(b *ssa.BasicBlock) []Guard {
	var out []Guard
	for _, g := range Guards(b) {
		if x, y, cop, ok := CmpFact(g.Cond, g.True); ok && (cop == token.EQL || cop == token.NEQ) {
			if k, isC := y.(*ssa.Const); isC && k.Value == nil && isErrorType(x.Type()) {
				continue
			}
		}
		out = append(out, g)
	}
	return out
}

// ---------------------------------------------------------------------------
// C15.0 (completeness) - a selector by id finds the element when there is one
//
// C15.0 decides that what TraitWithId/NodeWithId return is nil or an element with the requested id. The readers also
// need the converse: for an id that an element of the list carries, that element IS returned - otherwise genes read back
// without their trait or their end nodes. Decided on the selector's SSA form:
//   - it contains a loop that counts 0..len(list)-1;
//   - with "the id is a real id" (id != 0: 0 is how the writers spell "no trait") and "the list is not empty" assumed for
//     every test of the id parameter against 0 / of the list against nil or its length against 0, no path from the entry
//     reaches a return without passing the loop (a search that is skipped for real ids finds nothing);
//   - the loop is left before the end of the list only to return a non-nil result.
func c15SelectorComplete(p *Prog, fn *ssa.Function, explored *int) (bool, string, []string) {
	if fn == nil || len(fn.Blocks) == 0 || len(fn.Params) != 2 {
		return false, "unexpected signature", nil
	}
	tm := NewTermer(fn)
	var loop *Loop
	for _, l := range Loops(fn) {
		if _, bound, ok := countsUp(l); ok && tm.Of(bound).String() == "len(p1)" {
			loop = l
		}
	}
	if loop == nil {
		return false, "no loop that runs over the whole list (0..len(list)-1)", nil
	}
	// what the tests of the parameters say for a real id and a non-empty list
	var fixed []Guard
	intConst := func(v ssa.Value) (int64, bool) {
		k, ok := v.(*ssa.Const)
		if !ok || k.Value == nil || k.Value.Kind() != constant.Int {
			return 0, false
		}
		n, exact := constant.Int64Val(k.Value)
		return n, exact
	}
	atLeastOne := c15AtLeastOne
	Instrs(fn, func(b *ssa.BasicBlock, _ int, in ssa.Instruction) {
		iff, ok := in.(*ssa.If)
		if !ok {
			return
		}
		x, y, op, okc := CmpFact(iff.Cond, true)
		if !okc {
			return
		}
		isLenOfList := false
		if cl, isCall := x.(*ssa.Call); isCall {
			if bi, isB := cl.Call.Value.(*ssa.Builtin); isB && bi.Name() == "len" && len(cl.Call.Args) == 1 && cl.Call.Args[0] == ssa.Value(fn.Params[1]) {
				isLenOfList = true
			}
		}
		switch {
		case x == ssa.Value(fn.Params[0]) || isLenOfList:
			if c, isInt := intConst(y); isInt {
				if out, dec := atLeastOne(op, c); dec {
					fixed = append(fixed, Guard{iff.Cond, out, b})
				}
			}
		case x == ssa.Value(fn.Params[1]):
			if k, isC := y.(*ssa.Const); isC && k.Value == nil && (op == token.NEQ || op == token.EQL) {
				fixed = append(fixed, Guard{iff.Cond, op == token.NEQ, b})
			}
		}
	})
	if path := c15SuccessPath(p, c15SuccessQuery{fn: fn, fixed: fixed, explored: explored,
		avoid: func(in ssa.Instruction) bool { return in.Block() == loop.Header }}); path != nil {
		return false, "for an id other than 0 and a non-empty list the function can return without searching the list: the element with that id is not found", path
	}
	for b := range loop.Blocks {
		for _, s := range b.Succs {
			if loop.Blocks[s] || b == loop.Header {
				continue
			}
			if path := c15SuccessPath(p, c15SuccessQuery{fn: fn, startEdge: [2]*ssa.BasicBlock{b, s}, nilResult: true, explored: explored}); path != nil {
				return false, "the search can be left before the end of the list with a nil result", path
			}
		}
	}
	return true, "", nil
}

// lineSplitAccepts: every test of the number of parts a line is split into accepts what the writer emits. A written line
// is `keyword blank record`, so strings.SplitN(line, " ", 2) yields n = 2 parts; a test of len(parts) against a constant
// has a fixed outcome for that n (read as a fact: CmpFact), and under these outcomes the branch taken must still be able
// to end in a return without an error - a reader that takes the "line cannot be split" exit for well-formed lines reads
// nothing back.
func (c *c15) lineSplitAccepts(label string, rfn *ssa.Function, n int64) {
	p, r := c.p, c.r
	rtm := NewTermer(rfn)
	type colTest struct {
		iff     *ssa.If
		op      token.Token
		k       constant.Value
		outcome bool
	}
	var tests []colTest
	var fixed []Guard
	Instrs(rfn, func(b *ssa.BasicBlock, _ int, in ssa.Instruction) {
		iff, ok := in.(*ssa.If)
		if !ok {
			return
		}
		cx, cy, op, okc := CmpFact(iff.Cond, true)
		if !okc {
			return
		}
		lt := rtm.Of(cx)
		k, isC := cy.(*ssa.Const)
		if lt.Op != "len" || !isC || k.Value == nil || k.Value.Kind() != constant.Int {
			return
		}
		st := lt.Args[0]
		if !(st.Op == "call" && st.Name == "strings.SplitN") {
			return
		}
		// (the line is what is split, at blanks, into at least the n parts: SplitN(line, " ", k) with k >= n or k < 0)
		if len(st.Args) == 3 {
			kOK := true
			if st.Args[2].Op == "const" {
				if kv, err := strconv.Atoi(st.Args[2].String()); err == nil && kv >= 0 && int64(kv) < n {
					kOK = false
				}
			}
			if st.Args[1].String() != `" "` || st.Args[0].Op == "const" || !kOK {
				r.Bad(label+".split-args", p.Pos(iff.Pos()), "the line is not split at blanks into keyword and rest: strings.SplitN("+st.Args[0].String()+", "+st.Args[1].String()+", "+st.Args[2].String()+")")
			}
		}
		outcome := constant.Compare(constant.MakeInt64(n), op, k.Value)
		tests = append(tests, colTest{iff, op, k.Value, outcome})
		fixed = append(fixed, Guard{iff.Cond, outcome, b})
	})
	for _, t := range tests {
		b := t.iff.Block()
		taken := b.Succs[1]
		if t.outcome {
			taken = b.Succs[0]
		}
		accepts := c15SuccessPath(p, c15SuccessQuery{fn: rfn, fixed: fixed, startEdge: [2]*ssa.BasicBlock{b, taken}, explored: &r.PathsExplored}) != nil
		r.Check(accepts, label+".parts:"+t.op.String()+t.k.ExactString(), p.Pos(t.iff.Pos()),
			fmt.Sprintf("len(parts) %s %s with the %d parts of a written line does not reject the line", t.op, t.k.ExactString(), n),
			fmt.Sprintf("the reader tests len(parts) %s %s; a written line splits into %d parts and is rejected (the branch taken only returns errors)", t.op, t.k.ExactString(), n))
	}
}

// ---------------------------------------------------------------------------
// C15.12 - references by id: what resolves is used, what is new is accepted
//
// The record readers turn the ids on the wire into pointers with TraitWithId / NodeWithId, and the genome readers probe
// the lists they are building for the id of the record just read (TraitWithId(new.Id, list), haveNode(new.Id)). Two
// necessary conditions, decided by path search from the call:
//
//	(found is used)  a lookup whose result is used for anything besides nil tests: with the result assumed non-nil, no
//	                 path that returns without an error avoids every use of it (a gene whose trait or end node was
//	                 found but that is then built without it reads back without it);
//	(new is accepted) a probe whose result is only tested: with the result assumed "not there" (nil / false), a path that
//	                 returns without an error exists (a reader that takes the "id is not unique" exit for ids that are
//	                 NOT in the list rejects every file the writer produces).
func (c *c15) lookupsByID() {
	p, r := c.p, c.r
	sel := map[*ssa.Function]bool{p.Func(PkgG, "TraitWithId"): true, p.Func(PkgG, "NodeWithId"): true}
	if hn := p.FuncOpt(PkgG, "Genome.haveNode"); hn != nil {
		sel[hn] = true
	}
	nLookups := 0
	for _, name := range []string{"plainGenomeReader.Read", "readPlainNetworkNode", "readPlainConnectionGene",
		"yamlGenomeReader.Read", "readNNode", "readGene", "readMIMOControlGene"} {
		fn := p.FuncOpt(PkgG, name)
		if fn == nil {
			if _, isYamlRecord := c15YamlRecordType[name]; !isYamlRecord {
				fn = p.Func(PkgG, name) // anchor missing
			}
			// a YAML record helper written out in yamlGenomeReader.Read: its lookups are lookups of Read now (scanned
			// above; the floor below still counts them); whether Read restores the record at all is C15.2's question
			continue
		}
		r.Fn(FuncName(fn))
		var bad []string
		var badPath []string
		badPos := ""
		n := 0
		Instrs(fn, func(_ *ssa.BasicBlock, _ int, in ssa.Instruction) {
			cl, ok := in.(*ssa.Call)
			if !ok || !sel[cl.Call.StaticCallee()] {
				return
			}
			n++
			// the value web of the result and its uses
			web := map[ssa.Value]bool{cl: true}
			work := []ssa.Value{cl}
			var uses []ssa.Instruction
			for len(work) > 0 {
				v := work[len(work)-1]
				work = work[:len(work)-1]
				if v.Referrers() == nil {
					continue
				}
				for _, ref := range *v.Referrers() {
					switch x := ref.(type) {
					case *ssa.DebugRef, *ssa.If:
					case *ssa.Phi:
						if !web[x] {
							web[x] = true
							work = append(work, x)
						}
					case *ssa.ChangeType:
						if !web[x] {
							web[x] = true
							work = append(work, x)
						}
					case *ssa.MakeInterface:
						if !web[x] {
							web[x] = true
							work = append(work, x)
						}
					case *ssa.BinOp:
						if x.Op != token.EQL && x.Op != token.NEQ {
							uses = append(uses, ref)
						}
					case *ssa.UnOp:
						if x.Op == token.NOT {
							if !web[x] {
								web[x] = true
								work = append(work, x)
							}
						} else {
							uses = append(uses, ref)
						}
					default:
						uses = append(uses, ref)
					}
				}
			}
			isBool := false
			if b, isB := cl.Type().Underlying().(*types.Basic); isB && b.Info()&types.IsBoolean != 0 {
				isBool = true
			}
			cname, _ := calleeName(&cl.Call)
			if len(uses) > 0 && !isBool {
				isUse := map[ssa.Instruction]bool{}
				for _, u := range uses {
					isUse[u] = true
				}
				if path := c15SuccessPath(p, c15SuccessQuery{fn: fn, startAfter: cl, nonNil: []ssa.Value{cl}, explored: &r.PathsExplored,
					avoid: func(i ssa.Instruction) bool { return isUse[i] }}); path != nil {
					bad = append(bad, fmt.Sprintf("what %s finds at %s can be dropped: with a non-nil result a path returns without an error and without using it", cname, p.Pos(cl.Pos())))
					if badPos == "" {
						badPos, badPath = p.Pos(cl.Pos()), path
					}
				}
				return
			}
			// a probe
			absent := envVal{known: true, isNil: true}
			if isBool {
				absent = envVal{known: true, c: constant.MakeBool(false)}
			}
			if path := c15SuccessPath(p, c15SuccessQuery{fn: fn, startAfter: cl, vals: map[ssa.Value]envVal{cl: absent}, explored: &r.PathsExplored}); path == nil {
				bad = append(bad, fmt.Sprintf("the probe %s at %s rejects what is not there: with a negative result every path ends in an error", cname, p.Pos(cl.Pos())))
				if badPos == "" {
					badPos = p.Pos(cl.Pos())
				}
			}
		})
		nLookups += n
		if n == 0 {
			continue
		}
		sort.Strings(bad)
		if len(bad) == 0 {
			r.OK("lookups:"+name, p.Pos(fn.Pos()), fmt.Sprintf("%d lookups by id: a found trait/node is used on every path that returns without an error; a probe for a new id lets new ids pass", n))
		} else {
			r.Bad("lookups:"+name, badPos, strings.Join(bad, "; "), badPath...)
		}
	}
	r.Floor("lookups by id in the genome readers", nLookups, 8)
}

// c15AtLeastOne: the truth of `v op c` for every v >= 1 (a real id, the length of a non-empty list); decided is false
// when it depends on v.
func c15AtLeastOne(op token.Token, c int64) (outcome, decided bool) {
	switch {
	case op == token.NEQ && c <= 0, op == token.GTR && c <= 0, op == token.GEQ && c <= 1:
		return true, true
	case op == token.EQL && c <= 0, op == token.LSS && c <= 1, op == token.LEQ && c <= 0:
		return false, true
	}
	return false, false
}

// c15PresenceFacts: the outcome every test in fn of "is this list there" has when the list is there and not empty: tests
// of len(X) against an integer constant and of X against nil, for the values X that isList accepts (by origin term).
// Tests whose outcome depends on the length (len(X) > 1) are left open.
func c15PresenceFacts(fn *ssa.Function, tm *Termer, isList func(*Term) bool) []Guard {
	var out []Guard
	Instrs(fn, func(b *ssa.BasicBlock, _ int, in ssa.Instruction) {
		iff, ok := in.(*ssa.If)
		if !ok {
			return
		}
		// `v, has := doc[key]` .. `if has` / `if !has`: the key is there
		{
			cond, holds := iff.Cond, true
			for {
				u, isU := cond.(*ssa.UnOp)
				if !isU || u.Op != token.NOT {
					break
				}
				cond, holds = u.X, !holds
			}
			if ht := tm.Of(cond); ht.Op == "call" && ht.Name == "has" && len(ht.Args) == 2 && isList(&Term{Op: "lookup", Args: ht.Args}) {
				out = append(out, Guard{iff.Cond, holds, b})
				return
			}
		}
		x, y, op, okc := CmpFact(iff.Cond, true)
		if !okc {
			return
		}
		k, isC := y.(*ssa.Const)
		if !isC {
			return
		}
		xt := tm.Of(x)
		switch {
		case xt.Op == "len" && len(xt.Args) == 1 && isList(xt.Args[0]) && k.Value != nil && k.Value.Kind() == constant.Int:
			if c, exact := constant.Int64Val(k.Value); exact {
				if outcome, dec := c15AtLeastOne(op, c); dec {
					out = append(out, Guard{iff.Cond, outcome, b})
				}
			}
		case k.Value == nil && isNillable(x.Type()) && isList(xt) && (op == token.NEQ || op == token.EQL):
			out = append(out, Guard{iff.Cond, op == token.NEQ, b})
		}
	})
	return out
}

// flushedOnSuccess: the genome writers write through a bufio.Writer; what is still in its buffer when the writer returns
// never reaches the file. Every path that returns without an error must have called Flush.
func (c *c15) flushedOnSuccess(label string, wfn *ssa.Function) {
	p, r := c.p, c.r
	isFlush := func(in ssa.Instruction) bool {
		if ci, ok := in.(ssa.CallInstruction); ok {
			if n, _ := calleeName(ci.Common()); n == "bufio.Writer.Flush" {
				return true
			}
		}
		return false
	}
	n := 0
	Instrs(wfn, func(_ *ssa.BasicBlock, _ int, in ssa.Instruction) {
		if isFlush(in) {
			n++
		}
	})
	var path []string
	if n > 0 {
		path = c15SuccessPath(p, c15SuccessQuery{fn: wfn, avoid: isFlush, explored: &r.PathsExplored})
	}
	r.Check(n > 0 && path == nil, label+".flush", p.Pos(wfn.Pos()), "the buffered writer is flushed on every path that returns without an error",
		"the buffered writer is not flushed on every path that returns without an error: the tail of the genome is lost", path...)
}
