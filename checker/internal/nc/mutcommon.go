package nc

import (
	"go/token"
	"go/types"
	"strings"

	"golang.org/x/tools/go/ssa"
)

// Helpers shared by the rules on the mutation and crossover operators
// (C01, C03, C04, C05).

// phiWeb follows phi edges from v: the phis visited and the non-phi values
// feeding them (nil constants reported separately).
type phiWebT struct {
	Phis    map[*ssa.Phi]bool
	Feeders []ssa.Value
	HasNil  bool
	Consts  []*ssa.Const
}

func phiWeb(v ssa.Value) *phiWebT {
	w := &phiWebT{Phis: map[*ssa.Phi]bool{}}
	seen := map[ssa.Value]bool{}
	var visit func(x ssa.Value)
	visit = func(x ssa.Value) {
		if seen[x] {
			return
		}
		seen[x] = true
		switch y := x.(type) {
		case *ssa.ChangeType:
			visit(y.X)
		case *ssa.Phi:
			w.Phis[y] = true
			for _, e := range y.Edges {
				visit(e)
			}
		case *ssa.Const:
			if y.Value == nil {
				w.HasNil = true
			} else {
				w.Consts = append(w.Consts, y)
			}
		default:
			w.Feeders = append(w.Feeders, x)
		}
	}
	visit(v)
	return w
}

// flagEdge is a CFG edge on which a boolean flag (a phi of constants) takes a constant value.
type flagEdge struct {
	From, To *ssa.BasicBlock
	Phi      *ssa.Phi
}

// flagSites lists the edges on which a phi of the web of flag receives the constant `val`.
func flagSites(flag ssa.Value, val bool) []flagEdge {
	var out []flagEdge
	for ph := range phiWeb(flag).Phis {
		for i, e := range ph.Edges {
			if IsConstBool(e, val) {
				out = append(out, flagEdge{ph.Block().Preds[i], ph.Block(), ph})
			}
		}
	}
	return out
}

// condsAt: branch outcomes known when control leaves `from` towards `to`.
func condsAt(from, to *ssa.BasicBlock) []Guard {
	gs := append([]Guard{}, Guards(from)...)
	if iff, ok := from.Instrs[len(from.Instrs)-1].(*ssa.If); ok && from.Succs[0] != from.Succs[1] && to != nil {
		gs = append(gs, Guard{iff.Cond, from.Succs[0] == to, from})
	}
	return gs
}

// boolFlagOf: the boolean phi a condition tests, and the outcome of the
// condition that means "flag is true" (handles `flag` and `!flag`).
func boolFlagOf(cond ssa.Value) (ssa.Value, bool, bool) {
	neg := false
	for {
		if u, ok := cond.(*ssa.UnOp); ok && u.Op == token.NOT {
			cond = u.X
			neg = !neg
			continue
		}
		break
	}
	if ph, ok := cond.(*ssa.Phi); ok {
		if b, ok := ph.Type().Underlying().(*types.Basic); ok && b.Kind() == types.Bool {
			return ph, !neg, true
		}
	}
	return nil, false, false
}

// fieldChainOn: cond-side term t is base.<path> with base being exactly the SSA value v.
func fieldChainOn(t *Term, v ssa.Value, path ...string) bool {
	for i := len(path) - 1; i >= 0; i-- {
		if t == nil || t.Op != "field" || t.Name != path[i] {
			return false
		}
		t = t.Args[0]
	}
	return t != nil && t.V == v
}

// fieldChainOnWeb: like fieldChainOn but the base may be any value of the phi web of v (or v itself).
func fieldChainOnWeb(t *Term, v ssa.Value, path ...string) bool {
	for i := len(path) - 1; i >= 0; i-- {
		if t == nil || t.Op != "field" || t.Name != path[i] {
			return false
		}
		t = t.Args[0]
	}
	if t == nil {
		return false
	}
	if t.V == v {
		return true
	}
	w := phiWeb(v)
	if ph, ok := t.V.(*ssa.Phi); ok && w.Phis[ph] {
		return true
	}
	for _, f := range w.Feeders {
		if f == t.V {
			return true
		}
	}
	// v itself may be in the web of t.V
	w2 := phiWeb(t.V)
	if ph, ok := v.(*ssa.Phi); ok && w2.Phis[ph] {
		return true
	}
	for _, f := range w2.Feeders {
		if f == v {
			return true
		}
	}
	return false
}

// eqCond: g asserts a == b (== taken true, or != taken false); returns the two operand terms.
func eqCond(tm *Termer, g Guard) (*Term, *Term, bool) {
	// any spelling: a == b taken true, a != b taken false, !(a != b), constants on either side
	x, y, op, ok := CmpFact(g.Cond, g.True)
	if ok && op == token.EQL {
		return tm.Of(x), tm.Of(y), true
	}
	return nil, nil, false
}

// neqCond: g asserts a != b.
func neqCond(tm *Termer, g Guard) (*Term, *Term, bool) {
	x, y, op, ok := CmpFact(g.Cond, g.True)
	if ok && op == token.NEQ {
		return tm.Of(x), tm.Of(y), true
	}
	return nil, nil, false
}

// boolFieldCond: g asserts base.<path> (a boolean field load) has value `want`.
func boolFieldCond(tm *Termer, g Guard, v ssa.Value, want bool, path ...string) bool {
	cond := g.Cond
	out := g.True
	for {
		if u, ok := cond.(*ssa.UnOp); ok && u.Op == token.NOT {
			cond = u.X
			out = !out
			continue
		}
		break
	}
	if out != want {
		return false
	}
	return fieldChainOn(tm.Of(cond), v, path...)
}

// definingInstr of a value, if any.
func definingInstr(v ssa.Value) ssa.Instruction {
	in, _ := v.(ssa.Instruction)
	return in
}

// loopGuardsOnly filters guards to those whose deciding block lies in loop l.
func loopGuardsOnly(gs []Guard, l *Loop) []Guard {
	var out []Guard
	for _, g := range gs {
		if l.Blocks[g.At] {
			out = append(out, g)
		}
	}
	return out
}

// isElemOfRecvField: t is recv.<field>[i].
func isElemOfRecvField(t *Term, field string) bool {
	return t != nil && t.Op == "elem" && t.Args[0].Op == "field" && t.Args[0].Name == field && t.Args[0].Args[0].Op == "recv"
}

func termsString(ts []*Term) string {
	var a []string
	for _, t := range ts {
		a = append(a, t.String())
	}
	return strings.Join(a, ", ")
}

// writeSet: the "Type.field"/kind facts a function writes through parameter idx (transitively).
func (p *Prog) writeSet(fn *ssa.Function, idx int) (map[string]WT, *WriteThrough) {
	w := p.allWT
	if w == nil {
		w = NewWriteThrough(p, p.SrcFuncs())
		p.allWT = w
	}
	out := map[string]WT{}
	for _, t := range w.W[fn] {
		if t.Param == idx {
			if _, ok := out[t.What]; !ok {
				out[t.What] = t
			}
		}
	}
	return out, w
}

// scanLoopOf: the innermost loop a block belongs to, counting `break` blocks
// (which lie outside the natural loop but are entered only from inside it) as
// part of the loop they leave.
func scanLoopOf(loops []*Loop, b *ssa.BasicBlock) *Loop {
	best := InnermostLoop(loops, b)
	x := b
	for steps := 0; steps < 4 && len(x.Preds) == 1; steps++ {
		x = x.Preds[0]
		if l := InnermostLoop(loops, x); l != nil && (best == nil || len(l.Blocks) < len(best.Blocks)) {
			best = l
		}
	}
	return best
}

// loopRangesOver: the loop's header condition is `i < len(<what>)`.
func loopRangesOver(tm *Termer, l *Loop, what string) bool {
	if l == nil {
		return false
	}
	iff, ok := l.Header.Instrs[len(l.Header.Instrs)-1].(*ssa.If)
	if !ok || len(l.Header.Succs) != 2 {
		return false
	}
	// the outcome that stays in the loop, stated as a comparison that holds: idx < len(what) in any spelling
	stay := l.Blocks[l.Header.Succs[0]]
	if stay == l.Blocks[l.Header.Succs[1]] {
		return false
	}
	x, y, op, ok := CmpFact(iff.Cond, stay)
	if !ok {
		return false
	}
	want := "len(" + what + ")"
	switch op {
	case token.LSS:
		return tm.Of(y).String() == want
	case token.GTR:
		return tm.Of(x).String() == want
	}
	return false
}
