package nc

import (
	"go/token"
	"go/types"
	"sort"

	"golang.org/x/tools/go/ssa"
)

// Helpers that let the C05 rules see through two equivalent shapes of a
// "search, then act" protocol:
//
//	(a) the search result is a boolean (an extracted `hasX(...) bool` helper, inlined by the
//	    normaliser, or a local flag) and the action is guarded by it: what is known at the action
//	    is what is known on every edge on which that boolean becomes true;
//	(b) the search result is the found element itself or nil (an extracted `findX() *T` helper with
//	    early returns): the acted-on value is a phi of candidates and nil, and what is known about a
//	    candidate is what is known on the edge on which it enters the phi.
//
// Both derive facts, they do not assume any: a fact is attributed to the action only if it holds on
// every way the flag can have become true, resp. for the very candidate value that flows into the action.

// stripCT removes type-only conversions.
func stripCT(v ssa.Value) ssa.Value {
	for {
		c, ok := v.(*ssa.ChangeType)
		if !ok {
			return v
		}
		v = c.X
	}
}

// defStrictlyDominatesWeb: the definition of v strictly dominates every phi of the web (or v has
// no defining block: parameter, constant, global). Then no phi of the web can carry a value across
// a re-execution of v's definition: a flag of the web that is true when read was set for the
// same dynamic instance of v that is visible at the reader (see the note at effGuards).
func defStrictlyDominatesWeb(v ssa.Value, web *phiWebT) bool {
	in, ok := v.(ssa.Instruction)
	if !ok || in.Block() == nil {
		return true
	}
	for ph := range web.Phis {
		if in.Block() == ph.Block() || !in.Block().Dominates(ph.Block()) {
			return false
		}
	}
	return true
}

func sameGuard(a, b Guard) bool { return a.Cond == b.Cond && a.True == b.True }

func intersectGuards(a, b []Guard) []Guard {
	var out []Guard
	for _, x := range a {
		for _, y := range b {
			if sameGuard(x, y) {
				out = append(out, x)
				break
			}
		}
	}
	return out
}

// effGuards: the branch outcomes known when block b executes, as Guards(b), extended through
// boolean flags: when b is guarded by `flag == true` and the flag is a phi web of constants only,
// the flag can be true only because control took one of the edges on which a phi of the web
// receives `true`; the outcomes known on all of those edges are then known at b as well.
//
// anchors are the SSA values the caller is going to relate the derived outcomes to (the object the
// action works on). A flag is looked through only if the definition of every anchor strictly
// dominates all phis of its web. Reason: an SSA name denotes a new value each time its definition
// runs; if def(v) strictly dominates the block of phi X and X is read at a block that X's block
// dominates, def(v) cannot run between the execution of X and that read (every path from def(v)
// to the reader would have to pass X's block again). Applied to every phi step from the `true`
// edge to the guard of b, the outcomes derived speak about the same v the action sees. A flag that
// is carried around a loop in which v is redefined does not qualify and is not looked through.
func effGuards(b *ssa.BasicBlock, anchors ...ssa.Value) []Guard {
	return expandFlagGuards(Guards(b), anchors, 0, map[*ssa.Phi]bool{})
}

// effCondsAt is condsAt with the same flag expansion.
func effCondsAt(from, to *ssa.BasicBlock, anchors ...ssa.Value) []Guard {
	return expandFlagGuards(condsAt(from, to), anchors, 0, map[*ssa.Phi]bool{})
}

func expandFlagGuards(gs []Guard, anchors []ssa.Value, depth int, busy map[*ssa.Phi]bool) []Guard {
	out := append([]Guard{}, gs...)
	if depth > 3 {
		return out
	}
	for _, g := range gs {
		// a pointer handed out of a lookup (`rec := find(...)`; `if rec != nil`): known non-nil means it entered its
		// phi web on one of the edges that carry a concrete value; what held on all of those edges holds here
		if bo, isB := g.Cond.(*ssa.BinOp); isB && (bo.Op == token.NEQ || bo.Op == token.EQL) {
			x, y := bo.X, bo.Y
			if k, isK := x.(*ssa.Const); isK && k.Value == nil {
				x, y = y, x
			}
			if k, isK := y.(*ssa.Const); isK && k.Value == nil && (bo.Op == token.NEQ) == g.True {
				if ph, isPhi := stripCT(x).(*ssa.Phi); isPhi && !busy[ph] && len(anchors) == 0 {
					sites, _ := ptrSites(ph)
					if len(sites) > 0 {
						var common []Guard
						busy[ph] = true
						for i, st := range sites {
							cs := expandFlagGuards(condsAt(st.From, st.To), anchors, depth+1, busy)
							if i == 0 {
								common = cs
							} else {
								common = intersectGuards(common, cs)
							}
						}
						delete(busy, ph)
						for _, c := range common {
							dup := false
							for _, o := range out {
								if sameGuard(o, c) {
									dup = true
								}
							}
							if !dup {
								out = append(out, c)
							}
						}
					}
				}
			}
		}
		f, w, ok := boolFlagOf(g.Cond)
		if !ok || g.True != w {
			continue
		}
		ph := f.(*ssa.Phi)
		if busy[ph] {
			continue
		}
		web := phiWeb(f)
		if len(web.Feeders) > 0 {
			// the flag can also be true by a computed value: nothing follows from it
			continue
		}
		stable := true
		for _, a := range anchors {
			if !defStrictlyDominatesWeb(a, web) {
				stable = false
			}
		}
		if !stable {
			continue
		}
		sites := flagSites(f, true)
		if len(sites) == 0 {
			continue
		}
		var common []Guard
		busy[ph] = true
		for i, s := range sites {
			cs := expandFlagGuards(condsAt(s.From, s.To), anchors, depth+1, busy)
			if i == 0 {
				common = cs
			} else {
				common = intersectGuards(common, cs)
			}
		}
		delete(busy, ph)
		for _, c := range common {
			dup := false
			for _, o := range out {
				if sameGuard(o, c) {
					dup = true
				}
			}
			if !dup {
				out = append(out, c)
			}
		}
	}
	return out
}

// ptrSite is a CFG edge on which a phi of a pointer web receives a concrete (non-phi, non-nil-constant) value.
type ptrSite struct {
	From, To *ssa.BasicBlock
	Phi      *ssa.Phi
	Val      ssa.Value
}

// ptrSites lists every edge on which a phi of the web of v receives a concrete value, and whether
// some phi of the web receives the nil constant. A non-nil value of the web has entered it on one of
// these edges and is that edge's Val.
func ptrSites(v ssa.Value) (sites []ptrSite, hasNil bool) {
	web := phiWeb(v)
	for _, in := range orderedPhis(web) {
		for i, e := range in.Edges {
			x := stripCT(e)
			if _, isPhi := x.(*ssa.Phi); isPhi {
				continue
			}
			if c, ok := x.(*ssa.Const); ok {
				if c.Value == nil {
					hasNil = true
				}
				continue
			}
			sites = append(sites, ptrSite{in.Block().Preds[i], in.Block(), in, x})
		}
	}
	return sites, hasNil
}

// orderedPhis: the phis of a web in block order (deterministic reports).
func orderedPhis(web *phiWebT) []*ssa.Phi {
	var out []*ssa.Phi
	for ph := range web.Phis {
		out = append(out, ph)
	}
	for i := 1; i < len(out); i++ {
		for j := i; j > 0 && phiBefore(out[j], out[j-1]); j-- {
			out[j], out[j-1] = out[j-1], out[j]
		}
	}
	return out
}

func phiBefore(a, b *ssa.Phi) bool {
	if a.Block() != b.Block() {
		return a.Block().Index < b.Block().Index
	}
	return instrIndex(a) < instrIndex(b)
}

// nonNilGuarded: block b runs only when a phi of the web of v (or v itself) was compared with nil and found non-nil.
func nonNilGuarded(b *ssa.BasicBlock, v ssa.Value) bool {
	web := phiWeb(v)
	inWeb := func(x ssa.Value) bool {
		x = stripCT(x)
		if x == stripCT(v) {
			return true
		}
		ph, ok := x.(*ssa.Phi)
		return ok && web.Phis[ph]
	}
	for _, g := range Guards(b) {
		bo, ok := g.Cond.(*ssa.BinOp)
		if !ok {
			continue
		}
		nonNil := (bo.Op == token.NEQ && g.True) || (bo.Op == token.EQL && !g.True)
		if !nonNil {
			continue
		}
		for _, pr := range [][2]ssa.Value{{bo.X, bo.Y}, {bo.Y, bo.X}} {
			if c, isC := pr[1].(*ssa.Const); isC && c.Value == nil && isPointerLike(c.Type()) && inWeb(pr[0]) {
				return true
			}
		}
	}
	return false
}

// selCase: one concrete object an action on the value G can touch, with the branch outcomes known
// for it. When G is an ordinary value there is one case (G itself, the effective guards of the
// action). When G is a phi of candidates (result of a lookup that returns the element or nil) there
// is one case per edge on which a candidate enters the phi: the outcomes known on that edge were
// established for that very pointer, which is what the action later dereferences.
type selCase struct {
	Cand  ssa.Value
	Conds []Guard
	Site  *ptrSite // nil when the action names the candidate directly
}

func selCases(actionBlock *ssa.BasicBlock, G ssa.Value) []selCase {
	g := stripCT(G)
	if _, isPhi := g.(*ssa.Phi); !isPhi {
		// the element at an index found by a scan (`k := -1; for ... { k = i; break }; if k >= 0 { xs[k]... }`)
		if cs := idxSelCases(actionBlock, g); len(cs) > 0 {
			return cs
		}
		return []selCase{{Cand: g, Conds: effGuards(actionBlock, g)}}
	}
	sites, _ := ptrSites(g)
	var out []selCase
	for i := range sites {
		s := sites[i]
		conds := append([]Guard{}, Guards(actionBlock)...)
		conds = append(conds, effCondsAt(s.From, s.To, s.Val)...)
		out = append(out, selCase{Cand: s.Val, Conds: conds, Site: &s})
	}
	return out
}

// nilOutcomeRefuted: the path takes a branch that needs the value x to be nil although, resolved
// along the path, x is the result of a call that allocates its result (constructor summary) or an
// allocation. The constant tracking of the path enumeration knows nil constants but not
// constructor results, so such paths are enumerated although they cannot be taken.
func nilOutcomeRefuted(ip *IterPath, sums *Summaries) bool {
	pos := 0
	for _, g := range ip.Conds {
		for pos < len(ip.Blocks) && ip.Blocks[pos] != g.At {
			pos++
		}
		if pos >= len(ip.Blocks) {
			return false
		}
		sub := &IterPath{Blocks: ip.Blocks[:pos+1], End: "partial"}
		pos++
		bo, ok := g.Cond.(*ssa.BinOp)
		if !ok || (bo.Op != token.EQL && bo.Op != token.NEQ) {
			continue
		}
		if isNil := (bo.Op == token.EQL) == g.True; !isNil {
			continue
		}
		for _, pr := range [][2]ssa.Value{{bo.X, bo.Y}, {bo.Y, bo.X}} {
			c, isC := pr[1].(*ssa.Const)
			if !isC || c.Value != nil || !isPointerLike(c.Type()) {
				continue
			}
			switch x := stripCT(sub.Resolve(stripCT(pr[0]))).(type) {
			case *ssa.Alloc, *ssa.MakeSlice, *ssa.MakeMap, *ssa.MakeInterface:
				return true
			case *ssa.Call:
				if callee := x.Call.StaticCallee(); callee != nil && callee.Blocks != nil {
					if sm := sums.Ctor(callee); sm.Why == "" && sm.Fresh {
						return true
					}
				}
			}
		}
	}
	return false
}

// checkEveryTarget (C05.3, connect.every-target): in the loop that holds the gene insertion, an
// iteration ends in one of three ways only - the skip flag was true (link exists) resp. the
// existing-link scan was left on a hit edge (sg, the form without a flag), the insertion ran, or the
// function returned.
func (r *Run) checkEveryTarget(sums *Summaries, fn *ssa.Function, loops []*Loop, insert ssa.CallInstruction, skip ssa.Value, sg *scanGuard) {
	p := r.P
	tl := InnermostLoop(loops, insert.Block())
	if tl == nil {
		r.Bad("connect.every-target", p.Pos(insert.Pos()), "the gene insertion does not sit in a loop over the targets")
		return
	}
	paths, complete := EnumIterPaths(fn, tl, 50000)
	if !complete {
		r.Undecided("connect.every-target", p.Pos(insert.Pos()), "too many paths through one iteration of the target loop")
		return
	}
	var skipWeb *phiWebT
	if skip != nil {
		skipWeb = phiWeb(skip)
	}
	var witness *IterPath
	for _, ip := range paths {
		r.PathsExplored++
		if ip.End == "return" || ip.OnPath(insert) {
			continue
		}
		skipped := false
		if skipWeb != nil {
			for _, g := range ip.Conds {
				if f, w, ok := boolFlagOf(g.Cond); ok && g.True == w {
					if ph, isPhi := f.(*ssa.Phi); isPhi && (f == skip || skipWeb.Phis[ph]) {
						skipped = true
					}
				}
			}
		}
		if sg != nil {
			// flag-free form: the iteration left the existing-link scan on one of its hit edges
			for _, h := range sg.Hits {
				if ip.takesEdge(h.From, h.To) {
					skipped = true
				}
			}
		}
		if skipped || nilOutcomeRefuted(ip, sums) {
			continue
		}
		witness = ip
		break
	}
	var path []string
	if witness != nil {
		path = witness.Describe(p)
	}
	r.Check(witness == nil, "connect.every-target", p.Pos(insert.Pos()), "every target without an existing link gets a gene (or the mutation is abandoned by returning)",
		"a target for which no link sensor->target exists can be passed over without a gene being created and inserted (one iteration of the target loop that neither finds the link, nor inserts, nor returns)", path...)
}

// ---------------------------------------------------------------------------
// Second robustness round: value identity of repeated loads, scans in any
// loop form, and "search, then act" protocols written without a flag
// (labelled continue / early return out of the scan).

// memPure: executing the instruction cannot change memory that existed before it (it may allocate).
func memPure(in ssa.Instruction) bool {
	switch x := in.(type) {
	case *ssa.UnOp:
		return x.Op != token.ARROW
	case *ssa.BinOp, *ssa.FieldAddr, *ssa.IndexAddr, *ssa.Field, *ssa.Index, *ssa.Phi, *ssa.If, *ssa.Jump,
		*ssa.Convert, *ssa.ChangeType, *ssa.ChangeInterface, *ssa.Slice, *ssa.Extract, *ssa.TypeAssert, *ssa.MakeInterface,
		*ssa.Lookup, *ssa.Alloc, *ssa.MakeSlice, *ssa.MakeMap, *ssa.DebugRef, *ssa.Return:
		_ = x
		return true
	case *ssa.Call:
		if b, ok := x.Call.Value.(*ssa.Builtin); ok && (b.Name() == "len" || b.Name() == "cap") {
			return true
		}
	}
	return false
}

// loadChain: v is a load whose address is built from field/index steps over parameters, constants and
// further loads; returns the loads involved (v included). ok is false for anything else.
func loadChain(v ssa.Value) (loads []*ssa.UnOp, ok bool) {
	u, isU := v.(*ssa.UnOp)
	if !isU || u.Op != token.MUL {
		return nil, false
	}
	loads = append(loads, u)
	addr := u.X
	for depth := 0; depth < 12; depth++ {
		switch a := addr.(type) {
		case *ssa.FieldAddr:
			addr = a.X
		case *ssa.IndexAddr:
			addr = a.X
		case *ssa.Parameter:
			return loads, true
		case *ssa.UnOp:
			if a.Op != token.MUL {
				return nil, false
			}
			loads = append(loads, a)
			addr = a.X
		default:
			return nil, false
		}
	}
	return nil, false
}

// sameAddrShape: the two address computations perform the same steps (same fields, the same SSA
// values as indices) starting from the same parameter, reading the intermediate pointers by loads.
func sameLoadShape(x, y ssa.Value) bool {
	for depth := 0; depth < 24; depth++ {
		if x == y {
			return true
		}
		switch a := x.(type) {
		case *ssa.UnOp:
			b, ok := y.(*ssa.UnOp)
			if !ok || a.Op != token.MUL || b.Op != token.MUL {
				return false
			}
			x, y = a.X, b.X
		case *ssa.FieldAddr:
			b, ok := y.(*ssa.FieldAddr)
			if !ok || a.Field != b.Field {
				return false
			}
			x, y = a.X, b.X
		case *ssa.IndexAddr:
			b, ok := y.(*ssa.IndexAddr)
			if !ok {
				return false
			}
			if a.Index != b.Index {
				ka, oka := constInt(a.Index)
				kb, okb := constInt(b.Index)
				if !oka || !okb || ka != kb {
					return false
				}
			}
			x, y = a.X, b.X
		default:
			return false
		}
	}
	return false
}

// sameLoad: a and b are loads of the same memory location (same access path from a parameter, the
// same SSA values as indices), a is evaluated before b whenever b is evaluated, and no instruction
// that can write memory lies on any way from a to b. Then, when b is evaluated, it yields the value
// a yielded at its latest evaluation:
//   - the blocks between the latest execution of a and the execution of b are all in the region checked
//     (blocks reachable from a's block and reaching b's block without re-entering a's block), so every
//     location read by either chain is unchanged;
//   - an index value shared by both chains is defined in a block dominating a's block; every path from
//     that definition to b passes a (a's block dominates b's), so the latest a saw the same instance.
func sameLoad(a, b ssa.Value) bool {
	a, b = stripCT(a), stripCT(b)
	if a == b {
		return true
	}
	la, okA := loadChain(a)
	lb, okB := loadChain(b)
	if !okA || !okB || !sameLoadShape(a, b) {
		return false
	}
	A, B := la[0].Block(), lb[0].Block()
	if A == nil || B == nil {
		return false
	}
	for _, l := range la {
		if l.Block() != A {
			return false
		}
	}
	for _, l := range lb {
		if l.Block() != B {
			return false
		}
	}
	// every value used as an index is defined outside or before the first load of a
	first := instrIndex(la[len(la)-1])
	for _, l := range la {
		if i := instrIndex(l); i < first {
			first = i
		}
	}
	lastB := instrIndex(lb[0])
	if A == B {
		if first >= lastB {
			return false
		}
		for i := first; i < lastB; i++ {
			if !memPure(A.Instrs[i]) {
				return false
			}
		}
		return true
	}
	if !A.Dominates(B) {
		return false
	}
	for i := first; i < len(A.Instrs); i++ {
		if !memPure(A.Instrs[i]) {
			return false
		}
	}
	// forward from A without re-entering A
	fwd := map[*ssa.BasicBlock]bool{}
	stack := append([]*ssa.BasicBlock{}, A.Succs...)
	for len(stack) > 0 {
		x := stack[len(stack)-1]
		stack = stack[:len(stack)-1]
		if x == A || fwd[x] {
			continue
		}
		fwd[x] = true
		stack = append(stack, x.Succs...)
	}
	// backward from B without entering A
	bwd := map[*ssa.BasicBlock]bool{}
	stack = append([]*ssa.BasicBlock{}, B.Preds...)
	for len(stack) > 0 {
		x := stack[len(stack)-1]
		stack = stack[:len(stack)-1]
		if x == A || bwd[x] {
			continue
		}
		bwd[x] = true
		stack = append(stack, x.Preds...)
	}
	for x := range fwd {
		if !bwd[x] {
			continue
		}
		// x lies between a and b (x == B here means B can be re-executed without passing a: all of it counts)
		for _, in := range x.Instrs {
			if !memPure(in) {
				return false
			}
		}
	}
	for i := 0; i < lastB; i++ {
		if !memPure(B.Instrs[i]) {
			return false
		}
	}
	return true
}

// boolFieldCondSame is boolFieldCond where the object the condition reads may be named by another
// load of the same location as v (see sameLoad) - `if xs[i].F { continue }; xs[i].F = ...`.
func boolFieldCondSame(tm *Termer, g Guard, v ssa.Value, want bool, path ...string) bool {
	if boolFieldCond(tm, g, v, want, path...) {
		return true
	}
	cond, out := c13StripNot(g.Cond)
	outcome := g.True
	if out {
		outcome = !outcome
	}
	if outcome != want {
		return false
	}
	t := tm.Of(cond)
	for i := len(path) - 1; i >= 0; i-- {
		if t == nil || t.Op != "field" || t.Name != path[i] {
			return false
		}
		t = t.Args[0]
	}
	return t != nil && t.V != nil && sameLoad(t.V, v)
}

// scanFromZero: l is a loop that visits the indices 0, 1, 2, ... in this order while index < bound,
// written as a range loop (counter starts at -1 and is advanced before the test) or as a counted loop
// (counter starts at 0 and is advanced on every way back to the header). idx is the SSA value holding
// the index of the current iteration inside the body. Exits out of the body (break, return, continue
// of an outer loop) do not matter: an iteration with index k is reached only after the iterations
// 0..k-1 went back to the header.
func scanFromZero(l *Loop) (idx, bound ssa.Value, ok bool) {
	if l == nil || len(l.Header.Instrs) == 0 || len(l.Header.Succs) != 2 {
		return nil, nil, false
	}
	iff, isIf := l.Header.Instrs[len(l.Header.Instrs)-1].(*ssa.If)
	if !isIf {
		return nil, nil, false
	}
	var stay bool
	switch {
	case l.Blocks[l.Header.Succs[0]] && !l.Blocks[l.Header.Succs[1]]:
		stay = true
	case !l.Blocks[l.Header.Succs[0]] && l.Blocks[l.Header.Succs[1]]:
		stay = false
	default:
		return nil, nil, false
	}
	x, y, isLess := c13LessThan(iff.Cond, stay)
	if !isLess {
		return nil, nil, false
	}
	entryAll := func(ph *ssa.Phi, want int64, step func(e ssa.Value) bool) bool {
		nIn, nEntry := 0, 0
		for i, e := range ph.Edges {
			if l.Blocks[l.Header.Preds[i]] {
				nIn++
				if !step(e) {
					return false
				}
			} else {
				nEntry++
				if k, isK := constInt(e); !isK || k != want {
					return false
				}
			}
		}
		return nIn > 0 && nEntry > 0
	}
	// counted form
	if ph, isPhi := x.(*ssa.Phi); isPhi && ph.Block() == l.Header {
		if entryAll(ph, 0, func(e ssa.Value) bool { return c13IsPlusOne(e, ph) }) {
			return ph, y, true
		}
		return nil, nil, false
	}
	// range form: x = ph + 1 computed in the header, ph receives x on every way back
	if add, isAdd := x.(*ssa.BinOp); isAdd && add.Block() == l.Header {
		for _, op := range []ssa.Value{add.X, add.Y} {
			ph, isPhi := op.(*ssa.Phi)
			if !isPhi || ph.Block() != l.Header || !c13IsPlusOne(add, ph) {
				continue
			}
			if entryAll(ph, -1, func(e ssa.Value) bool { return e == ssa.Value(add) }) {
				return add, y, true
			}
		}
	}
	return nil, nil, false
}

// c05WholeWalk: loop l visits EVERY element of one list - the indices 0, 1, 2, ... in this order (scanFromZero)
// up to the list's length - and elem, if given, is the element at the index of the current iteration. list, if
// given, is the term the list must have (`recv.Genes`): the length and the element may then be taken from two
// loads of it (`k < len(g.Genes)` ... `g.Genes[k]`); a local list is identified by its SSA value. The answer
// is "" or what is missing. A loop that starts at 1, stops before the end or reads a fixed element leaves
// elements out: a scan that is to exclude `some gene ...` then proves nothing, and a loop that is to act on
// every target does not.
func c05WholeWalk(tm *Termer, l *Loop, elem ssa.Value, list string) string {
	idx, bound, ok := scanFromZero(l)
	if !ok {
		return "the loop does not visit the indices 0, 1, 2, ... one by one while the index is below a bound"
	}
	over := c02LenOf(stripCT(bound))
	if over == nil {
		return "the loop's bound is not the length of a list"
	}
	if list != "" && tm.Of(over).String() != list {
		return "the loop's bound is not the length of " + list
	}
	if elem == nil {
		return ""
	}
	u, isLoad := stripCT(elem).(*ssa.UnOp)
	if !isLoad || u.Op != token.MUL {
		return "the element is not read from the list at the loop's index"
	}
	ia, isIA := u.X.(*ssa.IndexAddr)
	if !isIA || stripCT(ia.Index) != stripCT(idx) {
		return "the element is not read from the list at the loop's index"
	}
	if ia.X != over && !(list != "" && tm.Of(ia.X).String() == list) {
		return "the loop's bound is the length of another list than the one the element is read from"
	}
	return ""
}

// c05ScanIndex: the index value of the current iteration of a from-zero scan (nil when l is none).
func c05ScanIndex(l *Loop) ssa.Value {
	if l == nil {
		return nil
	}
	idx, _, ok := scanFromZero(l)
	if !ok {
		return nil
	}
	return idx
}

// c05AtIndex: the list element the term stands for is not known to be read at another index than idx (a
// comparison of `g.Genes[0]` inside a scan says nothing about the gene of the current iteration).
func c05AtIndex(elem *Term, idx ssa.Value) bool {
	if elem == nil || elem.V == nil || idx == nil {
		return true
	}
	ix := elemIndexOf(elem.V)
	return ix == nil || stripCT(ix) == stripCT(idx)
}

// elemIndexOf: v is the load `*(&xs[i])` (or xs[i] of an array value); returns i.
func elemIndexOf(v ssa.Value) ssa.Value {
	switch x := stripCT(v).(type) {
	case *ssa.UnOp:
		if ia, ok := x.X.(*ssa.IndexAddr); ok && x.Op == token.MUL {
			return ia.Index
		}
	case *ssa.Index:
		return x.Index
	}
	return nil
}

// scanGuard: the action runs only after the scan loop L ran to exhaustion; Hits are the edges on
// which the scan is left from its body (the "found" outcomes).
type scanGuard struct {
	L    *Loop
	Hits []flagEdge
}

// exhaustedScanBefore finds the scan over `over` (a loop whose header tests i < len(over)) that must
// have run to exhaustion for `action` to execute. This is the flag-free form of
//
//	found := false; for ... { if hit { found = true; break } }; if !found { action }
//
// namely `for ... { if hit { continue outer / return } }; action`. Established when non-nil:
//   - the header of L dominates the action and the action is outside L, so a scan precedes the action;
//   - from no edge that leaves the body of L (a hit) the action can be reached without passing the header
//     of L again (flag-sensitive search, so the flag form qualifies too). Hence after the last visit of
//     the header before the action the loop was left through the header's own exit: the bound was reached.
//
// pinned are values the hit conditions speak about (the examined sensor / target): their definitions
// must lie outside L and dominate its header, so the whole scan - from its entry to the exhaustion -
// ran for the instance of the value that the action sees (L is a natural loop: it is entered through
// its header only, and the definitions are not re-executed inside it).
func (r *Run) exhaustedScanBefore(fn *ssa.Function, tm *Termer, loops []*Loop, action ssa.Instruction, over string, pinned ...ssa.Value) *scanGuard {
	ab := action.Block()
	var best *scanGuard
	for _, l := range loops {
		if !loopRangesOver(tm, l, over) || l.Blocks[ab] || !l.Header.Dominates(ab) {
			continue
		}
		okPinned := true
		for _, v := range pinned {
			if in, isIn := v.(ssa.Instruction); isIn && in.Block() != nil {
				if l.Blocks[in.Block()] || !in.Block().Dominates(l.Header) {
					okPinned = false
				}
			}
		}
		if !okPinned {
			continue
		}
		var blocks []*ssa.BasicBlock
		for b := range l.Blocks {
			blocks = append(blocks, b)
		}
		sort.Slice(blocks, func(i, j int) bool { return blocks[i].Index < blocks[j].Index })
		sg := &scanGuard{L: l}
		for _, b := range blocks {
			if b == l.Header {
				continue
			}
			for _, s := range b.Succs {
				if !l.Blocks[s] {
					sg.Hits = append(sg.Hits, flagEdge{b, s, nil})
				}
			}
		}
		if len(sg.Hits) == 0 {
			continue
		}
		ok := true
		for _, h := range sg.Hits {
			path := FindPath(r.P, PathQuery{Fn: fn, StartEdge: [2]*ssa.BasicBlock{h.From, h.To}, Explored: &r.PathsExplored,
				Target: func(in ssa.Instruction) bool { return in == action },
				Avoid:  func(in ssa.Instruction) bool { return in.Block() == l.Header }})
			if path != nil {
				ok = false
				break
			}
		}
		if !ok {
			continue
		}
		// the scan closest to the action
		if best == nil || best.L.Header.Dominates(l.Header) {
			best = sg
		}
	}
	return best
}

// takesEdge: the iteration path walks the CFG edge from->to.
func (ip *IterPath) takesEdge(from, to *ssa.BasicBlock) bool {
	for i := 0; i+1 < len(ip.Blocks); i++ {
		if ip.Blocks[i] == from && ip.Blocks[i+1] == to {
			return true
		}
	}
	return false
}

// ---------------------------------------------------------------------------
// Fifth robustness round: values carried by a by-value struct local.
//
// `var split nodeSplit; ...; split = newNodeSplit(..)` (helper expanded in place by the normaliser) keeps
// the objects a mutator is about to insert in the fields of a struct-valued local instead of in three
// SSA-promoted variables. go/ssa does not promote such a local: the inserted value is a load of a field
// address of an Alloc. c05Web is phiWeb that also looks through such loads.
//
// What it claims: when the local is private (structLocals: its address is used for nothing but field
// loads/stores and whole-struct loads/stores, so no other code can write it), a read of field f of the
// local yields a value that some store put there - a store to that field, the field f of a whole struct
// stored into the local (followed into the source local when that is a private struct local of the same
// type, an opaque feeder otherwise) - or the zero value from the creation of the local. The feeder set is
// therefore a superset (flow-insensitive) of the values the read can see; rules that demand something of
// EVERY feeder (origin, constructor arguments) stay sound, and a store of anything else into the field
// shows up as a foreign feeder exactly as a foreign phi edge would.
func c05Web(v ssa.Value) *phiWebT {
	w := &phiWebT{Phis: map[*ssa.Phi]bool{}}
	seen := map[ssa.Value]bool{}
	seenCell := map[localCell]bool{}
	var locals map[*ssa.Alloc]bool
	var fn *ssa.Function
	if in, ok := v.(ssa.Instruction); ok {
		fn = in.Parent()
	}
	if fn != nil {
		locals = structLocals(fn)
	}
	var visit func(x ssa.Value)
	zero := func(c localCell) {
		z := zeroScalarConst(c.typ())
		if k, ok := z.(*ssa.Const); ok && k != nil {
			if k.Value == nil {
				w.HasNil = true
			} else {
				w.Consts = append(w.Consts, k)
			}
			return
		}
		// a field of composite type that was never written: nothing the rules could recognise
		w.Feeders = append(w.Feeders, c.a)
	}
	var visitCell func(c localCell)
	visitCell = func(c localCell) {
		if seenCell[c] {
			return
		}
		seenCell[c] = true
		zero(c) // the local coming into being
		Instrs(fn, func(_ *ssa.BasicBlock, _ int, in ssa.Instruction) {
			st, ok := in.(*ssa.Store)
			if !ok {
				return
			}
			if cc, isCell := cellOfAddr(locals, st.Addr); isCell && cc == c {
				visit(st.Val)
				return
			}
			if st.Addr != ssa.Value(c.a) {
				return
			}
			switch y := st.Val.(type) {
			case *ssa.Const:
				zero(c)
			case *ssa.UnOp:
				src, isLocal := y.X.(*ssa.Alloc)
				if y.Op == token.MUL && isLocal && locals[src] && types.Identical(deref(src.Type()), deref(c.a.Type())) {
					visitCell(localCell{src, c.f})
					return
				}
				w.Feeders = append(w.Feeders, st.Val)
			default:
				w.Feeders = append(w.Feeders, st.Val)
			}
		})
	}
	visit = func(x ssa.Value) {
		if seen[x] {
			return
		}
		seen[x] = true
		switch y := x.(type) {
		case *ssa.ChangeType:
			visit(y.X)
		case *ssa.Phi:
			w.Phis[y] = true
			for _, e := range y.Edges {
				visit(e)
			}
		case *ssa.Const:
			if y.Value == nil {
				w.HasNil = true
			} else {
				w.Consts = append(w.Consts, y)
			}
		default:
			if c, ok := cellOfLoad(locals, x); ok {
				visitCell(c)
				return
			}
			// field f of a whole-struct read of a private local
			if f, ok := x.(*ssa.Field); ok {
				if u, isU := f.X.(*ssa.UnOp); isU && u.Op == token.MUL {
					if a, isA := u.X.(*ssa.Alloc); isA && locals[a] {
						visitCell(localCell{a, f.Field})
						return
					}
				}
			}
			w.Feeders = append(w.Feeders, x)
		}
	}
	visit(v)
	return w
}

// ---------------------------------------------------------------------------
// "Search for an index, then act on xs[index]" (what slices.IndexFunc leaves once it is expanded into
// its loop, or the same written by hand):
//
//	k := -1; for i := range xs { if hit(xs[i]) { k = i; break } }; if k >= 0 { act on xs[k] }
//
// The object acted on is named by a NEW load xs[k] after the scan, k a phi of sentinel constants and
// scan indices. idxSelCases turns this into the same case list selCases produces for a lookup that
// hands out the element: one case per edge on which a scan index enters k, whose candidate is the
// element the scan itself loaded at that index (the value the hit conditions were evaluated on).
// Established for each case (see c05SameElem): the action's load yields the very pointer the scan
// loaded, because no instruction that can write memory lies between the two and the index is the same.

// c05ConstRefuted: some branch outcome in gs compares ph itself with a constant and is false for ph == k.
func c05ConstRefuted(gs []Guard, ph *ssa.Phi, k int64) bool {
	for _, g := range gs {
		x, y, op, ok := CmpFact(g.Cond, g.True)
		if !ok || x != ssa.Value(ph) {
			continue
		}
		c, isInt := constInt(y)
		if !isInt {
			continue
		}
		var holds bool
		switch op {
		case token.EQL:
			holds = k == c
		case token.NEQ:
			holds = k != c
		case token.LSS:
			holds = k < c
		case token.LEQ:
			holds = k <= c
		case token.GTR:
			holds = k > c
		case token.GEQ:
			holds = k >= c
		default:
			continue
		}
		if !holds {
			return true
		}
	}
	return false
}

// c05SameShapeSubst is sameLoadShape where the index ix on the x side corresponds to iy on the y side;
// every other index must be the same constant on both sides.
func c05SameShapeSubst(x, y, ix, iy ssa.Value) bool {
	for depth := 0; depth < 24; depth++ {
		if x == y {
			return true
		}
		switch a := x.(type) {
		case *ssa.UnOp:
			b, ok := y.(*ssa.UnOp)
			if !ok || a.Op != token.MUL || b.Op != token.MUL {
				return false
			}
			x, y = a.X, b.X
		case *ssa.FieldAddr:
			b, ok := y.(*ssa.FieldAddr)
			if !ok || a.Field != b.Field {
				return false
			}
			x, y = a.X, b.X
		case *ssa.IndexAddr:
			b, ok := y.(*ssa.IndexAddr)
			if !ok {
				return false
			}
			if !(a.Index == ix && b.Index == iy) {
				ka, oka := constInt(a.Index)
				kb, okb := constInt(b.Index)
				if !oka || !okb || ka != kb {
					return false
				}
			}
			x, y = a.X, b.X
		default:
			return false
		}
	}
	return false
}

// c05PureFrom: no instruction that can write memory executes between the latest execution of
// E.Instrs[first] and an execution of B.Instrs[lastB] that follows it (B != E). All blocks control can
// pass in between are those reachable from E and reaching B without re-entering E.
func c05PureFrom(E *ssa.BasicBlock, first int, B *ssa.BasicBlock, lastB int) bool {
	if E == nil || B == nil || E == B || !E.Dominates(B) {
		return false
	}
	for i := first; i < len(E.Instrs); i++ {
		if !memPure(E.Instrs[i]) {
			return false
		}
	}
	fwd := map[*ssa.BasicBlock]bool{}
	stack := append([]*ssa.BasicBlock{}, E.Succs...)
	for len(stack) > 0 {
		x := stack[len(stack)-1]
		stack = stack[:len(stack)-1]
		if x == E || fwd[x] {
			continue
		}
		fwd[x] = true
		stack = append(stack, x.Succs...)
	}
	bwd := map[*ssa.BasicBlock]bool{}
	stack = append([]*ssa.BasicBlock{}, B.Preds...)
	for len(stack) > 0 {
		x := stack[len(stack)-1]
		stack = stack[:len(stack)-1]
		if x == E || bwd[x] {
			continue
		}
		bwd[x] = true
		stack = append(stack, x.Preds...)
	}
	for x := range fwd {
		if !bwd[x] {
			continue
		}
		for _, in := range x.Instrs {
			if !memPure(in) {
				return false
			}
		}
	}
	for i := 0; i < lastB && i < len(B.Instrs); i++ {
		if !memPure(B.Instrs[i]) {
			return false
		}
	}
	return true
}

// c05SameElem: a (a load `xs[ia]` made by the scan) and b (the load `xs[ib]` the action makes, ib a phi of
// the integer web `web`) yield the same value whenever ib holds the instance of ia that entered the web
// over an edge leaving block `from`. Let E be the block of the first load of a's access path (the load next
// to the parameter). Required:
//   - both access paths perform the same steps from the same parameter (ia against ib, constants otherwise);
//   - E dominates every load of both paths, a's block dominates `from`, and E strictly dominates every phi of
//     the web. If X dominates Y dominates Z (X != Y), every path from an execution of X to Z passes Y (else an
//     entry path to X avoiding Y, which exists, would extend to one reaching Z without Y). Hence, counted from
//     the latest execution of E: a's loads, the definition of ia, the traversal of the edge out of `from`,
//     every phi step of the web up to ib, and b's loads all happen after it, in this order of dependence,
//     and ib holds the ia instance a was loaded with;
//   - no instruction between that execution of E and b can write memory (c05PureFrom), so both access paths
//     read the same, unchanged locations.
func c05SameElem(a, b *ssa.UnOp, ia, ib ssa.Value, from *ssa.BasicBlock, web *phiWebT) bool {
	la, okA := loadChain(a)
	lb, okB := loadChain(b)
	if !okA || !okB || !c05SameShapeSubst(a, b, ia, ib) {
		return false
	}
	base := la[len(la)-1]
	E, first := base.Block(), instrIndex(base)
	if E == nil || a.Block() == nil || !a.Block().Dominates(from) {
		return false
	}
	for _, l := range append(append([]*ssa.UnOp{}, la...), lb...) {
		if l.Block() == nil || !E.Dominates(l.Block()) || (l.Block() == E && instrIndex(l) < first) {
			return false
		}
	}
	for q := range web.Phis {
		if q.Block() == E || !E.Dominates(q.Block()) {
			return false
		}
	}
	return c05PureFrom(E, first, b.Block(), instrIndex(b))
}

// idxSelCases: see the note above. nil when G is not of that form or one of the facts cannot be established.
func idxSelCases(actionBlock *ssa.BasicBlock, G ssa.Value) []selCase {
	g, ok := stripCT(G).(*ssa.UnOp)
	if !ok || g.Op != token.MUL {
		return nil
	}
	ia, ok := g.X.(*ssa.IndexAddr)
	if !ok {
		return nil
	}
	ph, ok := ia.Index.(*ssa.Phi)
	if !ok {
		return nil
	}
	web := phiWeb(ph)
	gs := Guards(actionBlock)
	// every sentinel the index variable can hold is excluded where the action runs (the outcome was evaluated on
	// the instance of ph the action uses: ph's block dominates the deciding block, which dominates the action)
	for _, k := range web.Consts {
		kv, isInt := constInt(k)
		if !isInt || !c05ConstRefuted(gs, ph, kv) {
			return nil
		}
	}
	var out []selCase
	for _, q := range orderedPhis(web) {
		for i, e := range q.Edges {
			if _, isPhi := e.(*ssa.Phi); isPhi {
				continue
			}
			if _, isC := e.(*ssa.Const); isC {
				continue
			}
			from := q.Block().Preds[i]
			var cand ssa.Value
			if refs := e.Referrers(); refs != nil {
				for _, r := range *refs {
					xa, isIA := r.(*ssa.IndexAddr)
					if !isIA || xa.Index != e || xa.Referrers() == nil {
						continue
					}
					for _, r2 := range *xa.Referrers() {
						if ld, isLd := r2.(*ssa.UnOp); isLd && ld.Op == token.MUL && cand == nil && c05SameElem(ld, g, e, ph, from, web) {
							cand = ld
						}
					}
				}
			}
			if cand == nil {
				return nil
			}
			s := ptrSite{from, q.Block(), q, cand}
			conds := append([]Guard{}, gs...)
			conds = append(conds, effCondsAt(from, q.Block(), cand)...)
			out = append(out, selCase{Cand: cand, Conds: conds, Site: &s})
		}
	}
	return out
}

// c05SameCellRead: x and y are the same SSA value, or two reads of the same field of a private by-value struct
// local made in one block with no write to that field (or to the whole local) between them: both yield the
// value of the last store before the first read.
func c05SameCellRead(x, y ssa.Value) bool {
	if x == y {
		return true
	}
	xi, okX := x.(ssa.Instruction)
	yi, okY := y.(ssa.Instruction)
	if !okX || !okY || xi.Parent() == nil || xi.Block() == nil || xi.Block() != yi.Block() {
		return false
	}
	locals := structLocals(xi.Parent())
	cx, isX := cellOfLoad(locals, x)
	cy, isY := cellOfLoad(locals, y)
	if !isX || !isY || cx != cy {
		return false
	}
	i, j := instrIndex(xi), instrIndex(yi)
	if i > j {
		i, j = j, i
	}
	for k := i; k <= j; k++ {
		if writesCell(locals, xi.Block().Instrs[k], cx) {
			return false
		}
	}
	return true
}
