package nc

import (
	"go/token"

	"golang.org/x/tools/go/ssa"
)

// Helpers that let the C05 rules see through two equivalent shapes of a
// "search, then act" protocol:
//
//	(a) the search result is a boolean (an extracted `hasX(...) bool` helper, inlined by the
//	    normaliser, or a local flag) and the action is guarded by it: what is known at the action
//	    is what is known on every edge on which that boolean becomes true;
//	(b) the search result is the found element itself or nil (an extracted `findX() *T` helper with
//	    early returns): the acted-on value is a phi of candidates and nil, and what is known about a
//	    candidate is what is known on the edge on which it enters the phi.
//
// Both derive facts, they do not assume any: a fact is attributed to the action only if it holds on
// every way the flag can have become true, resp. for the very candidate value that flows into the action.

// stripCT removes type-only conversions.
func stripCT(v ssa.Value) ssa.Value {
	for {
		c, ok := v.(*ssa.ChangeType)
		if !ok {
			return v
		}
		v = c.X
	}
}

// defStrictlyDominatesWeb: the definition of v strictly dominates every phi of the web (or v has
// no defining block: parameter, constant, global). Then no phi of the web can carry a value across
// a re-execution of v's definition: a flag of the web that is true when read was set for the
// same dynamic instance of v that is visible at the reader (see the note at effGuards).
func defStrictlyDominatesWeb(v ssa.Value, web *phiWebT) bool {
	in, ok := v.(ssa.Instruction)
	if !ok || in.Block() == nil {
		return true
	}
	for ph := range web.Phis {
		if in.Block() == ph.Block() || !in.Block().Dominates(ph.Block()) {
			return false
		}
	}
	return true
}

func sameGuard(a, b Guard) bool { return a.Cond == b.Cond && a.True == b.True }

func intersectGuards(a, b []Guard) []Guard {
	var out []Guard
	for _, x := range a {
		for _, y := range b {
			if sameGuard(x, y) {
				out = append(out, x)
				break
			}
		}
	}
	return out
}

// effGuards: the branch outcomes known when block b executes, as Guards(b), extended through
// boolean flags: when b is guarded by `flag == true` and the flag is a phi web of constants only,
// the flag can be true only because control took one of the edges on which a phi of the web
// receives `true`; the outcomes known on all of those edges are then known at b as well.
//
// anchors are the SSA values the caller is going to relate the derived outcomes to (the object the
// action works on). A flag is looked through only if the definition of every anchor strictly
// dominates all phis of its web. Reason: an SSA name denotes a new value each time its definition
// runs; if def(v) strictly dominates the block of phi X and X is read at a block that X's block
// dominates, def(v) cannot run between the execution of X and that read (every path from def(v)
// to the reader would have to pass X's block again). Applied to every phi step from the `true`
// edge to the guard of b, the outcomes derived speak about the same v the action sees. A flag that
// is carried around a loop in which v is redefined does not qualify and is not looked through.
func effGuards(b *ssa.BasicBlock, anchors ...ssa.Value) []Guard {
	return expandFlagGuards(Guards(b), anchors, 0, map[*ssa.Phi]bool{})
}

// effCondsAt is condsAt with the same flag expansion.
func effCondsAt(from, to *ssa.BasicBlock, anchors ...ssa.Value) []Guard {
	return expandFlagGuards(condsAt(from, to), anchors, 0, map[*ssa.Phi]bool{})
}

func expandFlagGuards(gs []Guard, anchors []ssa.Value, depth int, busy map[*ssa.Phi]bool) []Guard {
	out := append([]Guard{}, gs...)
	if depth > 3 {
		return out
	}
	for _, g := range gs {
		// a pointer handed out of a lookup (`rec := find(...)`; `if rec != nil`): known non-nil means it entered its
		// phi web on one of the edges that carry a concrete value; what held on all of those edges holds here
		if bo, isB := g.Cond.(*ssa.BinOp); isB && (bo.Op == token.NEQ || bo.Op == token.EQL) {
			x, y := bo.X, bo.Y
			if k, isK := x.(*ssa.Const); isK && k.Value == nil {
				x, y = y, x
			}
			if k, isK := y.(*ssa.Const); isK && k.Value == nil && (bo.Op == token.NEQ) == g.True {
				if ph, isPhi := stripCT(x).(*ssa.Phi); isPhi && !busy[ph] && len(anchors) == 0 {
					sites, _ := ptrSites(ph)
					if len(sites) > 0 {
						var common []Guard
						busy[ph] = true
						for i, st := range sites {
							cs := expandFlagGuards(condsAt(st.From, st.To), anchors, depth+1, busy)
							if i == 0 {
								common = cs
							} else {
								common = intersectGuards(common, cs)
							}
						}
						delete(busy, ph)
						for _, c := range common {
							dup := false
							for _, o := range out {
								if sameGuard(o, c) {
									dup = true
								}
							}
							if !dup {
								out = append(out, c)
							}
						}
					}
				}
			}
		}
		f, w, ok := boolFlagOf(g.Cond)
		if !ok || g.True != w {
			continue
		}
		ph := f.(*ssa.Phi)
		if busy[ph] {
			continue
		}
		web := phiWeb(f)
		if len(web.Feeders) > 0 {
			// the flag can also be true by a computed value: nothing follows from it
			continue
		}
		stable := true
		for _, a := range anchors {
			if !defStrictlyDominatesWeb(a, web) {
				stable = false
			}
		}
		if !stable {
			continue
		}
		sites := flagSites(f, true)
		if len(sites) == 0 {
			continue
		}
		var common []Guard
		busy[ph] = true
		for i, s := range sites {
			cs := expandFlagGuards(condsAt(s.From, s.To), anchors, depth+1, busy)
			if i == 0 {
				common = cs
			} else {
				common = intersectGuards(common, cs)
			}
		}
		delete(busy, ph)
		for _, c := range common {
			dup := false
			for _, o := range out {
				if sameGuard(o, c) {
					dup = true
				}
			}
			if !dup {
				out = append(out, c)
			}
		}
	}
	return out
}

// ptrSite is a CFG edge on which a phi of a pointer web receives a concrete (non-phi, non-nil-constant) value.
type ptrSite struct {
	From, To *ssa.BasicBlock
	Phi      *ssa.Phi
	Val      ssa.Value
}

// ptrSites lists every edge on which a phi of the web of v receives a concrete value, and whether
// some phi of the web receives the nil constant. A non-nil value of the web has entered it on one of
// these edges and is that edge's Val.
func ptrSites(v ssa.Value) (sites []ptrSite, hasNil bool) {
	web := phiWeb(v)
	for _, in := range orderedPhis(web) {
		for i, e := range in.Edges {
			x := stripCT(e)
			if _, isPhi := x.(*ssa.Phi); isPhi {
				continue
			}
			if c, ok := x.(*ssa.Const); ok {
				if c.Value == nil {
					hasNil = true
				}
				continue
			}
			sites = append(sites, ptrSite{in.Block().Preds[i], in.Block(), in, x})
		}
	}
	return sites, hasNil
}

// orderedPhis: the phis of a web in block order (deterministic reports).
func orderedPhis(web *phiWebT) []*ssa.Phi {
	var out []*ssa.Phi
	for ph := range web.Phis {
		out = append(out, ph)
	}
	for i := 1; i < len(out); i++ {
		for j := i; j > 0 && phiBefore(out[j], out[j-1]); j-- {
			out[j], out[j-1] = out[j-1], out[j]
		}
	}
	return out
}

func phiBefore(a, b *ssa.Phi) bool {
	if a.Block() != b.Block() {
		return a.Block().Index < b.Block().Index
	}
	return instrIndex(a) < instrIndex(b)
}

// nonNilGuarded: block b runs only when a phi of the web of v (or v itself) was compared with nil and found non-nil.
func nonNilGuarded(b *ssa.BasicBlock, v ssa.Value) bool {
	web := phiWeb(v)
	inWeb := func(x ssa.Value) bool {
		x = stripCT(x)
		if x == stripCT(v) {
			return true
		}
		ph, ok := x.(*ssa.Phi)
		return ok && web.Phis[ph]
	}
	for _, g := range Guards(b) {
		bo, ok := g.Cond.(*ssa.BinOp)
		if !ok {
			continue
		}
		nonNil := (bo.Op == token.NEQ && g.True) || (bo.Op == token.EQL && !g.True)
		if !nonNil {
			continue
		}
		for _, pr := range [][2]ssa.Value{{bo.X, bo.Y}, {bo.Y, bo.X}} {
			if c, isC := pr[1].(*ssa.Const); isC && c.Value == nil && isPointerLike(c.Type()) && inWeb(pr[0]) {
				return true
			}
		}
	}
	return false
}

// selCase: one concrete object an action on the value G can touch, with the branch outcomes known
// for it. When G is an ordinary value there is one case (G itself, the effective guards of the
// action). When G is a phi of candidates (result of a lookup that returns the element or nil) there
// is one case per edge on which a candidate enters the phi: the outcomes known on that edge were
// established for that very pointer, which is what the action later dereferences.
type selCase struct {
	Cand  ssa.Value
	Conds []Guard
	Site  *ptrSite // nil when the action names the candidate directly
}

func selCases(actionBlock *ssa.BasicBlock, G ssa.Value) []selCase {
	g := stripCT(G)
	if _, isPhi := g.(*ssa.Phi); !isPhi {
		return []selCase{{Cand: g, Conds: effGuards(actionBlock, g)}}
	}
	sites, _ := ptrSites(g)
	var out []selCase
	for i := range sites {
		s := sites[i]
		conds := append([]Guard{}, Guards(actionBlock)...)
		conds = append(conds, effCondsAt(s.From, s.To, s.Val)...)
		out = append(out, selCase{Cand: s.Val, Conds: conds, Site: &s})
	}
	return out
}

// nilOutcomeRefuted: the path takes a branch that needs the value x to be nil although, resolved
// along the path, x is the result of a call that allocates its result (constructor summary) or an
// allocation. The constant tracking of the path enumeration knows nil constants but not
// constructor results, so such paths are enumerated although they cannot be taken.
func nilOutcomeRefuted(ip *IterPath, sums *Summaries) bool {
	pos := 0
	for _, g := range ip.Conds {
		for pos < len(ip.Blocks) && ip.Blocks[pos] != g.At {
			pos++
		}
		if pos >= len(ip.Blocks) {
			return false
		}
		sub := &IterPath{Blocks: ip.Blocks[:pos+1], End: "partial"}
		pos++
		bo, ok := g.Cond.(*ssa.BinOp)
		if !ok || (bo.Op != token.EQL && bo.Op != token.NEQ) {
			continue
		}
		if isNil := (bo.Op == token.EQL) == g.True; !isNil {
			continue
		}
		for _, pr := range [][2]ssa.Value{{bo.X, bo.Y}, {bo.Y, bo.X}} {
			c, isC := pr[1].(*ssa.Const)
			if !isC || c.Value != nil || !isPointerLike(c.Type()) {
				continue
			}
			switch x := stripCT(sub.Resolve(stripCT(pr[0]))).(type) {
			case *ssa.Alloc, *ssa.MakeSlice, *ssa.MakeMap, *ssa.MakeInterface:
				return true
			case *ssa.Call:
				if callee := x.Call.StaticCallee(); callee != nil && callee.Blocks != nil {
					if sm := sums.Ctor(callee); sm.Why == "" && sm.Fresh {
						return true
					}
				}
			}
		}
	}
	return false
}

// checkEveryTarget (C05.3, connect.every-target): in the loop that holds the gene insertion, an
// iteration ends in one of three ways only - the skip flag was true (link exists), the insertion
// ran, or the function returned.
func (r *Run) checkEveryTarget(sums *Summaries, fn *ssa.Function, loops []*Loop, insert ssa.CallInstruction, skip ssa.Value) {
	p := r.P
	tl := InnermostLoop(loops, insert.Block())
	if tl == nil {
		r.Bad("connect.every-target", p.Pos(insert.Pos()), "the gene insertion does not sit in a loop over the targets")
		return
	}
	paths, complete := EnumIterPaths(fn, tl, 50000)
	if !complete {
		r.Undecided("connect.every-target", p.Pos(insert.Pos()), "too many paths through one iteration of the target loop")
		return
	}
	skipWeb := phiWeb(skip)
	var witness *IterPath
	for _, ip := range paths {
		r.PathsExplored++
		if ip.End == "return" || ip.OnPath(insert) {
			continue
		}
		skipped := false
		for _, g := range ip.Conds {
			if f, w, ok := boolFlagOf(g.Cond); ok && g.True == w {
				if ph, isPhi := f.(*ssa.Phi); isPhi && (f == skip || skipWeb.Phis[ph]) {
					skipped = true
				}
			}
		}
		if skipped || nilOutcomeRefuted(ip, sums) {
			continue
		}
		witness = ip
		break
	}
	var path []string
	if witness != nil {
		path = witness.Describe(p)
	}
	r.Check(witness == nil, "connect.every-target", p.Pos(insert.Pos()), "every target without an existing link gets a gene (or the mutation is abandoned by returning)",
		"a target for which no link sensor->target exists can be passed over without a gene being created and inserted (one iteration of the target loop that neither finds the link, nor inserts, nor returns)", path...)
}
