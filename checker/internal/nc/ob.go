package nc

import (
	"bufio"
	"encoding/json"
	"fmt"
	"os"
	"path/filepath"
	"regexp"
	"runtime/debug"
	"sort"
	"strings"
	"time"
)

// Ob is one obligation: a rule instance tied to a resolved program construct.
type Ob struct {
	ID        string   `json:"id"`
	Property  string   `json:"property"`
	Rule      string   `json:"rule"`
	Construct string   `json:"construct"`
	Pos       string   `json:"pos"`
	Status    string   `json:"status"` // discharged | violated | undecided | anchor-missing | rule-inert
	Detail    string   `json:"detail"`
	Path      []string `json:"path,omitempty"`
	RuleText  string   `json:"rule_text,omitempty"`
}

// Run collects the obligations of one property check.
type Run struct {
	P        *Prog
	Property string
	Tier     string
	Obs      []*Ob
	Notes    []string
	// measured counters for the evidence
	FuncsAnalysed map[string]bool
	CallSites     int
	PathsExplored int
	FieldsChecked int
	curRule       string
	curText       string
	Assumptions   []string
	Explanation   string
	Floors        map[string][2]int // rule -> {found, floor}
	// Mode lets a property that shares rule code with another one ask for the part of the rule that its own
	// statement needs ("own-lists": references must point into the copy's own lists, not necessarily to the
	// corresponding element; aliasing of value slices is not its concern).
	Mode string
}

func NewRun(p *Prog, prop, tier string) *Run {
	r := &Run{P: p, Property: prop, Tier: tier, FuncsAnalysed: map[string]bool{}, Floors: map[string][2]int{}}
	if p != nil {
		for _, l := range p.NormLog {
			r.Notes = append(r.Notes, "normalisation: "+l)
		}
	}
	return r
}

func (r *Run) add(status, construct, pos, detail string, path []string) *Ob {
	o := &Ob{
		ID:        fmt.Sprintf("%s/%s/%s", r.Property, r.curRule, construct),
		Property:  r.Property,
		Rule:      r.curRule,
		Construct: construct,
		Pos:       pos,
		Status:    status,
		Detail:    detail,
		Path:      path,
		RuleText:  r.curText,
	}
	// keep ids unique: a rule may visit the same construct twice (e.g. two call sites in one function)
	n := 0
	for _, e := range r.Obs {
		if e.ID == o.ID || strings.HasPrefix(e.ID, o.ID+"#") {
			n++
		}
	}
	if n > 0 {
		o.ID = fmt.Sprintf("%s#%d", o.ID, n+1)
	}
	r.Obs = append(r.Obs, o)
	return o
}

// OK records a discharged obligation.
func (r *Run) OK(construct, pos, detail string) { r.add("discharged", construct, pos, detail, nil) }

// Bad records a violated obligation.
func (r *Run) Bad(construct, pos, detail string, path ...string) {
	r.add("violated", construct, pos, detail, path)
}

// Undecided records an obligation the engine could not decide (fails closed).
func (r *Run) Undecided(construct, pos, detail string) {
	r.add("undecided", construct, pos, detail, nil)
}

// Check is OK/Bad by a boolean.
func (r *Run) Check(ok bool, construct, pos, okDetail, badDetail string, path ...string) bool {
	if ok {
		r.OK(construct, pos, okDetail)
	} else {
		r.Bad(construct, pos, badDetail, path...)
	}
	return ok
}

// Note adds an informational line to the evidence.
func (r *Run) Note(format string, a ...interface{}) {
	r.Notes = append(r.Notes, fmt.Sprintf(format, a...))
}

// Fn marks a function as analysed (for the evidence counters).
func (r *Run) Fn(names ...string) {
	for _, n := range names {
		r.FuncsAnalysed[n] = true
	}
}

// Floor asserts that a rule matched at least `floor` instances.
func (r *Run) Floor(what string, found, floor int) {
	r.Floors[r.curRule+":"+what] = [2]int{found, floor}
	if found < floor {
		r.add("rule-inert", "floor:"+what, "-", fmt.Sprintf("rule matched %d instance(s) of %s, at least %d were confirmed by reading the pinned tree; a rule that matches fewer passes vacuously", found, what, floor), nil)
	}
}

// Rule runs one rule; resolver panics become anchor-missing obligations and
// any other panic a failed obligation, so that a checker bug can never turn
// into a silent pass.
func (r *Run) Rule(id, text string, body func()) {
	prevRule, prevText := r.curRule, r.curText
	r.curRule, r.curText = id, text
	before := len(r.Obs)
	defer func() {
		if x := recover(); x != nil {
			switch e := x.(type) {
			case anchorMissing:
				r.add("anchor-missing", "anchor:"+e.what, "-", "the rule's anchor "+e.what+" does not resolve in the current tree", nil)
			case undecidedPanic:
				r.add("undecided", e.construct, e.pos, e.detail, nil)
			default:
				r.add("undecided", "checker-panic", "-", fmt.Sprintf("checker panic: %v\n%s", x, debug.Stack()), nil)
			}
		} else if len(r.Obs) == before {
			r.add("rule-inert", "no-instances", "-", "the rule produced no obligation at all", nil)
		}
		r.curRule, r.curText = prevRule, prevText
	}()
	body()
}

// Guarded runs a whole property function; a panic outside any rule (an anchor resolved while the rules are being
// set up, a nil dereference in shared preparation code) becomes a failing obligation instead of a crash.
func (r *Run) Guarded(body func()) {
	defer func() {
		if x := recover(); x != nil {
			r.curRule, r.curText = "setup", "the anchors every rule of the property relies on resolve, and the shared preparation runs"
			switch e := x.(type) {
			case anchorMissing:
				r.add("anchor-missing", "anchor:"+e.what, "-", "the anchor "+e.what+" does not resolve in the current tree", nil)
			case undecidedPanic:
				r.add("undecided", e.construct, e.pos, e.detail, nil)
			default:
				r.add("undecided", "checker-panic", "-", fmt.Sprintf("checker panic: %v\n%s", x, debug.Stack()), nil)
			}
		}
	}()
	body()
}

type undecidedPanic struct{ construct, pos, detail string }

// Bail aborts the current rule as undecided.
func Bail(construct, pos, format string, a ...interface{}) {
	panic(undecidedPanic{construct, pos, fmt.Sprintf(format, a...)})
}

// ---------------------------------------------------------------------------
// Known findings

type KnownFinding struct {
	Property string
	Key      string
	Text     string
}

var kfLine = regexp.MustCompile(`^finding:\s+property=(\S+)\s+key=(\S+)\s+(.*)$`)

// LoadKnownFindings parses KNOWN_FINDINGS.txt (`finding:` lines only;
// `fixed:` lines suppress nothing).
func LoadKnownFindings(path string) ([]KnownFinding, error) {
	f, err := os.Open(path)
	if err != nil {
		if os.IsNotExist(err) {
			return nil, nil
		}
		return nil, err
	}
	defer f.Close()
	var out []KnownFinding
	sc := bufio.NewScanner(f)
	for sc.Scan() {
		line := strings.TrimSpace(sc.Text())
		if m := kfLine.FindStringSubmatch(line); m != nil {
			out = append(out, KnownFinding{m[1], m[2], m[3]})
		}
	}
	return out, sc.Err()
}

// ---------------------------------------------------------------------------
// Evidence + verdict

type evidence struct {
	PropertyID  string                 `json:"property_id"`
	Tier        string                 `json:"tier"`
	Seed        int                    `json:"seed"`
	Level       string                 `json:"level"`
	Coverage    map[string]interface{} `json:"coverage"`
	Assumptions []string               `json:"assumptions"`
	WallS       float64                `json:"wall_s"`
	Violations  int                    `json:"violations"`
}

var unsafeChars = regexp.MustCompile(`[^A-Za-z0-9_.-]+`)

// Finish writes the evidence file and replay records, prints the verdict
// lines and returns the process exit code.
func (r *Run) Finish(verifDir string, start time.Time, seed int, loadInfo map[string]interface{}) int {
	known, err := LoadKnownFindings(filepath.Join(verifDir, "KNOWN_FINDINGS.txt"))
	if err != nil {
		fmt.Printf("cannot read KNOWN_FINDINGS.txt: %v\n", err)
		r.add("undecided", "known-findings-file", "-", err.Error(), nil)
	}
	isKnown := func(o *Ob) *KnownFinding {
		for i := range known {
			if known[i].Property == o.Property && known[i].Key == o.ID {
				return &known[i]
			}
		}
		return nil
	}
	replayDir := filepath.Join(verifDir, "replay", r.Property)
	_ = os.RemoveAll(replayDir)
	_ = os.MkdirAll(replayDir, 0o755)

	discharged, violations, knownN := 0, 0, 0
	byRule := map[string][2]int{}
	var samples []interface{}
	var failing []*Ob
	for _, o := range r.Obs {
		c := byRule[o.Rule]
		c[0]++
		if o.Status == "discharged" {
			discharged++
			c[1]++
		}
		byRule[o.Rule] = c
	}
	for _, o := range r.Obs {
		if o.Status == "discharged" {
			continue
		}
		if kf := isKnown(o); kf != nil && o.Status == "violated" {
			knownN++
			fmt.Printf("KNOWN-FINDING: property=%s %s [%s at %s]\n", r.Property, kf.Text, o.ID, o.Pos)
			continue
		}
		violations++
		failing = append(failing, o)
	}
	if os.Getenv("NEAT_LIST") != "" {
		for _, o := range r.Obs {
			fmt.Printf("  [%s] %s @%s: %s\n", o.Status, o.ID, o.Pos, o.Detail)
		}
	}
	for _, o := range failing {
		name := unsafeChars.ReplaceAllString(strings.TrimPrefix(o.ID, r.Property+"/"), "_")
		if len(name) > 150 {
			name = name[:150]
		}
		path := filepath.Join(replayDir, name+".json")
		b, _ := json.MarshalIndent(o, "", "  ")
		_ = os.WriteFile(path, b, 0o644)
		fmt.Printf("VIOLATION property=%s replay=%s\n", r.Property, path)
		fmt.Printf("  %s  %s  [%s]\n  %s\n", o.Status, o.ID, o.Pos, indent(o.Detail, "  "))
		for _, p := range o.Path {
			fmt.Printf("    path: %s\n", p)
		}
	}
	// samples: a few discharged and all failing obligations, written out
	n := 0
	for _, o := range r.Obs {
		if o.Status == "discharged" && n < 12 {
			samples = append(samples, o)
			n++
		}
	}
	for _, o := range failing {
		samples = append(samples, o)
	}
	var rules []string
	for k := range byRule {
		rules = append(rules, k)
	}
	sort.Strings(rules)
	ruleTable := map[string]interface{}{}
	for _, k := range rules {
		ruleTable[k] = map[string]int{"obligations": byRule[k][0], "discharged": byRule[k][1]}
	}
	var fns []string
	for f := range r.FuncsAnalysed {
		fns = append(fns, f)
	}
	sort.Strings(fns)
	floors := map[string]interface{}{}
	for k, v := range r.Floors {
		floors[k] = map[string]int{"found": v[0], "floor": v[1]}
	}
	cov := map[string]interface{}{
		"explanation":        r.Explanation,
		"obligations":        len(r.Obs),
		"discharged":         discharged,
		"known_findings":     knownN,
		"rules":              ruleTable,
		"instance_floors":    floors,
		"functions_analysed": len(fns),
		"functions":          fns,
		"call_sites":         r.CallSites,
		"paths_enumerated":   r.PathsExplored,
		"fields_checked":     r.FieldsChecked,
		"rule":               "one obligation per (rule, resolved construct); an obligation is discharged only when the static rule proves it on every path / field / call site of the current tree; undecided, unresolved anchors and inert rules count as failures",
		"samples":            samples,
		"notes":              r.Notes,
		"checker_cmd":        fmt.Sprintf("./check.sh %s %s", r.Property, r.Tier),
		"trusted_base":       []string{"go/types", "go/ssa (x/tools v0.29.0)", "VTA call graph over CHA", "the frozen rule tables in checker/internal/nc/" + strings.ToLower(r.Property) + ".go"},
		"exhaustive":         false,
		"load":               loadInfo,
	}
	ev := evidence{PropertyID: r.Property, Tier: r.Tier, Seed: seed, Level: "other", Coverage: cov,
		Assumptions: r.Assumptions, WallS: time.Since(start).Seconds(), Violations: violations}
	if ev.Assumptions == nil {
		ev.Assumptions = []string{}
	}
	b, _ := json.MarshalIndent(ev, "", " ")
	_ = os.MkdirAll(filepath.Join(verifDir, "evidence"), 0o755)
	if err := os.WriteFile(filepath.Join(verifDir, "evidence", r.Property+".json"), b, 0o644); err != nil {
		fmt.Printf("cannot write evidence: %v\n", err)
		return 1
	}
	fmt.Printf("%s %s: %d obligations, %d discharged, %d known findings, %d failing (%.1fs)\n",
		r.Property, r.Tier, len(r.Obs), discharged, knownN, violations, time.Since(start).Seconds())
	if violations > 0 {
		return 1
	}
	return 0
}

func indent(s, pre string) string { return strings.ReplaceAll(s, "\n", "\n"+pre) }
