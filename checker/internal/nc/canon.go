package nc

import (
	"go/constant"
	"go/token"
	"go/types"
	"sort"
	"strings"

	"golang.org/x/tools/go/ssa"
)

// Canonical printing of terms: two spellings of one expression print alike.
//
//   - the operands of commutative operators (+, *, &, |, ^, ==, !=) are ordered by their canonical text;
//   - an ordering comparison is oriented so that the smaller operand text comes first (a > b prints as b < a);
//   - CanonCond additionally removes negations: `!c`, `a != b`, `a > b` (after orientation `b < a` stays), `a >= b`
//     are printed as their positive complement together with neg == true, so that a branch on either spelling
//     is the same branch with the successors exchanged.
//
// Only integer-and-pointer-free reasoning is used: a comparison and its complement are exchanged (`a >= b` is
// `!(a < b)`), which is exact for integers, pointers and booleans; for floating-point operands it differs on
// NaN only, and the callers that use CanonCond compare keys of integer type.
func CanonTerm(t *Term) string { return canonTerm(t, nil) }

// CanonTermWith renames field and type names with ren before ordering operands.
func CanonTermWith(t *Term, ren func(string) string) string { return canonTerm(t, ren) }

func canonTerm(t *Term, ren func(string) string) string {
	CanonTerm := func(x *Term) string { return canonTerm(x, ren) }
	rn := func(s string) string {
		if ren != nil {
			return ren(s)
		}
		return s
	}
	if t == nil {
		return "?"
	}
	switch t.Op {
	case "bin":
		a, b := CanonTerm(t.Args[0]), CanonTerm(t.Args[1])
		op := t.Name
		switch op {
		case "+", "*", "&", "|", "^", "==", "!=":
			if b < a {
				a, b = b, a
			}
		case "<", "<=", ">", ">=":
			if b < a {
				a, b = b, a
				op = map[string]string{"<": ">", "<=": ">=", ">": "<", ">=": "<="}[op]
			}
		}
		return "(" + a + op + b + ")"
	case "un":
		return t.Name + CanonTerm(t.Args[0])
	case "phi":
		var a []string
		for _, x := range t.Args {
			a = append(a, CanonTerm(x))
		}
		sort.Strings(a)
		a = uniq(a)
		if len(a) == 1 {
			return a[0]
		}
		return "φ{" + strings.Join(a, "|") + "}"
	case "field":
		return CanonTerm(t.Args[0]) + "." + rn(t.Name)
	case "elem":
		if len(t.Args) > 1 && t.Args[1].Op == "const" {
			return CanonTerm(t.Args[0]) + "[" + t.Args[1].Name + "]"
		}
		if len(t.Args) > 1 {
			return CanonTerm(t.Args[0]) + "[" + CanonTerm(t.Args[1]) + "]"
		}
		return CanonTerm(t.Args[0]) + "[*]"
	case "lookup":
		return CanonTerm(t.Args[0]) + "[" + CanonTerm(t.Args[1]) + "]"
	case "call", "make":
		var a []string
		for _, x := range t.Args {
			a = append(a, CanonTerm(x))
		}
		if t.Op == "make" {
			return "make(" + rn(t.Name) + strings.Join(prepend("", a), ",") + ")"
		}
		return rn(t.Name) + "(" + strings.Join(a, ",") + ")"
	case "conv":
		return rn(t.Name) + "(" + CanonTerm(t.Args[0]) + ")"
	case "len":
		return "len(" + CanonTerm(t.Args[0]) + ")"
	case "slice":
		return CanonTerm(t.Args[0]) + "[:]"
	case "iface":
		return CanonTerm(t.Args[0])
	case "assert":
		return CanonTerm(t.Args[0]) + ".(" + t.Name + ")"
	case "extract":
		return CanonTerm(t.Args[0]) + "#" + itoa(t.Idx)
	}
	return rn(t.String())
}

// CanonCond prints a branch condition in positive form; neg reports that the condition printed is the
// complement of t (the branch's successors are to be exchanged).
func CanonCond(t *Term) (s string, neg bool) { return CanonCondWith(t, nil) }

func CanonCondWith(t *Term, ren func(string) string) (s string, neg bool) {
	CanonTerm := func(x *Term) string { return canonTerm(x, ren) }
	for t != nil && t.Op == "un" && t.Name == "!" {
		t, neg = t.Args[0], !neg
	}
	if t != nil && t.Op == "bin" {
		a, b := CanonTerm(t.Args[0]), CanonTerm(t.Args[1])
		op := t.Name
		switch op {
		case "==", "!=", "<", "<=", ">", ">=":
			if b < a {
				a, b = b, a
				op = map[string]string{"<": ">", "<=": ">=", ">": "<", ">=": "<=", "==": "==", "!=": "!="}[op]
			}
			switch op {
			case "!=":
				op, neg = "==", !neg
			case ">":
				op, neg = "<=", !neg
			case ">=":
				op, neg = "<", !neg
			}
			return "(" + a + op + b + ")", neg
		}
	}
	return CanonTerm(t), neg
}

func itoa(i int) string {
	if i == 0 {
		return "0"
	}
	neg := i < 0
	if neg {
		i = -i
	}
	var b []byte
	for i > 0 {
		b = append([]byte{byte('0' + i%10)}, b...)
		i /= 10
	}
	if neg {
		return "-" + string(b)
	}
	return string(b)
}

// CmpFact states a branch outcome as a comparison that HOLDS: `x op y`. Negations are removed (`!c` taken
// false is c taken true), an outcome of false is turned into the complementary operator, and a constant or
// nil on the left is moved to the right (`nil == v` -> `v == nil`, `0 < n` -> `n > 0`). For floating-point
// operands the complement of an ordering comparison is not an ordering comparison (NaN); ok is false then.
func CmpFact(cond ssa.Value, outcome bool) (x, y ssa.Value, op token.Token, ok bool) {
	for {
		if u, isU := cond.(*ssa.UnOp); isU && u.Op == token.NOT {
			cond, outcome = u.X, !outcome
			continue
		}
		break
	}
	b, isB := cond.(*ssa.BinOp)
	if !isB {
		return nil, nil, 0, false
	}
	op = b.Op
	switch op {
	case token.EQL, token.NEQ, token.LSS, token.LEQ, token.GTR, token.GEQ:
	default:
		return nil, nil, 0, false
	}
	x, y = b.X, b.Y
	if !outcome {
		if op != token.EQL && op != token.NEQ {
			if bt, isBasic := x.Type().Underlying().(*types.Basic); !isBasic || bt.Info()&types.IsFloat != 0 {
				return nil, nil, 0, false
			}
		}
		op = map[token.Token]token.Token{token.EQL: token.NEQ, token.NEQ: token.EQL, token.LSS: token.GEQ, token.GEQ: token.LSS, token.GTR: token.LEQ, token.LEQ: token.GTR}[op]
	}
	if _, lc := x.(*ssa.Const); lc {
		if _, rc := y.(*ssa.Const); !rc {
			x, y = y, x
			op = map[token.Token]token.Token{token.EQL: token.EQL, token.NEQ: token.NEQ, token.LSS: token.GTR, token.GTR: token.LSS, token.LEQ: token.GEQ, token.GEQ: token.LEQ}[op]
		}
	}
	return x, y, op, true
}

// GuardNilness: what guard g says about v (compared by the caller's `is`): +1 v is nil, -1 v is not nil, 0 nothing.
func GuardNilness(g Guard, is func(ssa.Value) bool) int {
	x, y, op, ok := CmpFact(g.Cond, g.True)
	if !ok || !is(x) {
		return 0
	}
	if c, isC := y.(*ssa.Const); !isC || c.Value != nil || !isNillable(c.Type()) {
		return 0
	}
	switch op {
	case token.EQL:
		return 1
	case token.NEQ:
		return -1
	}
	return 0
}

func isNillable(t types.Type) bool {
	switch t.Underlying().(type) {
	case *types.Pointer, *types.Slice, *types.Map, *types.Chan, *types.Interface, *types.Signature:
		return true
	}
	if b, ok := t.Underlying().(*types.Basic); ok && b.Kind() == types.UntypedNil {
		return true
	}
	return false
}

// LenZeroFact: what a branch outcome says about the length of a list: +1 "len(l) == 0", -1 "len(l) >= 1",
// 0 nothing, for the list l that `is` accepts (the argument of the len call). Every spelling is accepted:
// len(l) == 0, 0 == len(l), len(l) < 1, len(l) <= 0, !(len(l) > 0), len(l) != 0 taken false, ... (a length is
// never negative).
func LenZeroFact(cond ssa.Value, outcome bool, is func(ssa.Value) bool) int {
	x, y, op, ok := CmpFact(cond, outcome)
	if !ok {
		return 0
	}
	c, isCall := x.(*ssa.Call)
	if !isCall {
		return 0
	}
	b, isB := c.Call.Value.(*ssa.Builtin)
	if !isB || b.Name() != "len" || len(c.Call.Args) != 1 || !is(c.Call.Args[0]) {
		return 0
	}
	k, isC := y.(*ssa.Const)
	if !isC || k.Value == nil {
		return 0
	}
	n, exact := constInt(k)
	_ = constant.Int
	if !exact {
		return 0
	}
	switch {
	case op == token.EQL && n == 0, op == token.LEQ && n == 0, op == token.LSS && n == 1:
		return 1
	case op == token.NEQ && n == 0, op == token.GTR && n == 0, op == token.GEQ && n == 1:
		return -1
	case op == token.GTR && n > 0, op == token.GEQ && n > 1, op == token.EQL && n > 0:
		return -1
	}
	return 0
}

