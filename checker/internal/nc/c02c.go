package nc

import (
	"fmt"
	"go/token"
	"go/types"
	"strings"

	"golang.org/x/tools/go/ssa"
)

// C02.3 / apportion.total (fourth round).
//
// Claim: on EVERY path through Population.purgeZeroOffspringSpecies to its return, the quotas
// (Species.ExpectedOffspring) of the species total at least the number of organisms - i.e. the path
//   - passed a test whose outcome says so, and the quantity tested is the total as it stands at the return
//     (every offspring added to a quota after the counting is part of the quantity tested), or
//   - went through the redistribution that zeroes every quota and gives exactly len(Organisms) to one species.
//
// Why it is necessary: the reproduction step produces exactly one baby per unit of quota (C02.2) and the epoch
// fails when the number of babies differs from the population size (C02.1). A path that reaches the return with a
// total that is only known to be `counted total + 1` loses the population whenever the counted total was short by
// two or more (an average fitness of +Inf or NaN after an overflowing sum of huge finite fitness values makes every
// species count 0), although the statement promises an epoch without error for all finite non-negative fitness
// values.
//
// How it is decided (path enumeration with a symbolic total, no shape of the source is assumed):
//   - the paths from the entry to every return are enumerated; a natural loop is summarised as one step;
//   - along a path the total S of all quotas is tracked as an integer-linear expression over the atoms Q (the total
//     assigned by the quota loop) and N = len(recv.Organisms):
//     the loop that stores countOffspring's result into every species' quota  : S := Q
//     `x.ExpectedOffspring = x.ExpectedOffspring + c`                          : S := S + c
//     a loop that stores 0 into the quota of every species                     : S := 0 (all quotas zero)
//     `x.ExpectedOffspring = v` while all quotas are zero                      : S := v
//     any other store to a quota, or a call that may write one                 : S unknown
//     a loop without quota stores that adds the quota of every species to a counter c (c starts at k) leaves
//     c = k + S with the S of that moment; the counter of the quota loop itself ends as k + Q;
//   - every integer comparison that decides a branch on the path is kept as a fact `L >= 0`, L evaluated with the
//     counters above (phis are resolved along the path);
//   - at the return the path is accepted when S - N is the constant 0, or when S - N >= F follows syntactically from
//     one fact F >= 0 of the path (S - N - F is a non-negative constant); when S differs from Q (offspring were added
//     on top of the counted quotas) N - S >= G must follow from a fact G >= 0 in the same way (nothing is added
//     beyond the population size). That Q itself does not exceed N is arithmetic of countOffspring, not decided here.
//   - the branch on which the species that is to receive offspring is nil is not followed (there is no species at
//     all then - the population cannot be turned over whatever the quotas are).
const c02AtomQ = "Q"

type c02QState struct {
	known   bool
	why     string
	S       Lin
	zeroed  bool
	ver     int
	facts   []Lin
	env     map[ssa.Value]ssa.Value
	lenv    map[ssa.Value]Lin
	loadVer map[ssa.Value]int
	trail   []string
}

func (s *c02QState) clone() *c02QState {
	o := *s
	o.facts = append([]Lin{}, s.facts...)
	o.trail = append([]string{}, s.trail...)
	o.env = make(map[ssa.Value]ssa.Value, len(s.env))
	for k, v := range s.env {
		o.env[k] = v
	}
	o.lenv = make(map[ssa.Value]Lin, len(s.lenv))
	for k, v := range s.lenv {
		o.lenv[k] = v
	}
	o.loadVer = make(map[ssa.Value]int, len(s.loadVer))
	for k, v := range s.loadVer {
		o.loadVer[k] = v
	}
	return &o
}

func (s *c02QState) unknown(why string) {
	s.known, s.zeroed, s.why = false, false, why
}

func (s *c02QState) resolve(v ssa.Value) ssa.Value {
	for i := 0; i < 64; i++ {
		n, ok := s.env[v]
		if !ok || n == v {
			return v
		}
		v = n
	}
	return v
}

type c02QWalk struct {
	r          *Run
	p          *Prog
	fn         *ssa.Function
	tm         *Termer
	eo         *types.Var
	listFld    *types.Var
	quota      *ssa.Store
	top        []*Loop
	loopOf     map[*ssa.BasicBlock]*Loop
	recipients map[ssa.Value]bool
	// recipIdx: the positions i of recipients recv.Species[i] for which a negative value stands for nobody
	recipIdx map[ssa.Value]bool
	nAtom    string
	leaves   int
	okLeaves int
	tooMany  bool
	badTrail []string
	badWhy   string
	badPos   token.Pos
}

const c02QuotaTerm = "recv.Species[*].ExpectedOffspring"

func (w *c02QWalk) isEOAddr(a ssa.Value) (*ssa.FieldAddr, bool) {
	fa, ok := a.(*ssa.FieldAddr)
	if !ok || fieldOf(fa.X.Type(), fa.Field) != w.eo {
		return nil, false
	}
	return fa, true
}

func (w *c02QWalk) addrKey(a ssa.Value) string { return CanonTerm(w.tm.Of(a)) }

func c02IsInt(t types.Type) bool {
	b, ok := t.Underlying().(*types.Basic)
	return ok && b.Info()&types.IsInteger != 0
}

// lin evaluates an integer value on the path.
func (w *c02QWalk) lin(st *c02QState, v ssa.Value, depth int) Lin {
	if depth > 40 {
		return linAtom("?deep")
	}
	v = st.resolve(v)
	if l, ok := st.lenv[v]; ok {
		return l
	}
	switch x := v.(type) {
	case *ssa.Const:
		if k, ok := constInt(x); ok && c02IsInt(x.Type()) {
			return linConst(k)
		}
	case *ssa.Phi:
		return linAtom("phi:" + x.Name())
	case *ssa.BinOp:
		switch x.Op {
		case token.ADD:
			return w.lin(st, x.X, depth+1).Add(w.lin(st, x.Y, depth+1), 1)
		case token.SUB:
			return w.lin(st, x.X, depth+1).Add(w.lin(st, x.Y, depth+1), -1)
		case token.MUL:
			a, b := w.lin(st, x.X, depth+1), w.lin(st, x.Y, depth+1)
			if len(a.T) == 0 {
				a, b = b, a
			}
			if len(b.T) == 0 {
				out := Lin{C: a.C * b.C, T: map[string]int64{}}
				for k, c := range a.T {
					if c*b.C != 0 {
						out.T[k] = c * b.C
					}
				}
				return out
			}
		}
		return linAtom("(" + w.lin(st, x.X, depth+1).String() + x.Op.String() + w.lin(st, x.Y, depth+1).String() + ")")
	case *ssa.UnOp:
		switch x.Op {
		case token.MUL:
			if _, ok := w.isEOAddr(x.X); ok {
				ver, seen := st.loadVer[x]
				if !seen {
					return linAtom("load:" + x.Name())
				}
				return linAtom(fmt.Sprintf("%s@%d", w.addrKey(x.X), ver))
			}
		case token.SUB:
			return linConst(0).Add(w.lin(st, x.X, depth+1), -1)
		}
	case *ssa.Convert:
		if c02IsInt(x.X.Type()) && c02IsInt(x.Type()) {
			return w.lin(st, x.X, depth+1)
		}
	case *ssa.ChangeType:
		return w.lin(st, x.X, depth+1)
	}
	return linAtom(CanonTerm(w.tm.Of(v)))
}

// mayWriteQuota: the call can store to a species' quota.
func (w *c02QWalk) mayWriteQuota(c ssa.CallInstruction) (bool, string) {
	cc := c.Common()
	if _, isB := cc.Value.(*ssa.Builtin); isB {
		return false, ""
	}
	if callee := cc.StaticCallee(); callee != nil {
		if callee.Pkg == nil || !strings.HasPrefix(callee.Pkg.Pkg.Path(), Mod) {
			return false, ""
		}
		_, wt := w.p.writeSet(callee, 0)
		for _, t := range wt.W[callee] {
			if t.What == "Species.ExpectedOffspring" {
				return true, FuncName(callee) + " writes Species.ExpectedOffspring (via " + strings.Join(t.Via, " -> ") + ")"
			}
		}
		if _, analysed := wt.Funcs[callee]; !analysed && callee.Blocks != nil {
			return true, FuncName(callee) + " is not analysed"
		}
		return false, ""
	}
	// a call through a function value or an interface: it can reach a quota only through an argument
	args := cc.Args
	if cc.IsInvoke() {
		args = append([]ssa.Value{cc.Value}, args...)
	}
	for _, a := range args {
		if strings.Contains(a.Type().String(), Mod) {
			return true, "a dynamic call receives " + a.Type().String()
		}
	}
	return false, ""
}

// c02FullCover: l runs its body once for every position 0 .. len(S)-1 of the slice S, whose origin term is
// listTerm: the header is the only block that leaves the loop, its test keeps the iteration inside exactly when
// c+d < len(S) for a header phi c that starts at -d and advances by one on every back edge (d = 0: index loop,
// d = 1: the pre-incremented counter of a range loop), and the list field is not stored to inside the loop.
func (w *c02QWalk) fullCover(l *Loop, listTerm string) (ph *ssa.Phi, d int64, ok bool) {
	for b := range l.Blocks {
		for _, s := range b.Succs {
			if !l.Blocks[s] && b != l.Header {
				return nil, 0, false
			}
		}
	}
	h := l.Header
	if len(h.Instrs) == 0 || len(h.Succs) != 2 {
		return nil, 0, false
	}
	iff, isIf := h.Instrs[len(h.Instrs)-1].(*ssa.If)
	if !isIf {
		return nil, 0, false
	}
	var stayOutcome bool
	switch {
	case l.Blocks[h.Succs[0]] && !l.Blocks[h.Succs[1]]:
		stayOutcome = true
	case !l.Blocks[h.Succs[0]] && l.Blocks[h.Succs[1]]:
		stayOutcome = false
	default:
		return nil, 0, false
	}
	x, y, isLess := c13LessThan(iff.Cond, stayOutcome)
	if !isLess {
		return nil, 0, false
	}
	for _, c := range HeaderPhis(l) {
		if c02CounterPlus(x, c) >= 0 {
			ph = c
		}
	}
	if ph == nil {
		return nil, 0, false
	}
	d = c02CounterPlus(x, ph)
	nInit, nStep := 0, 0
	for i, e := range ph.Edges {
		if l.Blocks[h.Preds[i]] {
			if !c13IsPlusOne(e, ph) {
				return nil, 0, false
			}
			nStep++
		} else {
			k, isK := constInt(e)
			if !isK || k+d != 0 {
				return nil, 0, false
			}
			nInit++
		}
	}
	if nInit == 0 || nStep == 0 {
		return nil, 0, false
	}
	S := c02LenOf(y)
	if S == nil || w.tm.Of(S).String() != listTerm {
		return nil, 0, false
	}
	for _, st := range FieldStores(w.fn, w.listFld) {
		if l.Blocks[st.Block()] {
			return nil, 0, false
		}
	}
	return ph, d, true
}

// elemQuotaAddr: a is &(*&S[c+d]).ExpectedOffspring for the list with origin term listTerm.
func (w *c02QWalk) elemQuotaAddr(a ssa.Value, ph *ssa.Phi, d int64, listTerm string) bool {
	fa, ok := w.isEOAddr(a)
	if !ok {
		return false
	}
	ld, isLd := fa.X.(*ssa.UnOp)
	if !isLd || ld.Op != token.MUL {
		return false
	}
	ia, isIA := ld.X.(*ssa.IndexAddr)
	if !isIA {
		return false
	}
	return c02CounterPlus(ia.Index, ph) == d && w.tm.Of(ia.X).String() == listTerm
}

func (w *c02QWalk) everyIteration(l *Loop, b *ssa.BasicBlock) bool {
	if il := InnermostLoop(Loops(w.fn), b); il == nil || il.Header != l.Header {
		return false
	}
	for _, lt := range l.Latch {
		if !(b == lt || b.Dominates(lt)) {
			return false
		}
	}
	return true
}

func (w *c02QWalk) applyLoop(l *Loop, pred *ssa.BasicBlock, st *c02QState) {
	const list = "recv.Species"
	var stores []*ssa.Store
	for _, s := range FieldStores(w.fn, w.eo) {
		if l.Blocks[s.Block()] {
			stores = append(stores, s)
		}
	}
	callWhy := ""
	Instrs(w.fn, func(b *ssa.BasicBlock, _ int, in ssa.Instruction) {
		if !l.Blocks[b] {
			return
		}
		if c, ok := in.(ssa.CallInstruction); ok {
			if may, why := w.mayWriteQuota(c); may && callWhy == "" {
				callWhy = why
			}
		}
	})
	ph, d, covered := w.fullCover(l, list)
	// the values the header phis have on entry
	inits := map[*ssa.Phi]ssa.Value{}
	for _, c := range HeaderPhis(l) {
		for i, e := range c.Edges {
			if l.Header.Preds[i] == pred {
				inits[c] = st.resolve(e)
			}
		}
	}
	// counters that add `what(iteration)` once per iteration
	sumPhis := func(isAddend func(v ssa.Value) bool) []*ssa.Phi {
		var out []*ssa.Phi
		for _, c := range HeaderPhis(l) {
			if !c02IsInt(c.Type()) || inits[c] == nil {
				continue
			}
			okAll, n := true, 0
			for i, e := range c.Edges {
				if !l.Blocks[l.Header.Preds[i]] {
					continue
				}
				n++
				bo, isBo := e.(*ssa.BinOp)
				if !isBo || bo.Op != token.ADD || !w.everyIteration(l, bo.Block()) {
					okAll = false
					break
				}
				switch {
				case bo.X == ssa.Value(c) && isAddend(bo.Y):
				case bo.Y == ssa.Value(c) && isAddend(bo.X):
				default:
					okAll = false
				}
			}
			if okAll && n > 0 {
				out = append(out, c)
			}
		}
		return out
	}
	loadOfElemQuota := func(v ssa.Value) *ssa.UnOp {
		ld, ok := v.(*ssa.UnOp)
		if !ok || ld.Op != token.MUL || !covered || !w.elemQuotaAddr(ld.X, ph, d, list) {
			return nil
		}
		return ld
	}
	pos := w.p.Pos(firstBlockPos(l.Header))
	switch {
	case callWhy != "":
		st.unknown("a loop calls a function that may change quotas: " + callWhy + " [" + pos + "]")
		st.ver++
	case w.quota != nil && l.Blocks[w.quota.Block()]:
		okQ := covered && len(stores) == 1 && w.elemQuotaAddr(w.quota.Addr, ph, d, list) && w.everyIteration(l, w.quota.Block())
		if !okQ {
			st.unknown("the quota loop does not assign countOffspring's result to every species exactly once [" + pos + "]")
			st.ver++
			break
		}
		sums := sumPhis(func(v ssa.Value) bool {
			if v == w.quota.Val {
				return true
			}
			ld := loadOfElemQuota(v)
			if ld == nil {
				return false
			}
			// read after the quota of this iteration was stored
			if ld.Block() == w.quota.Block() {
				return instrIndex(w.quota) < instrIndex(ld)
			}
			return w.quota.Block().Dominates(ld.Block())
		})
		st.known, st.zeroed, st.why = true, false, ""
		st.S = linAtom(c02AtomQ)
		st.ver++
		for _, c := range sums {
			st.lenv[c] = w.lin(st, inits[c], 0).Add(linAtom(c02AtomQ), 1)
		}
	case len(stores) > 0:
		okZ := covered
		for _, s := range stores {
			if !IsConstIntValue(s.Val, 0) || !w.elemQuotaAddr(s.Addr, ph, d, list) || !w.everyIteration(l, s.Block()) {
				okZ = false
			}
		}
		if okZ {
			st.known, st.zeroed, st.why = true, true, ""
			st.S = linConst(0)
		} else if v, isOne := w.allToOneLoop(l, ph, d, covered, list, stores); isOne {
			// the zeroing loop and the assignment to the one recipient written as a single loop
			st.known, st.zeroed, st.why = true, false, ""
			st.S = w.lin(st, v, 0)
		} else {
			st.unknown("a loop changes quotas in a way that is not understood [" + pos + "]")
		}
		st.ver++
	default:
		if st.known {
			for _, c := range sumPhis(func(v ssa.Value) bool { return loadOfElemQuota(v) != nil }) {
				st.lenv[c] = w.lin(st, inits[c], 0).Add(st.S, 1)
			}
		}
	}
}

func (w *c02QWalk) leaf(st *c02QState, at ssa.Instruction) {
	w.leaves++
	fail := func(why string) {
		if w.badWhy == "" {
			w.badWhy, w.badTrail, w.badPos = why, append([]string{}, st.trail...), at.Pos()
			if !w.badPos.IsValid() {
				w.badPos = firstBlockPos(at.Block())
			}
		}
	}
	if !st.known {
		why := st.why
		if why == "" {
			why = "no quota was assigned on this path"
		}
		fail("the total of the quotas is not known at the return: " + why)
		return
	}
	D := st.S.Add(linAtom(w.nAtom), -1)
	if len(D.T) == 0 {
		if D.C == 0 {
			w.okLeaves++
		} else {
			fail(fmt.Sprintf("the quotas total len(Organisms)%+d at the return", D.C))
		}
		return
	}
	var fs []string
	for _, f := range st.facts {
		fs = append(fs, f.String()+" >= 0")
	}
	lower := false
	for _, f := range st.facts {
		x := D.Add(f, -1)
		if len(x.T) == 0 && x.C >= 0 {
			lower = true
		}
	}
	if lower {
		// offspring added on top of the counted quotas must not push the total beyond the population size either
		if added := st.S.Add(linAtom(c02AtomQ), -1); !added.IsZero() {
			upper := false
			for _, f := range st.facts {
				x := linConst(0).Add(D, -1).Add(f, -1)
				if len(x.T) == 0 && x.C >= 0 {
					upper = true
				}
			}
			if !upper {
				fail(fmt.Sprintf("at the return the quotas total S = %s (Q = what the quota loop assigned): offspring were added to the counted quotas but no test passed on the path implies S <= len(Organisms) - the species would deliver more babies than the population size; known: %s", st.S.String(), strings.Join(fs, "; ")))
				return
			}
		}
		w.okLeaves++
		return
	}
	fail(fmt.Sprintf("at the return the quotas total S = %s (Q = what the quota loop assigned) but no test passed on the path implies S >= len(Organisms); known: %s", st.S.String(), strings.Join(fs, "; ")))
}

func c02IsNilConst(v ssa.Value) bool {
	c, ok := v.(*ssa.Const)
	return ok && c.Value == nil && isNillable(c.Type())
}

func (w *c02QWalk) walk(b, pred *ssa.BasicBlock, st *c02QState) {
	if w.tooMany {
		return
	}
	if w.leaves > 4096 || len(st.trail) > 400 {
		w.tooMany = true
		return
	}
	if l := w.loopOf[b]; l != nil {
		if b != l.Header {
			st.unknown("a loop is entered past its header")
			w.leaf(st, b.Instrs[0])
			return
		}
		w.applyLoop(l, pred, st)
		for _, x := range w.fn.Blocks { // deterministic order
			if !l.Blocks[x] {
				continue
			}
			for _, y := range x.Succs {
				if !l.Blocks[y] {
					w.walk(y, x, st.clone())
				}
			}
		}
		return
	}
	// phis take the value of the edge walked
	if pred != nil {
		idx := -1
		for i, q := range b.Preds {
			if q == pred {
				idx = i
				break
			}
		}
		upd := map[ssa.Value]ssa.Value{}
		for _, in := range b.Instrs {
			ph, ok := in.(*ssa.Phi)
			if !ok {
				break
			}
			if idx >= 0 {
				upd[ph] = st.resolve(ph.Edges[idx])
			}
		}
		for k, v := range upd {
			if v != k {
				st.env[k] = v
			}
		}
	}
	for _, in := range b.Instrs {
		switch x := in.(type) {
		case *ssa.UnOp:
			if x.Op == token.MUL {
				if _, ok := w.isEOAddr(x.X); ok {
					st.loadVer[x] = st.ver
				}
			}
		case *ssa.Store:
			if _, ok := w.isEOAddr(x.Addr); !ok {
				continue
			}
			if st.known {
				val := w.lin(st, x.Val, 0)
				cur := linAtom(fmt.Sprintf("%s@%d", w.addrKey(x.Addr), st.ver))
				diff := val.Add(cur, -1)
				switch {
				case len(diff.T) == 0:
					st.S = st.S.Add(linConst(diff.C), 1)
					if diff.C != 0 {
						st.zeroed = false
					}
				case st.zeroed:
					st.S, st.zeroed = val, false
				default:
					st.unknown("the quota of one species is overwritten with " + val.String() + " [" + w.p.Pos(x.Pos()) + "]")
				}
			}
			st.ver++
		case *ssa.Phi:
		case *ssa.If:
			cond := st.resolve(x.Cond)
			for _, outcome := range []bool{true, false} {
				if c, isC := cond.(*ssa.Const); isC && (IsConstBool(c, true) || IsConstBool(c, false)) && IsConstBool(c, true) != outcome {
					continue
				}
				succ := b.Succs[0]
				if !outcome {
					succ = b.Succs[1]
				}
				st2 := st.clone()
				if cx, cy, op, ok := CmpFact(cond, outcome); ok {
					rx, ry := st.resolve(cx), st.resolve(cy)
					if op == token.EQL && c02IsNilConst(ry) && (w.recipients[cx] || w.recipients[rx]) {
						continue // no species to give offspring to
					}
					if (w.recipIdx[cx] || w.recipIdx[rx]) && c02SaysNoPosition(ry, op) {
						continue // the same, the recipient being kept as a position in the species list
					}
					if c02IsInt(rx.Type()) && c02IsInt(ry.Type()) {
						a, bb := w.lin(st, rx, 0), w.lin(st, ry, 0)
						switch op {
						case token.EQL:
							st2.facts = append(st2.facts, a.Add(bb, -1), bb.Add(a, -1))
						case token.NEQ:
						default:
							if f, okF := ineqAsLin(op, a, bb, true); okF {
								st2.facts = append(st2.facts, f)
							}
						}
					}
				}
				pos := x.Cond.Pos()
				if !pos.IsValid() {
					pos = firstBlockPos(b)
				}
				st2.trail = append(st2.trail, fmt.Sprintf("%s: %s is %v", w.p.Pos(pos), w.tm.Of(x.Cond).String(), outcome))
				w.walk(succ, b, st2)
			}
			return
		case *ssa.Jump:
			w.walk(b.Succs[0], b, st)
			return
		case *ssa.Return:
			w.leaf(st, x)
			return
		case *ssa.Panic:
			return
		case ssa.CallInstruction:
			if may, why := w.mayWriteQuota(x); may {
				st.unknown("a call may change quotas: " + why + " [" + w.p.Pos(x.Pos()) + "]")
				st.ver++
			}
		}
	}
}

// apportionTotal records C02.3/apportion.total for fn (Population.purgeZeroOffspringSpecies); quota is the store
// of countOffspring's result into a species' quota.
func (r *Run) apportionTotal(fn *ssa.Function, tm *Termer, quota *ssa.Store) {
	p := r.P
	eo := p.Field(PkgG, "Species", "ExpectedOffspring")
	w := &c02QWalk{r: r, p: p, fn: fn, tm: tm, eo: eo, listFld: p.Field(PkgG, "Population", "Species"), quota: quota,
		loopOf: map[*ssa.BasicBlock]*Loop{}, recipients: map[ssa.Value]bool{}, recipIdx: map[ssa.Value]bool{}, nAtom: "len(recv.Organisms)"}
	if sts := FieldStores(fn, p.Field(PkgG, "Population", "Organisms")); len(sts) > 0 {
		r.Undecided("apportion.total", p.Pos(sts[0].Pos()), "the organism list is replaced while the quotas are computed; the population size the quotas have to total is not a single quantity")
		return
	}
	loops := Loops(fn)
	for _, l := range loops {
		nested := false
		for _, o := range loops {
			if o != l && o.Blocks[l.Header] && len(o.Blocks) > len(l.Blocks) {
				nested = true
			}
		}
		if !nested {
			w.top = append(w.top, l)
			for b := range l.Blocks {
				w.loopOf[b] = l
			}
		}
	}
	for _, s := range FieldStores(fn, eo) {
		if fa, ok := s.Addr.(*ssa.FieldAddr); ok {
			w.recipients[fa.X] = true
			if idx := c02RecipientIndex(tm, fa.X); idx != nil {
				w.recipIdx[idx] = true
			}
		}
	}
	if len(fn.Blocks) == 0 {
		r.Undecided("apportion.total", p.Pos(fn.Pos()), "no body")
		return
	}
	st := &c02QState{env: map[ssa.Value]ssa.Value{}, lenv: map[ssa.Value]Lin{}, loadVer: map[ssa.Value]int{}}
	w.walk(fn.Blocks[0], nil, st)
	r.PathsExplored += w.leaves
	switch {
	case w.tooMany:
		r.Undecided("apportion.total", p.Pos(fn.Pos()), "too many paths through the quota computation")
	case w.badWhy != "":
		r.Bad("apportion.total", p.Pos(w.badPos), "a path through the quota computation reaches the reproduction step without the quotas being known to total the population size: "+w.badWhy+
			". After offspring were added to a quota, the total has to be counted (or adjusted) again and compared with len(Organisms); when it is still short - e.g. every species counted 0 because the fitness sum overflowed - the whole population has to go to one species, otherwise the epoch ends with a wrong number of organisms", w.badTrail...)
	case w.okLeaves == 0:
		r.Bad("apportion.total", p.Pos(fn.Pos()), "no path through the quota computation reaches a return")
	default:
		r.OK("apportion.total", p.Pos(fn.Pos()), fmt.Sprintf("on each of the %d paths to the return the quotas total at least len(Organisms), and offspring added on top of the counted quotas stay within it: the path passed a test of the total as it stands at the return (offspring added after the count included), or the all-to-one redistribution", w.okLeaves))
	}
}

// apportionRecipient records C02.3/apportion.recipient: the species that receives the make-up offspring (or the
// whole population in the fallback) exists whenever the population has a species.
//
// Why it is necessary: with all-zero fitness (a case the statement names) every species counts 0 offspring; the
// fix-up then has to hand the population to some species. When the search can end with nil although species
// exist, nothing is handed out, every species is purged for its zero quota and the epoch fails.
//
// Decided per path of one iteration of the search loop (EnumIterPaths). R is the recipient-so-far (header phi,
// nil on entry), e the species of the iteration:
//   - a path either makes e the recipient (then R is not nil afterwards), or leaves R unchanged;
//   - a path that leaves R unchanged has passed `R != nil`, or `e.ExpectedOffspring < M` for a counter M that is 0 on
//     entry and is not changed on any path that leaves R unchanged. With the invariant "R == nil implies M == 0"
//     (true on entry, kept by both kinds of paths) and quotas >= 0 (countOffspring adds floors of non-negative
//     numbers), `quota < M` excludes M == 0, hence R != nil.
//
// So R is not nil after the first iteration. A recipient that is an element of recv.Species taken directly is
// accepted as it is.
func (r *Run) apportionRecipient(fn *ssa.Function, tm *Termer) {
	p := r.P
	eo := p.Field(PkgG, "Species", "ExpectedOffspring")
	loops := Loops(fn)
	seen := map[ssa.Value]bool{}
	n := 0
	for _, st := range FieldStores(fn, eo) {
		if InnermostLoop(loops, st.Block()) != nil {
			continue
		}
		fa := st.Addr.(*ssa.FieldAddr)
		R := fa.X
		if seen[R] {
			continue
		}
		seen[R] = true
		n++
		ok, why := c02RecipientExists(fn, tm, loops, R)
		r.Check(ok, "apportion.recipient", p.Pos(st.Pos()), "the species that receives the offspring is found whenever there is a species: "+why,
			"the species that is to receive the make-up offspring (or the whole population) can be nil although the population has species - "+why+": with all quotas zero (all-zero fitness) nothing is handed out, every species is purged and the epoch fails")
	}
	if n == 0 {
		r.Bad("apportion.recipient", p.Pos(fn.Pos()), "no species receives make-up offspring outside the counting loops")
	}
}

func c02RecipientExists(fn *ssa.Function, tm *Termer, loops []*Loop, R ssa.Value) (bool, string) {
	const elem = "recv.Species[*]"
	isElem := func(v ssa.Value) bool {
		t := tm.Of(v)
		return t.Op == "elem" && t.Args[0].String() == "recv.Species"
	}
	if _, isPhi := R.(*ssa.Phi); !isPhi {
		if isElem(R) {
			if idx := c02RecipientIndex(tm, R); idx != nil {
				// chosen by position, a negative position standing for nobody (robust_c09c.go)
				return c02RecipientIndexExists(fn, tm, loops, idx)
			}
			return true, "it is an element of the species list"
		}
		return false, "its origin " + tm.Of(R).String() + " is not understood"
	}
	web := phiWeb(R)
	for _, f := range web.Feeders {
		if !isElem(f) {
			return false, "it may be " + tm.Of(f).String() + ", which is not a species of the list"
		}
	}
	if len(web.Feeders) == 0 {
		return false, "no species is ever selected"
	}
	if !web.HasNil {
		return true, "it is always an element of the species list"
	}
	// the search loop and the recipient-so-far
	var L *Loop
	var phR *ssa.Phi
	for _, l := range loops {
		for _, ph := range HeaderPhis(l) {
			if web.Phis[ph] {
				if phR != nil {
					return false, "it is searched for in more than one loop"
				}
				L, phR = l, ph
			}
		}
	}
	if L == nil {
		return false, "it is nil on some path that does not depend on a search over the species"
	}
	// every species is visited: the header test is the only way out and compares a counter with len(recv.Species)
	for b := range L.Blocks {
		for _, s := range b.Succs {
			if !L.Blocks[s] && b != L.Header {
				return false, "the search loop can be left early"
			}
		}
	}
	paths, complete := EnumIterPaths(fn, L, 2000)
	if !complete {
		return false, "too many paths through the search loop"
	}
	type unchanged struct {
		ip *IterPath
		m  *ssa.Phi
	}
	var keep []unchanged
	nSel := 0
	for _, ip := range paths {
		if ip.End != "back" {
			continue
		}
		nv := ip.NextValue(phR)
		if nv == nil {
			return false, "the search loop is not understood"
		}
		if nv != ssa.Value(phR) {
			if w2 := phiWeb(nv); len(w2.Phis) > 0 || w2.HasNil || !isElem(nv) {
				return false, "an iteration may reset it to " + tm.Of(nv).String()
			}
			nSel++
			continue
		}
		// R unchanged: why is it not nil?
		u := unchanged{ip: ip}
		okPath := false
		for _, g := range ip.Conds {
			if GuardNilness(g, func(v ssa.Value) bool { return v == ssa.Value(phR) }) == -1 {
				okPath = true
			}
		}
		if !okPath {
			for _, g := range ip.Conds {
				x, y, op, isCmp := CmpFact(g.Cond, g.True)
				if !isCmp {
					continue
				}
				// quota < M
				switch op {
				case token.LSS:
				case token.GTR:
					x, y = y, x
				default:
					continue
				}
				if k, isK := constInt(y); isK && k <= 0 && tm.Of(x).String() == elem+".ExpectedOffspring" {
					okPath = true // `quota < 0` never holds: no iteration takes this path
					continue
				}
				m, isPhi := y.(*ssa.Phi)
				if !isPhi || m.Block() != L.Header || tm.Of(x).String() != elem+".ExpectedOffspring" {
					continue
				}
				zero := true
				for i, e := range m.Edges {
					if !L.Blocks[L.Header.Preds[i]] {
						if k, isK := constInt(e); !isK || k != 0 {
							zero = false
						}
					}
				}
				if zero {
					u.m, okPath = m, true
				}
			}
		}
		if !okPath {
			return false, "an iteration can pass a species over while none was selected yet (no test `quota < best so far, initially 0` or `selected != nil` on that path)"
		}
		keep = append(keep, u)
	}
	for _, u := range keep {
		if u.m == nil {
			continue
		}
		for _, o := range keep {
			if nv := o.ip.NextValue(u.m); nv != ssa.Value(u.m) {
				return false, "the best quota so far changes in an iteration that selects nobody"
			}
		}
	}
	// entry: nothing selected
	if nSel == 0 {
		return false, "no iteration selects the species it visits"
	}
	return true, "every iteration of the search selects the species it visits unless one was selected before (quota < best-so-far, which starts at 0, or selected != nil)"
}

// c02EmptySlice: v is a slice of length 0 (nil, make(T, 0[, c]), x[:0] of a fresh array).
func c02EmptySlice(v ssa.Value) bool {
	switch x := v.(type) {
	case *ssa.Const:
		return x.Value == nil
	case *ssa.MakeSlice:
		k, ok := constInt(x.Len)
		return ok && k == 0
	case *ssa.Slice:
		if x.High != nil {
			if k, ok := constInt(x.High); ok && k == 0 && x.Low == nil {
				return true
			}
		}
		if al, ok := x.X.(*ssa.Alloc); ok && x.High == nil && x.Low == nil {
			if pt, ok := al.Type().Underlying().(*types.Pointer); ok {
				if at, ok := pt.Elem().Underlying().(*types.Array); ok && at.Len() == 0 {
					return true
				}
			}
		}
	}
	return false
}

// c02BuiltFromEmpty: the slice v is an empty slice, or the result of appending single elements to such a slice
// (through any phis): it holds nothing but what was appended to it.
func c02BuiltFromEmpty(v ssa.Value, seen map[ssa.Value]bool) bool {
	if seen[v] {
		return true
	}
	seen[v] = true
	switch x := v.(type) {
	case *ssa.Phi:
		for _, e := range x.Edges {
			if !c02BuiltFromEmpty(e, seen) {
				return false
			}
		}
		return true
	case *ssa.ChangeType:
		return c02BuiltFromEmpty(x.X, seen)
	case *ssa.Call:
		base, elems, isApp := appendCall(x)
		if !isApp || len(elems) == 0 {
			return false
		}
		return c02BuiltFromEmpty(base, seen)
	}
	return c02EmptySlice(v)
}
