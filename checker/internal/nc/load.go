// Package nc is the static checker for the goNEAT properties C01..C20.
//
// Everything here inspects the type-checked syntax, the go/ssa form and a VTA
// call graph of /repo's current working tree. Nothing from the repository is
// executed.
package nc

import (
	"fmt"
	"go/ast"
	"go/token"
	"go/types"
	"os"
	"path/filepath"
	"sort"
	"strings"

	"golang.org/x/tools/go/callgraph"
	"golang.org/x/tools/go/callgraph/cha"
	"golang.org/x/tools/go/callgraph/vta"
	"golang.org/x/tools/go/packages"
	"golang.org/x/tools/go/ssa"
	"golang.org/x/tools/go/ssa/ssautil"
)

// Module path prefixes of the repository under analysis.
const (
	Mod  = "github.com/yaricom/goNEAT/v4"
	PkgG = Mod + "/neat/genetics"
	PkgN = Mod + "/neat/network"
	PkgM = Mod + "/neat/math"
	PkgE = Mod + "/experiment"
	PkgT = Mod + "/neat" // traits, options, logging
)

// ExpectedPackages is the number of packages `./...` matches in the pinned
// tree. Fewer means the loader did not see what the build sees.
const ExpectedPackages = 13

// Prog is the loaded program.
type Prog struct {
	Dir    string
	Tier   string
	Fset   *token.FileSet
	Pkgs   []*packages.Package
	ByPath map[string]*packages.Package
	SSA    *ssa.Program
	SSAPk  map[string]*ssa.Package
	// lazily built
	cg       *callgraph.Graph
	allFuncs map[*ssa.Function]bool
	// extra fixture packages (loaded from the checker's testdata)
	Fixtures map[string]*ssa.Package
	Fix      *Prog

	declCache   map[*types.Func]*ast.FuncDecl
	allWT       *WriteThrough // write-through facts over all repository functions (built on first use)
	NormLog     []string      // what the source normalisation inlined (or declined to)
	nsDone      bool
	nsWrites    []newStateWrite
	constTables map[*ssa.Global]*ConstTable // robust_c07.go: package-level variables proved to be constant tables
}

func loadEnv() []string {
	env := os.Environ()
	out := env[:0:0]
	for _, e := range env {
		if strings.HasPrefix(e, "GOFLAGS=") || strings.HasPrefix(e, "GOPROXY=") ||
			strings.HasPrefix(e, "GOSUMDB=") || strings.HasPrefix(e, "GOWORK=") ||
			strings.HasPrefix(e, "GOTOOLCHAIN=") {
			continue
		}
		out = append(out, e)
	}
	return append(out, "GOFLAGS=-mod=mod", "GOPROXY=off", "GOSUMDB=off", "GOWORK=off", "GOTOOLCHAIN=local")
}

// Load type-checks dir's packages and builds SSA for them. Tier "thorough"
// also loads the syntax of the dependencies so that library bodies can be
// followed.
func Load(dir, tier string) (*Prog, error) {
	mode := packages.LoadSyntax
	if tier == "thorough" {
		mode = packages.LoadAllSyntax
	}
	cfg := &packages.Config{Mode: mode, Dir: dir, Tests: false, Env: loadEnv()}
	pkgs, err := packages.Load(cfg, "./...")
	if err != nil {
		return nil, fmt.Errorf("packages.Load: %w", err)
	}
	if len(pkgs) != ExpectedPackages {
		return nil, fmt.Errorf("loader matched %d packages, expected %d", len(pkgs), ExpectedPackages)
	}
	var errs []string
	packages.Visit(pkgs, nil, func(p *packages.Package) {
		if !strings.HasPrefix(p.PkgPath, Mod) {
			return
		}
		for _, e := range p.Errors {
			errs = append(errs, e.Error())
		}
	})
	if len(errs) > 0 {
		return nil, fmt.Errorf("type/parse errors in %s: %s", dir, strings.Join(errs, "; "))
	}
	// source normalisation: helpers the pinned tree does not have are inlined in an in-memory overlay
	var normLog []string
	srcDir := dir
	if os.Getenv("NEAT_NO_NORMALIZE") == "" {
		overlay, lg := BuildOverlay(pkgs, PinnedFuncs())
		normLog = lg
		if d := os.Getenv("NEAT_DUMP_OVERLAY"); d != "" {
			for name, b := range overlay {
				_ = os.WriteFile(d+"/"+strings.ReplaceAll(strings.TrimPrefix(name, dir), "/", "_"), b, 0o644)
			}
			_ = os.WriteFile(d+"/_normlog.txt", []byte(strings.Join(lg, "\n")+"\n"), 0o644) // [std] the normalisation log next to the dump
		}
		if len(overlay) > 0 {
			// go/packages type-checks every dependency from source as soon as an overlay is given; the
			// normalised sources are therefore written to a scratch copy of the module's Go files
			// (outside /repo and /verif, removed right after loading) and loaded from there.
			scratch, pkgs2, err2 := loadNormalised(dir, mode, overlay)
			if err2 != nil {
				// second attempt with every closure literal left in place (normalize.go, closureEdits)
				overlay2, lg2 := buildOverlay(pkgs, PinnedFuncs(), true)
				if scratch3, pkgs3, err3 := loadNormalised(dir, mode, overlay2); err3 == nil {
					normLog = append(lg2, "normalised without removing dead closures: "+err2.Error())
					scratch, pkgs2, err2 = scratch3, pkgs3, nil
				}
			}
			if err2 != nil {
				normLog = append(normLog, "normalisation abandoned: "+err2.Error())
			} else {
				pkgs = pkgs2
				srcDir = scratch
			}
		}
	}
	prog, ssaPkgs := ssautil.AllPackages(pkgs, ssa.InstantiateGenerics)
	prog.Build()
	p := &Prog{Dir: srcDir, Tier: tier, Pkgs: pkgs, SSA: prog,
		ByPath: map[string]*packages.Package{}, SSAPk: map[string]*ssa.Package{},
		Fixtures: map[string]*ssa.Package{}, declCache: map[*types.Func]*ast.FuncDecl{}, NormLog: normLog}
	for i, pk := range pkgs {
		p.ByPath[pk.PkgPath] = pk
		if ssaPkgs[i] == nil {
			return nil, fmt.Errorf("no SSA for %s", pk.PkgPath)
		}
		p.SSAPk[pk.PkgPath] = ssaPkgs[i]
		p.Fset = pk.Fset
	}
	return p, nil
}

// CallGraph returns the VTA call graph seeded by CHA (built on first use).
func (p *Prog) CallGraph() *callgraph.Graph {
	if p.cg == nil {
		p.allFuncs = ssautil.AllFunctions(p.SSA)
		p.cg = vta.CallGraph(p.allFuncs, cha.CallGraph(p.SSA))
	}
	return p.cg
}

// InRepo reports whether fn is defined in the repository under analysis.
func InRepo(fn *ssa.Function) bool {
	if fn == nil {
		return false
	}
	if fn.Pkg != nil {
		return strings.HasPrefix(fn.Pkg.Pkg.Path(), Mod)
	}
	if fn.Parent() != nil {
		return InRepo(fn.Parent())
	}
	if o := fn.Object(); o != nil && o.Pkg() != nil {
		return strings.HasPrefix(o.Pkg().Path(), Mod)
	}
	return false
}

// anchorMissing is panicked by the resolvers; the rule wrapper turns it into
// an `anchor-missing` obligation (fail closed).
type anchorMissing struct{ what string }

// Func resolves "Name" or "Type.method" in the package to its SSA function.
func (p *Prog) Func(pkgPath, name string) *ssa.Function {
	f := p.FuncOpt(pkgPath, name)
	if f == nil {
		panic(anchorMissing{fmt.Sprintf("function %s.%s", short(pkgPath), name)})
	}
	return f
}

// FuncOpt is Func without the panic.
func (p *Prog) FuncOpt(pkgPath, name string) *ssa.Function {
	sp := p.SSAPk[pkgPath]
	if sp == nil {
		sp = p.Fixtures[pkgPath]
	}
	if sp == nil {
		return nil
	}
	if i := strings.Index(name, "."); i >= 0 {
		tn, mn := name[:i], name[i+1:]
		obj := sp.Pkg.Scope().Lookup(tn)
		if obj == nil {
			return nil
		}
		named, ok := obj.Type().(*types.Named)
		if !ok {
			return nil
		}
		for _, t := range []types.Type{types.NewPointer(named), named} {
			ms := p.SSA.MethodSets.MethodSet(t)
			for i := 0; i < ms.Len(); i++ {
				sel := ms.At(i)
				if sel.Obj().Name() == mn && sel.Obj().Pkg() == sp.Pkg {
					if fn, ok := sel.Obj().(*types.Func); ok {
						if f := p.SSA.FuncValue(fn); f != nil {
							return f
						}
					}
				}
			}
		}
		return nil
	}
	if f := sp.Func(name); f != nil {
		return f
	}
	return nil
}

// GlobalFuncLit resolves a package-level `var name = func(...) {...}` to the
// anonymous function assigned to it in the package initialiser.
func (p *Prog) GlobalFuncLit(pkgPath, name string) *ssa.Function {
	sp := p.SSAPk[pkgPath]
	if sp == nil {
		panic(anchorMissing{"package " + pkgPath})
	}
	g, ok := sp.Members[name].(*ssa.Global)
	if !ok {
		panic(anchorMissing{fmt.Sprintf("global %s.%s", short(pkgPath), name)})
	}
	init := sp.Func("init")
	for _, b := range init.Blocks {
		for _, in := range b.Instrs {
			if st, ok := in.(*ssa.Store); ok && st.Addr == g {
				switch v := st.Val.(type) {
				case *ssa.Function:
					return v
				case *ssa.MakeClosure:
					return v.Fn.(*ssa.Function)
				}
			}
		}
	}
	panic(anchorMissing{fmt.Sprintf("function literal stored in %s.%s", short(pkgPath), name)})
}

// Named resolves a named type.
func (p *Prog) Named(pkgPath, name string) *types.Named {
	pk := p.typesPkg(pkgPath)
	if pk == nil {
		panic(anchorMissing{"package " + pkgPath})
	}
	obj := pk.Scope().Lookup(name)
	if obj == nil {
		panic(anchorMissing{fmt.Sprintf("type %s.%s", short(pkgPath), name)})
	}
	n, ok := obj.Type().(*types.Named)
	if !ok {
		panic(anchorMissing{fmt.Sprintf("named type %s.%s", short(pkgPath), name)})
	}
	return n
}

func (p *Prog) typesPkg(pkgPath string) *types.Package {
	if sp := p.SSAPk[pkgPath]; sp != nil {
		return sp.Pkg
	}
	if sp := p.Fixtures[pkgPath]; sp != nil {
		return sp.Pkg
	}
	for _, sp := range p.SSA.AllPackages() {
		if sp.Pkg.Path() == pkgPath {
			return sp.Pkg
		}
	}
	return nil
}

// Field resolves a struct field.
func (p *Prog) Field(pkgPath, typ, field string) *types.Var {
	n := p.Named(pkgPath, typ)
	st, ok := n.Underlying().(*types.Struct)
	if !ok {
		panic(anchorMissing{fmt.Sprintf("struct %s.%s", short(pkgPath), typ)})
	}
	for i := 0; i < st.NumFields(); i++ {
		if st.Field(i).Name() == field {
			return st.Field(i)
		}
	}
	panic(anchorMissing{fmt.Sprintf("field %s.%s.%s", short(pkgPath), typ, field)})
}

// Fields lists all fields of a struct type in declaration order.
func (p *Prog) Fields(pkgPath, typ string) []*types.Var {
	n := p.Named(pkgPath, typ)
	st, ok := n.Underlying().(*types.Struct)
	if !ok {
		panic(anchorMissing{fmt.Sprintf("struct %s.%s", short(pkgPath), typ)})
	}
	var out []*types.Var
	for i := 0; i < st.NumFields(); i++ {
		out = append(out, st.Field(i))
	}
	return out
}

// Const resolves a package-level constant.
func (p *Prog) Const(pkgPath, name string) *types.Const {
	pk := p.typesPkg(pkgPath)
	if pk == nil {
		panic(anchorMissing{"package " + pkgPath})
	}
	c, ok := pk.Scope().Lookup(name).(*types.Const)
	if !ok {
		panic(anchorMissing{fmt.Sprintf("constant %s.%s", short(pkgPath), name)})
	}
	return c
}

// ConstsOfType lists the package-level constants of the named type, sorted by value.
func (p *Prog) ConstsOfType(pkgPath, typ string) []*types.Const {
	n := p.Named(pkgPath, typ)
	var out []*types.Const
	sc := n.Obj().Pkg().Scope()
	for _, name := range sc.Names() {
		if c, ok := sc.Lookup(name).(*types.Const); ok && types.Identical(c.Type(), n) {
			out = append(out, c)
		}
	}
	sort.Slice(out, func(i, j int) bool { return out[i].Val().String() < out[j].Val().String() })
	return out
}

// Decl returns the syntax of a source function.
func (p *Prog) Decl(fn *ssa.Function) *ast.FuncDecl {
	if fn == nil {
		return nil
	}
	if d, ok := fn.Syntax().(*ast.FuncDecl); ok {
		return d
	}
	return nil
}

// PkgOf returns the loaded package holding fn (for types.Info).
func (p *Prog) PkgOf(fn *ssa.Function) *packages.Package {
	for fn.Parent() != nil {
		fn = fn.Parent()
	}
	if fn.Pkg == nil {
		return nil
	}
	return p.ByPath[fn.Pkg.Pkg.Path()]
}

// Pos renders a position relative to the repository root.
func (p *Prog) Pos(pos token.Pos) string {
	if !pos.IsValid() {
		return "-"
	}
	ps := p.Fset.Position(pos)
	f := ps.Filename
	if strings.HasPrefix(f, p.Dir+"/") {
		f = f[len(p.Dir)+1:]
	}
	return fmt.Sprintf("%s:%d", f, ps.Line)
}

func short(pkgPath string) string {
	if strings.HasPrefix(pkgPath, Mod+"/") {
		return pkgPath[len(Mod)+1:]
	}
	if pkgPath == Mod {
		return "goNEAT"
	}
	return pkgPath
}

// FuncName renders a function as pkg.(Type).name without the module prefix.
func FuncName(fn *ssa.Function) string {
	if fn == nil {
		return "<nil>"
	}
	s := fn.String()
	s = strings.ReplaceAll(s, Mod+"/", "")
	return s
}

// SrcFuncs lists every source-level function (including anonymous ones) of
// the repository packages, in a deterministic order.
func (p *Prog) SrcFuncs() []*ssa.Function {
	var out []*ssa.Function
	var add func(f *ssa.Function)
	add = func(f *ssa.Function) {
		if f == nil || f.Blocks == nil || strings.HasSuffix(f.Name(), "__flat") {
			return // flat views duplicate code of their originals; rules ask for them by name
		}
		out = append(out, f)
		for _, a := range f.AnonFuncs {
			add(a)
		}
	}
	var paths []string
	for path := range p.SSAPk {
		paths = append(paths, path)
	}
	sort.Strings(paths)
	for _, path := range paths {
		sp := p.SSAPk[path]
		var names []string
		for n := range sp.Members {
			names = append(names, n)
		}
		sort.Strings(names)
		for _, n := range names {
			switch m := sp.Members[n].(type) {
			case *ssa.Function:
				add(m)
			case *ssa.Type:
				for _, t := range []types.Type{m.Type(), types.NewPointer(m.Type())} {
					ms := p.SSA.MethodSets.MethodSet(t)
					for i := 0; i < ms.Len(); i++ {
						if fn, ok := ms.At(i).Obj().(*types.Func); ok && fn.Pkg() == sp.Pkg {
							f := p.SSA.FuncValue(fn)
							if f != nil && f.Synthetic == "" {
								dup := false
								for _, o := range out {
									if o == f {
										dup = true
										break
									}
								}
								if !dup {
									add(f)
								}
							}
						}
					}
				}
			}
		}
	}
	return out
}

// loadNormalised writes the module's Go sources, with the overlay applied, to a scratch
// directory, loads them and removes the directory (positions keep pointing into it; Prog.Pos
// strips the prefix, so reports name the same relative paths as /repo).
func loadNormalised(dir string, mode packages.LoadMode, overlay map[string][]byte) (string, []*packages.Package, error) {
	scratch, err := os.MkdirTemp("", "neatnorm_")
	if err != nil {
		return "", nil, err
	}
	defer os.RemoveAll(scratch)
	err = filepath.Walk(dir, func(path string, fi os.FileInfo, err error) error {
		if err != nil {
			return err
		}
		rel, _ := filepath.Rel(dir, path)
		if fi.IsDir() {
			if fi.Name() == ".git" || rel == "out" {
				return filepath.SkipDir
			}
			return os.MkdirAll(filepath.Join(scratch, rel), 0o755)
		}
		if !strings.HasSuffix(path, ".go") && fi.Name() != "go.mod" && fi.Name() != "go.sum" {
			return nil
		}
		b, ok := overlay[path]
		if !ok {
			if b, err = os.ReadFile(path); err != nil {
				return err
			}
		}
		return os.WriteFile(filepath.Join(scratch, rel), b, 0o644)
	})
	if err != nil {
		return "", nil, err
	}
	cfg := &packages.Config{Mode: mode, Dir: scratch, Tests: false, Env: loadEnv()}
	pkgs, err := packages.Load(cfg, "./...")
	if err != nil {
		return "", nil, err
	}
	if len(pkgs) != ExpectedPackages {
		return "", nil, fmt.Errorf("the normalised tree has %d packages", len(pkgs))
	}
	var errs []string
	packages.Visit(pkgs, nil, func(p *packages.Package) {
		if strings.HasPrefix(p.PkgPath, Mod) {
			for _, e := range p.Errors {
				errs = append(errs, e.Error())
			}
		}
	})
	if len(errs) > 0 {
		return "", nil, fmt.Errorf("the inlined sources do not type-check: %s", strings.Join(errs, "; "))
	}
	return scratch, pkgs, nil
}
