package nc

import (
	"fmt"
	"go/token"
	"go/types"
	"strings"

	"golang.org/x/tools/go/ssa"
)

func init() { register("C04", C04) }

// mateShape locates the landmarks of one crossover function.
type mateShape struct {
	name     string
	fn       *ssa.Function
	tm       *Termer
	loops    []*Loop
	copyCall *ssa.Call // the NewGeneCopy call that builds a child gene
	chosen   ssa.Value // its first argument (the gene chosen in this step)
	walk     *Loop     // the loop over the parents' genes
	seed     *Loop     // the loop that seeds the child's interface nodes
	scan     *Loop     // the conflict scan over the child's genes
	skip1    *ssa.Phi  // the skip flag as tested before the conflict scan
	avgGene  ssa.Value // scratch gene of the averaging methods (nil for mateMultipoint)
	why      string
}

func (r *Run) mateShapeOf(name string) *mateShape {
	p := r.P
	fn := p.Func(PkgG, "Genome."+name)
	s := &mateShape{name: name, fn: fn, tm: NewTermer(fn), loops: Loops(fn)}
	r.Fn(FuncName(fn))
	cs := CallsTo(fn, p.Func(PkgG, "NewGeneCopy"))
	if len(cs) != 1 {
		s.why = fmt.Sprintf("%d NewGeneCopy calls, expected one per crossover function", len(cs))
		return s
	}
	s.copyCall = cs[0].(*ssa.Call)
	s.chosen = s.copyCall.Call.Args[0]
	ls := OuterLoops(s.loops, s.copyCall.Block())
	if len(ls) == 0 {
		s.why = "the child gene is not built inside a loop over the parents' genes"
		return s
	}
	s.walk = ls[len(ls)-1]
	isEq := p.Func(PkgN, "Link.IsEqualGenetically")
	for _, c := range CallsTo(fn, isEq) {
		if l := InnermostLoop(s.loops, c.Block()); l != nil && l != s.walk && s.walk.Blocks[l.Header] {
			s.scan = l
		}
	}
	nnc := p.Func(PkgN, "NewNNodeCopy")
	for _, c := range CallsTo(fn, nnc) {
		if l := scanLoopOf(s.loops, c.Block()); l != nil && !s.walk.Blocks[c.Block()] {
			s.seed = l
		}
	}
	if s.scan != nil {
		for _, g := range Guards(s.scan.Header) {
			if f, _, ok := boolFlagOf(g.Cond); ok {
				if ph := f.(*ssa.Phi); s.walk.Blocks[ph.Block()] {
					s.skip1 = ph
				}
			}
		}
		// the scan is entered from the block that tests the flag
		if s.skip1 == nil {
			for _, pr := range s.scan.Header.Preds {
				if s.scan.Blocks[pr] {
					continue
				}
				for x := pr; x != nil && s.walk.Blocks[x]; x = x.Idom() {
					if iff, ok := x.Instrs[len(x.Instrs)-1].(*ssa.If); ok {
						if f, _, ok := boolFlagOf(iff.Cond); ok {
							s.skip1 = f.(*ssa.Phi)
							break
						}
					}
				}
			}
		}
	}
	for _, c := range CallsTo(fn, p.Func(PkgG, "NewGeneWithTrait")) {
		if !s.walk.Blocks[c.Block()] {
			s.avgGene = c.Value()
		}
	}
	return s
}

// parentGene: t is <parent>.Genes[i]; returns 1 for the receiver, 2 for the other parent, and the index value.
func (s *mateShape) parentGene(v ssa.Value) (int, ssa.Value) {
	which, idx := s.parentGeneByTerm(v)
	if which == 0 {
		// an element of a tail of a parent's gene list (`rest := g.Genes; ... rest[0]; rest = rest[1:]`)
		if ld, ok := v.(*ssa.UnOp); ok && ld.Op == token.MUL {
			if ia, ok := ld.X.(*ssa.IndexAddr); ok {
				if w := s.c04RestList(ia.X); w != 0 {
					return w, ia.Index
				}
			}
		}
	}
	return which, idx
}

func (s *mateShape) parentGeneByTerm(v ssa.Value) (int, ssa.Value) {
	t := s.tm.Of(v)
	if t.Op != "elem" || len(t.Args) < 2 {
		return 0, nil
	}
	lt := t.Args[0]
	which := 0
	for _, a := range lt.Alternatives() {
		w := 0
		if a.Op == "field" && a.Name == "Genes" {
			// the receiver or the other parent, directly or read back from the write-once cell a captured variable lives in
			w = c04ParentOf(s.tm, a.Args[0])
		}
		if w == 0 {
			return 0, nil
		}
		if which != 0 && which != w {
			which = 3 // either parent (single point swaps the roles)
		} else if which == 0 {
			which = w
		}
	}
	return which, t.Args[1].V
}

// C04 — crossover children inherit genes only as NEAT's alignment rules allow.
func C04(p *Prog, r *Run) {
	r.Explanation = "Decided for the three crossover functions: (1) every child gene is built by NewGeneCopy from the gene chosen in the walk step (an element of a parent's gene list or the averaging scratch gene), NewGeneCopy carries innovation number, mutation number, enabled flag, weight and recurrence flag, and both endpoints are child nodes - found in the child's node list by the id of the chosen gene's own in resp. out node, or a fresh copy of exactly that node inserted into the list; (2) the gene is appended only after a scan of the child's genes with Link.IsEqualGenetically found no equal link, and the scan cannot be bypassed; (3) the averaging branch stores (w1+w2)/2, (m1+m2)/2, the matched number and endpoints/recurrence/trait taken from the same field of one of the two matched genes; (4) enabled flag: a child or scratch gene is set disabled only on paths where one of the two matched parent genes was tested disabled, the flag that requests it does not survive into the next step, and the scratch gene is re-enabled at the top of every step; (5) multipoint methods, decision table of one walk step enumerated over the SSA paths from the loop header to the skip test: which gene is chosen, which cursor advances and whether it is skipped, for excess/disjoint/matching genes under both values of the fitter-parent flag, whose own definition is (f1 > f2) or (f1 == f2 and fewer genes); (6) parents unmodified (transitive write sets through both parent parameters are empty); (7) traits: child trait i is the average of both parents' trait i, parameter by parameter; (8) interface nodes: copies of all input, bias and output nodes are seeded before the walk. Branch conditions are read as the comparison that holds (CmpFact) with `a < b` and `b > a` taken as one fact and the facts about one pair of values intersected along a path. Further necessary conditions: the child's gene and node lists start empty; an end node is copied only after an exhaustive search of the child's nodes found none with its id, and the node handed to the gene is never nil; every copied gene and node gets the child's trait at the position of its parent's trait (0 without one); a gene is read only at a cursor found below its parent's gene count and the cursors start at 0; every field of the averaging scratch gene is set on every path that hands it on; mateTraits fills every position and returns the list unless an average failed, NewTraitAvrg refuses only unequal parameter counts and covers indices 0..len-1; (9) a crossover refuses only on unequal trait counts or a failed trait averaging; (10) every step of the single-point walk advances one of its counters by one and moves no cursor otherwise. Not decided: global behaviour of the two-pointer walk beyond one step; single-point's choice rule (not part of the statement)."
	sums := NewSummaries(p)
	shapes := []*mateShape{}
	for _, n := range []string{"mateMultipoint", "mateMultipointAvg", "mateSinglePoint"} {
		shapes = append(shapes, r.mateShapeOf(n))
	}

	r.Rule("C04.0", "landmarks of the crossover functions", func() {
		for _, s := range shapes {
			ok := s.why == "" && s.walk != nil && s.scan != nil && s.seed != nil && s.skip1 != nil
			r.Check(ok, s.name+".shape", p.Pos(s.fn.Pos()), "gene walk, conflict scan, node seeding and skip flag located",
				fmt.Sprintf("cannot locate the parts of %s: %s (walk=%v scan=%v seed=%v skip flag=%v)", s.name, s.why, s.walk != nil, s.scan != nil, s.seed != nil, s.skip1 != nil))
		}
	})

	r.Rule("C04.1", "gene provenance: child genes are copies of the chosen parent (or averaged) gene; endpoints are child nodes looked up or copied by the chosen gene's own in/out node", func() {
		r.c04GeneCopyCtor(sums)
		for _, s := range shapes {
			if s.why != "" || s.walk == nil {
				continue
			}
			r.c04Provenance(s)
		}
	})

	r.Rule("C04.2", "occurs once: a chosen gene is appended only after a full scan of the child's genes found no genetically equal link; the scan cannot be bypassed", func() {
		r.c04IsEqualGenetically()
		for _, s := range shapes {
			if s.why != "" || s.scan == nil {
				continue
			}
			r.c04Conflict(s)
		}
	})

	r.Rule("C04.3", "averaged gene: mean weight and mutation number, matched innovation number, endpoints/recurrence/trait from the same field of one matched parent", func() {
		for _, s := range shapes {
			if s.avgGene == nil || s.why != "" {
				continue
			}
			r.c04Averaging(s)
		}
	})

	r.Rule("C04.4", "enabled flag: disabled only when a matched parent gene was tested disabled in the same step; nothing carries over between steps", func() {
		for _, s := range shapes {
			if s.why != "" || s.skip1 == nil {
				continue
			}
			r.c04Enabled(s)
		}
	})

	r.Rule("C04.5", "fitter-parent rule (multipoint methods): definition of the flag and the decision table of one walk step", func() {
		for _, s := range shapes[:2] {
			if s.why != "" || s.skip1 == nil {
				continue
			}
			r.c04StepTable(s)
		}
	})

	r.Rule("C04.6", "parents are left unmodified: nothing reachable from either parent is written", func() {
		for _, s := range shapes {
			for idx, who := range []string{"the receiver", "the other parent"} {
				ws, _ := p.writeSet(s.fn, idx)
				var bad []string
				for _, k := range sortedKeys(ws) {
					bad = append(bad, fmt.Sprintf("%s (at %s via %s)", k, p.Pos(ws[k].Pos), strings.Join(ws[k].Via, " -> ")))
				}
				r.Check(len(bad) == 0, fmt.Sprintf("%s.parent%d", s.name, idx+1), p.Pos(s.fn.Pos()), who+" is not written", s.name+" writes through "+who+": "+strings.Join(bad, "; "))
			}
		}
	})

	r.Rule("C04.7", "traits: child trait i = average of both parents' trait i, same count", func() {
		mt := p.Func(PkgG, "Genome.mateTraits")
		avg := p.Func(PkgT, "NewTraitAvrg")
		r.Fn(FuncName(mt), FuncName(avg))
		tm := NewTermer(mt)
		okLen, okElem := false, false
		var foreign []string
		var avgStores []*ssa.Store
		Instrs(mt, func(_ *ssa.BasicBlock, _ int, in ssa.Instruction) {
			if ms, ok := in.(*ssa.MakeSlice); ok {
				if tm.Of(ms.Len).String() == "len(recv.Traits)" {
					okLen = true
				}
			}
			if st, ok := in.(*ssa.Store); ok {
				if ia, ok := st.Addr.(*ssa.IndexAddr); ok {
					vt := tm.Of(st.Val)
					if vt.Op == "extract" && isCallTo(vt.Args[0], avg) {
						a := vt.Args[0].Args
						if a[0].Op == "elem" && a[0].Args[0].String() == "recv.Traits" && a[1].Op == "elem" && a[1].Args[0].String() == "p1.Traits" &&
							a[0].Args[1].V == ia.Index && a[1].Args[1].V == ia.Index {
							okElem = true
							avgStores = append(avgStores, st)
							return
						}
					}
					if _, isMS := stripPtr(ia.X).(*ssa.MakeSlice); isMS {
						foreign = append(foreign, vt.String()+" at "+p.Pos(st.Pos()))
					}
				}
			}
		})
		r.Check(len(foreign) == 0, "mateTraits.only-averages", p.Pos(mt.Pos()), "every element of the child's trait list is a NewTraitAvrg result (a new object)",
			"the child's trait list also receives "+strings.Join(foreign, "; ")+": a trait object of a parent becomes part of the child, so mutating the child's traits changes the parent (and, under the parallel executor, races with other goroutines reading that parent)")
		r.Check(okLen && okElem, "mateTraits", p.Pos(mt.Pos()), "newTraits[i] = NewTraitAvrg(g.Traits[i], og.Traits[i]), len(g.Traits) of them",
			fmt.Sprintf("mateTraits does not build len(g.Traits) traits with newTraits[i] = NewTraitAvrg(g.Traits[i], og.Traits[i]) (length ok=%v, element ok=%v)", okLen, okElem))
		r.c04MateTraitsCoverage(mt, avg, tm, avgStores)
		r.c04TraitAvrgFailsOnlyOnMismatch(avg)
		sm := sums.Ctor(avg)
		if sm.Why != "" {
			r.Undecided("NewTraitAvrg", p.Pos(avg.Pos()), sm.Why)
		} else {
			el := sm.Elems[p.Field(PkgT, "Trait", "Params")]
			id := sm.Fields[p.Field(PkgT, "Trait", "Id")]
			okAvg := false
			if el != nil && el.Op == "bin" && el.Name == "/" && el.Args[1].String() == "2" {
				sum := el.Args[0]
				if sum.Op == "bin" && sum.Name == "+" {
					a, b := sum.Args[0], sum.Args[1]
					if a.Op == "elem" && b.Op == "elem" && a.Args[1].V == b.Args[1].V {
						s1, s2 := a.Args[0].String(), b.Args[0].String()
						okAvg = (s1 == "p0.Params" && s2 == "p1.Params") || (s1 == "p1.Params" && s2 == "p0.Params")
					}
				}
			}
			r.Check(okAvg && id != nil && id.String() == "p0.Id", "NewTraitAvrg", p.Pos(avg.Pos()), "Params[i] = (t1.Params[i] + t2.Params[i]) / 2, Id of the first trait", fmt.Sprintf("NewTraitAvrg: Params[i] = %v, Id = %v", el, id))
			// the loop covers all parameters
			atm := NewTermer(avg)
			// the loop covers all parameters: it runs while i < len(t.Params), i takes the values 0, 1, 2, ..., it is left
			// only when the bound is reached, and every iteration stores the mean at index i
			okRange := false
			whyRange := "no loop runs while i < len(t.Params)"
			for _, l := range Loops(avg) {
				idx := c04LoopBound(atm, l, func(t *Term) bool { return t.String() == "p0.Params" || t.String() == "p1.Params" })
				if idx == nil {
					continue
				}
				switch {
				case !c04FromZeroByOne(l, idx):
					whyRange = "the index does not start at 0 and advance by 1 in every iteration"
				case !c04OnlyHeaderExit(l):
					whyRange = "the loop can be left before the last parameter"
				case !c04StoresAtIndexEveryIteration(atm, l, idx):
					whyRange = "not every iteration stores the mean of the two parameters at the loop index"
				default:
					okRange = true
				}
			}
			r.Check(okRange, "NewTraitAvrg.range", p.Pos(avg.Pos()), "all parameters are averaged: index 0, 1, .. len-1, one store per index", "NewTraitAvrg does not average every parameter: "+whyRange)
		}
	})

	r.Rule("C04.9", "a child is produced: a crossover refuses only when the parents' trait counts differ or the trait averaging failed", func() {
		for _, s := range shapes {
			r.c04ChildProduced(s)
		}
	})

	r.Rule("C04.10", "single-point walk: every step moves a counter of the walk forward and no cursor otherwise", func() {
		if s := shapes[2]; s.why == "" && s.skip1 != nil && s.walk != nil {
			r.c04Progress(s)
		}
	})

	r.Rule("C04.8", "interface nodes: copies of all input, bias and output nodes of a parent are inserted into the child before the gene walk", func() {
		for _, s := range shapes {
			if s.why != "" || s.seed == nil {
				continue
			}
			r.c04Seeding(s)
		}
	})
}

// c04GeneCopyCtor: NewGeneCopy(g, trait, in, out) carries number, mutation number, flag, weight, recurrence; endpoints and trait are the arguments.
func (r *Run) c04GeneCopyCtor(sums *Summaries) {
	p := r.P
	fn := p.Func(PkgG, "NewGeneCopy")
	r.Fn(FuncName(fn))
	sm := sums.Ctor(fn)
	if sm.Why != "" {
		r.Undecided("NewGeneCopy", p.Pos(fn.Pos()), sm.Why)
		return
	}
	want := map[string]string{"InnovationNum": "p0.InnovationNum", "MutationNum": "p0.MutationNum", "IsEnabled": "p0.IsEnabled"}
	for _, f := range sortedKeys(want) {
		t := sm.Fields[p.Field(PkgG, "Gene", f)]
		r.Check(t != nil && t.String() == want[f], "NewGeneCopy."+f, p.Pos(fn.Pos()), f+" <- "+want[f], fmt.Sprintf("NewGeneCopy sets %s to %v instead of the source gene's %s", f, t, f))
	}
	lt := sm.Fields[p.Field(PkgG, "Gene", "Link")]
	c, _ := lt.V.(*ssa.Call)
	if lt == nil || c == nil || c.Call.StaticCallee() == nil {
		r.Bad("NewGeneCopy.Link", p.Pos(fn.Pos()), fmt.Sprintf("the copy's link is %v", lt))
		return
	}
	inner := sums.Ctor(c.Call.StaticCallee())
	if inner.Why != "" {
		r.Undecided("NewGeneCopy.Link", p.Pos(fn.Pos()), inner.Why)
		return
	}
	wantL := map[string]string{"ConnectionWeight": "p0.Link.ConnectionWeight", "IsRecurrent": "p0.Link.IsRecurrent", "InNode": "p2", "OutNode": "p3", "Trait": "p1"}
	for _, f := range sortedKeys(wantL) {
		t := Subst(inner.Fields[p.Field(PkgN, "Link", f)], lt.Args)
		r.Check(t != nil && t.String() == wantL[f], "NewGeneCopy.Link."+f, p.Pos(fn.Pos()), "Link."+f+" <- "+wantL[f], fmt.Sprintf("NewGeneCopy sets Link.%s to %v, expected %s", f, t, wantL[f]))
	}
}

func (r *Run) c04Provenance(s *mateShape) {
	p, tm := r.P, s.tm
	// the chosen gene
	okChosen, n := true, 0
	var bad []string
	for _, f := range phiWeb(s.chosen).Feeders {
		n++
		if which, _ := s.parentGene(f); which != 0 {
			continue
		}
		if f == s.avgGene && s.avgGene != nil {
			continue
		}
		okChosen = false
		bad = append(bad, tm.Of(f).String())
	}
	r.Check(okChosen && n > 0, s.name+".chosen", p.Pos(s.copyCall.Pos()), "the copied gene is an element of a parent's gene list (or the averaging scratch gene)", "the gene copied into the child can be "+strings.Join(bad, ", ")+", which is not a gene of a parent")
	// endpoints
	nnc := p.Func(PkgN, "NewNNodeCopy")
	ni := p.Func(PkgG, "nodeInsert")
	for k, end := range []string{"InNode", "OutNode"} {
		v := s.copyCall.Call.Args[2+k]
		w := phiWeb(v)
		cons := s.name + ".endpoint." + end
		okAll := len(w.Feeders) > 0
		var why []string
		var copies []*ssa.Call
		var found []ssa.Value
		for _, f := range w.Feeders {
			ft := tm.Of(f)
			if c, ok := f.(*ssa.Call); ok && c.Call.StaticCallee() == nnc {
				copies = append(copies, c)
				// a fresh copy of the chosen gene's own node, inserted into the child's list
				if !fieldChainOnWeb(tm.Of(c.Call.Args[0]), s.chosen, "Link", end) {
					okAll = false
					why = append(why, "a copy of "+tm.Of(c.Call.Args[0]).String()+" instead of the chosen gene's "+end)
				}
				ins := false
				for _, ic := range CallsTo(s.fn, ni) {
					if ic.Common().Args[1] == f && (ic.Block() == c.Block() || c.Block().Dominates(ic.Block())) {
						ins = true
					}
				}
				if !ins {
					okAll = false
					why = append(why, "the copied node is not inserted into the child's node list")
				}
				continue
			}
			if ft.Op == "elem" {
				found = append(found, f)
				// found in the child's node list by id: the edge carrying it is guarded by element.Id == chosen.Link.<end>.Id
				okG := false
				for ph := range w.Phis {
					for i, e := range ph.Edges {
						if e != f {
							continue
						}
						pred := ph.Block().Preds[i]
						for _, g := range condsAt(pred, ph.Block()) {
							// the outcome read as the comparison that holds: `a == b`, `b == a`, `!(a != b)`, `a != b` taken false
							x, y, op, ok := CmpFact(g.Cond, g.True)
							if !ok || op != token.EQL {
								continue
							}
							a, b := tm.Of(x), tm.Of(y)
							for _, pr := range [][2]*Term{{a, b}, {b, a}} {
								if fieldChainOn(pr[0], f, "Id") && fieldChainOnWeb(pr[1], s.chosen, "Link", end, "Id") {
									okG = true
								}
							}
						}
					}
				}
				if !okG {
					// the position of the match was handed out of the scan and the element re-read there
					if mc, recs, okM := elemAtMatchedIndex(f); okM {
						for _, g := range mc {
							x, y, op, ok := CmpFact(g.Cond, g.True)
							if !ok || op != token.EQL {
								continue
							}
							a, b := tm.Of(x), tm.Of(y)
							for _, pr := range [][2]*Term{{a, b}, {b, a}} {
								for rec := range recs {
									if fieldChainOn(pr[0], rec, "Id") && fieldChainOnWeb(pr[1], s.chosen, "Link", end, "Id") {
										okG = true
									}
								}
							}
						}
					}
				}
				// the list searched is the child's own node list (a local built by nodeInsert)
				okList := true
				for _, a := range ft.Args[0].Alternatives() {
					if a.Op == "field" || a.Op == "recv" || a.Op == "param" {
						okList = false
					}
				}
				if !okG || !okList {
					okAll = false
					why = append(why, fmt.Sprintf("a node %s not selected from the child's list by node.Id == chosen.Link.%s.Id", ft, end))
				}
				continue
			}
			okAll = false
			why = append(why, ft.String())
		}
		r.Check(okAll, cons, p.Pos(s.copyCall.Pos()), "the "+end+" of a child gene is the child's node with the id of the chosen gene's "+end+" (found, or a fresh inserted copy)",
			"the "+end+" of a child gene can be "+strings.Join(why, "; "))
		if !okAll {
			continue
		}
		// the copy is made only when the child has no node with that id; the end node handed to the gene is never nil
		okL, whyL := r.c04Lookup(s, end, w, copies, found)
		r.Check(okL, cons+".lookup", p.Pos(s.copyCall.Pos()), "a parent's node is copied only after the search of the child's node list found no node with its id",
			"the child can get two nodes with one id: "+whyL)
		r.Check(c04NonNil(v, s.copyCall.Block(), nil, nnc, 0), cons+".nonnil", p.Pos(s.copyCall.Pos()), "the end node handed to the gene copy is a found or freshly copied node, never nil",
			"the "+end+" handed to the child's gene can be nil (the result of an unsuccessful search is used without a copy being made)")
		for _, c := range copies {
			okT, whyT := s.c04TraitIndex(c.Call.Args[1], c04NodeTraitIs(c.Call.Args[0]))
			r.Check(okT, cons+".trait", p.Pos(c.Pos()), "the copied node gets the child's trait at the position of the parent node's trait (0 without a trait)",
				"the copy of the gene's "+end+" does not get the child's counterpart of the parent node's trait: "+whyT)
		}
	}
	r.c04FreshLists(s)
	// the trait comes from the child's traits
	tt := tm.Of(s.copyCall.Call.Args[1])
	okT := tt.Op == "elem" && strings.Contains(tt.Args[0].String(), "mateTraits")
	r.Check(okT, s.name+".trait", p.Pos(s.copyCall.Pos()), "the child gene's trait is one of the child's traits", "the child gene's trait is "+tt.String()+", not an element of the child's trait list")
	if okT {
		okI, whyI := s.c04TraitIndex(s.copyCall.Call.Args[1], func(t *Term) bool { return fieldChainOnWeb(t, s.chosen, "Link", "Trait") })
		r.Check(okI, s.name+".trait.index", p.Pos(s.copyCall.Pos()), "the child gene gets the child's trait at the position of the chosen gene's trait (0 without a trait)",
			"the child gene does not get the child's counterpart of the chosen gene's trait: "+whyI)
	}
	// the new gene goes into the child's gene list, which is what the genome is built from
	res := ssa.Value(s.copyCall)
	var blocks []*ssa.BasicBlock
	for b := range s.walk.Blocks {
		blocks = append(blocks, b)
	}
	okApp := false
	Instrs(s.fn, func(b *ssa.BasicBlock, _ int, in ssa.Instruction) {
		if c, ok := in.(*ssa.Call); ok {
			if _, elems, ok := appendCall(c); ok {
				for _, e := range elems {
					if e == res {
						okApp = true
					}
				}
			}
		}
	})
	r.Check(okApp, s.name+".appended", p.Pos(s.copyCall.Pos()), "the copy is appended to the child's gene list", "the copied gene is not appended to the child's gene list")
}

func (r *Run) c04IsEqualGenetically() {
	p := r.P
	fn := p.Func(PkgN, "Link.IsEqualGenetically")
	r.Fn(FuncName(fn))
	tm := NewTermer(fn)
	// The result, as a boolean function of the three equalities (in id, out id, recurrence flag of the two links), is
	// their conjunction. Decided over the paths of the function: for every truth assignment of the three equalities,
	// every path whose branch outcomes agree with the assignment returns a value that evaluates to "all three hold" -
	// whichever way the comparisons are spelled (a == b, b == a, !(a != b), early returns, named booleans).
	fields := []string{"InNode.Id", "OutNode.Id", "IsRecurrent"}
	found := map[string]bool{}
	atom := func(x, y ssa.Value) int {
		xs, ys := tm.Of(x).String(), tm.Of(y).String()
		for i, f := range fields {
			if (xs == "recv."+f && ys == "p1."+f) || (ys == "recv."+f && xs == "p1."+f) {
				found[f] = true
				return i
			}
		}
		return -1
	}
	paths, complete := EnumRegionPaths(fn, fn.Blocks[0], func(*ssa.BasicBlock) bool { return false }, 500)
	ok, why := complete, ""
	if !complete {
		why = "too many paths"
	}
	for _, ip := range paths {
		if ip.End != "return" {
			ok, why = false, "the function contains a loop"
		}
	}
	for a := 0; a < 8 && ok; a++ {
		asg := []bool{a&1 != 0, a&2 != 0, a&4 != 0}
		exp := asg[0] && asg[1] && asg[2]
		admitted := 0
		for _, ip := range paths {
			consistent := true
			for _, g := range ip.Conds {
				if v, known := c04EvalBool(ip, g.Cond, atom, asg, 0); known && v != g.True {
					consistent = false
					break
				}
			}
			if !consistent {
				continue
			}
			admitted++
			last := ip.Blocks[len(ip.Blocks)-1]
			ret, isRet := last.Instrs[len(last.Instrs)-1].(*ssa.Return)
			if !isRet || len(ret.Results) != 1 {
				ok, why = false, "a path does not return one value"
				break
			}
			got, known := c04EvalBool(ip, ret.Results[0], atom, asg, 0)
			if !known || got != exp {
				gs := "a value not determined by the three equalities (" + tm.Of(ip.ResolveAt(ret.Results[0])).String() + ")"
				if known {
					gs = fmt.Sprint(got)
				}
				ok, why = false, fmt.Sprintf("with same in id=%v, same out id=%v, same recurrence flag=%v it returns %s", asg[0], asg[1], asg[2], gs)
				break
			}
		}
		if admitted == 0 && ok {
			ok, why = false, "no path for an assignment of the three equalities"
		}
	}
	r.Check(ok && len(found) == 3, "IsEqualGenetically", p.Pos(fn.Pos()), "true exactly when in id, out id and recurrence flag agree",
		fmt.Sprintf("Link.IsEqualGenetically does not compare in id, out id and recurrence flag of both links (found %v): %s", found, why))
}

func (r *Run) c04Conflict(s *mateShape) {
	p, tm := r.P, s.tm
	isEq := p.Func(PkgN, "Link.IsEqualGenetically")
	// the scan ranges over the child's gene list and compares with the chosen gene's link
	for _, c := range CallsTo(s.fn, isEq) {
		a := callArgTerms(tm, c.Common())
		okArgs := false
		for _, pr := range [][2]*Term{{a[0], a[1]}, {a[1], a[0]}} {
			if pr[0].Op == "field" && pr[0].Name == "Link" && pr[0].Args[0].Op == "elem" && fieldChainOnWeb(pr[1], s.chosen, "Link") {
				// the list is the list the copy is appended to
				okArgs = true
			}
		}
		r.Check(okArgs, s.name+".scan.args", p.Pos(c.Pos()), "every child gene's link is compared with the chosen gene's link", "the conflict scan does not compare the links of the child's genes with the chosen gene's link: "+a[0].String()+" vs "+a[1].String())
		// hit => the copy is unreachable in this step
		blk := c.Block()
		iff, ok := blk.Instrs[len(blk.Instrs)-1].(*ssa.If)
		if !ok || iff.Cond != c.Value() {
			r.Bad(s.name+".scan.hit", p.Pos(c.Pos()), "the result of IsEqualGenetically does not decide a branch")
			continue
		}
		path := FindPath(p, PathQuery{Fn: s.fn, StartEdge: [2]*ssa.BasicBlock{blk, blk.Succs[0]}, Explored: &r.PathsExplored,
			Target: func(in ssa.Instruction) bool { return in == ssa.Instruction(s.copyCall) },
			Avoid:  func(in ssa.Instruction) bool { return in.Block() == s.walk.Header }})
		r.Check(path == nil, s.name+".scan.hit", p.Pos(c.Pos()), "a gene equal to one already in the child is not copied", "after the scan found an equal link the chosen gene can still be copied into the child", path...)
	}
	// the scan loop is left early only on a hit
	for b := range s.scan.Blocks {
		for _, sx := range b.Succs {
			if s.scan.Blocks[sx] || b == s.scan.Header {
				continue
			}
			okHit := false
			if iff, ok := b.Instrs[len(b.Instrs)-1].(*ssa.If); ok {
				if c, ok := iff.Cond.(*ssa.Call); ok && c.Call.StaticCallee() == isEq && b.Succs[0] == sx {
					okHit = true
				}
			}
			r.Check(okHit, s.name+".scan.exit", p.Pos(firstBlockPos(b)), "the scan ends early only on a hit", "the conflict scan can be left before all child genes were compared")
		}
	}
	r.Check(loopRangesOverValue(tm, s.scan, s.copyCall), s.name+".scan.list", p.Pos(firstBlockPos(s.scan.Header)), "the scan covers the list the copies are appended to", "the conflict scan does not range over the child's gene list")
	// no bypass: from the start of a walk step the copy is unreachable without entering the scan
	path := FindPath(p, PathQuery{Fn: s.fn, StartEdge: [2]*ssa.BasicBlock{s.walk.Header, headerBodySucc(s.walk)}, Explored: &r.PathsExplored,
		Target: func(in ssa.Instruction) bool { return in == ssa.Instruction(s.copyCall) },
		Avoid: func(in ssa.Instruction) bool {
			return in.Block() == s.scan.Header || (in.Block() == s.walk.Header && instrIndex(in) == len(s.walk.Header.Instrs)-1)
		}})
	r.Check(path == nil, s.name+".scan.bypass", p.Pos(s.copyCall.Pos()), "every copy is preceded by the scan in the same step", "a chosen gene can be copied into the child without the conflict scan having run in that step", path...)
}

func headerBodySucc(l *Loop) *ssa.BasicBlock {
	for _, s := range l.Header.Succs {
		if l.Blocks[s] {
			return s
		}
	}
	return l.Header.Succs[0]
}

// loopRangesOverValue: the loop ranges over the slice that `elem` is appended to.
func loopRangesOverValue(tm *Termer, l *Loop, elem ssa.Value) bool {
	// the loop runs while `i < len(list)` (in any spelling) and the list's web contains an append whose element is elem
	return c04LoopBound(tm, l, func(lt *Term) bool {
		if lt.V == nil {
			return false
		}
		for _, f := range phiWeb(lt.V).Feeders {
			if c, ok := f.(*ssa.Call); ok {
				if _, elems, ok := appendCall(c); ok {
					for _, e := range elems {
						if e == elem {
							return true
						}
					}
				}
			}
		}
		return false
	}) != nil
}

// matchedPair finds, among the conditions of a path, the two parent genes whose innovation numbers were compared, and
// what the conditions together say about the two numbers: "==", "<", ">" (decided), "!=", "<=", ">=" (partly), ""
// (nothing, or contradictory). Every condition is read as the comparison that holds (CmpFact), in either operand
// order: `a < b`, `b > a`, `!(a >= b)` and `a >= b` taken false are one fact; the facts about one pair are intersected
// (`a != b` and `a >= b` give `a > b`). The relation is that of g1's number to g2's number.
func (s *mateShape) matchedPair(conds []Guard) (g1, g2 ssa.Value, rel string) {
	type pair struct {
		a, b ssa.Value
		mask int
	}
	var pairs []*pair
	var base [2]ssa.Value
	isInnov := func(v ssa.Value) bool {
		t := s.tm.Of(v)
		return t.Op == "field" && t.Name == "InnovationNum" && len(t.Args) > 0 && t.Args[0].V != nil
	}
	for _, g := range conds {
		x, y, m, ok := c04OrderFact(g.Cond, g.True, isInnov, isInnov)
		if !ok {
			continue
		}
		base[0], base[1] = s.tm.Of(x).Args[0].V, s.tm.Of(y).Args[0].V
		var hit *pair
		for _, pr := range pairs {
			if pr.a == base[0] && pr.b == base[1] {
				hit = pr
			} else if pr.a == base[1] && pr.b == base[0] {
				hit, m = pr, c04FlipMask(m)
			}
		}
		if hit == nil {
			hit = &pair{base[0], base[1], c04LT | c04EQ | c04GT}
			pairs = append(pairs, hit)
		}
		hit.mask &= m
	}
	name := map[int]string{c04EQ: "==", c04LT: "<", c04GT: ">", c04LT | c04GT: "!=", c04LT | c04EQ: "<=", c04GT | c04EQ: ">="}
	// a decided pair first
	for _, pr := range pairs {
		if pr.mask == c04EQ || pr.mask == c04LT || pr.mask == c04GT {
			return pr.a, pr.b, name[pr.mask]
		}
	}
	for _, pr := range pairs {
		return pr.a, pr.b, name[pr.mask]
	}
	return
}

func (r *Run) c04Averaging(s *mateShape) {
	p, tm := r.P, s.tm
	// stores into the scratch gene inside the walk
	type st struct {
		path string
		in   *ssa.Store
	}
	var stores []st
	Instrs(s.fn, func(b *ssa.BasicBlock, _ int, in ssa.Instruction) {
		x, ok := in.(*ssa.Store)
		if !ok || !s.walk.Blocks[b] {
			return
		}
		at := tm.Of(x.Addr)
		base, path := at.FieldPath()
		if base != nil && base.V == s.avgGene && len(path) > 0 {
			stores = append(stores, st{strings.Join(path, "."), x})
		}
	})
	seen := map[string]bool{}
	for _, x := range stores {
		if x.path == "IsEnabled" {
			continue
		}
		seen[x.path] = true
		conds := Guards(x.in.Block())
		g1, g2, rel := s.matchedPair(conds)
		cons := s.name + ".avg." + x.path
		if rel != "==" || g1 == nil {
			r.Bad(cons, p.Pos(x.in.Pos()), "the scratch gene's "+x.path+" is written outside the branch where the two parents' innovation numbers are equal")
			continue
		}
		vt := tm.Of(x.in.Val)
		field := strings.Split(x.path, ".")
		fromParent := func(t *Term) int {
			if fieldChainOn(t, g1, field...) {
				return 1
			}
			if fieldChainOn(t, g2, field...) {
				return 2
			}
			return 0
		}
		switch x.path {
		case "Link.ConnectionWeight", "MutationNum":
			ok := vt.Op == "bin" && vt.Name == "/" && vt.Args[1].String() == "2" && vt.Args[0].Op == "bin" && vt.Args[0].Name == "+" &&
				fromParent(vt.Args[0].Args[0])+fromParent(vt.Args[0].Args[1]) == 3
			r.Check(ok, cons, p.Pos(x.in.Pos()), x.path+" = (p1 + p2) / 2 of the matched genes", "the averaged gene's "+x.path+" is "+vt.String()+", not the mean of the two matched genes' values")
		case "InnovationNum":
			r.Check(fromParent(vt) != 0, cons, p.Pos(x.in.Pos()), "the matched innovation number", "the averaged gene's innovation number is "+vt.String()+", not the matched genes' number")
		default:
			r.Check(fromParent(vt) != 0, cons, p.Pos(x.in.Pos()), x.path+" taken from the same field of one matched gene", "the averaged gene's "+x.path+" is "+vt.String()+", not the same field of one of the two matched genes")
		}
	}
	var missing []string
	for _, f := range []string{"Link.ConnectionWeight", "MutationNum", "InnovationNum", "Link.InNode", "Link.OutNode", "Link.IsRecurrent", "Link.Trait"} {
		if !seen[f] {
			missing = append(missing, f)
		}
	}
	// ... on every path of a walk step that hands the scratch gene on as the chosen gene
	var wit []string
	if len(missing) == 0 && s.skip1 != nil {
		stop := s.skip1.Block()
		paths, complete := EnumRegionPaths(s.fn, s.walk.Header, func(b *ssa.BasicBlock) bool { return b == stop }, 4000)
		if !complete {
			r.Undecided(s.name+".avg.paths", p.Pos(s.fn.Pos()), "too many paths through one walk step")
			return
		}
		r.PathsExplored += len(paths)
		for _, ip := range paths {
			if ip.End != "stop" || ip.ResolveAt(s.chosen) != s.avgGene || len(missing) > 0 {
				continue
			}
			for _, f := range []string{"Link.ConnectionWeight", "MutationNum", "InnovationNum", "Link.InNode", "Link.OutNode", "Link.IsRecurrent", "Link.Trait"} {
				set := false
				for _, x := range stores {
					if x.path == f && ip.OnPath(x.in) {
						set = true
					}
				}
				if !set {
					missing = append(missing, f+" (on some path)")
					wit = ip.Describe(p)
				}
			}
		}
	}
	r.Check(len(missing) == 0, s.name+".avg.complete", p.Pos(s.fn.Pos()), "every field of the scratch gene is refreshed for each averaged pair, on every path", "the averaging branch does not set "+strings.Join(missing, ", ")+" of the scratch gene: values of an earlier pair leak into this child gene", wit...)
}

// c04Enabled: path-wise over the region header -> skip test.
func (r *Run) c04Enabled(s *mateShape) {
	p, tm := r.P, s.tm
	enabledF := p.Field(PkgG, "Gene", "IsEnabled")
	stop := s.skip1.Block()
	paths, complete := EnumRegionPaths(s.fn, s.walk.Header, func(b *ssa.BasicBlock) bool { return b == stop }, 4000)
	if !complete {
		r.Undecided(s.name+".enabled.paths", p.Pos(s.fn.Pos()), "too many paths through one walk step")
		return
	}
	r.PathsExplored += len(paths)
	testedDisabled := func(ip *IterPath) bool {
		g1, g2, rel := s.matchedPair(ip.Conds)
		if rel != "==" {
			return false
		}
		for _, g := range ip.Conds {
			if c04BoolFieldIs(tm, g, g1, false, "IsEnabled") || c04BoolFieldIs(tm, g, g2, false, "IsEnabled") {
				return true
			}
		}
		return false
	}
	// (a) stores of `false` after the region, guarded by a flag: the flag is true only on paths that tested a disabled parent gene
	inRegion := map[*ssa.BasicBlock]bool{}
	for _, ip := range paths {
		for _, b := range ip.Blocks {
			inRegion[b] = true
		}
	}
	nSites := 0
	for _, stx := range FieldStores(s.fn, enabledF) {
		if !s.walk.Blocks[stx.Block()] {
			continue
		}
		base := stx.Addr.(*ssa.FieldAddr).X
		onCopy := base == ssa.Value(s.copyCall)
		onAvg := s.avgGene != nil && base == s.avgGene
		if !onCopy && !onAvg {
			r.Bad(s.name+".enabled.target", p.Pos(stx.Pos()), "the enabled flag of "+tm.Of(base).String()+" is written: only the new child gene or the scratch gene may be touched (a parent gene must not)")
			continue
		}
		if IsConstBool(stx.Val, true) {
			continue
		}
		nSites++
		if !IsConstBool(stx.Val, false) {
			// A computed flag (`x.IsEnabled = a && (b || c)` instead of `if !a || !b && !c { x.IsEnabled = false }`): decided
			// path by path over the region. On each path the stored value resolves (through the phis of the && / ||) to a
			// constant, to the enabled flag of one of the two matched parent genes, or to some other test; the claim is the
			// one made for a constant `false`: wherever the value can be false, a matched parent gene is disabled.
			if !(inRegion[stx.Block()] && stx.Block() != stop) || !c04IsBool(stx.Val) {
				r.Bad(s.name+".enabled.value", p.Pos(stx.Pos()), "a computed value is stored into IsEnabled")
				continue
			}
			ok := true
			var wit []string
			for _, ip := range paths {
				if !ip.OnPath(stx) || ip.End != "stop" {
					continue
				}
				v := ip.ResolveAt(stx.Val)
				if IsConstBool(v, true) || testedDisabled(ip) {
					continue
				}
				// the value is itself the enabled flag of a matched parent gene: false means that gene is disabled
				if g1, g2, rel := s.matchedPair(ip.Conds); rel == "==" {
					if vt := tm.Of(v); fieldChainOn(vt, g1, "IsEnabled") || fieldChainOn(vt, g2, "IsEnabled") {
						continue
					}
				}
				ok = false
				wit = append(ip.Describe(p), "the value stored on this path is "+tm.Of(v).String())
			}
			r.Check(ok, s.name+".enabled.disable", p.Pos(stx.Pos()), "the computed flag can be false only when a matched parent gene is disabled", "a child gene can be disabled although both matched parent genes are enabled (or the gene is not a matched one): the value stored into IsEnabled can be false on a path that did not find a matched parent gene disabled", wit...)
			continue
		}
		if inRegion[stx.Block()] && stx.Block() != stop {
			// inside the region: every region path through the store must have tested a disabled parent gene
			ok := true
			var wit []string
			for _, ip := range paths {
				if ip.OnPath(stx) && ip.End == "stop" && !testedDisabled(ip) {
					ok = false
					wit = ip.Describe(p)
				}
			}
			r.Check(ok, s.name+".enabled.disable", p.Pos(stx.Pos()), "disabled only when a matched parent gene is disabled", "a child gene can be disabled although both matched parent genes are enabled (or the gene is not a matched one)", wit...)
			continue
		}
		// after the region: guarded by a flag decided inside the region
		var flag ssa.Value
		for _, g := range Guards(stx.Block()) {
			if f, w, ok := boolFlagOf(g.Cond); ok && g.True == w {
				flag = f
			}
		}
		if flag == nil {
			r.Bad(s.name+".enabled.disable", p.Pos(stx.Pos()), "a child gene is disabled outside the branch analysis of the matched genes and not under a flag set there")
			continue
		}
		ok := true
		var wit []string
		for _, ip := range paths {
			if ip.End != "stop" {
				continue
			}
			v := ip.ResolveAt(flag)
			switch {
			case IsConstBool(v, false):
			case IsConstBool(v, true):
				if !testedDisabled(ip) {
					ok, wit = false, ip.Describe(p)
				}
			default:
				// a computed request (`disable = !a || !b && c`): whatever it evaluates to, it can be true only on a path that
				// found a matched parent gene disabled; or it is itself `!gene.IsEnabled` of a matched parent gene
				if testedDisabled(ip) {
					continue
				}
				if base, neg := c04StripNot(v); neg {
					if g1, g2, rel := s.matchedPair(ip.Conds); rel == "==" {
						if vt := tm.Of(base); fieldChainOn(vt, g1, "IsEnabled") || fieldChainOn(vt, g2, "IsEnabled") {
							continue
						}
					}
				}
				ok, wit = false, append(ip.Describe(p), "the flag's value on this path is "+tm.Of(v).String()+": it is not decided by a test of a matched parent gene in this step (it may survive from an earlier step)")
			}
		}
		r.Check(ok, s.name+".enabled.disable", p.Pos(stx.Pos()), "the disable request is raised only in a step whose matched parent gene is disabled and never carried into the next step",
			"a child gene can be disabled in a step where both matched parent genes are enabled (the request flag is set without the test, or is not reset at the start of the step)", wit...)
	}
	if s.avgGene == nil {
		r.Check(nSites >= 1, s.name+".enabled.sites", p.Pos(s.fn.Pos()), "the method has a disabling site", "no site disables a child gene at all: a gene disabled in one matched parent is never disabled in the child")
		return
	}
	// (b) the scratch gene is re-enabled at the top of every step, before anything else touches its flag and before it is copied
	for _, ip := range paths {
		if ip.End != "stop" {
			continue
		}
		first := ""
		for _, b := range ip.Blocks {
			for _, in := range b.Instrs {
				if stx, ok := in.(*ssa.Store); ok && StoredField(stx) == enabledF && stx.Addr.(*ssa.FieldAddr).X == s.avgGene && first == "" {
					if IsConstBool(stx.Val, true) {
						first = "true"
					} else {
						first = "other"
					}
				}
			}
		}
		if first != "true" {
			r.Bad(s.name+".enabled.reset", p.Pos(firstBlockPos(s.walk.Header)), "a walk step can run without first re-enabling the scratch gene: a gene averaged after a disabled pair is disabled as well", ip.Describe(p)...)
			return
		}
	}
	r.OK(s.name+".enabled.reset", p.Pos(firstBlockPos(s.walk.Header)), "the scratch gene is re-enabled at the start of every step")
}

// c04EvalFlagExpr evaluates a boolean SSA value under a truth assignment of the three tests the fitter-parent flag is
// made of: "gt" (fitness1 > fitness2), "eq" (fitness1 == fitness2), "fewer" (len(g.Genes) < len(og.Genes)). Phis are
// resolved along the path. The float tests are matched exactly (no <=/>= forms: they differ from the negated strict
// forms on NaN); the integer length test also in its negated forms. known is false when v is not such an expression.
func c04EvalFlagExpr(tm *Termer, ip *IterPath, v ssa.Value, a map[string]bool, depth int) (val, known bool) {
	if depth > 20 {
		return false, false
	}
	v = ip.ResolveAt(v)
	switch x := v.(type) {
	case *ssa.Const:
		if IsConstBool(x, true) {
			return true, true
		}
		if IsConstBool(x, false) {
			return false, true
		}
	case *ssa.UnOp:
		if x.Op == token.NOT {
			r, k := c04EvalFlagExpr(tm, ip, x.X, a, depth+1)
			return !r, k
		}
	case *ssa.BinOp:
		l, r := tm.Of(x.X), tm.Of(x.Y)
		f12 := isParamIdx(l, 3) && isParamIdx(r, 4)
		f21 := isParamIdx(l, 4) && isParamIdx(r, 3)
		n12 := l.String() == "len(recv.Genes)" && r.String() == "len(p1.Genes)"
		n21 := l.String() == "len(p1.Genes)" && r.String() == "len(recv.Genes)"
		switch {
		case (x.Op == token.GTR && f12) || (x.Op == token.LSS && f21):
			return a["gt"], true
		case x.Op == token.EQL && (f12 || f21):
			return a["eq"], true
		case x.Op == token.NEQ && (f12 || f21):
			return !a["eq"], true
		case (x.Op == token.LSS && n12) || (x.Op == token.GTR && n21):
			return a["fewer"], true
		case (x.Op == token.GEQ && n12) || (x.Op == token.LEQ && n21):
			return !a["fewer"], true
		case (x.Op == token.AND || x.Op == token.OR) && c04IsBool(x):
			lv, lk := c04EvalFlagExpr(tm, ip, x.X, a, depth+1)
			rv, rk := c04EvalFlagExpr(tm, ip, x.Y, a, depth+1)
			if lk && rk {
				if x.Op == token.AND {
					return lv && rv, true
				}
				return lv || rv, true
			}
		}
	}
	return false, false
}

// c04StripNot removes leading boolean negations: the value underneath and whether their number is odd.
func c04StripNot(v ssa.Value) (ssa.Value, bool) {
	neg := false
	for {
		u, ok := v.(*ssa.UnOp)
		if !ok || u.Op != token.NOT {
			return v, neg
		}
		v, neg = u.X, !neg
	}
}

func c04IsBool(v ssa.Value) bool {
	b, ok := v.Type().Underlying().(*types.Basic)
	return ok && b.Kind() == types.Bool
}

// c04StepTable: the fitter-parent flag and the decision table of one step (multipoint methods).
func (r *Run) c04StepTable(s *mateShape) {
	p, tm := r.P, s.tm
	// cursors: header phis compared with the parents' lengths
	var i1, i2 *ssa.Phi
	isLen1 := func(v ssa.Value) bool { return tm.Of(v).String() == "len(recv.Genes)" }
	isLen2 := func(v ssa.Value) bool { return tm.Of(v).String() == "len(p1.Genes)" }
	for _, ph := range HeaderPhis(s.walk) {
		for _, ref := range *ph.Referrers() {
			// a cursor is compared with its parent's gene count, on either side of the comparison
			if b, ok := ref.(*ssa.BinOp); ok && (b.X == ssa.Value(ph) || b.Y == ssa.Value(ph)) {
				other := b.Y
				if other == ssa.Value(ph) {
					other = b.X
				}
				switch {
				case isLen1(other):
					i1 = ph
				case isLen2(other):
					i2 = ph
				}
			}
		}
	}
	// The other form of a cursor: not an index into the parent's gene list but the LIST of the parent's genes that are
	// still to be visited (`rest := g.Genes`), whose head is the current gene and which is advanced by dropping the head
	// (`rest = rest[1:]`). c04RestList establishes that every value the variable can hold is the parent's list or a tail
	// (x[k:]) of a value it held before, so rest == g.Genes[i:] for the number i of genes dropped so far. The facts of
	// the index form translate one to one: `i >= len(g.Genes)` is `len(rest) == 0`, `i < len(g.Genes)` is `len(rest) > 0`,
	// g.Genes[i] is rest[0], i+1 is rest[1:], i == 0 is rest == g.Genes (the whole list).
	rest := map[*ssa.Phi]bool{}
	for _, ph := range HeaderPhis(s.walk) {
		if _, isSl := ph.Type().Underlying().(*types.Slice); !isSl {
			continue
		}
		switch s.c04RestList(ph) {
		case 1:
			if i1 == nil {
				i1, rest[ph] = ph, true
			}
		case 2:
			if i2 == nil {
				i2, rest[ph] = ph, true
			}
		}
	}
	if i1 == nil || i2 == nil {
		r.Undecided(s.name+".cursors", p.Pos(s.fn.Pos()), "cannot find the two cursors of the gene walk")
		return
	}
	// curFact: what a branch outcome says about a cursor against its parent's gene count, as a relation mask
	curFact := func(g Guard, ph *ssa.Phi, isLen func(ssa.Value) bool) (int, bool) {
		if rest[ph] {
			switch LenZeroFact(g.Cond, g.True, func(v ssa.Value) bool { return stripCT(v) == ssa.Value(ph) }) {
			case 1:
				return c04EQ, true // no gene left: the cursor stands at the parent's gene count
			case -1:
				return c04LT, true
			}
			return 0, false
		}
		_, _, m, ok := c04OrderFact(g.Cond, g.True, func(v ssa.Value) bool { return v == ssa.Value(ph) }, isLen)
		return m, ok
	}
	// atCursor: v (a parent gene read at index idx, see parentGene) is the gene at the cursor
	atCursor := func(v, idx ssa.Value, ph *ssa.Phi) bool {
		if rest[ph] {
			ld, ok := v.(*ssa.UnOp)
			if !ok || ld.Op != token.MUL {
				return false
			}
			ia, ok := ld.X.(*ssa.IndexAddr)
			if !ok || stripCT(ia.X) != ssa.Value(ph) {
				return false
			}
			k, isK := constInt(ia.Index)
			_, isC := ia.Index.(*ssa.Const)
			return isK && isC && k == 0
		}
		return idx == ssa.Value(ph)
	}
	// the fitter-parent flag: a bool phi defined outside the walk and tested inside it
	var pb *ssa.Phi
	Instrs(s.fn, func(b *ssa.BasicBlock, _ int, in ssa.Instruction) {
		if iff, ok := in.(*ssa.If); ok && s.walk.Blocks[b] {
			if f, _, ok := boolFlagOf(iff.Cond); ok {
				if ph := f.(*ssa.Phi); !s.walk.Blocks[ph.Block()] {
					pb = ph
				}
			}
		}
	})
	if pb == nil {
		// `skip = p1better` / `skip = !p1better` instead of `if p1better { skip = true }`: the flag is not branched on but
		// flows (possibly negated) into the skip flag tested before the conflict scan
		cands := map[*ssa.Phi]bool{}
		seen := map[ssa.Value]bool{}
		var visit func(v ssa.Value)
		visit = func(v ssa.Value) {
			v, _ = c04StripNot(v)
			if seen[v] {
				return
			}
			seen[v] = true
			ph, ok := v.(*ssa.Phi)
			if !ok || !c04IsBool(ph) {
				return
			}
			if s.walk.Blocks[ph.Block()] {
				for _, e := range ph.Edges {
					visit(e)
				}
			} else if ph.Block().Dominates(s.walk.Header) {
				cands[ph] = true
			}
		}
		visit(s.skip1)
		if len(cands) == 1 {
			for ph := range cands {
				pb = ph
			}
		}
	}
	if pb == nil {
		r.Bad(s.name+".p1better", p.Pos(s.fn.Pos()), "no flag computed before the walk decides which parent's unmatched genes are kept")
		return
	}
	// both cursors start at the first gene
	okStart := true
	for _, ph := range []*ssa.Phi{i1, i2} {
		for i, e := range ph.Edges {
			if s.walk.Blocks[ph.Block().Preds[i]] {
				continue
			}
			if rest[ph] {
				// the whole gene list of the parent, not a part of it
				alts := tm.Of(e).Alternatives()
				for _, a := range alts {
					if !(a.Op == "field" && a.Name == "Genes" && c04ParentOf(tm, a.Args[0]) != 0) {
						okStart = false
					}
				}
				if _, isSl := stripCT(e).(*ssa.Slice); isSl || len(alts) == 0 {
					okStart = false
				}
				continue
			}
			if k, isK := constInt(e); !isK || k != 0 {
				okStart = false
			}
			if _, isC := e.(*ssa.Const); !isC {
				okStart = false
			}
		}
	}
	r.Check(okStart, s.name+".walk.start", p.Pos(firstBlockPos(s.walk.Header)), "both cursors start at index 0", "the gene walk does not start at the first gene of each parent: the genes before the start are never inherited")
	// definition of the flag
	root := pb.Block().Idom()
	dpaths, dcomplete := EnumRegionPaths(s.fn, root, func(b *ssa.BasicBlock) bool { return b == pb.Block() }, 200)
	okDef, nDef := true, 0
	var why string
	for _, ip := range dpaths {
		switch ip.End {
		case "stop":
			nDef++
		case "cycle":
			okDef, why = false, "the computation of the flag contains a loop"
		}
	}
	if !dcomplete {
		okDef, why = false, "too many paths through the computation of the flag"
	}
	// The flag must equal gt || (eq && fewer) as a boolean function of the three tests. Every truth assignment of the
	// tests (f1 > f2 and f1 == f2 cannot both hold) is checked against every path it admits: a branch outcome on the path
	// that is one of the tests (or a negation of one) must agree with the assignment, other branch outcomes admit both
	// ways; the value the flag has at the end of the path - a constant, or itself an expression over the tests - must
	// then evaluate to the expected value.
	for asg := 0; asg < 8 && okDef; asg++ {
		a := map[string]bool{"gt": asg&1 != 0, "eq": asg&2 != 0, "fewer": asg&4 != 0}
		if a["gt"] && a["eq"] {
			continue
		}
		exp := a["gt"] || (a["eq"] && a["fewer"])
		admitted := 0
		for _, ip := range dpaths {
			if ip.End != "stop" {
				continue
			}
			consistent := true
			for _, g := range ip.Conds {
				if v, known := c04EvalFlagExpr(tm, ip, g.Cond, a, 0); known && v != g.True {
					consistent = false
					break
				}
			}
			if !consistent {
				continue
			}
			admitted++
			got, known := c04EvalFlagExpr(tm, ip, pb, a, 0)
			if !known || got != exp {
				okDef = false
				gs := "not determined by these tests (" + tm.Of(ip.ResolveAt(pb)).String() + ")"
				if known {
					gs = fmt.Sprint(got)
				}
				why = fmt.Sprintf("with f1>f2=%v, f1==f2=%v, fewer genes=%v there is a path on which the flag is %s, expected %v", a["gt"], a["eq"], a["fewer"], gs, exp)
				break
			}
		}
		if admitted == 0 && okDef {
			okDef = false
			why = fmt.Sprintf("no path computes the flag for f1>f2=%v, f1==f2=%v, fewer genes=%v", a["gt"], a["eq"], a["fewer"])
		}
	}
	r.Check(okDef && nDef >= 1, s.name+".p1better.definition", p.Pos(pb.Pos()), "first parent is fitter iff f1 > f2, or f1 == f2 and it has fewer genes", "the fitter-parent flag is not (fitness1 > fitness2) || (fitness1 == fitness2 && len(g.Genes) < len(og.Genes)): "+why)
	// decision table
	cursorState := func(mask int) int {
		switch {
		case mask&c04LT == 0:
			return 1 // cursor >= count (or ==, >): exhausted
		case mask == c04LT:
			return -1
		}
		return 0
	}
	stop := s.skip1.Block()
	paths, complete := EnumRegionPaths(s.fn, s.walk.Header, func(b *ssa.BasicBlock) bool { return b == stop }, 4000)
	if !complete {
		r.Undecided(s.name+".step.paths", p.Pos(s.fn.Pos()), "too many paths through one walk step")
		return
	}
	r.PathsExplored += len(paths)
	latchVal := func(ph *ssa.Phi) ssa.Value {
		for i, pr := range ph.Block().Preds {
			if s.walk.Blocks[pr] {
				return ph.Edges[i]
			}
		}
		return nil
	}
	cases := map[string]int{}
	boundsBad, unclassified := false, false
	type stepAgg struct {
		ok             bool
		n              int
		pos, good, bad string
		wit            []string
	}
	agg := map[string]*stepAgg{}
	var order []string
	for _, ip := range paths {
		if ip.End != "stop" {
			leaves := false
			for _, b := range ip.Blocks {
				if !s.walk.Blocks[b] {
					leaves = true
				}
			}
			if !leaves {
				r.Bad(s.name+".step.escape", p.Pos(firstPos(ip)), "a walk step can end ("+ip.End+") before the chosen gene reaches the skip test", ip.Describe(p)...)
			}
			continue
		}
		// classify: what the branch outcomes of the path say about each cursor against its parent's gene count. Every
		// outcome is read as the comparison that holds, in either operand order (`i1 < size1`, `size1 > i1`, `!(i1 >= size1)`
		// are one fact); the facts about one cursor are intersected, and a path whose facts contradict each other (the
		// header saw i1 < size1, the step then takes the i1 >= size1 branch) cannot be executed and is not a step.
		m1, m2 := c04LT|c04EQ|c04GT, c04LT|c04EQ|c04GT
		pbv := 0
		for _, g := range ip.Conds {
			if m, ok := curFact(g, i1, isLen1); ok {
				m1 &= m
			}
			if m, ok := curFact(g, i2, isLen2); ok {
				m2 &= m
			}
			if f, w, ok := boolFlagOf(g.Cond); ok && f == ssa.Value(pb) {
				if g.True == w {
					pbv = 1
				} else {
					pbv = -1
				}
			}
		}
		if m1 == 0 || m2 == 0 {
			continue
		}
		ex1, ex2 := cursorState(m1), cursorState(m2) // 1: the parent's genes are exhausted, -1: they are not, 0: not tested
		g1, g2, rel := s.matchedPair(ip.Conds)
		kind := ""
		switch {
		case ex1 == 1:
			kind = "excess2"
		case ex2 == 1:
			kind = "excess1"
		case rel == "==":
			kind = "match"
		case rel == "<":
			kind = "disjoint1"
		case rel == ">":
			kind = "disjoint2"
		default:
			// no test on the path says which case the step is in, yet it reaches the skip test with a gene
			if !unclassified {
				unclassified = true
				r.Bad(s.name+".step.unclassified", p.Pos(firstPos(ip)), "a walk step hands a gene on without having established whether it is an excess, disjoint or matching gene (no comparison of the cursors with the gene counts or of the two innovation numbers decides the path)", ip.Describe(p)...)
			}
			continue
		}
		// which parent do g1/g2 belong to
		if g1 != nil {
			w1, _ := s.parentGene(g1)
			w2, _ := s.parentGene(g2)
			if w1 == 2 && w2 == 1 {
				if kind == "disjoint1" {
					kind = "disjoint2"
				} else if kind == "disjoint2" {
					kind = "disjoint1"
				}
			} else if !(w1 == 1 && w2 == 2) {
				r.Bad(s.name+".step.pair", p.Pos(firstPos(ip)), "the innovation numbers compared in a step are not those of the current gene of each parent", ip.Describe(p)...)
				continue
			}
		}
		cases[kind]++
		// a parent's gene is read at its cursor only when the cursor was found below that parent's gene count
		need1 := kind == "excess1" || kind == "match" || kind == "disjoint1" || kind == "disjoint2"
		need2 := kind == "excess2" || kind == "match" || kind == "disjoint1" || kind == "disjoint2"
		if ((need1 && ex1 != -1) || (need2 && ex2 != -1)) && !boundsBad {
			boundsBad = true
			r.Bad(s.name+".step.bounds", p.Pos(firstPos(ip)), "a walk step for a "+kind+" gene reads a parent's gene at a cursor that was not found to be below that parent's gene count: at the end of the shorter parent the walk reads outside the gene list (or the walk goes on after both parents are exhausted)", ip.Describe(p)...)
		}
		chosen := ip.ResolveAt(s.chosen)
		skip := ip.ResolveAt(s.skip1)
		n1, n2 := ip.ResolveAt(latchVal(i1)), ip.ResolveAt(latchVal(i2))
		adv := func(n ssa.Value, ph *ssa.Phi) int {
			if rest[ph] {
				// the list is kept, or its head is dropped: rest[1:]
				if stripCT(n) == ssa.Value(ph) {
					return 0
				}
				if sl, ok := stripCT(n).(*ssa.Slice); ok && stripCT(sl.X) == ssa.Value(ph) && c04IsTail(sl) {
					if k, isK := sl.Low.(*ssa.Const); isK {
						if c, isI := constInt(k); isI && c == 1 {
							return 1
						}
					}
				}
				return -1
			}
			if n == ssa.Value(ph) {
				return 0
			}
			if b, ok := n.(*ssa.BinOp); ok && b.Op == token.ADD {
				x, y := b.X, b.Y
				if y == ssa.Value(ph) {
					x, y = y, x // 1 + i
				}
				if k, ok := y.(*ssa.Const); ok && x == ssa.Value(ph) && k.Value != nil && k.Value.ExactString() == "1" {
					return 1
				}
			}
			return -1
		}
		a1, a2 := adv(n1, i1), adv(n2, i2)
		who, idx := s.parentGene(chosen)
		isAvg := s.avgGene != nil && chosen == s.avgGene
		// The skip flag at the end of the path is a constant (`if p1better { skip = true }`: the path branched on the
		// fitter-parent flag) or the flag itself, possibly negated (`skip = !p1better`: the path did not branch on it).
		// In the second form the one path stands for both rows of the table: it is judged once for each value of the flag.
		skipBase, skipNeg := c04StripNot(skip)
		skipIsFlag := skipBase == ssa.Value(pb)
		pbvs := []int{pbv}
		if pbv == 0 && skipIsFlag {
			pbvs = []int{1, -1}
		}
		for _, pbv := range pbvs {
			wantSkip := 0 // 1 true, -1 false
			var okChoice bool
			var wantA1, wantA2 int
			switch kind {
			case "excess2", "disjoint2":
				okChoice = who == 2 && atCursor(chosen, idx, i2)
				wantA1, wantA2 = 0, 1
				wantSkip = pbv
			case "excess1", "disjoint1":
				okChoice = who == 1 && atCursor(chosen, idx, i1)
				wantA1, wantA2 = 1, 0
				wantSkip = -pbv
			case "match":
				okChoice = isAvg || (who == 1 && atCursor(chosen, idx, i1)) || (who == 2 && atCursor(chosen, idx, i2))
				wantA1, wantA2 = 1, 1
				wantSkip = -1
			}
			gotSkip := 0
			switch {
			case IsConstBool(skip, true):
				gotSkip = 1
			case IsConstBool(skip, false):
				gotSkip = -1
			case skipIsFlag && pbv != 0:
				gotSkip = pbv
				if skipNeg {
					gotSkip = -pbv
				}
			}
			label := fmt.Sprintf("%s.step.%s.p1better=%d", s.name, kind, pbv)
			ok := okChoice && a1 == wantA1 && a2 == wantA2 && wantSkip != 0 && gotSkip == wantSkip
			ag := agg[label]
			if ag == nil {
				ag = &stepAgg{ok: true, pos: p.Pos(firstPos(ip)), good: fmt.Sprintf("%s: right gene chosen, cursors advance (%d,%d), skipped=%v", kind, a1, a2, gotSkip == 1)}
				agg[label] = ag
				order = append(order, label)
			}
			ag.n++
			if !ok && ag.ok {
				ag.ok = false
				ag.bad = fmt.Sprintf("walk step for a %s gene with first-parent-fitter=%d (1 yes, -1 no, 0 not consulted): chosen gene ok=%v, cursor advance (%d,%d) expected (%d,%d), skip=%d expected %d (1 skip, -1 keep, 0 undetermined): unmatched genes must come from the fitter parent only, matched genes are always kept", kind, pbv, okChoice, a1, a2, wantA1, wantA2, gotSkip, wantSkip)
				ag.wit = ip.Describe(p)
			}
		}
	}
	for _, label := range order {
		ag := agg[label]
		r.Check(ag.ok, label, ag.pos, fmt.Sprintf("%s (%d paths)", ag.good, ag.n), ag.bad, ag.wit...)
	}
	if !boundsBad {
		r.OK(s.name+".step.bounds", p.Pos(firstBlockPos(s.walk.Header)), "a gene is read only at a cursor found below its parent's gene count")
	}
	for _, k := range []string{"excess1", "excess2", "match", "disjoint1", "disjoint2"} {
		if cases[k] == 0 {
			r.Bad(s.name+".step.missing:"+k, p.Pos(s.fn.Pos()), "the walk has no step for the case "+k)
		}
	}
	// the walk continues while either parent has genes left
	okCont := false
	hb := s.walk.Header
	if iff, ok := hb.Instrs[len(hb.Instrs)-1].(*ssa.If); ok {
		ct := tm.Of(iff.Cond)
		// `i1 < size1 || i2 < size2` is split over two blocks: the exit edge must be dominated by both being false
		_ = ct
		exits := 0
		for b := range s.walk.Blocks {
			for _, sx := range b.Succs {
				if !s.walk.Blocks[sx] {
					if _, isRet := sx.Instrs[len(sx.Instrs)-1].(*ssa.Return); isRet && len(sx.Instrs) < 8 {
						continue
					}
					exits++
					have := map[string]bool{}
					for _, g := range condsAt(b, sx) {
						// the fact `cursor >= count` in any spelling (i1 < size1 taken false, size1 > i1 taken false, i1 >= size1 ...)
						if m, ok := curFact(g, i1, isLen1); ok && cursorState(m) == 1 {
							have["1"] = true
						}
						if m, ok := curFact(g, i2, isLen2); ok && cursorState(m) == 1 {
							have["2"] = true
						}
					}
					if have["1"] && have["2"] {
						okCont = true
					} else {
						okCont = false
						exits = 99
					}
				}
			}
		}
		if exits != 1 {
			okCont = false
		}
	}
	r.Check(okCont, s.name+".walk.exhaustive", p.Pos(firstBlockPos(hb)), "the walk ends only when both parents' genes are exhausted", "the gene walk can end while one parent still has genes: genes of the fitter parent are lost")
}

func (r *Run) c04Seeding(s *mateShape) {
	p, tm := r.P, s.tm
	nnc := p.Func(PkgN, "NewNNodeCopy")
	ni := p.Func(PkgG, "nodeInsert")
	var call *ssa.Call
	for _, c := range CallsTo(s.fn, nnc) {
		if scanLoopOf(s.loops, c.Block()) == s.seed {
			call = c.(*ssa.Call)
		}
	}
	if call == nil {
		r.Bad(s.name+".seed", p.Pos(s.fn.Pos()), "no node copy in the seeding loop")
		return
	}
	src := call.Call.Args[0]
	st := tm.Of(src)
	okSrc := st.Op == "elem" && (st.Args[0].String() == "p1.Nodes" || st.Args[0].String() == "recv.Nodes") && c04LoopRangesOver(tm, s.seed, st.Args[0].String())
	r.Check(okSrc, s.name+".seed.source", p.Pos(call.Pos()), "the loop ranges over all nodes of a parent", "the seeding loop does not range over all nodes of a parent")
	ins := false
	for _, ic := range CallsTo(s.fn, ni) {
		if ic.Common().Args[1] == ssa.Value(call) {
			ins = true
		}
	}
	okT, whyT := s.c04TraitIndex(call.Call.Args[1], c04NodeTraitIs(src))
	r.Check(okT, s.name+".seed.trait", p.Pos(call.Pos()), "the copied interface node gets the child's trait at the position of the parent node's trait (0 without a trait)",
		"the copy of an interface node does not get the child's counterpart of the parent node's trait: "+whyT)
	r.Check(ins, s.name+".seed.insert", p.Pos(call.Pos()), "the copy is inserted into the child's node list", "the copied interface node is not inserted into the child's node list")
	// for which roles is the copy reached?
	body := headerBodySucc(s.seed)
	paths, _ := EnumRegionPaths(s.fn, body, func(b *ssa.BasicBlock) bool { return b == call.Block() || b == s.seed.Header }, 500)
	roles := map[string]string{}
	for _, n := range []string{"HiddenNeuron", "InputNeuron", "OutputNeuron", "BiasNeuron"} {
		roles[n] = p.Const(PkgN, n).Val().ExactString()
	}
	isSensor := p.Func(PkgN, "NNode.IsSensor")
	reached := map[string]bool{}
	undec := false
	for _, ip := range append(paths, &IterPath{}) {
		if len(ip.Blocks) == 0 {
			continue
		}
		last := ip.Blocks[len(ip.Blocks)-1]
		if last != call.Block() && !(len(ip.Blocks) == 1 && ip.Blocks[0] == call.Block()) {
			continue
		}
		for name, val := range roles {
			feasible := true
			for _, g := range ip.Conds {
				// a test of the node's role, however it is spelled (named boolean, negation, && / || joined in a phi): its
				// value for this role is computed along the path
				if holds, known := c04RoleTest(tm, ip, g.Cond, src, isSensor, name, roles, 0); known {
					if holds != g.True {
						feasible = false
					}
					continue
				}
				if b, ok := g.Cond.(*ssa.BinOp); ok && (b.Op == token.EQL || b.Op == token.NEQ) {
					x, y := tm.Of(b.X), tm.Of(b.Y)
					if fieldChainOn(x, src, "NeuronType") && y.Op == "const" {
						holds := (y.Name == val) == (b.Op == token.EQL)
						if holds != g.True {
							feasible = false
						}
						continue
					}
					if x.Op == "field" && x.Name == "Trait" {
						continue
					}
				}
				if c, ok := g.Cond.(*ssa.Call); ok && c.Call.StaticCallee() == isSensor && c.Call.Args[0] == src {
					holds := name == "InputNeuron" || name == "BiasNeuron"
					if holds != g.True {
						feasible = false
					}
					continue
				}
				// a nil test (of the node's trait), in any spelling: `x != nil`, `nil != x`, `!(x == nil)`; it does not depend on the role
				if c04IsNilTest(g.Cond, g.True) {
					continue
				}
				undec = true
			}
			if feasible {
				reached[name] = true
			}
		}
	}
	// the copy block itself may be the body block (no condition at all)
	if call.Block() == body {
		for n := range roles {
			reached[n] = true
		}
	}
	if undec {
		r.Undecided(s.name+".seed.roles", p.Pos(call.Pos()), "the seeding condition uses a test the checker does not know")
		return
	}
	var missing []string
	for _, n := range []string{"InputNeuron", "BiasNeuron", "OutputNeuron"} {
		if !reached[n] {
			missing = append(missing, n)
		}
	}
	r.Check(len(missing) == 0, s.name+".seed.roles", p.Pos(call.Pos()), "input, bias and output nodes are all seeded", "the child is not seeded with the parent's "+strings.Join(missing, ", ")+" nodes: a disconnected interface node is lost")
	// the seeding loop precedes the walk
	r.Check(s.seed.Header.Dominates(s.walk.Header), s.name+".seed.first", p.Pos(call.Pos()), "seeding precedes the gene walk", "the interface nodes are not seeded before the gene walk")
}

var _ = types.Typ
