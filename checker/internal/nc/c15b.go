package nc

import (
	"fmt"
	"go/constant"
	"go/token"
	"go/types"
	"sort"
	"strings"

	"golang.org/x/tools/go/ssa"
)

// edgeRegion lists the blocks that execute only after the CFG edge d->s was taken.
func edgeRegion(fn *ssa.Function, d, s *ssa.BasicBlock) []*ssa.BasicBlock {
	var out []*ssa.BasicBlock
	for _, b := range fn.Blocks {
		if edgeDominates(d, s, b) {
			out = append(out, b)
		}
	}
	return out
}

func instrBefore(a, b ssa.Instruction) bool {
	if a.Block() == b.Block() {
		return instrIndex(a) < instrIndex(b)
	}
	return a.Block().Dominates(b.Block())
}

// constString returns the string value of a constant.
func constString(v ssa.Value) (string, bool) {
	if mi, ok := v.(*ssa.MakeInterface); ok {
		v = mi.X
	}
	c, ok := v.(*ssa.Const)
	if !ok || c.Value == nil || c.Value.Kind() != constant.String {
		return "", false
	}
	return constant.StringVal(c.Value), true
}

// literalText: the constant text a print call emits (all operands constant strings; a format without verbs).
func literalText(fc *fmtCall) (string, bool) {
	switch fc.Kind {
	case "print", "println":
		if len(fc.Args) == 0 && fc.Kind == "print" {
			return "", false
		}
		var parts []string
		for _, a := range fc.Args {
			s, ok := constString(a)
			if !ok {
				return "", false
			}
			parts = append(parts, s)
		}
		if fc.Kind == "println" {
			return strings.Join(parts, " ") + "\n", true
		}
		return strings.Join(parts, ""), true // Fprint puts no blank between string operands
	case "printf":
		if len(fc.Args) != 0 {
			return "", false
		}
		out := ""
		for _, it := range parseFormat(fc.Format) {
			if it.Verb != 0 {
				return "", false
			}
			out += it.Literal
		}
		return out, true
	}
	return "", false
}

// section: keyword -> (element function, genome field)
type section struct {
	key   string
	fn    string
	field string
	pos   token.Pos
	order int
}

// appendedField: which field of `obj` receives elem by `obj.F = append(obj.F, elem)` or addNode(obj, elem) in the region.
func appendedField(tm *Termer, blocks []*ssa.BasicBlock, elem ssa.Value) string {
	for _, b := range blocks {
		for _, in := range b.Instrs {
			switch x := in.(type) {
			case *ssa.Store:
				f := StoredField(x)
				if f == nil {
					continue
				}
				if base, elems, ok := appendCall(x.Val); ok {
					bt := tm.Of(base)
					if bt.Op == "field" && bt.Obj == f {
						for _, e := range elems {
							if e == elem {
								return f.Name()
							}
						}
					}
				}
			case ssa.CallInstruction:
				if c := x.Common().StaticCallee(); c != nil && c.Name() == "addNode" && len(x.Common().Args) == 2 && x.Common().Args[1] == elem {
					return "Nodes"
				}
			}
		}
	}
	// collected in a local list first, which is handed over as a whole afterwards
	for _, b := range blocks {
		for _, in := range b.Instrs {
			if cl, ok := in.(*ssa.Call); ok {
				if _, elems, ok := appendCall(cl); ok && len(elems) == 1 && elems[0] == elem {
					if lc := collectedList(cl); lc != nil && lc.field != "" {
						return lc.field
					}
				}
			}
		}
	}
	return ""
}

// localCollection: a local list that starts empty, grows only by `list = append(list, x)` at one place, and is
// handed over to a field as a whole (obj.F = list / obj.F = append(obj.F, list...) / obj.addNodes(list)).
type localCollection struct {
	app    *ssa.Call          // the append
	vals   map[ssa.Value]bool // the SSA values that are (versions of) the list
	field  string             // the field that receives the list
	events []ssa.Instruction  // the append and the hand-over
}

func collectedList(app *ssa.Call) *localCollection {
	fn := app.Parent()
	lc := &localCollection{app: app, vals: map[ssa.Value]bool{app: true}, events: []ssa.Instruction{app}}
	Instrs(fn, func(_ *ssa.BasicBlock, _ int, in ssa.Instruction) {
		if ph, ok := in.(*ssa.Phi); ok {
			w := phiWeb(ph)
			has := false
			for _, fd := range w.Feeders {
				if fd == ssa.Value(app) {
					has = true
				}
			}
			if !has {
				return
			}
			// every other source of the list is an empty list
			for _, fd := range w.Feeders {
				if fd == ssa.Value(app) {
					continue
				}
				if !emptyList(fd) {
					return
				}
			}
			lc.vals[ph] = true
		}
	})
	base, _, _ := appendCall(app)
	if !lc.vals[base] || len(lc.vals) < 2 {
		return nil // not a list that is grown in a loop from empty
	}
	n := 0
	Instrs(fn, func(_ *ssa.BasicBlock, _ int, in ssa.Instruction) {
		switch x := in.(type) {
		case *ssa.Store:
			fld := StoredField(x)
			if fld == nil {
				return
			}
			if lc.vals[x.Val] {
				lc.field, n = fld.Name(), n+1
				lc.events = append(lc.events, x)
				return
			}
			if cl, ok := x.Val.(*ssa.Call); ok {
				if _, elems, ok := appendCall(cl); ok && elems == nil && lc.vals[cl.Call.Args[1]] {
					lc.field, n = fld.Name(), n+1
					lc.events = append(lc.events, x)
				}
			}
		case ssa.CallInstruction:
			if c := x.Common().StaticCallee(); c != nil && c.Name() == "addNodes" && len(x.Common().Args) == 2 && lc.vals[x.Common().Args[1]] {
				lc.field, n = "Nodes", n+1
				lc.events = append(lc.events, x)
			}
		}
	})
	if n != 1 {
		lc.field = ""
	}
	return lc
}

// emptyList: nil, make([]T, 0[, n]), or a zero-length slice of a fresh array.
func emptyList(v ssa.Value) bool {
	switch x := v.(type) {
	case *ssa.Const:
		return x.Value == nil
	case *ssa.MakeSlice:
		k, ok := x.Len.(*ssa.Const)
		return ok && k.Value != nil && k.Value.ExactString() == "0"
	case *ssa.Slice:
		if al, ok := x.X.(*ssa.Alloc); ok && x.Low == nil && x.High != nil && len(*al.Referrers()) == 1 {
			k, ok := x.High.(*ssa.Const)
			return ok && k.Value != nil && k.Value.ExactString() == "0"
		}
	}
	return false
}

// firstResult returns the Extract #0 of a tuple call, or the call value itself.
func firstResult(c *ssa.Call) ssa.Value {
	if tup, ok := c.Type().(*types.Tuple); ok && tup.Len() > 0 {
		for _, ref := range *c.Referrers() {
			if ex, ok := ref.(*ssa.Extract); ok && ex.Index == 0 {
				return ex
			}
		}
		return nil
	}
	return c
}

var plainPairs = map[string]string{
	"writeTrait": "readPlainTrait", "writeNetworkNode": "readPlainNetworkNode", "writeConnectionGene": "readPlainConnectionGene",
}
var yamlPairs = map[string]string{
	"encodeGenomeTrait": "readTrait", "encodeNetworkNode": "readNNode", "encodeConnectionGene": "readGene", "encodeControlGene": "readMIMOControlGene",
}

func (c *c15) plainFraming() {
	p, r := c.p, c.r
	label := "plain.genome"
	wfn := p.Func(PkgG, "plainGenomeWriter.WriteGenome")
	rfn := p.Func(PkgG, "plainGenomeReader.Read")
	r.Fn(FuncName(wfn), FuncName(rfn))
	wtm, rtm := NewTermer(wfn), NewTermer(rfn)
	calls, und := fmtCalls(wfn)
	if len(und) > 0 {
		r.Undecided(label+".writer", p.Pos(und[0].Pos()), "a fmt call with a non-constant format")
		return
	}
	// writer sections: one loop per list
	var wsec []section
	loops := Loops(wfn)
	sort.Slice(loops, func(i, j int) bool { return loops[i].Header.Index < loops[j].Header.Index })
	for li, l := range loops {
		iff, ok := l.Header.Instrs[len(l.Header.Instrs)-1].(*ssa.If)
		if !ok {
			continue
		}
		// the loop counts 0..len(genome.<list>)-1, however the test is spelled
		ct := wtm.Of(iff.Cond)
		var bt *Term
		if _, bound, okc := countsUp(l); okc {
			bt = wtm.Of(bound)
		}
		if !(bt != nil && bt.Op == "len" && bt.Args[0].Op == "field" && isParamIdx(bt.Args[0].Args[0], 1)) {
			r.Bad(label+".writer.loop", p.Pos(firstBlockPos(l.Header)), "a loop of the genome writer does not range over a list of the genome: "+ct.String())
			continue
		}
		field := bt.Args[0].Name
		var kw, nl *fmtCall
		kwText := ""
		var elemCall ssa.CallInstruction
		var elemEff c15EffCall
		for i := range calls {
			fc := &calls[i]
			if !l.Blocks[fc.Call.Block()] {
				continue
			}
			// what the call prints, when that is a constant text: the line break is the call that prints "\n"
			// (Fprintln(w, "") / Fprint(w, "\n") / Fprintf(w, "\n")), the keyword the other constant text
			txt, isTxt := literalText(fc)
			switch {
			case isTxt && txt == "\n":
				nl = fc
			case isTxt && fc.Kind != "println":
				kw, kwText = fc, txt
			case fc.Kind == "println":
				nl = fc
			case fc.Kind == "printf" && strings.HasSuffix(fc.Format, "\n") && len(fc.Args) == 0:
				nl = fc
			}
		}
		for b := range l.Blocks {
			for _, in := range b.Instrs {
				if ci, ok := in.(ssa.CallInstruction); ok {
					if cal := ci.Common().StaticCallee(); cal != nil && InRepo(cal) {
						// the record writer, called directly or through a thin local closure
						// (`body := func() error { return wr.writeX(x) }; ..; body()`)
						elemCall = ci
						elemEff, _ = c15EffectiveCall(ci)
					}
				}
			}
		}
		cons := label + ".section:" + field
		if kw == nil || nl == nil || elemCall == nil {
			r.Bad(cons, p.Pos(firstBlockPos(l.Header)), fmt.Sprintf("the %s section does not consist of keyword, record and line break (keyword=%v record=%v newline=%v)", field, kw != nil, elemCall != nil, nl != nil))
			continue
		}
		if elemEff.Callee == nil || len(elemEff.Args) == 0 {
			r.Undecided(cons, p.Pos(elemCall.Pos()), fmt.Sprintf("the record of the %s section is written by a call that is neither a record writer nor a local closure that only forwards to one", field))
			continue
		}
		k, isStr := kwText, true
		okKw := isStr && strings.HasSuffix(k, " ") && !strings.Contains(strings.TrimSuffix(k, " "), " ") && len(k) > 1
		okOrder := instrBefore(kw.Call, elemCall) && instrBefore(elemCall, nl.Call)
		at := wtm.Of(elemEff.Args[len(elemEff.Args)-1]) // a nil operand (not traceable) gives the term `unknown`
		okElem := at.Op == "elem" && at.Args[0].Op == "field" && at.Args[0].Name == field
		// .. the element at the loop's own counter (0, 1, .., len-1), of the list of the genome being written
		if okElem {
			cnt, _, counted := countsUp(l)
			okElem = counted && len(at.Args) > 1 && at.Args[1].V == cnt && isParamIdx(at.Args[0].Args[0], 1)
		}
		r.Check(okKw && okOrder && okElem, cons, p.Pos(kw.Call.Pos()),
			fmt.Sprintf("each element of %s is written as %q + %s + newline", field, k, elemEff.Callee.Name()),
			fmt.Sprintf("the %s section is not `keyword blank record newline` per element in that order (keyword %q ok=%v, order ok=%v, record is the current element=%v)", field, k, okKw, okOrder, okElem))
		wsec = append(wsec, section{key: strings.TrimSuffix(k, " "), fn: elemEff.Callee.Name(), field: field, pos: kw.Call.Pos(), order: li})
	}
	r.Floor("sections of the plain genome", len(wsec), 3)
	// section order: traits before nodes before genes (ids are resolved against what was read before)
	idx := map[string]int{}
	for _, s := range wsec {
		idx[s.field] = s.order + 1
	}
	r.Check(idx["Traits"] > 0 && idx["Traits"] < idx["Nodes"] && idx["Nodes"] < idx["Genes"], label+".section-order", p.Pos(wfn.Pos()), "traits, then nodes, then genes",
		"the writer does not emit traits before nodes before genes: the reader resolves trait and node ids against the records it has already read")

	// reader: keyword dispatch
	isSplitN := func(t *Term) bool { return t.Op == "call" && t.Name == "strings.SplitN" }
	rsec := map[string]section{}
	var idStore *ssa.Store
	var idCase string
	Instrs(rfn, func(b *ssa.BasicBlock, _ int, in ssa.Instruction) {
		iff, ok := in.(*ssa.If)
		if !ok {
			return
		}
		bin, ok := iff.Cond.(*ssa.BinOp)
		if !ok || bin.Op != token.EQL {
			return
		}
		k, isStr := constString(bin.Y)
		lt := rtm.Of(bin.X)
		if !isStr || lt.Op != "elem" || !isSplitN(lt.Args[0]) || lt.Args[1].String() != "0" {
			return
		}
		region := edgeRegion(rfn, b, b.Succs[0])
		for _, rb := range region {
			for _, rin := range rb.Instrs {
				switch x := rin.(type) {
				case *ssa.Call:
					cal := x.Call.StaticCallee()
					if cal == nil || !InRepo(cal) || !strings.HasPrefix(cal.Name(), "read") {
						continue
					}
					a0 := rtm.Of(x.Call.Args[0])
					for a0.Op == "iface" {
						a0 = a0.Args[0]
					}
					okSrc := a0.Op == "call" && a0.Name == "strings.NewReader" && a0.Args[0].Op == "elem" && isSplitN(a0.Args[0].Args[0]) && a0.Args[0].Args[1].String() == "1"
					res := firstResult(x)
					f := ""
					if res != nil {
						f = appendedField(rtm, region, res)
					}
					if !okSrc {
						r.Bad(label+".reader.source:"+k, p.Pos(x.Pos()), "the record reader for keyword "+k+" is not fed with the rest of the line after the keyword")
					}
					rsec[k] = section{key: k, fn: cal.Name(), field: f, pos: x.Pos()}
				case *ssa.Store:
					if f := StoredField(x); f != nil && f.Name() == "Id" && f == p.Field(PkgG, "Genome", "Id") {
						idStore, idCase = x, k
					}
				}
			}
		}
	})
	for _, ws := range wsec {
		cons := label + ".dispatch:" + ws.key
		rs, ok := rsec[ws.key]
		if !ok {
			r.Bad(cons, p.Pos(ws.pos), fmt.Sprintf("the writer emits lines starting with %q but the reader has no case for that keyword: the %s are dropped on reading", ws.key, ws.field))
			continue
		}
		r.Check(plainPairs[ws.fn] == rs.fn && rs.field == ws.field, cons, p.Pos(rs.pos),
			fmt.Sprintf("%q: %s(%s) <-> %s -> %s", ws.key, ws.fn, ws.field, rs.fn, rs.field),
			fmt.Sprintf("keyword %q: written by %s from %s, read by %s into %q; expected the matching reader %s appending to %s", ws.key, ws.fn, ws.field, rs.fn, rs.field, plainPairs[ws.fn], ws.field))
	}
	// the reader splits off the keyword at the first blank only
	nSplit := 0
	Instrs(rfn, func(_ *ssa.BasicBlock, _ int, in ssa.Instruction) {
		if ci, ok := in.(*ssa.Call); ok {
			if n, _ := calleeName(&ci.Call); n == "strings.SplitN" {
				nSplit++
				a := callArgTerms(rtm, &ci.Call)
				r.Check(a[1].String() == `" "` && a[2].String() == "2", label+".reader.split", p.Pos(ci.Pos()), "keyword split off at the first blank", "the reader does not split the keyword off at the first blank only: "+a[1].String()+", "+a[2].String())
			}
		}
	})
	r.Floor("keyword split", nSplit, 1)
	c.lineSplitAccepts(label+".reader.split", rfn, 2)
	// genome id: header/trailer written from g.Id, trailer id restored into Id
	var start, end *fmtCall
	for i := range calls {
		fc := &calls[i]
		if fc.Kind == "printf" && strings.HasPrefix(fc.Format, "genomestart ") {
			start = fc
		}
		if fc.Kind == "printf" && strings.HasPrefix(fc.Format, "genomeend ") {
			end = fc
		}
	}
	okHdr := start != nil && end != nil && strings.HasSuffix(start.Format, "\n") && strings.HasSuffix(end.Format, "\n") &&
		len(start.Args) == 1 && len(end.Args) == 1 && wtm.Of(start.Args[0]).String() == "p1.Id" && wtm.Of(end.Args[0]).String() == "p1.Id" &&
		start.Format == "genomestart %d\n" && end.Format == "genomeend %d\n"
	r.Check(okHdr, label+".header-trailer", p.Pos(wfn.Pos()), "genomestart <id> and genomeend <id> lines frame the record", "the genome is not framed by `genomestart <id>` and `genomeend <id>` lines written from the genome's id and ending in a newline")
	if start != nil && end != nil {
		okPos := true
		for _, s := range wsec {
			var kwc ssa.Instruction
			for i := range calls {
				if calls[i].Call.Pos() == s.pos {
					kwc = calls[i].Call
				}
			}
			if kwc == nil || !instrBefore(start.Call, kwc) || !end.Call.Block().Dominates(end.Call.Block()) {
				okPos = false
			}
		}
		r.Check(okPos, label+".header-first", p.Pos(start.Call.Pos()), "the header precedes every section", "a section is written before the genomestart line")
	}
	okId := false
	if idStore != nil && idCase == "genomeend" {
		// value = the variable scanned with %d from the rest of the line
		sc, _ := fmtCalls(rfn)
		for _, fc := range sc {
			if fc.Kind == "scanf" && len(fc.Args) == 1 && fc.Format == "%d" {
				if al, ok := fc.Args[0].(*ssa.Alloc); ok {
					if u, ok := idStore.Val.(*ssa.UnOp); ok && u.X == al {
						okId = true
					}
				}
			}
		}
	}
	r.Check(okId, label+".id", p.Pos(rfn.Pos()), "the id of the genomeend line is restored into Genome.Id", "the genome id written on the genomeend line is not restored into Genome.Id")
	// flush
	c.flushedOnSuccess(label, wfn)

	// Genome.Write / ReadGenome choose the same (plain) encoding; ReadGenome installs the id it is given
	gw, rg := p.Func(PkgG, "Genome.Write"), p.Func(PkgG, "ReadGenome")
	r.Fn(FuncName(gw), FuncName(rg))
	encOf := func(fn *ssa.Function, ctor string) string {
		for _, ci := range CallsTo(fn, p.Func(PkgG, ctor)) {
			return NewTermer(fn).Of(ci.Common().Args[1]).String()
		}
		return "?"
	}
	plain := p.Const(PkgG, "PlainGenomeEncoding").Val().ExactString()
	ew, er := encOf(gw, "NewGenomeWriter"), encOf(rg, "NewGenomeReader")
	r.Check(ew == plain && er == plain, "genome.Write-ReadGenome.encoding", p.Pos(gw.Pos()), "both use the plain encoding", fmt.Sprintf("Genome.Write uses encoding %s, ReadGenome %s; PlainGenomeEncoding = %s", ew, er, plain))
	okSet := false
	for _, st := range FieldStores(rg, p.Field(PkgG, "Genome", "Id")) {
		if isParamIdx(NewTermer(rg).Of(st.Val), 1) {
			okSet = true
		}
	}
	r.Check(okSet, "ReadGenome.id", p.Pos(rg.Pos()), "ReadGenome installs the id argument", "ReadGenome does not install the id it is given")
	// factory dispatch: each encoding constant selects the reader/writer of the same format
	for _, pr := range [][3]string{{"NewGenomeWriter", "plainGenomeWriter", "yamlGenomeWriter"}, {"NewGenomeReader", "plainGenomeReader", "yamlGenomeReader"}} {
		fn := p.Func(PkgG, pr[0])
		tm := NewTermer(fn)
		got := map[string]string{}
		for _, b := range fn.Blocks {
			ret, ok := b.Instrs[len(b.Instrs)-1].(*ssa.Return)
			if !ok {
				continue
			}
			rt := tm.Of(ret.Results[0])
			if rt.Op == "nil" {
				continue
			}
			for _, g := range Guards(b) {
				if _, cy, op, okc := CmpFact(g.Cond, g.True); okc && op == token.EQL {
					if k, ok := cy.(*ssa.Const); ok && k.Value != nil {
						got[k.Value.ExactString()] = rt.String()
					}
				}
			}
		}
		yamlC := p.Const(PkgG, "YAMLGenomeEncoding").Val().ExactString()
		r.Check(strings.Contains(got[plain], pr[1]) && strings.Contains(got[yamlC], pr[2]), pr[0]+".dispatch", p.Pos(fn.Pos()), "plain -> "+pr[1]+", YAML -> "+pr[2],
			fmt.Sprintf("%s selects %v; expected plain -> %s and YAML -> %s", pr[0], got, pr[1], pr[2]))
	}
}

// isAppendBuilt: v is a slice grown by append in a loop (a phi web fed by an empty make/nil and append calls on the web).
func isAppendBuilt(v ssa.Value) bool {
	if _, ok := v.(*ssa.Phi); !ok {
		return false
	}
	for _, f := range phiWeb(v).Feeders {
		if _, _, ok := appendCall(f); ok {
			return true
		}
	}
	return false
}

// appendLoop decides a list that is built by `list = append(list, x)` at one place inside a loop that counts over
// 0..len(src)-1, starting from an empty list, the append being reached in every iteration that does not leave the
// function with an error. Returns the appended value, the term of src and the loop counter.
func appendLoop(fn *ssa.Function, tm *Termer, v ssa.Value) (elem ssa.Value, src *Term, idx ssa.Value, why string) {
	web := phiWeb(v)
	inWeb := func(x ssa.Value) bool {
		if ph, ok := x.(*ssa.Phi); ok {
			return web.Phis[ph]
		}
		for _, f := range web.Feeders {
			if f == x {
				return true
			}
		}
		return false
	}
	loops := Loops(fn)
	nApp := 0
	for _, f := range web.Feeders {
		if emptyList(f) {
			continue
		}
		base, elems, ok := appendCall(f)
		if !ok {
			return nil, nil, nil, "the list is also assigned " + tm.Of(f).String() + " (or does not start empty)"
		}
		if !inWeb(base) || len(elems) != 1 {
			return nil, nil, nil, "an append that does not add exactly one element to the list being built"
		}
		nApp++
		if nApp > 1 {
			return nil, nil, nil, "elements are appended at more than one place"
		}
		blk := f.(*ssa.Call).Block()
		l := InnermostLoop(loops, blk)
		if l == nil {
			return nil, nil, nil, "the append is not in a loop"
		}
		i, bound, okc := countsUp(l)
		if !okc {
			return nil, nil, nil, "the enclosing loop is not a counter loop over a list"
		}
		bt := tm.Of(bound)
		if bt.Op != "len" {
			return nil, nil, nil, "the loop does not run up to the length of a list (" + bt.String() + ")"
		}
		// nothing skips an element
		for _, g := range Guards(blk) {
			if g.At != nil && l.Blocks[g.At] && g.At != l.Header {
				if why := nonErrorGuard(tm, blk); why != "" {
					return nil, nil, nil, "an element is appended only under the condition " + why
				}
			}
		}
		elem, src, idx = elems[0], bt.Args[0], i
	}
	if nApp == 0 {
		return nil, nil, nil, "nothing is appended"
	}
	return elem, src, idx, ""
}

// appendedSection decides a list that is built by `list = append(list, encode(g.F[i]))` in a loop that runs over
// all of g.F in order, starting from an empty list. Returns the genome field and the encoder.
func (c *c15) appendedSection(fn *ssa.Function, tm *Termer, v ssa.Value) (field, enc, why string) {
	elem, list, idx, why := appendLoop(fn, tm, v)
	if why != "" {
		return "", "", why
	}
	et := tm.Of(elem)
	if et.Op == "extract" {
		et = et.Args[0]
	}
	cl, isCall := et.V.(*ssa.Call)
	if et.Op != "call" || !isCall || cl.Call.StaticCallee() == nil || len(et.Args) < 2 {
		return "", "", "the appended element is " + et.String() + ", not the result of an encoder"
	}
	enc = cl.Call.StaticCallee().Name()
	arg := et.Args[len(et.Args)-1]
	if !(arg.Op == "elem" && len(arg.Args) > 1 && arg.Args[1].V == idx && arg.Args[0].String() == list.String()) {
		return "", "", "the encoded value " + arg.String() + " is not the element of the list at the loop counter"
	}
	if !(list.Op == "field" && isParamIdx(list.Args[0], 1)) {
		return "", "", "the encoded list " + list.String() + " is not a field of the genome"
	}
	return list.Name, enc, ""
}

func (c *c15) yamlFraming() {
	p, r := c.p, c.r
	label := "yaml.genome"
	wfn := p.Func(PkgG, "yamlGenomeWriter.WriteGenome")
	rfn := p.Func(PkgG, "yamlGenomeReader.Read")
	r.Fn(FuncName(wfn), FuncName(rfn))
	wtm, rtm := NewTermer(wfn), NewTermer(rfn)
	ws, dyn := mapWrites(wfn)
	if len(dyn) > 0 {
		r.Undecided(label+".writer", p.Pos(dyn[0].Pos()), "a document key that is not a constant string")
		return
	}
	// writer: key -> (encode function, genome field) for list keys; id; root key
	wsec := map[string]section{}
	wIns := map[string]ssa.Instruction{}
	var idKey, rootKey string
	var gmap ssa.Value
	for _, w := range ws {
		wIns[w.Key] = w.In
		vt := wtm.Of(w.Val)
		switch {
		case vt.String() == "p1.Id":
			idKey, gmap = w.Key, w.In.Map
		case vt.Op == "make" && strings.HasPrefix(vt.Name, "[]map"):
			// filled element-wise by an encode call over one genome list
			ln := vt.Args[0]
			field := ""
			if ln.Op == "len" && ln.Args[0].Op == "field" && isParamIdx(ln.Args[0].Args[0], 1) {
				field = ln.Args[0].Name
			}
			enc := ""
			okIdx := true
			for _, st := range elemStoresInto(wfn, w.Val) {
				et := wtm.Of(st.Val)
				if et.Op == "extract" {
					et = et.Args[0]
				}
				if et.Op == "call" && len(et.Args) >= 2 {
					if cl, ok := et.V.(*ssa.Call); ok && cl.Call.StaticCallee() != nil {
						enc = cl.Call.StaticCallee().Name()
					}
					arg := et.Args[len(et.Args)-1]
					ia := st.Addr.(*ssa.IndexAddr)
					// same index on both sides
					if !(arg.Op == "elem" && arg.Args[0].Op == "field" && arg.Args[0].Name == field && len(arg.Args) > 1 && arg.Args[1].V == ia.Index) {
						okIdx = false
					}
				}
			}
			if field == "" || enc == "" || !okIdx {
				r.Bad(label+".writer.list:"+w.Key, p.Pos(w.In.Pos()), fmt.Sprintf("the list under %q is not the element-wise encoding of one genome list (field %q, encoder %q, same index=%v)", w.Key, field, enc, okIdx))
				continue
			}
			wsec[w.Key] = section{key: w.Key, fn: enc, field: field, pos: w.In.Pos()}
		case w.Val == gmap && gmap != nil:
			rootKey = w.Key
		case isAppendBuilt(w.Val):
			// list := make([]map, 0, n); for i := range g.F { list = append(list, encode(g.F[i])) }
			field, enc, why := c.appendedSection(wfn, wtm, w.Val)
			if why != "" {
				r.Bad(label+".writer.list:"+w.Key, p.Pos(w.In.Pos()), fmt.Sprintf("the list under %q is not the element-wise encoding of one genome list: %s", w.Key, why))
				continue
			}
			wsec[w.Key] = section{key: w.Key, fn: enc, field: field, pos: w.In.Pos()}
		default:
			if _, ok := w.Val.(*ssa.MakeMap); ok {
				rootKey = w.Key
			}
		}
	}
	r.Floor("YAML genome sections", len(wsec), 4)
	// reader: loops over doc[key].([]interface{})
	rsec := map[string]section{}
	skipsHandover := map[string]ssa.Instruction{}
	rLoopsAll := Loops(rfn)
	for _, l := range rLoopsAll {
		for b := range l.Blocks {
			for _, in := range b.Instrs {
				cl, ok := in.(*ssa.Call)
				if !ok {
					continue
				}
				cal := cl.Call.StaticCallee()
				if cal == nil || !InRepo(cal) || !strings.HasPrefix(cal.Name(), "read") {
					continue
				}
				a0 := rtm.Of(cl.Call.Args[0])
				// a0 = gm["key"].([]interface{})[*].(map)
				key := ""
				a0.Walk(func(x *Term) bool {
					if x.Op == "lookup" && x.Args[1].Op == "const" && key == "" {
						key = strings.Trim(x.Args[1].Name, `"`)
					}
					return true
				})
				res := firstResult(cl)
				f := ""
				if res != nil {
					var blocks []*ssa.BasicBlock
					for _, bb := range rfn.Blocks {
						if l.Blocks[bb] {
							blocks = append(blocks, bb)
						}
					}
					var at ssa.Instruction
					f, at = appendedFieldAt(rtm, blocks, res)
					// every iteration that goes on hands its record over (a `continue` between the reader and the
					// hand-over drops records without an error)
					if at != nil {
						if il := InnermostLoop(rLoopsAll, at.Block()); il != nil {
							for _, lt := range il.Latch {
								if !(at.Block() == lt || at.Block().Dominates(lt)) {
									skipsHandover[key] = at
								}
							}
						}
					}
				}
				rsec[key] = section{key: key, fn: cal.Name(), field: f, pos: cl.Pos()}
			}
		}
	}
	// sections whose records are restored in place (no helper): the loop counts as the reader of its record kind only
	// when it is the very region the record rule (C15.2) reads for that kind
	inPlaceLoop := map[string]*Loop{}
	for _, g := range c.yamlRegions(rfn) {
		if _, taken := rsec[g.key]; taken {
			continue
		}
		kind := "(records built in place)"
		for _, name := range sortedKeys(c15YamlRecordType) {
			if c.p.FuncOpt(PkgG, name) == nil {
				if rd := c.yamlReader(name); rd.region == g {
					kind = name
				}
			}
		}
		rsec[g.key] = section{key: g.key, fn: kind, field: g.field, pos: g.handover.Pos()}
		inPlaceLoop[g.key] = g.loop
	}
	keys := sortedKeys(wsec)
	// a list that is there is written, and a section that is there is read: with the tests "is the list / the key there"
	// (len(g.F) against a constant, g.F or doc[key] against nil) decided for a non-empty list, no path that returns
	// without an error skips the store of the section / the loop over it. (`if len(g.ControlGenes) > 0` and
	// `if doc["modules"] != nil` around the module section are such tests; inverted, genomes with modules lose them.)
	rLoopOf := map[string]*Loop{}
	rLoops := Loops(rfn)
	for _, l := range rLoops {
		for b := range l.Blocks {
			for _, in := range b.Instrs {
				if cl, ok := in.(*ssa.Call); ok && InnermostLoop(rLoops, b) == l {
					for k, rs := range rsec {
						if rs.pos == cl.Pos() && cl.Call.StaticCallee() != nil && cl.Call.StaticCallee().Name() == rs.fn {
							rLoopOf[k] = l
						}
					}
				}
			}
		}
	}
	for k, l := range inPlaceLoop {
		rLoopOf[k] = l
	}
	for _, k := range keys {
		w := wsec[k]
		if in := wIns[k]; in != nil {
			field := w.field
			fixed := c15PresenceFacts(wfn, wtm, func(t *Term) bool {
				return t.Op == "field" && t.Name == field && len(t.Args) > 0 && isParamIdx(t.Args[0], 1)
			})
			path := c15SuccessPath(p, c15SuccessQuery{fn: wfn, fixed: fixed, explored: &r.PathsExplored, avoid: func(i ssa.Instruction) bool { return i == in }})
			r.Check(path == nil, label+".section-written:"+k, p.Pos(in.Pos()), fmt.Sprintf("a non-empty %s list is stored under %q on every path that returns without an error", field, k),
				fmt.Sprintf("the writer can return without an error and without storing a non-empty %s list under %q: the %s are lost", field, k, strings.ToLower(field)), path...)
		}
		if l := rLoopOf[k]; l != nil {
			key := k
			fixed := c15PresenceFacts(rfn, rtm, func(t *Term) bool {
				for t.Op == "assert" || t.Op == "iface" || t.Op == "extract" {
					if len(t.Args) == 0 {
						return false
					}
					t = t.Args[0]
				}
				return t.Op == "lookup" && len(t.Args) > 1 && t.Args[1].Op == "const" && strings.Trim(t.Args[1].Name, `"`) == key
			})
			path := c15SuccessPath(p, c15SuccessQuery{fn: rfn, fixed: fixed, explored: &r.PathsExplored, avoid: func(i ssa.Instruction) bool { return i.Block() == l.Header }})
			r.Check(path == nil, label+".section-read:"+k, p.Pos(rsec[k].pos), fmt.Sprintf("a section %q that is there is iterated on every path that returns without an error", k),
				fmt.Sprintf("the reader can return without an error and without iterating a section %q that is present: the %s are not restored", k, strings.ToLower(w.field)), path...)
		}
	}
	c.flushedOnSuccess(label, wfn)
	// the document the writer produces is accepted: with every comma-ok type assertion succeeding, some path returns
	// without an error (an inverted `if !ok` rejects every file)
	{
		vals := map[ssa.Value]envVal{}
		Instrs(rfn, func(_ *ssa.BasicBlock, _ int, in ssa.Instruction) {
			if ex, ok := in.(*ssa.Extract); ok && ex.Index == 1 {
				if ta, isTA := ex.Tuple.(*ssa.TypeAssert); isTA && ta.CommaOk {
					vals[ex] = envVal{known: true, c: constant.MakeBool(true)}
				}
			}
		})
		path := c15SuccessPath(p, c15SuccessQuery{fn: rfn, vals: vals, explored: &r.PathsExplored})
		r.Check(path != nil, label+".accepts", p.Pos(rfn.Pos()), "with every type assertion on the document succeeding, the reader can return without an error",
			"with every type assertion on the document succeeding the reader only returns errors: it rejects the documents the writer produces")
	}
	for _, k := range keys {
		w := wsec[k]
		cons := label + ".section:" + k
		rs, ok := rsec[k]
		if !ok {
			r.Bad(cons, p.Pos(w.pos), fmt.Sprintf("the writer stores the %s under %q but the reader never iterates that key", w.field, k))
			continue
		}
		r.Check(yamlPairs[w.fn] == rs.fn && rs.field == w.field, cons, p.Pos(rs.pos), fmt.Sprintf("%q: %s(%s) <-> %s -> %s", k, w.fn, w.field, rs.fn, rs.field),
			fmt.Sprintf("key %q: written by %s from %s, read by %s into %q; expected %s appending to %s", k, w.fn, w.field, rs.fn, rs.field, yamlPairs[w.fn], w.field))
		at, skips := skipsHandover[k]
		if !skips {
			at = nil
		}
		posAt := p.Pos(rs.pos)
		if at != nil {
			posAt = p.Pos(at.Pos())
		}
		r.Check(!skips, label+".section-kept:"+k, posAt, fmt.Sprintf("every iteration over %q that goes on hands its record to %s", k, rs.field),
			fmt.Sprintf("an iteration over %q can go on to the next element without handing the record it read to %s: the record is dropped and no error is reported", k, rs.field))
	}
	// ids are resolved against the lists restored so far: the trait / node list a record reader receives is the list
	// the earlier section was restored into, and that list is complete when it is read (nothing is added to it later)
	c.yamlLookupLists(rfn, rtm, label)
	// id and root
	okId := false
	for _, ci := range CallsTo(rfn, p.Func(PkgG, "newGenome")) {
		sf := &slotFinder{docParam: func(t *Term) bool { return true }}
		if sr, ok := sf.direct(rtm.Of(ci.Common().Args[0])); ok && sr.Slot == idKey {
			okId = true
		}
	}
	r.Check(idKey != "" && okId, label+".id", p.Pos(rfn.Pos()), fmt.Sprintf("genome id under %q on both sides", idKey), "the genome id is not restored from the key it is written under ("+idKey+")")
	okRoot := false
	rtmRoot := ""
	Instrs(rfn, func(_ *ssa.BasicBlock, _ int, in ssa.Instruction) {
		if lk, ok := in.(*ssa.Lookup); ok {
			if k, ok := constString(lk.Index); ok {
				if ts := rtm.Of(lk.X).Alternatives(); len(ts) == 1 && ts[0].Op == "make" {
					rtmRoot = k
					if k == rootKey {
						okRoot = true
					}
				}
			}
		}
	})
	r.Check(rootKey != "" && okRoot, label+".root", p.Pos(rfn.Pos()), fmt.Sprintf("document root %q on both sides", rootKey), fmt.Sprintf("the document root is written as %q and read as %q", rootKey, rtmRoot))
	// module links: inputs / outputs
	c.yamlModuleLinks()
}

func (c *c15) yamlLookupLists(rfn *ssa.Function, rtm *Termer, label string) {
	p, r := c.p, c.r
	// what fills the genome's lists
	var cols []*localCollection
	Instrs(rfn, func(_ *ssa.BasicBlock, _ int, in ssa.Instruction) {
		if cl, ok := in.(*ssa.Call); ok {
			if _, elems, ok := appendCall(cl); ok && len(elems) == 1 {
				if lc := collectedList(cl); lc != nil && lc.field != "" {
					cols = append(cols, lc)
				}
			}
		}
	})
	eventsOf := func(field string) []ssa.Instruction {
		var out []ssa.Instruction
		Instrs(rfn, func(_ *ssa.BasicBlock, _ int, in ssa.Instruction) {
			switch x := in.(type) {
			case *ssa.Store:
				if fld := StoredField(x); fld != nil && fld.Name() == field {
					if n, ok := deref(x.Addr.(*ssa.FieldAddr).X.Type()).(*types.Named); ok && n.Obj().Name() == "Genome" {
						out = append(out, x)
					}
				}
			case ssa.CallInstruction:
				if cal := x.Common().StaticCallee(); cal != nil && field == "Nodes" && (cal.Name() == "addNode" || cal.Name() == "addNodes") {
					out = append(out, x)
				}
			}
		})
		for _, lc := range cols {
			if lc.field == field {
				out = append(out, lc.app)
			}
		}
		return out
	}
	n := 0
	// checkList: the list `a` that the record reader `who` (at instruction `at`) resolves ids against is the list the
	// records of this document are restored into, and it is complete when it is read
	checkList := func(who string, at ssa.Instruction, a ssa.Value) {
		sl, ok := a.Type().Underlying().(*types.Slice)
		if !ok {
			return
		}
		named, _ := deref(sl.Elem()).(*types.Named)
		if named == nil {
			return
		}
		field := map[string]string{"Trait": "Traits", "NNode": "Nodes"}[named.Obj().Name()]
		if field == "" {
			return
		}
		n++
		cons := label + ".lookup:" + who + "." + field
		var events []ssa.Instruction
		var from ssa.Instruction = at
		lt := rtm.Of(a)
		switch {
		case lt.Op == "field" && lt.Name == field:
			events = eventsOf(field)
			if ld, ok := a.(ssa.Instruction); ok {
				from = ld // the list is what the field holds when it is loaded
			}
		default:
			for _, lc := range cols {
				if lc.field == field && lc.vals[a] {
					events = []ssa.Instruction{lc.app}
				}
			}
		}
		if len(events) == 0 {
			r.Bad(cons, p.Pos(at.Pos()), fmt.Sprintf("%s resolves %s ids against %s, which is not the list the %s of this document are restored into", who, strings.ToLower(field), lt, strings.ToLower(field)))
			return
		}
		isEv := map[ssa.Instruction]bool{}
		for _, e := range events {
			isEv[e] = true
		}
		path := FindPath(p, PathQuery{Fn: rfn, StartAfter: from, FlagBlind: true, Target: func(in ssa.Instruction) bool { return isEv[in] }})
		r.Check(path == nil, cons, p.Pos(at.Pos()), fmt.Sprintf("%s resolves ids against the completely restored %s", who, field),
			fmt.Sprintf("%s resolves ids against the %s list as it is before all %s of the document have been put into it: the looked-up %s are not found and the records are restored without them", who, field, strings.ToLower(field), strings.ToLower(field)), path...)
	}
	Instrs(rfn, func(_ *ssa.BasicBlock, _ int, in ssa.Instruction) {
		cl, ok := in.(*ssa.Call)
		if !ok {
			return
		}
		cal := cl.Call.StaticCallee()
		if cal == nil || !InRepo(cal) || yamlReaders[cal.Name()] == "" {
			return
		}
		for _, a := range cl.Call.Args[1:] {
			checkList(cal.Name(), cl, a)
		}
	})
	// records restored in place: the lists their by-id fields are looked up in (the list argument of the selector call
	// that fills the field, or the list a written-out search runs over)
	for _, name := range sortedKeys(yamlReaders) {
		if p.FuncOpt(PkgG, name) != nil {
			continue
		}
		rd := c.yamlReader(name)
		if rd.region == nil || rd.fn != rfn {
			continue // reported by the record rule
		}
		tab := map[string]*wireTable{"readNNode": &yamlNodeTable, "readGene": &geneTable, "readMIMOControlGene": &mimoTable}[name]
		robj := &readerObject{fields: map[string][]*Term{}, elems: map[string][]*Term{}}
		c.flatten(rfn, rd.region.sm, "", tab, robj, 0)
		for _, a := range c15RecordLookupLists(tab, robj) {
			var at ssa.Instruction = rd.region.handover
			if in, ok := a.(ssa.Instruction); ok {
				at = in
			}
			checkList(name, at, a)
		}
	}
	r.Floor("id lists handed to the YAML record readers", n, 5)
}

var yamlReaders = map[string]string{"readNNode": "node", "readGene": "gene", "readMIMOControlGene": "module"}

// yamlModuleLinks: inputs[i] <- id of Incoming[i].InNode, restored as Incoming[i] = link(NodeWithId(id) -> control node); outputs mirrored.
func (c *c15) yamlModuleLinks() {
	p, r := c.p, c.r
	label := "yaml.module.links"
	wfn := p.Func(PkgG, "yamlGenomeWriter.encodeControlGene")
	rfn := p.Func(PkgG, "readMIMOControlGene")
	ml := p.Func(PkgG, "yamlGenomeWriter.encodeModuleLink")
	wtm, rtm := NewTermer(wfn), NewTermer(rfn)
	// encodeModuleLink: key of the id
	idKey := ""
	mlw, _ := mapWrites(ml)
	mtm := NewTermer(ml)
	for _, w := range mlw {
		if isParamIdx(mtm.Of(w.Val), 1) {
			idKey = w.Key
		}
	}
	r.Check(idKey != "", label+".id-key", p.Pos(ml.Pos()), "module link documents carry the node id under "+idKey, "encodeModuleLink does not store the node id")
	ws, _ := mapWrites(wfn)
	type side struct{ listField, endField string }
	want := map[string]side{"inputs": {"Incoming", "InNode"}, "outputs": {"Outgoing", "OutNode"}}
	var linkWrites []ssa.Instruction // every write into the link lists of the control node under construction
	var listFields []*types.Var
	ctlTerm := ""
	for _, key := range []string{"inputs", "outputs"} {
		sd := want[key]
		cons := label + "." + key
		// writer
		okW := false
		for _, w := range ws {
			if w.Key != key {
				continue
			}
			// the list is made with the length of the link list it encodes (a list of another length panics on the
			// store or carries empty entries the reader cannot take)
			if mk, isMk := w.Val.(*ssa.MakeSlice); isMk && wtm.Of(mk.Len).String() != "len(p1.ControlNode."+sd.listField+")" {
				continue
			}
			for _, st := range elemStoresInto(wfn, w.Val) {
				et := wtm.Of(st.Val)
				if isCallTo(et, ml) && len(et.Args) == 3 {
					a := et.Args[1]
					ia := st.Addr.(*ssa.IndexAddr)
					// p1.ControlNode.<list>[i].<end>.Id, i = index of the store
					if a.Op == "field" && a.Name == "Id" && a.Args[0].Op == "field" && a.Args[0].Name == sd.endField {
						el := a.Args[0].Args[0]
						if el.Op == "elem" && el.Args[0].Op == "field" && el.Args[0].Name == sd.listField && el.Args[0].Args[0].String() == "p1.ControlNode" && len(el.Args) > 1 && el.Args[1].V == ia.Index {
							okW = true
						}
					}
				}
			}
		}
		// reader: ControlNode.<list>[i] = NewLink(_, a, b, _) with the far end NodeWithId(conf[key][i][idKey]) and the near end the control node
		okR, why := false, "no store into "+sd.listField
		listF := p.Field(PkgN, "NNode", sd.listField)
		listFields = append(listFields, listF)
		Instrs(rfn, func(_ *ssa.BasicBlock, _ int, in ssa.Instruction) {
			st, ok := in.(*ssa.Store)
			if !ok {
				return
			}
			ia, ok := st.Addr.(*ssa.IndexAddr)
			if !ok {
				return
			}
			lt := rtm.Of(ia.X)
			if !(lt.Op == "field" && lt.Obj == listF) {
				// a local alias: list := make(..); node.<list> = list; list[i] = ..
				lt = nil
				for _, fs := range FieldStores(rfn, listF) {
					if fs.Val == ia.X {
						lt = rtm.Of(fs.Addr)
					}
				}
				if lt == nil {
					return
				}
			}
			vt := rtm.Of(st.Val)
			if vt.Op != "call" || !strings.HasPrefix(vt.Name, "NewLink") || len(vt.Args) < 4 {
				why = "the stored link is " + vt.String()
				return
			}
			off := 0
			if vt.Name == "NewLinkWithTrait" {
				off = 1
			}
			in0, out0 := vt.Args[1+off], vt.Args[2+off]
			far, near := in0, out0
			if sd.endField == "OutNode" {
				far, near = out0, in0
			}
			ctl := lt.Args[0] // the control node
			ctlTerm = ctl.String()
			linkWrites = append(linkWrites, st)
			sf := &slotFinder{docParam: func(t *Term) bool { return isParamIdx(t, 0) }}
			// the position the far end was looked up for: the index of this store, or - when the ids were resolved into a
			// local node list in a first pass and the links are built from that list - the index of the first pass's store,
			// the link being built from the list element at this store's index
			posIdx := ia.Index
			if !(far.Op == "call" && far.Name == "NodeWithId") {
				if lc, isCall := st.Val.(*ssa.Call); isCall && len(lc.Call.Args) >= 4+off {
					farV := lc.Call.Args[1+off]
					if sd.endField == "OutNode" {
						farV = lc.Call.Args[2+off]
					}
					if w, sIdx, lIdx, okL := c15ResolvedListElem(farV); okL {
						if lIdx != ia.Index {
							why = "the link is not stored at the position its far end has in the resolved node list"
							return
						}
						far, posIdx = rtm.Of(w), sIdx
					}
				}
			}
			if !(far.Op == "call" && far.Name == "NodeWithId") {
				why = fmt.Sprintf("the %s end of a restored %s link is %s, not the node looked up by the written id", sd.endField, key, far)
				return
			}
			sr, ok := sf.direct(far.Args[0])
			if !ok || sr.Slot != key+"/"+idKey {
				why = fmt.Sprintf("the far end is looked up by %s, not by %s[i][%q]", far.Args[0], key, idKey)
				return
			}
			if near.String() != ctl.String() {
				why = "the near end of the restored link is " + near.String() + ", not the control node"
				return
			}
			// same position: index of the store = position in the list read from the wire
			idxOK := false
			far.Args[0].Walk(func(x *Term) bool {
				if x.Op == "elem" && len(x.Args) > 1 && x.Args[1].V == posIdx {
					idxOK = true
				}
				return true
			})
			if !idxOK {
				why = "the link is not stored at the position it has in the written list"
				return
			}
			// the looked-up node is used when it was found: a link built under "the looked-up node is nil" has no far end
			if lc, isCall := st.Val.(*ssa.Call); isCall && len(lc.Call.Args) >= 4+off {
				farV := lc.Call.Args[1+off]
				if sd.endField == "OutNode" {
					farV = lc.Call.Args[2+off]
				}
				for _, g := range Guards(st.Block()) {
					if GuardNilness(g, func(v ssa.Value) bool { return v == farV }) == 1 {
						why = fmt.Sprintf("the %s link is built only when the node looked up by the written id is nil", key)
						return
					}
				}
			}
			// list sized by the written list: the list the link goes into was installed in the control node as
			// make(.., n), n the length of the list the loop of this store runs over (a list of another length - the
			// constructor's empty one - has no slot i)
			sized := false
			if l := InnermostLoop(Loops(rfn), st.Block()); l != nil {
				if _, bound, okc := countsUp(l); okc {
					for _, fs := range FieldStores(rfn, listF) {
						if rtm.Of(fs.Addr.(*ssa.FieldAddr).X).String() != ctl.String() || !instrBefore(fs, st) {
							continue
						}
						if ms, isMS := stripPtr(fs.Val).(*ssa.MakeSlice); isMS && c15SameLen(ms.Len, bound) {
							sized = true
						}
					}
				}
			}
			if !sized {
				why = fmt.Sprintf("the list %s the links are stored into is not made with the length of the written %s list before the links are stored", sd.listField, key)
				return
			}
			okR = true
		})
		r.Check(okW && okR, cons, p.Pos(rfn.Pos()), fmt.Sprintf("%s[i] <- %s[i].%s.Id, restored as %s[i] with the looked-up node at the %s end", key, sd.listField, sd.endField, sd.listField, sd.endField),
			fmt.Sprintf("module %s: writer ok=%v; reader: %s", key, okW, why))
	}
	// NeuronType of a restored control node is Hidden (what NewMIMOGene / duplicate expect)

	// The link lists are complete before anything reads them. NewMIMOGene copies the endpoints of the control node's
	// links into the gene's private ioNodes list when the gene is built (nothing else on the wire carries that list): a
	// gene built while Incoming/Outgoing are still empty or partly filled reads back with a shorter ioNodes list - it no
	// longer equals the written gene and hasIntersection() misses its nodes (crossover drops the module).
	if ctlTerm == "" {
		return
	}
	isListF := func(f *types.Var) bool {
		for _, lf := range listFields {
			if lf == f {
				return true
			}
		}
		return false
	}
	for _, lf := range listFields {
		for _, fs := range FieldStores(rfn, lf) {
			if rtm.Of(fs.Addr.(*ssa.FieldAddr).X).String() == ctlTerm {
				linkWrites = append(linkWrites, fs)
			}
		}
	}
	isWrite := map[ssa.Instruction]bool{}
	for _, w := range linkWrites {
		isWrite[w] = true
	}
	// readers: calls that receive the control node and load one of its link lists; element reads in the reader itself
	readsLinks := func(cal *ssa.Function, k int) bool {
		if cal == nil || !InRepo(cal) || len(cal.Blocks) == 0 || k >= len(cal.Params) {
			return false
		}
		found := false
		Instrs(cal, func(_ *ssa.BasicBlock, _ int, in ssa.Instruction) {
			if u, ok := in.(*ssa.UnOp); ok && u.Op == token.MUL {
				if fa, ok := u.X.(*ssa.FieldAddr); ok && fa.X == ssa.Value(cal.Params[k]) && isListF(fieldOf(fa.X.Type(), fa.Field)) {
					found = true
				}
			}
		})
		return found
	}
	var readers []ssa.Instruction
	Instrs(rfn, func(_ *ssa.BasicBlock, _ int, in ssa.Instruction) {
		switch x := in.(type) {
		case ssa.CallInstruction:
			for k, a := range x.Common().Args {
				if rtm.Of(a).String() == ctlTerm && readsLinks(x.Common().StaticCallee(), k) {
					readers = append(readers, in)
				}
			}
		case *ssa.UnOp:
			// an element of one of the lists is read here: *(&ctl.<list>[i])
			if ia, ok := x.X.(*ssa.IndexAddr); ok && x.Op == token.MUL {
				if lt := rtm.Of(ia.X); lt.Op == "field" && lt.Obj != nil && len(lt.Args) > 0 && lt.Args[0].String() == ctlTerm {
					if f, isVar := lt.Obj.(*types.Var); isVar && isListF(f) {
						readers = append(readers, in)
					}
				}
			}
		}
	})
	var badPath []string
	badAt := ""
	for _, rd := range readers {
		if path := FindPath(p, PathQuery{Fn: rfn, StartAfter: rd, FlagBlind: true, Explored: &r.PathsExplored, Target: func(in ssa.Instruction) bool { return isWrite[in] }}); path != nil && badPath == nil {
			badPath, badAt = path, p.Pos(rd.Pos())
		}
	}
	r.Check(badPath == nil, label+".complete-before-use", p.Pos(rfn.Pos()),
		fmt.Sprintf("every use of the control node's links (%d, among them the gene constructor that copies their endpoints into ioNodes) comes after the last write into Incoming/Outgoing", len(readers)),
		"the control node's links are read at "+badAt+" (the gene constructor copies their endpoints into the private ioNodes list) while Incoming/Outgoing are still being filled afterwards: the restored gene's ioNodes list misses the nodes linked later", badPath...)
}

// inverseNames: NeuronTypeName and NeuronTypeByName are inverse on every constant of the type.
func (c *c15) inverseNames() {
	p, r := c.p, c.r
	nameFn, byName := p.Func(PkgN, "NeuronTypeName"), p.Func(PkgN, "NeuronTypeByName")
	r.Fn(FuncName(nameFn), FuncName(byName))
	table := func(fn *ssa.Function, resIdx int) map[string]string {
		out := map[string]string{}
		tm := NewTermer(fn)
		for _, b := range fn.Blocks {
			ret, ok := b.Instrs[len(b.Instrs)-1].(*ssa.Return)
			if !ok {
				continue
			}
			k, isC := ret.Results[resIdx].(*ssa.Const)
			if !isC || k.Value == nil {
				continue
			}
			for _, g := range Guards(b) {
				cx, cy, op, okc := CmpFact(g.Cond, g.True)
				if !okc || op != token.EQL {
					continue
				}
				if !isParamIdx(tm.Of(cx), 0) {
					continue
				}
				if kc, ok := cy.(*ssa.Const); ok && kc.Value != nil {
					out[kc.Value.ExactString()] = k.Value.ExactString()
				}
			}
		}
		return out
	}
	t1, t2 := table(nameFn, 0), table(byName, 0)
	consts := p.ConstsOfType(PkgN, "NodeNeuronType")
	n := 0
	for _, k := range consts {
		v := k.Val().ExactString()
		name, ok := t1[v]
		back := t2[name]
		n++
		r.Check(ok && back == v, "NeuronType."+k.Name(), p.Pos(nameFn.Pos()), fmt.Sprintf("%s -> %s -> %s", k.Name(), name, k.Name()),
			fmt.Sprintf("NeuronTypeName(%s) = %s and NeuronTypeByName(%s) = %q: a node of this type is not restored with its type", k.Name(), name, name, back))
	}
	r.Floor("neuron type constants", n, 4)
}

// activationNames: ActivationNameFromType answers from the type->name map and
// ActivationTypeFromName from the name->type map, both filled together by
// Register/RegisterModule, with pairwise distinct names.
func (c *c15) activationNames() {
	p, r := c.p, c.r
	// (how the registry stores the pairs is C18.1's concern; here only what every representation needs: one name per type)
	// distinct names and types among the registrations
	factory := p.Func(PkgM, "NewNodeActivatorsFactory")
	names, typs := map[string]int{}, map[string]int{}
	n := 0
	for _, name := range []string{"Register", "RegisterModule"} {
		for _, ci := range CallsTo(factory, p.Func(PkgM, "NodeActivatorsFactory."+name)) {
			a := ci.Common().Args
			// one registration per execution of the call: the call itself, or - when it sits in a loop over a
			// literal table of (type, function, name) records - one per record of the table
			rows := [][]ssa.Value{{a[1], a[3]}}
			if _, isC := a[1].(*ssa.Const); !isC {
				if tab, isTab := c15RecordTableRows(ci, []ssa.Value{a[1], a[3]}); isTab {
					rows = tab
				}
			}
			for _, row := range rows {
				k, ok1 := row[0].(*ssa.Const)
				s, ok2 := constString(row[1])
				if !ok1 || !ok2 || k.Value == nil {
					r.Undecided("registration", p.Pos(ci.Pos()), "a registration whose type or name is not constant")
					continue
				}
				n++
				names[s]++
				typs[k.Value.ExactString()]++
			}
		}
	}
	var dup []string
	for s, k := range names {
		if k > 1 {
			dup = append(dup, "name "+s)
		}
	}
	for s, k := range typs {
		if k > 1 {
			dup = append(dup, "type "+s)
		}
	}
	sort.Strings(dup)
	r.Check(len(dup) == 0, "registrations.distinct", p.Pos(factory.Pos()), fmt.Sprintf("%d registrations, names and types pairwise distinct", n), "registered twice: "+strings.Join(dup, ", ")+" (a written activation name reads back as another type)")
	consts := p.ConstsOfType(PkgM, "NodeActivationType")
	for _, k := range consts {
		if typs[k.Val().ExactString()] == 0 {
			r.Bad("registered:"+k.Name(), p.Pos(k.Pos()), "activation type "+k.Name()+" has no registered name: a node of this type cannot be written")
		}
	}
	r.Floor("activation registrations", n, 23)
}
