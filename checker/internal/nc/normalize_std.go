package nc

import (
	"fmt"
	"go/ast"
	"go/constant"
	"go/scanner"
	"go/token"
	"go/types"
	"os"
	"path/filepath"
	"strings"

	"golang.org/x/tools/go/packages"
)

// Source normalisation, part 2: standard-library scan helpers are expanded back into loops.
//
// A refactoring that replaces a hand-written scan by slices.Contains / ContainsFunc / Index /
// IndexFunc (or a make+copy by slices.Clone) leaves the behaviour alone, but the rules no longer
// see the loop. The calls are therefore rewritten - by the same machinery that inlines new
// helpers: findSite decides WHERE a call may be lifted, stmtEdits splices the text in front of the
// statement - into the loop the library function executes (Go 1.23, src/slices/slices.go):
//
//	slices.IndexFunc(s, func(e T) bool { return P })
//	  ->  r := -1; s0 := s; for i := range s0 { e := s0[i]; if (P) { r = i; break } }
//	slices.ContainsFunc  ->  the same scan with r := false / r = true
//	slices.Index(s, v), slices.Contains(s, v)
//	  ->  s0 := s; v0 := v; for i := range s0 { if s0[i] == v0 { r = i; break } }
//	slices.Clone(s)      ->  r := append(s0[:0:0], s0...)        (the library's own body: nil stays nil, an
//	                         empty non-nil slice stays non-nil, the capacity is what append chooses)
//	slices.Equal(a, b)   ->  r := len(a0) == len(b0); if r { for i := range a0 { if a0[i] != b0[i] { r = false; break } } }
//	slices.Reverse(s)    ->  for i, j := 0, len(s0)-1; i < j; i, j = i+1, j-1 { s0[i], s0[j] = s0[j], s0[i] }
//
// A predicate that is a function literal written at the call site - or a local variable that is
// defined once as a function literal and never written again - is expanded IN PLACE: its parameter
// becomes a by-value copy of the element declared in the loop body, `return X` becomes
// `if (X) { r = hit; break }; continue` (`return true` -> `r = hit; break`, `return false` ->
// `continue`; the continue of the last top-level return is dropped; break/continue carry the
// loop's label only where the return sits in a nested for/switch/select of the literal). Any other
// predicate value is evaluated once, after the slice, and called as f(s0[i]) in the loop.
//
// Evaluation order is the one of the call: slice, then value/predicate, then the scan. Under a
// short-circuit operator the scan runs under the guard and the WHOLE guarded operand is replaced,
//
//	A && slices.ContainsFunc(..)   ->   g := false; if (A) { <scan>; g = r }      ... g ...
//
// so every operand is evaluated exactly once (the predicate may change what A reads).
//
// Declined (the call stays a call, which the rules then report as they did before): a predicate
// body with defer, recover, labels or goto; a call whose types cannot be spelled in the caller's
// file; a literal variable whose free names mean something else at the call site; a scan in the
// condition of a three-clause `for` (it is evaluated once per iteration, there is no statement to
// put the loop in front of); operands declared in the init statement of the same if/switch.

var stdHelperNames = map[string]bool{
	"Contains": true, "ContainsFunc": true, "Index": true, "IndexFunc": true,
	"Clone": true, "Equal": true, "Reverse": true,
}

// isStd: one of the standard-library helpers that are expanded into loops.
func (nz *normalizer) isStd(f types.Object) bool {
	fn, ok := f.(*types.Func)
	if !ok || fn == nil || fn.Pkg() == nil || fn.Pkg().Path() != "slices" {
		return false
	}
	return stdHelperNames[fn.Name()]
}

// liftable: a call that findSite may lift in front of its statement.
func (nz *normalizer) liftable(f types.Object) bool {
	if f == nil || isNilObj(f) {
		return false
	}
	return nz.isNewHelper(f) || nz.isStd(f)
}

// flatExpr puts the source text of an expression on one line.
func flatExpr(src string) (string, bool) {
	f, ok := flatten(src)
	f = strings.TrimSpace(f)
	f = strings.TrimSpace(strings.TrimSuffix(f, ";"))
	return f, ok && f != ""
}

// universe: name still denotes the predeclared object at pos.
func (nz *normalizer) universe(pk *packages.Package, pos token.Pos, names ...string) bool {
	sc := pk.Types.Scope().Innermost(pos)
	if sc == nil {
		return false
	}
	for _, n := range names {
		_, o := sc.LookupParent(n, pos)
		if o == nil || o.Parent() != types.Universe {
			return false
		}
	}
	return true
}

// enclosingFunc names the declared function whose source text contains pos.
func (nz *normalizer) enclosingFunc(pk *packages.Package, file *ast.File, pos token.Pos) string {
	for _, d := range file.Decls {
		if gd, isGen := d.(*ast.GenDecl); isGen && gd.Pos() <= pos && pos < gd.End() {
			for _, sp := range gd.Specs {
				if vs, isVS := sp.(*ast.ValueSpec); isVS && vs.Pos() <= pos && pos < vs.End() && len(vs.Names) > 0 {
					return "the initialiser of " + vs.Names[0].Name
				}
			}
		}
		fd, ok := d.(*ast.FuncDecl)
		if !ok || pos < fd.Pos() || pos >= fd.End() {
			continue
		}
		if fd.Recv != nil && len(fd.Recv.List) == 1 {
			t := fd.Recv.List[0].Type
			if st, ok := t.(*ast.StarExpr); ok {
				t = st.X
			}
			if ix, ok := t.(*ast.IndexExpr); ok {
				t = ix.X
			}
			if id, ok := t.(*ast.Ident); ok {
				return id.Name + "." + fd.Name.Name
			}
		}
		return fd.Name.Name
	}
	return "?"
}

// bodyInlinable: the statement-level preconditions of inlinable (normalize.go), for a literal's body.
func bodyInlinable(body *ast.BlockStmt) (bool, string) {
	bad := ""
	ast.Inspect(body, func(n ast.Node) bool {
		switch x := n.(type) {
		case *ast.DeferStmt:
			bad = "defer"
		case *ast.LabeledStmt:
			bad = "label"
		case *ast.BranchStmt:
			if x.Tok == token.GOTO {
				bad = "goto"
			}
		case *ast.CallExpr:
			if id, ok := x.Fun.(*ast.Ident); ok && id.Name == "recover" {
				bad = "recover"
			}
		}
		return bad == ""
	})
	return bad == "", bad
}

// litOfVar: the function literal a local variable is bound to for its whole life: defined once by
// `f := func..` / `var f = func..`, never assigned, never redeclared, its address never taken.
func (nz *normalizer) litOfVar(pk *packages.Package, file *ast.File, v *types.Var) *ast.FuncLit {
	if v == nil || v.Pkg() == nil || v.Parent() == nil || v.Parent() == v.Pkg().Scope() || v.IsField() {
		return nil
	}
	info := pk.TypesInfo
	var fd *ast.FuncDecl
	for _, d := range file.Decls {
		if x, ok := d.(*ast.FuncDecl); ok && x.Body != nil && x.Pos() <= v.Pos() && v.Pos() < x.End() {
			fd = x
		}
	}
	if fd == nil {
		return nil
	}
	var lit *ast.FuncLit
	written := false
	isV := func(e ast.Expr) bool {
		id, ok := ast.Unparen(e).(*ast.Ident)
		return ok && (info.Uses[id] == types.Object(v))
	}
	ast.Inspect(fd.Body, func(n ast.Node) bool {
		switch x := n.(type) {
		case *ast.AssignStmt:
			if x.Tok == token.DEFINE && len(x.Lhs) == 1 && len(x.Rhs) == 1 {
				if id, ok := x.Lhs[0].(*ast.Ident); ok && info.Defs[id] == types.Object(v) {
					lit, _ = x.Rhs[0].(*ast.FuncLit)
				}
			}
			for _, l := range x.Lhs {
				if isV(l) {
					written = true // assigned, or redeclared by a later `f, x := ..`
				}
			}
		case *ast.ValueSpec:
			if len(x.Names) == 1 && len(x.Values) == 1 && info.Defs[x.Names[0]] == types.Object(v) {
				lit, _ = x.Values[0].(*ast.FuncLit)
			}
		case *ast.RangeStmt:
			if (x.Key != nil && isV(x.Key)) || (x.Value != nil && isV(x.Value)) {
				written = true
			}
		case *ast.UnaryExpr:
			if x.Op == token.AND && isV(x.X) {
				written = true
			}
		case *ast.IncDecStmt:
			if isV(x.X) {
				written = true
			}
		}
		return true
	})
	if written || lit == nil {
		return nil
	}
	return lit
}

// freeNamesAgree: every name the literal takes from its surroundings denotes the same object at pos.
func (nz *normalizer) freeNamesAgree(pk *packages.Package, lit *ast.FuncLit, pos token.Pos) bool {
	info := pk.TypesInfo
	sc := pk.Types.Scope().Innermost(pos)
	if sc == nil {
		return false
	}
	ok := true
	var visit func(n ast.Node) bool
	visit = func(n ast.Node) bool {
		if !ok {
			return false
		}
		switch x := n.(type) {
		case *ast.SelectorExpr:
			ast.Inspect(x.X, visit) // the selected name is a field, a method or a member of a package
			return false
		case *ast.KeyValueExpr:
			// a struct literal's key is a field name; a map/array key is an ordinary expression
			if id, isId := x.Key.(*ast.Ident); !isId || info.Uses[id] == nil || !isFieldObj(info.Uses[id]) {
				ast.Inspect(x.Key, visit)
			}
			ast.Inspect(x.Value, visit)
			return false
		case *ast.Ident:
			obj := info.Uses[x]
			if obj == nil {
				return true
			}
			if lit.Pos() <= obj.Pos() && obj.Pos() < lit.End() {
				return true // declared by the literal itself
			}
			if _, o := sc.LookupParent(x.Name, pos); o != obj {
				ok = false
			}
		}
		return ok
	}
	ast.Inspect(lit, visit)
	return ok
}

func isFieldObj(o types.Object) bool {
	v, ok := o.(*types.Var)
	return ok && v.IsField()
}

// usesHeaderDecl: the call (or its guard) uses a variable that the init statement of the same if/switch
// declares; the lifted text would be placed in front of that declaration.
func (nz *normalizer) usesHeaderDecl(info *types.Info, s ast.Stmt, site *inlineSite) bool {
	var init ast.Stmt
	var rest []ast.Expr
	switch x := s.(type) {
	case *ast.IfStmt:
		init, rest = x.Init, []ast.Expr{x.Cond}
	case *ast.SwitchStmt:
		init = x.Init
		if x.Tag != nil {
			rest = []ast.Expr{x.Tag}
		}
	}
	if init == nil || site.call.Pos() < init.End() {
		return false
	}
	decl := map[types.Object]bool{}
	ast.Inspect(init, func(n ast.Node) bool {
		if id, ok := n.(*ast.Ident); ok {
			if o := info.Defs[id]; o != nil {
				decl[o] = true
			}
		}
		return true
	})
	if len(decl) == 0 {
		return false
	}
	found := false
	for _, e := range rest {
		ast.Inspect(e, func(n ast.Node) bool {
			if id, ok := n.(*ast.Ident); ok && decl[info.Uses[id]] {
				found = true
			}
			return !found
		})
	}
	return found
}

// predicateBody renders the body of a predicate literal as the body of the scan loop.
// elem is the expression of the current element, hit what the result receives on the first match.
func (nz *normalizer) predicateBody(pk *packages.Package, file *ast.File, lit *ast.FuncLit, elem, res, hit, label string) (text string, usedLabel bool, ok bool, why string) {
	info := pk.TypesInfo
	if okB, bad := bodyInlinable(lit.Body); !okB {
		return "", false, false, "its predicate uses " + bad
	}
	var head strings.Builder
	// the parameter: a copy of the element
	pname := "_"
	np := 0
	for _, f := range lit.Type.Params.List {
		if len(f.Names) == 0 {
			np++
		}
		for _, n := range f.Names {
			np++
			pname = n.Name
		}
	}
	if np != 1 {
		return "", false, false, "predicate arity"
	}
	if pname != "_" {
		fmt.Fprintf(&head, "%s := %s; _ = %s; ", pname, elem, pname)
	} else {
		fmt.Fprintf(&head, "_ = %s; ", elem)
	}
	// a named result is an ordinary local of the loop body
	resName := ""
	if lit.Type.Results != nil {
		for _, f := range lit.Type.Results.List {
			for _, n := range f.Names {
				resName = n.Name
			}
		}
	}
	if resName != "" && resName != "_" {
		if !nz.universe(pk, lit.Pos(), "bool") {
			return "", false, false, "bool is redeclared"
		}
		fmt.Fprintf(&head, "var %s bool; _ = %s; ", resName, resName)
	}
	edits := nz.stmtEdits(pk, file, lit.Body)
	// (the literals of closures declared inside the predicate are kept "used" or removed by stmtEdits: closureEdits)
	// the returns of the literal itself, with the loops and switches of the literal they sit in
	type retSite struct {
		ret       *ast.ReturnStmt
		brk, cont bool // an unlabelled break / continue would not reach the scan loop
	}
	var rets []retSite
	var walk func(n ast.Node, brk, cont bool)
	walk = func(n ast.Node, brk, cont bool) {
		ast.Inspect(n, func(m ast.Node) bool {
			if m == n {
				return true
			}
			switch x := m.(type) {
			case *ast.FuncLit:
				return false
			case *ast.ForStmt, *ast.RangeStmt:
				walk(x, true, true)
				return false
			case *ast.SwitchStmt, *ast.TypeSwitchStmt, *ast.SelectStmt:
				walk(x, true, cont)
				return false
			case *ast.ReturnStmt:
				rets = append(rets, retSite{x, brk, cont})
			}
			return true
		})
	}
	walk(lit.Body, false, false)
	var last ast.Stmt
	if n := len(lit.Body.List); n > 0 {
		last = lit.Body.List[n-1]
	}
	for _, rs := range rets {
		brk, cont := "break", "continue"
		if rs.brk {
			brk, usedLabel = "break "+label, true
		}
		isLast := ast.Stmt(rs.ret) == last
		if rs.cont && !isLast {
			cont, usedLabel = "continue "+label, true
		}
		onHit := fmt.Sprintf("%s = %s; %s", res, hit, brk)
		start, end := nz.off(rs.ret.Pos()), nz.off(rs.ret.End())
		switch {
		case len(rs.ret.Results) == 0:
			// naked return of the named result
			if resName == "" || resName == "_" {
				return "", false, false, "naked return"
			}
			t := fmt.Sprintf("if %s { %s }", resName, onHit)
			if !isLast {
				t += "; " + cont
			}
			edits = append(edits, textEdit{start, end, t, 1000})
		case len(rs.ret.Results) != 1:
			return "", false, false, "predicate arity"
		default:
			if tv, okT := info.Types[rs.ret.Results[0]]; okT && tv.Value != nil && tv.Value.Kind() == constant.Bool {
				t := cont
				if constant.BoolVal(tv.Value) {
					t = onHit
				} else if isLast {
					t = "" // falls out of the loop body
				}
				edits = append(edits, textEdit{start, end, t, 1000})
				continue
			}
			edits = append(edits, textEdit{start, start + len("return"), "if (", 1000})
			t := fmt.Sprintf(") { %s }", onHit)
			if !isLast {
				t += "; " + cont
			}
			edits = append(edits, textEdit{end, end, t, 1000})
		}
	}
	b := nz.fileBytes(nz.fset.Position(lit.Pos()).Filename)
	inner := applyEdits(b, nz.off(lit.Body.Lbrace)+1, nz.off(lit.Body.Rbrace), edits)
	flat, okF := flatten(inner)
	if !okF {
		return "", false, false, "its predicate cannot be put on one line"
	}
	return head.String() + flat, usedLabel, true, ""
}

// spellable: the type can be written in a file of package from (no unexported name of another package).
func spellable(t types.Type, from *types.Package, seen map[types.Type]bool) bool {
	if t == nil || seen[t] {
		return true
	}
	seen[t] = true
	foreign := func(o types.Object) bool { return o.Pkg() != nil && o.Pkg() != from && !o.Exported() }
	switch x := t.(type) {
	case *types.Named:
		if foreign(x.Obj()) {
			return false
		}
		for i := 0; i < x.TypeArgs().Len(); i++ {
			if !spellable(x.TypeArgs().At(i), from, seen) {
				return false
			}
		}
		return true
	case *types.Alias:
		return !foreign(x.Obj())
	case *types.Pointer:
		return spellable(x.Elem(), from, seen)
	case *types.Slice:
		return spellable(x.Elem(), from, seen)
	case *types.Array:
		return spellable(x.Elem(), from, seen)
	case *types.Chan:
		return spellable(x.Elem(), from, seen)
	case *types.Map:
		return spellable(x.Key(), from, seen) && spellable(x.Elem(), from, seen)
	case *types.Tuple:
		for i := 0; i < x.Len(); i++ {
			if !spellable(x.At(i).Type(), from, seen) {
				return false
			}
		}
		return true
	case *types.Signature:
		return spellable(x.Params(), from, seen) && spellable(x.Results(), from, seen)
	case *types.Struct:
		for i := 0; i < x.NumFields(); i++ {
			if foreign(x.Field(i)) || !spellable(x.Field(i).Type(), from, seen) {
				return false
			}
		}
		return true
	case *types.Interface:
		for i := 0; i < x.NumMethods(); i++ {
			if foreign(x.Method(i)) {
				return false
			}
		}
		return true
	}
	return true // basic types, type parameters
}

// bindArg renders `name := arg` (or `var name T = arg` when the argument is converted implicitly).
func (nz *normalizer) bindArg(info *types.Info, from *types.Package, q types.Qualifier, name string, arg ast.Expr, want types.Type, forceType bool) (string, bool) {
	txt, ok := flatExpr(nz.text(arg))
	if !ok {
		return "", false
	}
	have := info.TypeOf(arg)
	if have == nil {
		return "", false
	}
	// a constant (or nil) operand takes its type from the parameter: `x := 1` would make it an int
	if tv := info.Types[arg]; tv.Value != nil || tv.IsNil() {
		forceType = true
	}
	if !forceType && types.Identical(have, want) {
		return fmt.Sprintf("%s := %s; _ = %s; ", name, txt, name), true
	}
	if !spellable(want, from, map[types.Type]bool{}) {
		return "", false
	}
	return fmt.Sprintf("var %s %s = %s; _ = %s; ", name, types.TypeString(want, q), txt, name), true
}

// stdExpansion builds the one-line text that computes a standard helper's result into a temporary.
// When the call sits under short-circuit operators, site.replace is set to the outermost guarded
// operand: that whole operand is computed by the text and replaced by the temporary.
func (nz *normalizer) stdExpansion(pk *packages.Package, file *ast.File, site *inlineSite, stmt ast.Stmt) (prelude string, temps []string, ok bool) {
	info := pk.TypesInfo
	fn := site.callee.(*types.Func)
	name := "slices." + fn.Name()
	at := nz.fset.Position(site.call.Pos())
	decline := func(why string) (string, []string, bool) {
		nz.Log = append(nz.Log, fmt.Sprintf("not expanded: %s at %s (%s)", name, at, why))
		return "", nil, false
	}
	sig, _ := info.TypeOf(site.call.Fun).(*types.Signature)
	if sig == nil || sig.TypeParams().Len() > 0 || sig.Params().Len() != len(site.call.Args) || site.call.Ellipsis.IsValid() {
		return decline("not a plain instantiated call")
	}
	if nz.usesHeaderDecl(info, stmt, site) {
		return decline("an operand is declared in the same statement header")
	}
	q, failed := nz.qualifier(file, pk)
	nz.n++
	id := fmt.Sprintf("__std%d", nz.n)
	r, s, idx := id+"_r", id+"_s", id+"_i"
	pos := site.call.Pos()
	var sb strings.Builder
	bind := func(nm string, i int, force bool) bool {
		t, okB := nz.bindArg(info, pk.Types, q, nm, site.call.Args[i], sig.Params().At(i).Type(), force)
		sb.WriteString(t)
		return okB
	}
	var consumed *ast.FuncLit
	switch fn.Name() {
	case "Contains", "Index", "ContainsFunc", "IndexFunc":
		init, hit := "-1", idx
		if strings.HasPrefix(fn.Name(), "Contains") {
			init, hit = "false", "true"
			if !nz.universe(pk, pos, "true", "false") {
				return decline("true/false are redeclared")
			}
		}
		fmt.Fprintf(&sb, "%s := %s; _ = %s; ", r, init, r)
		if !bind(s, 0, false) {
			return decline("argument text")
		}
		elem := s + "[" + idx + "]"
		if !strings.HasSuffix(fn.Name(), "Func") {
			if !bind(id+"_v", 1, false) {
				return decline("argument text")
			}
			fmt.Fprintf(&sb, "for %s := range %s { if %s == %s_v { %s = %s; break } }; ", idx, s, elem, id, r, hit)
			break
		}
		// the predicate: a literal at the call site, a variable bound to one literal, or any other value
		arg := ast.Unparen(site.call.Args[1])
		lit, _ := arg.(*ast.FuncLit)
		keep := ""
		if lit != nil {
			consumed = lit
		} else if aid, isId := arg.(*ast.Ident); isId {
			if v, isVar := info.Uses[aid].(*types.Var); isVar {
				if l := nz.litOfVar(pk, file, v); l != nil {
					if nz.freeNamesAgree(pk, l, pos) {
						lit, keep = l, "_ = "+aid.Name+"; "
					} else {
						nz.Log = append(nz.Log, fmt.Sprintf("predicate %s of %s at %s stays a call (a name of its body means something else there)", aid.Name, name, at))
					}
				}
			}
		}
		if lit != nil {
			body, usedLabel, okP, why := nz.predicateBody(pk, file, lit, elem, r, hit, id)
			if okP {
				sb.WriteString(keep)
				if usedLabel {
					sb.WriteString(id + ": ")
				}
				fmt.Fprintf(&sb, "for %s := range %s { %s }; ", idx, s, body)
				break
			}
			if consumed != nil {
				return decline(why)
			}
			nz.Log = append(nz.Log, fmt.Sprintf("predicate of %s at %s stays a call (%s)", name, at, why))
		}
		if !bind(id+"_f", 1, true) {
			return decline("argument text")
		}
		fmt.Fprintf(&sb, "for %s := range %s { if %s_f(%s) { %s = %s; break } }; ", idx, s, id, elem, r, hit)
	case "Clone":
		if !nz.universe(pk, pos, "append") {
			return decline("append is redeclared")
		}
		if !bind(s, 0, false) {
			return decline("argument text")
		}
		fmt.Fprintf(&sb, "%s := append(%s[:0:0], %s...); _ = %s; ", r, s, s, r)
	case "Equal":
		if !nz.universe(pk, pos, "len", "false") {
			return decline("len/false are redeclared")
		}
		s2 := id + "_t"
		if !bind(s, 0, false) || !bind(s2, 1, false) {
			return decline("argument text")
		}
		fmt.Fprintf(&sb, "%s := len(%s) == len(%s); _ = %s; if %s { for %s := range %s { if %s[%s] != %s[%s] { %s = false; break } } }; ",
			r, s, s2, r, r, idx, s, s, idx, s2, idx, r)
	case "Reverse":
		if !nz.universe(pk, pos, "len") {
			return decline("len is redeclared")
		}
		if !bind(s, 0, false) {
			return decline("argument text")
		}
		j := id + "_j"
		fmt.Fprintf(&sb, "for %s, %s := 0, len(%s)-1; %s < %s; %s, %s = %s+1, %s-1 { %s[%s], %s[%s] = %s[%s], %s[%s] }; ",
			idx, j, s, idx, j, idx, j, idx, j, s, idx, s, j, s, j, s, idx)
		r = ""
	default:
		return decline("unknown helper")
	}
	if *failed {
		return decline("a type cannot be spelled in this file")
	}
	pre := sb.String()
	// short-circuit operators above the call, innermost first: the guarded operand is computed under its guard
	var repl ast.Node = site.call
	cur := r
	k := 0
	for i := len(site.path) - 2; i >= 0; i-- {
		be, isB := site.path[i].(*ast.BinaryExpr)
		if !isB || (be.Op != token.LAND && be.Op != token.LOR) || site.path[i+1] == ast.Node(be.X) {
			continue
		}
		if r == "" || nz.hasCall(info, be.X, nil) {
			return decline("guard")
		}
		if bt, isBasic := info.TypeOf(be).(*types.Basic); !isBasic || bt.Info()&types.IsBoolean == 0 || !nz.universe(pk, pos, "true", "false") {
			return decline("the guarded operand is not a plain bool")
		}
		b := nz.fileBytes(at.Filename)
		y := string(b[nz.off(be.Y.Pos()):nz.off(repl.Pos())]) + cur + string(b[nz.off(repl.End()):nz.off(be.Y.End())])
		yt, okY := flatExpr(y)
		xt, okX := flatExpr(nz.text(be.X))
		if !okY || !okX {
			return decline("guard text")
		}
		k++
		g := fmt.Sprintf("%s_g%d", id, k)
		if be.Op == token.LAND {
			pre = fmt.Sprintf("%s := false; if (%s) { %s%s = %s }; ", g, xt, pre, g, yt)
		} else {
			pre = fmt.Sprintf("%s := true; if !(%s) { %s%s = %s }; ", g, xt, pre, g, yt)
		}
		cur, repl = g, be
	}
	if repl != ast.Node(site.call) {
		site.replace = repl
	}
	// the replaced text may span several lines: the following statements keep their line numbers
	if pad := strings.Count(nz.text(repl), "\n") - strings.Count(pre, "\n"); pad > 0 {
		pre += strings.Repeat("\n", pad)
	}
	if consumed != nil {
		if nz.consumed == nil {
			nz.consumed = map[*ast.FuncLit]bool{}
		}
		nz.consumed[consumed] = true
	}
	nz.Log = append(nz.Log, fmt.Sprintf("expanded %s in %s at %s", name, nz.enclosingFunc(pk, file, pos), at))
	if cur == "" {
		return pre, nil, true
	}
	return pre, []string{cur}, true
}

// importEdits: an import of a package whose helpers were all expanded away would be unused in the
// normalised file, which does not compile; such an import is made a blank import. text is the
// normalised file without this correction.
func (nz *normalizer) importEdits(pk *packages.Package, file *ast.File, text []byte) []textEdit {
	var out []textEdit
	for _, im := range file.Imports {
		if strings.Trim(im.Path.Value, `"`) != "slices" {
			continue
		}
		name := "slices"
		if im.Name != nil {
			name = im.Name.Name
		}
		if name == "_" || name == "." {
			continue
		}
		if usesQualifier(text, name) {
			continue
		}
		if im.Name != nil {
			out = append(out, textEdit{nz.off(im.Name.Pos()), nz.off(im.Name.End()), "_", 0})
		} else {
			out = append(out, textEdit{nz.off(im.Path.Pos()), nz.off(im.Path.Pos()), "_ ", 0})
		}
		nz.Log = append(nz.Log, fmt.Sprintf("import %s of %s made blank (every use was expanded)", im.Path.Value, nz.fset.Position(file.Pos()).Filename))
	}
	return out
}

// importNames: effective import name -> path of a file's imports.
func importNames(file *ast.File, pk *packages.Package) map[string]string {
	out := map[string]string{}
	for _, im := range file.Imports {
		path := strings.Trim(im.Path.Value, `"`)
		name := ""
		if im.Name != nil {
			name = im.Name.Name
		} else if ip, ok := pk.Imports[path]; ok {
			name = ip.Name
		}
		if name != "" && name != "_" && name != "." {
			out[name] = path
		}
	}
	return out
}

// missingImport: the rendered body of a helper declared in another file of the package still uses a
// package that the caller's file does not import under the same name (the result would not compile,
// and the loader would then abandon the whole normalisation).
func (nz *normalizer) missingImport(pk *packages.Package, callerFile *ast.File, callee types.Object, flat string) string {
	d := nz.decl[callee]
	cpk := nz.declPkg[callee]
	if d == nil || cpk == nil {
		return ""
	}
	calleeFile := nz.fileOf(cpk, d)
	if calleeFile == nil || calleeFile == callerFile {
		return ""
	}
	have := importNames(callerFile, pk)
	for name, path := range importNames(calleeFile, cpk) {
		if have[name] == path {
			continue
		}
		if usesQualifier([]byte(flat), name) {
			return name
		}
	}
	return ""
}

// usesQualifier: the token sequence `name .` occurs in src outside the import declarations.
func usesQualifier(src []byte, name string) bool {
	fs := token.NewFileSet()
	f := fs.AddFile("", fs.Base(), len(src))
	var sc scanner.Scanner
	sc.Init(f, src, func(token.Position, string) {}, 0)
	prevIdent := false
	for {
		_, tok, lit := sc.Scan()
		if tok == token.EOF {
			return false
		}
		if tok == token.PERIOD && prevIdent {
			return true
		}
		prevIdent = tok == token.IDENT && lit == name
	}
}

// NormalizeDir runs the source normalisation on the module at dir and writes the module, with the
// normalised files in place of the originals, to out (a debugging aid: `neatcheck normalize <dir> <out>`).
// pinAll treats every function of the module as pinned, so that only local closures and the standard
// helpers are expanded.
func NormalizeDir(dir, out string, pinAll bool) ([]string, error) {
	dir, _ = filepath.Abs(dir)
	cfg := &packages.Config{Mode: packages.LoadSyntax, Dir: dir, Tests: false, Env: loadEnv()}
	pkgs, err := packages.Load(cfg, "./...")
	if err != nil {
		return nil, err
	}
	var errs []string
	for _, p := range pkgs {
		for _, e := range p.Errors {
			errs = append(errs, e.Error())
		}
	}
	if len(errs) > 0 {
		return nil, fmt.Errorf("%s", strings.Join(errs, "; "))
	}
	pinned := PinnedFuncs()
	if pinAll {
		for _, pk := range pkgs {
			for _, f := range pk.Syntax {
				for _, d := range f.Decls {
					if fd, ok := d.(*ast.FuncDecl); ok {
						if obj, ok := pk.TypesInfo.Defs[fd.Name].(*types.Func); ok {
							pinned[obj.FullName()] = true
						}
					}
				}
			}
		}
	}
	overlay, lg := buildOverlay(pkgs, pinned, os.Getenv("NEAT_KEEP_CLOSURES") != "")
	err = filepath.Walk(dir, func(path string, fi os.FileInfo, err error) error {
		if err != nil {
			return err
		}
		rel, _ := filepath.Rel(dir, path)
		if fi.IsDir() {
			return os.MkdirAll(filepath.Join(out, rel), 0o755)
		}
		b, ok := overlay[path]
		if !ok {
			if b, err = os.ReadFile(path); err != nil {
				return err
			}
		}
		return os.WriteFile(filepath.Join(out, rel), b, 0o644)
	})
	return lg, err
}
