package nc

import (
	"fmt"
	"go/ast"
	"go/constant"
	"go/token"
	"go/types"
	"strings"

	"golang.org/x/tools/go/ssa"
)

// Helpers of C18 that do not depend on the shape of the library's source.

// resolveActivation finds the function a registration call passes as its third
// argument. Accepted: a function, or the load of a package-level variable that
// is stored exactly once in the package initialiser, with
//   - a function literal, or
//   - (scalar activations) the result of a call f(c1, ..., cn) with
//     constant arguments, where f is a function of the library whose body is a
//     single `return func(...) {...}`: the literal is returned together with the
//     constants its captured parameters hold, or
//   - (module activations) the result of a call of a library function that returns
//     one closure: the closure is returned together with what its captured
//     variables hold (c18FactoryClosure).
//
// Anything else is reported with a reason; it never panics (a registration that
// cannot be resolved is an undecided obligation of C18.1).
func resolveActivation(p *Prog, fv ssa.Value, module bool) (fn *ssa.Function, bind aenv, capt *c18Capture, why string) {
	if ct, ok := fv.(*ssa.ChangeType); ok {
		fv = ct.X
	}
	if f, ok := fv.(*ssa.Function); ok {
		return f, nil, nil, ""
	}
	u, ok := fv.(*ssa.UnOp)
	if !ok || u.Op != token.MUL {
		return nil, nil, nil, "the function argument is neither a function nor a package-level variable"
	}
	g, ok := u.X.(*ssa.Global)
	if !ok {
		return nil, nil, nil, "the function argument is neither a function nor a package-level variable"
	}
	sp := g.Pkg
	if sp == nil || sp.Func("init") == nil {
		return nil, nil, nil, "no package initialiser for " + g.Name()
	}
	var stored []ssa.Value
	Instrs(sp.Func("init"), func(_ *ssa.BasicBlock, _ int, in ssa.Instruction) {
		if st, ok := in.(*ssa.Store); ok && st.Addr == ssa.Value(g) {
			stored = append(stored, st.Val)
		}
	})
	if len(stored) != 1 {
		return nil, nil, nil, fmt.Sprintf("the variable %s is stored %d times in the package initialiser", g.Name(), len(stored))
	}
	if ct, ok := stored[0].(*ssa.ChangeType); ok {
		stored[0] = ct.X
	}
	switch v := stored[0].(type) {
	case *ssa.Function:
		return v, nil, nil, ""
	case *ssa.MakeClosure:
		if len(v.Bindings) == 0 {
			return v.Fn.(*ssa.Function), nil, nil, ""
		}
		return nil, nil, nil, "the variable " + g.Name() + " holds a closure with captured variables"
	case *ssa.Call:
		if module {
			// the closure a factory returns, with what its captured variables hold (c18FactoryClosure below)
			fn, capt, why = c18FactoryClosure(v)
			if fn == nil {
				return nil, nil, nil, "the module activator " + g.Name() + " is produced by a call: " + why
			}
			return fn, nil, capt, ""
		}
		callee := v.Call.StaticCallee()
		if callee == nil || !InRepo(callee) || v.Call.IsInvoke() || callee.Signature.Recv() != nil {
			return nil, nil, nil, "the variable " + g.Name() + " is initialised by a call that is not a static call of a library function"
		}
		decl, ok := callee.Syntax().(*ast.FuncDecl)
		if !ok || decl.Body == nil || len(decl.Body.List) != 1 {
			return nil, nil, nil, "the factory " + callee.Name() + " is more than a single return of a function literal"
		}
		ret, ok := decl.Body.List[0].(*ast.ReturnStmt)
		if !ok || len(ret.Results) != 1 {
			return nil, nil, nil, "the factory " + callee.Name() + " is more than a single return of a function literal"
		}
		lit, ok := unparen(ret.Results[0]).(*ast.FuncLit)
		if !ok {
			return nil, nil, nil, "the factory " + callee.Name() + " does not return a function literal"
		}
		for _, af := range callee.AnonFuncs {
			if af.Syntax() == ast.Node(lit) {
				fn = af
			}
		}
		if fn == nil || len(v.Call.Args) != len(callee.Params) {
			return nil, nil, nil, "the function literal of the factory " + callee.Name() + " does not resolve"
		}
		bind = aenv{}
		for i, a := range v.Call.Args {
			obj := callee.Params[i].Object()
			c, ok := a.(*ssa.Const)
			if obj == nil || !ok || c.Value == nil || !isFloatType(c.Type()) {
				continue // not a float constant: the captured variable stays unbound and its use is undecided
			}
			f, _ := constant.Float64Val(constant.ToFloat(c.Value))
			bind[obj] = &abind{konst: &f}
		}
		return fn, bind, nil, ""
	}
	return nil, nil, nil, "the variable " + g.Name() + " is not initialised with a function literal"
}

// c18Capture: what the captured variables of a closure hold whenever the closure runs. vals maps a free variable of
// the closure to a value of the function `in` (the caller of the factory that made the closure); a free variable that
// is not in the map is unknown.
type c18Capture struct {
	vals map[*ssa.FreeVar]ssa.Value
	in   *ssa.Function
	tm   *Termer // of in, built on first use
}

func (c *c18Capture) termer() *Termer {
	if c.tm == nil {
		c.tm = NewTermer(c.in)
	}
	return c.tm
}

// c18FactoryClosure resolves `v = f(a1, ..., an)` where f is a function of the library that returns a closure:
// every return of f yields the same `make closure lit [b1, ..., bk]`. The closure runs after f made it, so a captured
// variable bi holds, whenever the closure runs, the value it was given in f PROVIDED nothing can change it later:
//   - bi is a local of f (go/ssa captures by reference: an Alloc) that is stored exactly once, before the closure is
//     made, with a parameter of f (then it holds the argument aj of the call) or a constant;
//   - every other use of bi in f is a load or the binding of a closure, and in every closure bi is bound to, the
//     free variable is only loaded (never stored through, never handed on).
//
// Such a bi is entered into the capture with the caller's value; any other bi is left out (its uses stay unknown to
// the rules, which then fail). Nothing is assumed about f's name or the number / order of its parameters.
func c18FactoryClosure(call *ssa.Call) (fn *ssa.Function, capt *c18Capture, why string) {
	callee := call.Call.StaticCallee()
	if callee == nil || !InRepo(callee) || call.Call.IsInvoke() || len(callee.Blocks) == 0 || len(call.Call.Args) != len(callee.Params) {
		return nil, nil, "not a static call of a library function"
	}
	var mc *ssa.MakeClosure
	for _, b := range callee.Blocks {
		ret, ok := b.Instrs[len(b.Instrs)-1].(*ssa.Return)
		if !ok {
			continue
		}
		if len(ret.Results) != 1 {
			return nil, nil, "the factory " + callee.Name() + " does not return one function"
		}
		rv := ret.Results[0]
		if ct, ok := rv.(*ssa.ChangeType); ok {
			rv = ct.X
		}
		m, ok := rv.(*ssa.MakeClosure)
		if !ok || (mc != nil && m != mc) {
			return nil, nil, "the factory " + callee.Name() + " does not return one and the same function literal on every path"
		}
		mc = m
	}
	if mc == nil {
		return nil, nil, "the factory " + callee.Name() + " does not return"
	}
	fn, ok := mc.Fn.(*ssa.Function)
	if !ok || len(fn.FreeVars) != len(mc.Bindings) {
		return nil, nil, "the function literal of the factory " + callee.Name() + " does not resolve"
	}
	capt = &c18Capture{vals: map[*ssa.FreeVar]ssa.Value{}, in: call.Parent()}
	for i, b := range mc.Bindings {
		a, ok := b.(*ssa.Alloc)
		if !ok || a.Parent() != callee || a.Referrers() == nil {
			continue
		}
		var stores []*ssa.Store
		stable := true
		for _, ref := range *a.Referrers() {
			switch x := ref.(type) {
			case *ssa.DebugRef:
			case *ssa.Store:
				if x.Addr != ssa.Value(a) {
					stable = false // the address itself is stored
				}
				stores = append(stores, x)
			case *ssa.UnOp:
				if x.Op != token.MUL || x.X != ssa.Value(a) {
					stable = false
				}
			case *ssa.MakeClosure:
				f2, ok := x.Fn.(*ssa.Function)
				if !ok || len(f2.FreeVars) != len(x.Bindings) {
					stable = false
					break
				}
				for j, b2 := range x.Bindings {
					if b2 == ssa.Value(a) && !c18LoadsOnly(f2.FreeVars[j]) {
						stable = false
					}
				}
			default:
				stable = false
			}
		}
		if !stable || len(stores) != 1 || !c18Precedes(stores[0], mc) {
			continue
		}
		switch sv := stores[0].Val.(type) {
		case *ssa.Parameter:
			for k, q := range callee.Params {
				if q == sv {
					capt.vals[fn.FreeVars[i]] = call.Call.Args[k]
				}
			}
		case *ssa.Const:
			capt.vals[fn.FreeVars[i]] = sv
		}
	}
	return fn, capt, ""
}

// scalarSyntax returns what the interpreter of the scalar activations needs of a registered function: the type
// information and the declared functions of the package that declares it, its signature and body, and the
// position obligations are reported at. A function literal (held by a package-level variable or produced by a
// closure factory) and a declared top-level function are the same thing to the interpreter - parameters and a
// body; methods, bound-method and other synthetic wrappers and functions without source are not interpreted.
func scalarSyntax(p *Prog, fn *ssa.Function) (info *types.Info, decls helperDecls, ftype *ast.FuncType, body *ast.BlockStmt, at token.Pos, why string) {
	pk := p.PkgOf(fn)
	if pk == nil || pk.TypesInfo == nil {
		return nil, nil, nil, nil, token.NoPos, "the registered function " + fn.Name() + " is not declared in a loaded package of the library"
	}
	decls = helperDecls{}
	for _, f := range pk.Syntax {
		for _, d := range f.Decls {
			if fd, ok := d.(*ast.FuncDecl); ok {
				if obj, ok := pk.TypesInfo.Defs[fd.Name].(*types.Func); ok {
					decls[obj] = fd
				}
			}
		}
	}
	switch s := fn.Syntax().(type) {
	case *ast.FuncLit:
		return pk.TypesInfo, decls, s.Type, s.Body, s.Pos(), ""
	case *ast.FuncDecl:
		if s.Recv != nil || s.Body == nil || fn.Signature.Recv() != nil || s.Type.TypeParams != nil {
			return nil, nil, nil, nil, token.NoPos, "the registered function " + fn.Name() + " is a method, generic or has no body"
		}
		return pk.TypesInfo, decls, s.Type, s.Body, s.Pos(), ""
	}
	return nil, nil, nil, nil, token.NoPos, "the registered function " + fn.Name() + " is neither a function literal nor a declared function with source"
}

// helperDecls maps the functions declared in one package to their syntax.
type helperDecls map[*types.Func]*ast.FuncDecl

// pureHelperCall recognises the call f(a1, ..., an) of a pure straight-line helper: f is a top-level function
// declared in the package under analysis (same types.Info), not variadic or generic, with float parameters and one
// float result, and its body is a list of definitions of fresh locals (x := e, var x = e, const) followed by a
// single `return e`. For such a call it returns e together with the bindings e has to be read under - every
// parameter bound to its argument expression (read under the caller's bindings), every local of f bound to its
// defining expression. The body has no branch, loop, assignment to anything but a fresh local, or statement with an
// effect, and the expressions in it are judged by the tables of the interpreter / the normal form, which hold pure
// operations only; so the call denotes exactly the value of e. Anything else is not a helper (ok = false) and the
// call stays outside the tables.
func pureHelperCall(info *types.Info, decls helperDecls, call *ast.CallExpr, env aenv) (res ast.Expr, renv aenv, ok bool) {
	if info == nil || decls == nil {
		return nil, nil, false
	}
	id, isId := unparen(call.Fun).(*ast.Ident)
	if !isId {
		return nil, nil, false
	}
	fobj, isFn := info.Uses[id].(*types.Func)
	if !isFn {
		return nil, nil, false
	}
	decl := decls[fobj]
	if decl == nil || decl.Recv != nil || decl.Body == nil || decl.Type.TypeParams != nil || len(decl.Body.List) == 0 {
		return nil, nil, false
	}
	sig, isSig := fobj.Type().(*types.Signature)
	if !isSig || sig.Variadic() || sig.Recv() != nil || sig.Results().Len() != 1 || !isFloatType(sig.Results().At(0).Type()) || sig.Params().Len() != len(call.Args) || call.Ellipsis.IsValid() {
		return nil, nil, false
	}
	for i := 0; i < sig.Params().Len(); i++ {
		if !isFloatType(sig.Params().At(i).Type()) {
			return nil, nil, false
		}
	}
	if decl.Type.Results != nil && len(decl.Type.Results.List) == 1 && len(decl.Type.Results.List[0].Names) > 0 {
		return nil, nil, false // a named result is a variable of its own
	}
	renv = aenv{}
	k := 0
	for _, f := range decl.Type.Params.List {
		if len(f.Names) == 0 {
			k++
			continue
		}
		for _, nm := range f.Names {
			if nm.Name != "_" {
				obj := info.Defs[nm]
				if obj == nil {
					return nil, nil, false
				}
				renv = renv.with(obj, &abind{expr: call.Args[k], env: env})
			}
			k++
		}
	}
	if k != len(call.Args) {
		return nil, nil, false
	}
	define := func(id *ast.Ident, rhs ast.Expr, cur, before aenv) (aenv, bool) {
		if id.Name == "_" {
			return cur, true
		}
		obj := info.Defs[id] // nil when := re-assigns an existing variable
		if obj == nil {
			return nil, false
		}
		return cur.with(obj, &abind{expr: rhs, env: before}), true
	}
	last := len(decl.Body.List) - 1
	for _, st := range decl.Body.List[:last] {
		before := renv
		switch x := st.(type) {
		case *ast.AssignStmt:
			if x.Tok != token.DEFINE || len(x.Lhs) != len(x.Rhs) {
				return nil, nil, false
			}
			for j, l := range x.Lhs {
				lid, isId := l.(*ast.Ident)
				if !isId {
					return nil, nil, false
				}
				if renv, ok = define(lid, x.Rhs[j], renv, before); !ok {
					return nil, nil, false
				}
			}
		case *ast.DeclStmt:
			gd, isGd := x.Decl.(*ast.GenDecl)
			if !isGd || (gd.Tok != token.VAR && gd.Tok != token.CONST) {
				return nil, nil, false
			}
			if gd.Tok == token.CONST {
				continue // folded by the type checker
			}
			for _, sp := range gd.Specs {
				vs, isVs := sp.(*ast.ValueSpec)
				if !isVs || len(vs.Values) != len(vs.Names) {
					return nil, nil, false
				}
				for j, nm := range vs.Names {
					if renv, ok = define(nm, vs.Values[j], renv, before); !ok {
						return nil, nil, false
					}
				}
			}
		case *ast.EmptyStmt:
		default:
			return nil, nil, false
		}
	}
	ret, isRet := decl.Body.List[last].(*ast.ReturnStmt)
	if !isRet || len(ret.Results) != 1 {
		return nil, nil, false
	}
	return ret.Results[0], renv, true
}

// c18Leaf is one way a function produces its result idx: a value that is not a phi, the return it reaches, and
// the branch outcomes known when this value (and not another one) is returned - those dominating the return plus,
// for a value merged by phi nodes, those known on the CFG edge over which it enters each phi. Conditions are SSA
// values, so an outcome established on an edge is still a fact about the same value at the return.
type c18Leaf struct {
	Val    ssa.Value
	Ret    *ssa.Return
	Guards []Guard
}

func c18ResultLeaves(fn *ssa.Function, idx int) []c18Leaf {
	var out []c18Leaf
	for _, b := range fn.Blocks {
		ret, ok := b.Instrs[len(b.Instrs)-1].(*ssa.Return)
		if !ok || idx < 0 || idx >= len(ret.Results) {
			continue
		}
		seen := map[*ssa.Phi]bool{}
		var visit func(v ssa.Value, gs []Guard)
		visit = func(v ssa.Value, gs []Guard) {
			if ph, isPhi := v.(*ssa.Phi); isPhi {
				if seen[ph] {
					return // loop-carried: the other edges of the cycle are visited on their own
				}
				seen[ph] = true
				for i, e := range ph.Edges {
					pred := ph.Block().Preds[i]
					visit(e, append(append([]Guard{}, gs...), condsAt(pred, ph.Block())...))
				}
				delete(seen, ph)
				return
			}
			out = append(out, c18Leaf{Val: v, Ret: ret, Guards: gs})
		}
		visit(ret.Results[idx], append([]Guard{}, Guards(b)...))
	}
	return out
}

// c18ImpliedGuards: the branch outcomes that hold whenever guard g holds because of the way the tested value was
// merged. g tests a phi against nil (`err != nil`, `err == nil`): under g the phi can only have taken the edges g
// does not rule out (FeasibleEdges: a nil constant contradicts "non-nil", a fresh fmt.Errorf / errors.New result or
// an allocation contradicts "nil"; any other edge stays possible), so an outcome that is known on EVERY such edge
// (condsAt: the outcomes dominating the predecessor plus its own branch) held when the phi received its value. The
// conditions are SSA values defined before the merge; outside a loop they are not evaluated again, so the outcome is
// still a fact where g is known. Nothing is implied when the phi sits in a loop or no edge remains.
func c18ImpliedGuards(g Guard, loops []*Loop) []Guard {
	c, ok := g.Cond.(*ssa.BinOp)
	if !ok || (c.Op != token.EQL && c.Op != token.NEQ) {
		return nil
	}
	x, y := c.X, c.Y
	if k, isK := x.(*ssa.Const); isK && k.Value == nil {
		x, y = y, x
	}
	if k, isK := y.(*ssa.Const); !isK || k.Value != nil {
		return nil
	}
	ph, ok := x.(*ssa.Phi)
	if !ok || InnermostLoop(loops, ph.Block()) != nil {
		return nil
	}
	if want, kind := guardOn(g, ph); kind != "nil" || want != ((c.Op == token.EQL) == g.True) {
		return nil
	}
	feasible := FeasibleEdges(ph, []Guard{g})
	var common []Guard
	first := true
	for i := range ph.Edges {
		if !feasible[i] {
			continue
		}
		gs := condsAt(ph.Block().Preds[i], ph.Block())
		if first {
			common, first = gs, false
			continue
		}
		var keep []Guard
		for _, a := range common {
			for _, b := range gs {
				if a.Cond == b.Cond && a.True == b.True {
					keep = append(keep, a)
					break
				}
			}
		}
		common = keep
	}
	return common
}

// c18ErrorOnly checks, for a caller that forwards a lookup of the activator
// factory (value, err := factory.lookup(...)):
//
//	value:<caller>  every use of the looked-up value is dominated by the outcome err == nil of a test of that
//	                call's own error result (an unknown type gives an error INSTEAD of a value: the sentinel that
//	                accompanies the error must not reach the node);
//	error:<caller>  no return hands back a literal nil error unless it is dominated by err == nil.
func c18ErrorOnly(p *Prog, r *Run, caller, lookup *ssa.Function) {
	r.Fn(FuncName(caller))
	calls := CallsTo(caller, lookup)
	name := caller.Name()
	if len(calls) == 0 {
		r.Undecided("value:"+name, p.Pos(caller.Pos()), name+" does not call "+lookup.Name()+" (the activation it forwards cannot be located)")
		return
	}
	for _, c := range calls {
		r.CallSites++
		cv, ok := c.(*ssa.Call)
		if !ok {
			r.Undecided("value:"+name, p.Pos(c.Pos()), lookup.Name()+" is called with go/defer")
			continue
		}
		var vals, errs []*ssa.Extract
		for _, ref := range *cv.Referrers() {
			if ex, ok := ref.(*ssa.Extract); ok {
				if ex.Index == 0 {
					vals = append(vals, ex)
				} else {
					errs = append(errs, ex)
				}
			}
		}
		isErr := func(v ssa.Value) bool {
			for _, e := range errs {
				if v == ssa.Value(e) {
					return true
				}
			}
			return false
		}
		isNil := func(v ssa.Value) bool {
			k, ok := v.(*ssa.Const)
			return ok && k.Value == nil
		}
		// the outcome of a branch says err == nil
		saysNil := func(cond ssa.Value, outcome bool) bool {
			b, ok := cond.(*ssa.BinOp)
			if !ok || !((isErr(b.X) && isNil(b.Y)) || (isErr(b.Y) && isNil(b.X))) {
				return false
			}
			return (b.Op == token.EQL && outcome) || (b.Op == token.NEQ && !outcome)
		}
		succeeded := func(b *ssa.BasicBlock) bool {
			for _, g := range Guards(b) {
				if saysNil(g.Cond, g.True) {
					return true
				}
			}
			return false
		}
		edgeSucceeded := func(pred, to *ssa.BasicBlock) bool {
			if succeeded(pred) {
				return true
			}
			if iff, ok := pred.Instrs[len(pred.Instrs)-1].(*ssa.If); ok && pred.Succs[0] != pred.Succs[1] {
				return saysNil(iff.Cond, pred.Succs[0] == to)
			}
			return false
		}
		okV, whyV, uses := true, "", 0
		for _, ex := range vals {
			for _, ref := range *ex.Referrers() {
				if _, ok := ref.(*ssa.DebugRef); ok {
					continue
				}
				uses++
				ub := ref.Block()
				good := succeeded(ub)
				if ph, ok := ref.(*ssa.Phi); ok && !good {
					good = true
					for i, e := range ph.Edges {
						if e == ssa.Value(ex) && !edgeSucceeded(ub.Preds[i], ub) {
							good = false
						}
					}
				}
				if !good {
					okV = false
					whyV = fmt.Sprintf("the value returned by %s is used at %s although the call may have failed (no test err == nil of this call dominates the use): an unknown activation type then yields a value as well as an error", lookup.Name(), p.Pos(ref.Pos()))
				}
			}
		}
		r.Check(okV, "value:"+name, p.Pos(cv.Pos()), fmt.Sprintf("%d use(s) of the looked-up value, all under err == nil", uses), name+": "+whyV)
		okE, whyE := true, ""
		for _, b := range caller.Blocks {
			ret, ok := b.Instrs[len(b.Instrs)-1].(*ssa.Return)
			if !ok || len(ret.Results) == 0 || !cv.Block().Dominates(b) {
				continue
			}
			res := ret.Results[len(ret.Results)-1]
			if _, isIface := res.Type().Underlying().(*types.Interface); !isIface {
				continue
			}
			bad := false
			switch v := res.(type) {
			case *ssa.Const:
				bad = v.Value == nil && !succeeded(b)
			case *ssa.Phi:
				for i, e := range v.Edges {
					if isNil(e) && !edgeSucceeded(v.Block().Preds[i], v.Block()) && !succeeded(b) {
						bad = true
					}
				}
			}
			if bad {
				okE, whyE = false, fmt.Sprintf("the return at %s yields a nil error on a path where %s may have failed", p.Pos(ret.Pos()), lookup.Name())
			}
		}
		r.Check(okE, "error:"+name, p.Pos(cv.Pos()), "the error of the lookup is never replaced by nil", name+": "+whyE)
	}
}

// ---------------------------------------------------------------------------
// Registrations driven by a local table
//
// `tbl := []struct{t; f; n}{{T1, f1, "n1"}, ...}; for _, e := range tbl { af.Register(e.t, e.f, e.n) }` performs the
// calls Register(T1, f1, "n1"), ... - one per element, in index order. The code below establishes exactly that, or
// gives a reason why it cannot:
//
//	c18TableOf        the table is a local array whose memory is written only by stores at constant indices (the
//	                  literal), each (index, field) at most once, outside every loop, and is otherwise only read (its
//	                  address / a slice of it never leaves the function, is not re-sliced, merged or passed on): the
//	                  contents are the stored values for as long as the function runs;
//	c18FullIteration  the loop runs its body once for every index 0..N-1 and for nothing else (counter from 0 or the
//	                  range form from -1, step 1, bound N or len(table), the header test is the only exit, not nested);
//	c18TableCall      the call executes exactly once per iteration and each argument is a constant or a field of the
//	                  element at this iteration's index, read directly or through a local copy of the element that is
//	                  written once, before the read, in the same iteration.

type c18Table struct {
	alloc  *ssa.Alloc
	n      int
	elem   []map[int]ssa.Value // index -> field -> the value stored by the literal
	at     []token.Pos         // index -> position of the element
	writes []ssa.Instruction   // every store into the table's memory
}

type c18Tables struct {
	byAlloc map[*ssa.Alloc]*c18Table
	why     map[*ssa.Alloc]string
	loops   []*Loop
}

func newC18Tables(fn *ssa.Function) *c18Tables {
	return &c18Tables{byAlloc: map[*ssa.Alloc]*c18Table{}, why: map[*ssa.Alloc]string{}, loops: Loops(fn)}
}

func c18Precedes(a, b ssa.Instruction) bool {
	if a.Block() == b.Block() {
		return instrIndex(a) < instrIndex(b)
	}
	return a.Block().Dominates(b.Block())
}

// c18LoadsOnly: every use of the address is a load.
func c18LoadsOnly(addr ssa.Value) bool {
	refs := addr.Referrers()
	if refs == nil {
		return false
	}
	for _, ref := range *refs {
		switch x := ref.(type) {
		case *ssa.DebugRef:
		case *ssa.UnOp:
			if x.Op != token.MUL || x.X != addr {
				return false
			}
		default:
			return false
		}
	}
	return true
}

// c18ReadOnlyElem: the address of an element is only read: loaded as a whole or field by field.
func c18ReadOnlyElem(ia *ssa.IndexAddr) bool {
	for _, ref := range *ia.Referrers() {
		switch x := ref.(type) {
		case *ssa.DebugRef:
		case *ssa.UnOp:
			if x.Op != token.MUL || x.X != ssa.Value(ia) {
				return false
			}
		case *ssa.FieldAddr:
			if x.X != ssa.Value(ia) || !c18LoadsOnly(x) {
				return false
			}
		default:
			return false
		}
	}
	return true
}

// c18LiteralFields reads the value `*tmp` of a struct literal built in a temporary: tmp is a local whose fields are
// stored (each at most once) in the block of the load and before it, and which is used for nothing else.
func c18LiteralFields(val ssa.Value) (map[int]ssa.Value, bool) {
	ld, ok := val.(*ssa.UnOp)
	if !ok || ld.Op != token.MUL {
		return nil, false
	}
	tmp, ok := ld.X.(*ssa.Alloc)
	if !ok || tmp.Referrers() == nil {
		return nil, false
	}
	out := map[int]ssa.Value{}
	for _, ref := range *tmp.Referrers() {
		switch x := ref.(type) {
		case *ssa.DebugRef:
		case *ssa.UnOp:
			if x != ld {
				return nil, false
			}
		case *ssa.FieldAddr:
			if x.X != ssa.Value(tmp) || x.Referrers() == nil {
				return nil, false
			}
			for _, r2 := range *x.Referrers() {
				if _, isDbg := r2.(*ssa.DebugRef); isDbg {
					continue
				}
				st, isSt := r2.(*ssa.Store)
				if !isSt || st.Addr != ssa.Value(x) || st.Block() != ld.Block() || !c18Precedes(st, ld) {
					return nil, false
				}
				if _, dup := out[x.Field]; dup {
					return nil, false
				}
				out[x.Field] = st.Val
			}
		default:
			return nil, false
		}
	}
	return out, true
}

func (ts *c18Tables) inLoop(b *ssa.BasicBlock) bool { return InnermostLoop(ts.loops, b) != nil }

// ofAlloc analyses a local array once.
func (ts *c18Tables) ofAlloc(a *ssa.Alloc) (*c18Table, string) {
	if t, ok := ts.byAlloc[a]; ok {
		return t, ts.why[a]
	}
	t, why := ts.analyse(a)
	ts.byAlloc[a], ts.why[a] = t, why
	return t, why
}

func (ts *c18Tables) analyse(a *ssa.Alloc) (*c18Table, string) {
	pt, ok := a.Type().Underlying().(*types.Pointer)
	if !ok {
		return nil, "not a local array"
	}
	arr, ok := pt.Elem().Underlying().(*types.Array)
	if !ok {
		return nil, "not a local array"
	}
	if _, ok := arr.Elem().Underlying().(*types.Struct); !ok {
		return nil, "the elements of the table are not structs"
	}
	if a.Referrers() == nil || arr.Len() > 1<<16 {
		return nil, "not a local array"
	}
	t := &c18Table{alloc: a, n: int(arr.Len())}
	t.elem = make([]map[int]ssa.Value, t.n)
	t.at = make([]token.Pos, t.n)
	put := func(idx ssa.Value, field int, v ssa.Value, st *ssa.Store) string {
		k, isK := constInt(idx)
		if !isK || k < 0 || int(k) >= t.n {
			return "the table is written at an index that is not a constant"
		}
		if ts.inLoop(st.Block()) {
			return "the table is written inside a loop"
		}
		if t.elem[k] == nil {
			t.elem[k] = map[int]ssa.Value{}
		}
		if _, dup := t.elem[k][field]; dup {
			return fmt.Sprintf("element %d of the table is written more than once", k)
		}
		t.elem[k][field] = v
		if !t.at[k].IsValid() {
			t.at[k] = st.Pos()
		}
		return ""
	}
	nFields := arr.Elem().Underlying().(*types.Struct).NumFields()
	for _, ref := range *a.Referrers() {
		switch x := ref.(type) {
		case *ssa.DebugRef:
		case *ssa.UnOp: // the array value (a snapshot, judged where it is used)
			if x.Op != token.MUL || x.X != ssa.Value(a) {
				return nil, "the table's address is used in an unexpected way"
			}
		case *ssa.Slice:
			if x.X != ssa.Value(a) || x.Max != nil {
				return nil, "the table is re-sliced"
			}
			if x.Low != nil {
				if k, isK := constInt(x.Low); !isK || k != 0 {
					return nil, "the table is re-sliced"
				}
			}
			if x.High != nil {
				if k, isK := constInt(x.High); !isK || int(k) != t.n {
					return nil, "the table is re-sliced"
				}
			}
			if x.Referrers() == nil {
				return nil, "the table's slice is used in an unexpected way"
			}
			for _, r2 := range *x.Referrers() {
				switch y := r2.(type) {
				case *ssa.DebugRef:
				case *ssa.Call:
					bi, isB := y.Call.Value.(*ssa.Builtin)
					if !isB || (bi.Name() != "len" && bi.Name() != "cap") {
						return nil, "the table is passed to a call"
					}
				case *ssa.IndexAddr:
					if y.X != ssa.Value(x) || !c18ReadOnlyElem(y) {
						return nil, "an element of the table is written or its address taken after the literal"
					}
				default:
					return nil, "the table's slice is stored, merged, re-sliced or passed on"
				}
			}
		case *ssa.IndexAddr:
			if x.X != ssa.Value(a) || x.Referrers() == nil {
				return nil, "the table's address is used in an unexpected way"
			}
			if c18ReadOnlyElem(x) {
				continue
			}
			for _, r2 := range *x.Referrers() {
				switch y := r2.(type) {
				case *ssa.DebugRef:
				case *ssa.Store:
					if y.Addr != ssa.Value(x) {
						return nil, "the address of a table element is stored"
					}
					fields, isLit := c18LiteralFields(y.Val)
					if !isLit {
						return nil, "a table element is written with something other than a struct literal"
					}
					for f := 0; f < nFields; f++ {
						v, has := fields[f]
						if !has {
							continue // zero value: the field stays unknown to the rule
						}
						if why := put(x.Index, f, v, y); why != "" {
							return nil, why
						}
					}
					t.writes = append(t.writes, y)
				case *ssa.FieldAddr: // the literal written in place
					if y.X != ssa.Value(x) || y.Referrers() == nil {
						return nil, "the address of a table element is used in an unexpected way"
					}
					for _, r3 := range *y.Referrers() {
						if _, isDbg := r3.(*ssa.DebugRef); isDbg {
							continue
						}
						st, isSt := r3.(*ssa.Store)
						if !isSt || st.Addr != ssa.Value(y) {
							return nil, "a field of a table element is read and written through the same address"
						}
						if why := put(x.Index, y.Field, st.Val, st); why != "" {
							return nil, why
						}
						t.writes = append(t.writes, st)
					}
				default:
					return nil, "the address of a table element is used in an unexpected way"
				}
			}
		default:
			return nil, "the table's address is stored or passed on"
		}
	}
	return t, ""
}

// of resolves a value that is indexed (slice of the local array, the array's address, or a snapshot of the array value).
func (ts *c18Tables) of(v ssa.Value) (*c18Table, string) {
	switch x := v.(type) {
	case *ssa.Slice:
		if a, ok := x.X.(*ssa.Alloc); ok {
			return ts.ofAlloc(a)
		}
	case *ssa.Alloc:
		return ts.ofAlloc(x)
	case *ssa.UnOp:
		if a, ok := x.X.(*ssa.Alloc); ok && x.Op == token.MUL {
			t, why := ts.ofAlloc(a)
			if t == nil {
				return nil, why
			}
			for _, w := range t.writes {
				if !c18Precedes(w, x) {
					return nil, "the table is copied before it is completely written"
				}
			}
			return t, ""
		}
	}
	return nil, "the registration's arguments do not come from a local table (array or slice literal)"
}

// c18FullIteration: the body of l runs once with idx = 0, 1, ..., t.n-1, in this order, and l is left only by the
// header test failing at idx = t.n. The table is completely written before the loop starts.
func (ts *c18Tables) fullIteration(l *Loop, t *c18Table) (idx ssa.Value, why string) {
	h := l.Header
	iff, ok := h.Instrs[len(h.Instrs)-1].(*ssa.If)
	if !ok || len(h.Succs) != 2 || !l.Blocks[h.Succs[0]] || l.Blocks[h.Succs[1]] {
		return nil, "the loop is not controlled by a test in its header"
	}
	cond, ok := iff.Cond.(*ssa.BinOp)
	if !ok {
		return nil, "the loop test is not a comparison"
	}
	var x, y ssa.Value
	switch cond.Op {
	case token.LSS:
		x, y = cond.X, cond.Y
	case token.GTR:
		x, y = cond.Y, cond.X
	default:
		return nil, "the loop test is not counter < length"
	}
	// bound
	okB := false
	if k, isK := constInt(y); isK {
		if _, isC := y.(*ssa.Const); isC && int(k) == t.n && isIntType(y.Type()) {
			okB = true
		}
	} else if c, isCall := y.(*ssa.Call); isCall {
		if bi, isB := c.Call.Value.(*ssa.Builtin); isB && bi.Name() == "len" && len(c.Call.Args) == 1 {
			if sl, isSl := c.Call.Args[0].(*ssa.Slice); isSl {
				if t2, _ := ts.of(sl); t2 == t {
					okB = true // len(table[:]) == N at any time: the slice value is never changed
				}
			}
		}
	}
	if !okB {
		return nil, "the loop bound is not the length of the table"
	}
	// counter
	isOne := func(v ssa.Value) bool {
		_, isC := v.(*ssa.Const)
		k, isK := constInt(v)
		return isC && isK && k == 1 && isIntType(v.Type())
	}
	stepOf := func(v ssa.Value) (*ssa.Phi, bool) { // v == phi + 1
		add, ok := v.(*ssa.BinOp)
		if !ok || add.Op != token.ADD {
			return nil, false
		}
		if ph, ok := add.X.(*ssa.Phi); ok && isOne(add.Y) {
			return ph, true
		}
		if ph, ok := add.Y.(*ssa.Phi); ok && isOne(add.X) {
			return ph, true
		}
		return nil, false
	}
	counter := func(ph *ssa.Phi, start int64, next func(e ssa.Value) bool) bool {
		if ph.Block() != h || !isIntType(ph.Type()) {
			return false
		}
		for i, e := range ph.Edges {
			if l.Blocks[h.Preds[i]] {
				if !next(e) {
					return false
				}
			} else {
				_, isC := e.(*ssa.Const)
				k, isK := constInt(e)
				if !isC || !isK || k != start {
					return false
				}
			}
		}
		return true
	}
	if ph, ok := stepOf(x); ok && x.(*ssa.BinOp).Block() == h {
		// range form: i = phi{-1, i} + 1, tested and used as i
		if !counter(ph, -1, func(e ssa.Value) bool { return e == x }) {
			return nil, "the loop counter does not run from 0 in steps of 1"
		}
		idx = x
	} else if ph, ok := x.(*ssa.Phi); ok {
		if !counter(ph, 0, func(e ssa.Value) bool { p2, ok := stepOf(e); return ok && p2 == ph }) {
			return nil, "the loop counter does not run from 0 in steps of 1"
		}
		idx = ph
	} else {
		return nil, "the loop test is not counter < length"
	}
	for b := range l.Blocks {
		for _, s := range b.Succs {
			if !l.Blocks[s] && b != h {
				return nil, "the loop over the table can be left before the last element"
			}
		}
	}
	for _, l2 := range ts.loops {
		if l2 != l && l2.Blocks[h] {
			return nil, "the loop over the table is nested in another loop"
		}
	}
	for _, w := range t.writes {
		if !w.Block().Dominates(h) || l.Blocks[w.Block()] {
			return nil, "the table is not completely written before the loop starts"
		}
	}
	return idx, ""
}

func isIntType(t types.Type) bool {
	b, ok := t.Underlying().(*types.Basic)
	return ok && b.Info()&types.IsInteger != 0
}

// c18ElemRef: a value that is field `field` of element `idx` of a table.
type c18ElemRef struct {
	tbl   *c18Table
	idx   ssa.Value
	field int
}

// elemValue: v is the whole element tbl[idx].
func (ts *c18Tables) elemValue(v ssa.Value) (*c18Table, ssa.Value, string) {
	switch x := v.(type) {
	case *ssa.UnOp:
		if ia, ok := x.X.(*ssa.IndexAddr); ok && x.Op == token.MUL {
			t, why := ts.of(ia.X)
			return t, ia.Index, why
		}
	case *ssa.Index:
		t, why := ts.of(x.X)
		return t, x.Index, why
	}
	return nil, nil, "the registration's arguments do not come from a local table (array or slice literal)"
}

// elemField resolves an argument of a call in loop l.
func (ts *c18Tables) elemField(v ssa.Value, l *Loop) (c18ElemRef, string) {
	none := "the registration's arguments do not come from a local table (array or slice literal)"
	switch x := v.(type) {
	case *ssa.Field:
		t, idx, why := ts.elemValue(x.X)
		if t == nil {
			return c18ElemRef{}, why
		}
		return c18ElemRef{t, idx, x.Field}, ""
	case *ssa.UnOp:
		fa, ok := x.X.(*ssa.FieldAddr)
		if !ok || x.Op != token.MUL {
			return c18ElemRef{}, none
		}
		switch base := fa.X.(type) {
		case *ssa.IndexAddr:
			t, why := ts.of(base.X)
			if t == nil {
				return c18ElemRef{}, why
			}
			return c18ElemRef{t, base.Index, fa.Field}, ""
		case *ssa.Alloc:
			// a local copy of the element (`for _, e := range tbl`, `e := tbl[i]`): written once, by a copy of the
			// element made in this loop, before the read; otherwise only read field by field
			if base.Referrers() == nil {
				return c18ElemRef{}, none
			}
			var copies []*ssa.Store
			for _, ref := range *base.Referrers() {
				switch y := ref.(type) {
				case *ssa.DebugRef:
				case *ssa.Store:
					if y.Addr != ssa.Value(base) {
						return c18ElemRef{}, "the address of the element copy is stored"
					}
					copies = append(copies, y)
				case *ssa.FieldAddr:
					if y.X != ssa.Value(base) || !c18LoadsOnly(y) {
						return c18ElemRef{}, "the element copy is modified or its address taken"
					}
				default:
					return c18ElemRef{}, "the element copy is used as a whole or its address taken"
				}
			}
			if len(copies) != 1 {
				return c18ElemRef{}, fmt.Sprintf("the element copy is assigned %d times", len(copies))
			}
			st := copies[0]
			if !l.Blocks[st.Block()] || InnermostLoop(ts.loops, st.Block()) != l || !c18Precedes(st, x) {
				return c18ElemRef{}, "the element copy is not made in the iteration that reads it"
			}
			t, idx, why := ts.elemValue(st.Val)
			if t == nil {
				return c18ElemRef{}, why
			}
			return c18ElemRef{t, idx, fa.Field}, ""
		}
	}
	return c18ElemRef{}, none
}

// c18TableCall expands a call made in a loop over a local table into the argument lists of the calls it performs:
// one per element of the table; args[k] of call j is the constant argument k or the field of element j it reads.
func (ts *c18Tables) tableCall(fn *ssa.Function, c ssa.CallInstruction, args []ssa.Value) (calls [][]ssa.Value, at []token.Pos, why string) {
	cb := c.Block()
	l := InnermostLoop(ts.loops, cb)
	if l == nil {
		return nil, nil, "an argument is not a constant and the call is not made in a loop over a table"
	}
	for _, lt := range l.Latch {
		if lt != cb && !cb.Dominates(lt) {
			return nil, nil, "the call is not made in every iteration of the loop"
		}
	}
	for _, b := range fn.Blocks {
		if _, isRet := b.Instrs[len(b.Instrs)-1].(*ssa.Return); isRet && !l.Header.Dominates(b) {
			return nil, nil, "the loop over the table is not on every path to the function's return"
		}
	}
	var tbl *c18Table
	var idx ssa.Value
	refs := make([]*c18ElemRef, len(args))
	for k, a := range args {
		if _, isC := a.(*ssa.Const); isC {
			continue
		}
		ref, why := ts.elemField(a, l)
		if ref.tbl == nil {
			return nil, nil, why
		}
		if tbl == nil {
			tbl, idx = ref.tbl, ref.idx
		} else if tbl != ref.tbl || idx != ref.idx {
			return nil, nil, "the arguments are taken from different tables or elements"
		}
		r := ref
		refs[k] = &r
	}
	if tbl == nil {
		return nil, nil, "no argument is taken from a table"
	}
	it, why := ts.fullIteration(l, tbl)
	if it == nil {
		return nil, nil, why
	}
	if it != idx {
		return nil, nil, "the element read is not the one at the loop's counter"
	}
	for j := 0; j < tbl.n; j++ {
		row := make([]ssa.Value, len(args))
		for k, a := range args {
			if refs[k] == nil {
				row[k] = a
				continue
			}
			v, has := tbl.elem[j][refs[k].field]
			if !has {
				return nil, nil, fmt.Sprintf("element %d of the table does not set the field passed as argument %d", j, k+1)
			}
			row[k] = v
		}
		calls = append(calls, row)
		at = append(at, tbl.at[j])
	}
	return calls, at, ""
}

// ---------------------------------------------------------------------------
// Module folds run by a helper
//
// A module activator either runs its accumulate loop itself or hands its inputs to ONE function of the library that
// runs it (`return []float64{fold(inputs, start, op)}`). The fold rule (C18.3) states facts about the loop - what the
// accumulator starts from, what one iteration does with it and an input, that all inputs are visited, that the
// accumulator is the result. c18FoldOf locates the loop in either place and answers those questions in terms of the
// ACTIVATOR's own values: a parameter of the host function stands for the argument the activator passes for it, and a
// call through a function-valued parameter stands for the operation of the function passed (math.Max / math.Min, or a
// literal / declared function of the library whose body is one `return a*b`, `return math.Max(a, b)` ... of its two
// parameters). Nothing is assumed about the helper's name or signature.

type c18Fold struct {
	act   *ssa.Function // the registered module activator
	actTm *Termer
	host  *ssa.Function // the function that contains the loop (act itself, or the function act calls)
	tm    *Termer       // of host
	call  *ssa.Call     // act's call of host (nil when host == act)
	loop  *Loop
	acc   *ssa.Phi
	capt  *c18Capture // what act's captured variables hold (an activator made by a closure factory), or nil
}

// actValue: a value of the activator as the rules should read it: the load of a captured variable whose content is
// known (c18FactoryClosure) is the value the factory's caller supplied - returned with the Termer of that caller;
// anything else is itself, read with the activator's Termer.
func (fd *c18Fold) actValue(a ssa.Value) (ssa.Value, *Termer) {
	if fd.capt != nil {
		if ld, ok := a.(*ssa.UnOp); ok && ld.Op == token.MUL {
			if fv, ok := ld.X.(*ssa.FreeVar); ok && fv.Parent() == fd.act {
				if v, known := fd.capt.vals[fv]; known {
					return v, fd.capt.termer()
				}
			}
		}
	}
	return a, fd.actTm
}

// c18FoldOf: the one loop of the activator, or the one loop of the one library function whose result the activator
// stores into a slice element.
func c18FoldOf(fn *ssa.Function, capt *c18Capture) (*c18Fold, string) {
	const none = "expected one loop over the inputs"
	fd := &c18Fold{act: fn, actTm: NewTermer(fn), host: fn, capt: capt}
	loops := Loops(fn)
	switch {
	case len(loops) == 1:
		fd.tm = fd.actTm
	case len(loops) == 0:
		var calls []*ssa.Call
		seen := map[*ssa.Call]bool{}
		Instrs(fn, func(_ *ssa.BasicBlock, _ int, in ssa.Instruction) {
			st, ok := in.(*ssa.Store)
			if !ok {
				return
			}
			if _, ok := st.Addr.(*ssa.IndexAddr); !ok {
				return
			}
			c, ok := st.Val.(*ssa.Call)
			if !ok || seen[c] {
				return
			}
			h := c.Call.StaticCallee()
			if h == nil || !InRepo(h) || len(h.Blocks) == 0 || c.Call.IsInvoke() || h.Signature.Results().Len() != 1 || len(c.Call.Args) != len(h.Params) {
				return
			}
			if len(Loops(h)) != 1 {
				return
			}
			seen[c] = true
			calls = append(calls, c)
		})
		if len(calls) != 1 {
			return nil, none
		}
		fd.call, fd.host = calls[0], calls[0].Call.StaticCallee()
		fd.tm = NewTermer(fd.host)
		loops = Loops(fd.host)
	default:
		return nil, none
	}
	fd.loop = loops[0]
	for _, ph := range HeaderPhis(fd.loop) {
		if isFloatType(ph.Type()) {
			fd.acc = ph
		}
	}
	return fd, ""
}

// arg: the activator's value a host parameter stands for (nil when v is not a parameter of a called host).
func (fd *c18Fold) arg(v ssa.Value) ssa.Value {
	if fd.call == nil {
		return nil
	}
	if ct, ok := v.(*ssa.ChangeType); ok {
		v = ct.X
	}
	pa, ok := v.(*ssa.Parameter)
	if !ok {
		return nil
	}
	for i, q := range fd.host.Params {
		if q == pa {
			return fd.call.Call.Args[i]
		}
	}
	return nil
}

// inputsIdx: the indices of the host's parameters that hold the activator's input vector (its first parameter,
// handed on unchanged); {0} when the activator runs the loop itself.
func (fd *c18Fold) inputsIdx() []int {
	if fd.call == nil {
		return []int{0}
	}
	var out []int
	if len(fd.act.Params) == 0 {
		return nil
	}
	for i, a := range fd.call.Call.Args {
		if a == ssa.Value(fd.act.Params[0]) && i < len(fd.host.Params) {
			out = append(out, i)
		}
	}
	return out
}

// isInput: v (a value of host) is an element of the input vector, by its origin term.
func (fd *c18Fold) isInput(v ssa.Value) bool {
	t := fd.tm.Of(v)
	if t.Op != "elem" {
		return false
	}
	for _, k := range fd.inputsIdx() {
		if isParamIdx(t.Args[0], k) {
			return true
		}
	}
	return false
}

// edges: the value the accumulator starts from and the value it takes after one iteration.
func (fd *c18Fold) edges() (init, upd ssa.Value) {
	for i, e := range fd.acc.Edges {
		if fd.loop.Blocks[fd.acc.Block().Preds[i]] {
			upd = e
		} else {
			init = e
		}
	}
	return
}

// initTerm: the start value as a term of the activator where the host receives it as a parameter; inputsElem says
// that it is an element of the input vector.
func (fd *c18Fold) initTerm() (t *Term, inputsElem bool) {
	init, _ := fd.edges()
	if init == nil {
		return nil, false
	}
	if a := fd.arg(init); a != nil {
		// an argument is a value of the activator: an element of ITS inputs there
		v, tm := fd.actValue(a)
		t = tm.Of(v)
		return t, tm == fd.actTm && t.Op == "elem" && isParamIdx(t.Args[0], 0)
	}
	if fd.call == nil {
		if v, tm := fd.actValue(init); tm != fd.actTm {
			return tm.Of(v), false // a captured start value: a value of the factory's caller, not an input
		}
	}
	return fd.tm.Of(init), fd.isInput(init)
}

// c18BinaryOp names the operation a two-argument function performs: "math.Max" / "math.Min" for these functions of
// the standard library; for a function with a body that is one block returning x*y, math.Max(x, y) or math.Min(x, y)
// of its two (distinct) parameters in either order: "*", "math.Max", "math.Min". All three are commutative, so the
// order in which the parameters appear does not matter. "" otherwise.
func c18BinaryOp(v ssa.Value) string {
	if ct, ok := v.(*ssa.ChangeType); ok {
		v = ct.X
	}
	if mc, ok := v.(*ssa.MakeClosure); ok {
		if len(mc.Bindings) != 0 {
			return ""
		}
		v = mc.Fn
	}
	f, ok := v.(*ssa.Function)
	if !ok || f.Signature.Recv() != nil {
		return ""
	}
	if n := c18MathMaxMin(f); n != "" {
		return n
	}
	if len(f.Blocks) != 1 || len(f.Params) != 2 || len(f.FreeVars) != 0 {
		return ""
	}
	ret, ok := f.Blocks[0].Instrs[len(f.Blocks[0].Instrs)-1].(*ssa.Return)
	if !ok || len(ret.Results) != 1 {
		return ""
	}
	both := func(a, b ssa.Value) bool {
		p, q := ssa.Value(f.Params[0]), ssa.Value(f.Params[1])
		return (a == p && b == q) || (a == q && b == p)
	}
	switch x := ret.Results[0].(type) {
	case *ssa.BinOp:
		if x.Op == token.MUL && both(x.X, x.Y) && isFloatType(x.Type()) {
			return "*"
		}
	case *ssa.Call:
		if g := x.Call.StaticCallee(); g != nil && !x.Call.IsInvoke() && len(x.Call.Args) == 2 && both(x.Call.Args[0], x.Call.Args[1]) {
			return c18MathMaxMin(g)
		}
	}
	return ""
}

func c18MathMaxMin(f *ssa.Function) string {
	if f == nil || f.Pkg == nil || f.Pkg.Pkg.Path() != "math" || f.Signature.Recv() != nil {
		return ""
	}
	switch f.Name() {
	case "Max", "Min":
		return "math." + f.Name()
	}
	return ""
}

// update: the operation of one iteration and its two operands (values of host): acc*x is ("*", acc, x);
// math.Max(acc, x) - called directly or through a function-valued parameter of the host for which the activator
// passes math.Max or an equivalent function - is ("math.Max", acc, x). desc describes what was found.
func (fd *c18Fold) update() (op string, x, y ssa.Value, desc string) {
	_, upd := fd.edges()
	if upd == nil {
		return "", nil, nil, "?"
	}
	desc = fd.tm.Of(upd).String()
	switch u := upd.(type) {
	case *ssa.BinOp:
		if u.Op == token.MUL {
			return "*", u.X, u.Y, desc
		}
	case *ssa.Call:
		if u.Call.IsInvoke() || len(u.Call.Args) != 2 {
			return "", nil, nil, desc
		}
		if g := u.Call.StaticCallee(); g != nil {
			n := c18MathMaxMin(g)
			if n == "" {
				n = c18BinaryOp(u.Call.Value)
			}
			if n != "" {
				return n, u.Call.Args[0], u.Call.Args[1], desc
			}
			return "", nil, nil, desc
		}
		// the function called is a value of the activator: the argument it passes for a parameter of the host, or
		// (the loop being its own) the value called; either may be a captured variable of known content
		a := fd.arg(u.Call.Value)
		if a == nil && fd.call == nil {
			a = u.Call.Value
		}
		if a != nil {
			v, tm := fd.actValue(a)
			n := c18BinaryOp(v)
			desc += " with the operation " + tm.Of(v).String()
			if n != "" {
				return n, u.Call.Args[0], u.Call.Args[1], desc + " = " + n
			}
		}
	}
	return "", nil, nil, desc
}

// updates: the iteration computes op(acc, input) (either operand order; the operations are commutative).
func (fd *c18Fold) updates(want string) (bool, string) {
	op, x, y, desc := fd.update()
	ok := op == want && ((x == ssa.Value(fd.acc) && fd.isInput(y)) || (y == ssa.Value(fd.acc) && fd.isInput(x)))
	return ok, desc
}

// allInputs: the loop's counter runs up to the length of the input vector.
func (fd *c18Fold) allInputs() bool {
	for _, k := range fd.inputsIdx() {
		ln := fmt.Sprintf("len(p%d)", k)
		if b, _, ok := loopCounterFrom(fd.loop, fd.tm); ok && b.String() == ln {
			return true
		}
		// range loops use phi{-1,i}+1 < len
		for bl := range fd.loop.Blocks {
			if iff, ok := bl.Instrs[len(bl.Instrs)-1].(*ssa.If); ok {
				if strings.HasSuffix(fd.tm.Of(iff.Cond).String(), "<"+ln+")") {
					return true
				}
			}
		}
	}
	return false
}

// result: the accumulator is what the activator hands back: it is stored into a slice element (`[]float64{acc}`);
// with a host, every return of the host yields the accumulator and the activator stores the call's value.
func (fd *c18Fold) result() bool {
	stored := func(fn *ssa.Function, v ssa.Value) bool {
		found := false
		Instrs(fn, func(_ *ssa.BasicBlock, _ int, in ssa.Instruction) {
			if st, ok := in.(*ssa.Store); ok && st.Val == v {
				if _, ok := st.Addr.(*ssa.IndexAddr); ok {
					found = true
				}
			}
		})
		return found
	}
	if fd.call == nil {
		return stored(fd.act, fd.acc)
	}
	n := 0
	for _, b := range fd.host.Blocks {
		if ret, ok := b.Instrs[len(b.Instrs)-1].(*ssa.Return); ok {
			if len(ret.Results) != 1 || ret.Results[0] != ssa.Value(fd.acc) {
				return false
			}
			n++
		}
	}
	return n > 0 && stored(fd.act, fd.call)
}

// ---------------------------------------------------------------------------
// Scalar activations that hand their input to a branching helper
//
// pureHelperCall unfolds straight-line helpers inside expressions. A registered function whose whole body is
// `[definitions of fresh locals;] return h(a1, ..., an)` with h a declared function of the package that branches
// (an if / else-if ladder, a switch, early returns) computes exactly what h's body computes with every parameter of
// h holding the value of its argument. c18ScalarBody replaces such a function by h's body, read under bindings that
// give each parameter of h its argument expression (itself read under the caller's bindings - so a parameter that
// receives the input IS the input for the interpreter, and one that receives a constant is that constant). The
// interpreter and the normal form then judge h's branches and results like the activation's own; nothing of what they
// prove changes. Preconditions (otherwise the function is left as it is and the call stays outside the tables):
// h is a plain top-level function of the same package with float parameters and one unnamed float result, not
// variadic / generic, not already being unfolded (recursion); every argument is an expression of the interpreter's
// tables (pure, so evaluating it where the parameter is read instead of at the call makes no difference).
func c18ScalarBody(info *types.Info, decls helperDecls, ftype *ast.FuncType, body *ast.BlockStmt, bind aenv) (*ast.BlockStmt, aenv) {
	if info == nil || decls == nil || ftype == nil || body == nil || ftype.Params == nil || len(ftype.Params.List) == 0 {
		return body, bind
	}
	var input types.Object
	if first := ftype.Params.List[0]; len(first.Names) > 0 && first.Names[0].Name != "_" {
		input = info.Defs[first.Names[0]]
	}
	if input == nil {
		return body, bind
	}
	busy := map[*ast.FuncDecl]bool{}
	for depth := 0; depth < 8; depth++ {
		nb, ne, ok := c18TailCall(info, decls, input, body, bind, busy)
		if !ok {
			break
		}
		body, bind = nb, ne
	}
	return body, bind
}

func c18TailCall(info *types.Info, decls helperDecls, input types.Object, body *ast.BlockStmt, bind aenv, busy map[*ast.FuncDecl]bool) (*ast.BlockStmt, aenv, bool) {
	if len(body.List) == 0 {
		return nil, nil, false
	}
	last := len(body.List) - 1
	ret, ok := body.List[last].(*ast.ReturnStmt)
	if !ok || len(ret.Results) != 1 {
		return nil, nil, false
	}
	call, ok := unparen(ret.Results[0]).(*ast.CallExpr)
	if !ok || call.Ellipsis.IsValid() {
		return nil, nil, false
	}
	id, ok := unparen(call.Fun).(*ast.Ident)
	if !ok {
		return nil, nil, false
	}
	fobj, ok := info.Uses[id].(*types.Func)
	if !ok {
		return nil, nil, false
	}
	decl := decls[fobj]
	if decl == nil || decl.Recv != nil || decl.Body == nil || decl.Type.TypeParams != nil || busy[decl] {
		return nil, nil, false
	}
	sig, ok := fobj.Type().(*types.Signature)
	if !ok || sig.Variadic() || sig.Recv() != nil || sig.Results().Len() != 1 || !isFloatType(sig.Results().At(0).Type()) || sig.Params().Len() != len(call.Args) {
		return nil, nil, false
	}
	for i := 0; i < sig.Params().Len(); i++ {
		if !isFloatType(sig.Params().At(i).Type()) {
			return nil, nil, false
		}
	}
	if decl.Type.Results != nil && len(decl.Type.Results.List) == 1 && len(decl.Type.Results.List[0].Names) > 0 {
		return nil, nil, false // a named result is a variable of its own
	}
	// the caller's statements before the return: definitions of fresh locals only
	ai := &absInterp{info: info, input: input, body: body, decls: decls}
	if bind == nil {
		bind = aenv{}
	}
	st := []astate{{apiece{lo: -1e300, hi: 1e300}, bind}}
	for _, s := range body.List[:last] {
		switch x := s.(type) {
		case *ast.AssignStmt:
			if x.Tok != token.DEFINE {
				return nil, nil, false
			}
			for _, l := range x.Lhs {
				lid, isId := l.(*ast.Ident)
				if !isId || (lid.Name != "_" && info.Defs[lid] == nil) {
					return nil, nil, false
				}
			}
		case *ast.DeclStmt, *ast.EmptyStmt:
		default:
			return nil, nil, false
		}
		var out []aresult
		next, bad := ai.step(s, st[0], &out)
		if bad != "" || len(next) != 1 || len(out) != 0 {
			return nil, nil, false
		}
		st = next
	}
	env := st[0].env
	// arguments: expressions of the tables
	for _, a := range call.Args {
		if v := ai.eval(a, st[0].p, env); v.bad != "" {
			return nil, nil, false
		}
	}
	renv := aenv{}
	k := 0
	for _, f := range decl.Type.Params.List {
		if len(f.Names) == 0 {
			k++
			continue
		}
		for _, nm := range f.Names {
			if nm.Name != "_" {
				obj := info.Defs[nm]
				if obj == nil {
					return nil, nil, false
				}
				renv = renv.with(obj, &abind{expr: call.Args[k], env: env})
			}
			k++
		}
	}
	if k != len(call.Args) {
		return nil, nil, false
	}
	busy[decl] = true
	return decl.Body, renv, true
}
