package nc

import (
	"fmt"
	"go/ast"
	"go/constant"
	"go/token"
	"go/types"

	"golang.org/x/tools/go/ssa"
)

// Helpers of C18 that do not depend on the shape of the library's source.

// resolveActivation finds the function a registration call passes as its third
// argument. Accepted: a function, or the load of a package-level variable that
// is stored exactly once in the package initialiser, with
//   - a function literal, or
//   - (scalar activations only) the result of a call f(c1, ..., cn) with
//     constant arguments, where f is a function of the library whose body is a
//     single `return func(...) {...}`: the literal is returned together with the
//     constants its captured parameters hold.
//
// Anything else is reported with a reason; it never panics (a registration that
// cannot be resolved is an undecided obligation of C18.1).
func resolveActivation(p *Prog, fv ssa.Value, module bool) (fn *ssa.Function, bind aenv, why string) {
	if ct, ok := fv.(*ssa.ChangeType); ok {
		fv = ct.X
	}
	if f, ok := fv.(*ssa.Function); ok {
		return f, nil, ""
	}
	u, ok := fv.(*ssa.UnOp)
	if !ok || u.Op != token.MUL {
		return nil, nil, "the function argument is neither a function nor a package-level variable"
	}
	g, ok := u.X.(*ssa.Global)
	if !ok {
		return nil, nil, "the function argument is neither a function nor a package-level variable"
	}
	sp := g.Pkg
	if sp == nil || sp.Func("init") == nil {
		return nil, nil, "no package initialiser for " + g.Name()
	}
	var stored []ssa.Value
	Instrs(sp.Func("init"), func(_ *ssa.BasicBlock, _ int, in ssa.Instruction) {
		if st, ok := in.(*ssa.Store); ok && st.Addr == ssa.Value(g) {
			stored = append(stored, st.Val)
		}
	})
	if len(stored) != 1 {
		return nil, nil, fmt.Sprintf("the variable %s is stored %d times in the package initialiser", g.Name(), len(stored))
	}
	switch v := stored[0].(type) {
	case *ssa.Function:
		return v, nil, ""
	case *ssa.MakeClosure:
		if len(v.Bindings) == 0 {
			return v.Fn.(*ssa.Function), nil, ""
		}
		return nil, nil, "the variable " + g.Name() + " holds a closure with captured variables"
	case *ssa.Call:
		if module {
			return nil, nil, "the module activator " + g.Name() + " is produced by a call; the fold rule needs the function literal itself"
		}
		callee := v.Call.StaticCallee()
		if callee == nil || !InRepo(callee) || v.Call.IsInvoke() || callee.Signature.Recv() != nil {
			return nil, nil, "the variable " + g.Name() + " is initialised by a call that is not a static call of a library function"
		}
		decl, ok := callee.Syntax().(*ast.FuncDecl)
		if !ok || decl.Body == nil || len(decl.Body.List) != 1 {
			return nil, nil, "the factory " + callee.Name() + " is more than a single return of a function literal"
		}
		ret, ok := decl.Body.List[0].(*ast.ReturnStmt)
		if !ok || len(ret.Results) != 1 {
			return nil, nil, "the factory " + callee.Name() + " is more than a single return of a function literal"
		}
		lit, ok := unparen(ret.Results[0]).(*ast.FuncLit)
		if !ok {
			return nil, nil, "the factory " + callee.Name() + " does not return a function literal"
		}
		for _, af := range callee.AnonFuncs {
			if af.Syntax() == ast.Node(lit) {
				fn = af
			}
		}
		if fn == nil || len(v.Call.Args) != len(callee.Params) {
			return nil, nil, "the function literal of the factory " + callee.Name() + " does not resolve"
		}
		bind = aenv{}
		for i, a := range v.Call.Args {
			obj := callee.Params[i].Object()
			c, ok := a.(*ssa.Const)
			if obj == nil || !ok || c.Value == nil || !isFloatType(c.Type()) {
				continue // not a float constant: the captured variable stays unbound and its use is undecided
			}
			f, _ := constant.Float64Val(constant.ToFloat(c.Value))
			bind[obj] = &abind{konst: &f}
		}
		return fn, bind, ""
	}
	return nil, nil, "the variable " + g.Name() + " is not initialised with a function literal"
}

// scalarSyntax returns what the interpreter of the scalar activations needs of a registered function: the type
// information and the declared functions of the package that declares it, its signature and body, and the
// position obligations are reported at. A function literal (held by a package-level variable or produced by a
// closure factory) and a declared top-level function are the same thing to the interpreter - parameters and a
// body; methods, bound-method and other synthetic wrappers and functions without source are not interpreted.
func scalarSyntax(p *Prog, fn *ssa.Function) (info *types.Info, decls helperDecls, ftype *ast.FuncType, body *ast.BlockStmt, at token.Pos, why string) {
	pk := p.PkgOf(fn)
	if pk == nil || pk.TypesInfo == nil {
		return nil, nil, nil, nil, token.NoPos, "the registered function " + fn.Name() + " is not declared in a loaded package of the library"
	}
	decls = helperDecls{}
	for _, f := range pk.Syntax {
		for _, d := range f.Decls {
			if fd, ok := d.(*ast.FuncDecl); ok {
				if obj, ok := pk.TypesInfo.Defs[fd.Name].(*types.Func); ok {
					decls[obj] = fd
				}
			}
		}
	}
	switch s := fn.Syntax().(type) {
	case *ast.FuncLit:
		return pk.TypesInfo, decls, s.Type, s.Body, s.Pos(), ""
	case *ast.FuncDecl:
		if s.Recv != nil || s.Body == nil || fn.Signature.Recv() != nil || s.Type.TypeParams != nil {
			return nil, nil, nil, nil, token.NoPos, "the registered function " + fn.Name() + " is a method, generic or has no body"
		}
		return pk.TypesInfo, decls, s.Type, s.Body, s.Pos(), ""
	}
	return nil, nil, nil, nil, token.NoPos, "the registered function " + fn.Name() + " is neither a function literal nor a declared function with source"
}

// helperDecls maps the functions declared in one package to their syntax.
type helperDecls map[*types.Func]*ast.FuncDecl

// pureHelperCall recognises the call f(a1, ..., an) of a pure straight-line helper: f is a top-level function
// declared in the package under analysis (same types.Info), not variadic or generic, with float parameters and one
// float result, and its body is a list of definitions of fresh locals (x := e, var x = e, const) followed by a
// single `return e`. For such a call it returns e together with the bindings e has to be read under - every
// parameter bound to its argument expression (read under the caller's bindings), every local of f bound to its
// defining expression. The body has no branch, loop, assignment to anything but a fresh local, or statement with an
// effect, and the expressions in it are judged by the tables of the interpreter / the normal form, which hold pure
// operations only; so the call denotes exactly the value of e. Anything else is not a helper (ok = false) and the
// call stays outside the tables.
func pureHelperCall(info *types.Info, decls helperDecls, call *ast.CallExpr, env aenv) (res ast.Expr, renv aenv, ok bool) {
	if info == nil || decls == nil {
		return nil, nil, false
	}
	id, isId := unparen(call.Fun).(*ast.Ident)
	if !isId {
		return nil, nil, false
	}
	fobj, isFn := info.Uses[id].(*types.Func)
	if !isFn {
		return nil, nil, false
	}
	decl := decls[fobj]
	if decl == nil || decl.Recv != nil || decl.Body == nil || decl.Type.TypeParams != nil || len(decl.Body.List) == 0 {
		return nil, nil, false
	}
	sig, isSig := fobj.Type().(*types.Signature)
	if !isSig || sig.Variadic() || sig.Recv() != nil || sig.Results().Len() != 1 || !isFloatType(sig.Results().At(0).Type()) || sig.Params().Len() != len(call.Args) || call.Ellipsis.IsValid() {
		return nil, nil, false
	}
	for i := 0; i < sig.Params().Len(); i++ {
		if !isFloatType(sig.Params().At(i).Type()) {
			return nil, nil, false
		}
	}
	if decl.Type.Results != nil && len(decl.Type.Results.List) == 1 && len(decl.Type.Results.List[0].Names) > 0 {
		return nil, nil, false // a named result is a variable of its own
	}
	renv = aenv{}
	k := 0
	for _, f := range decl.Type.Params.List {
		if len(f.Names) == 0 {
			k++
			continue
		}
		for _, nm := range f.Names {
			if nm.Name != "_" {
				obj := info.Defs[nm]
				if obj == nil {
					return nil, nil, false
				}
				renv = renv.with(obj, &abind{expr: call.Args[k], env: env})
			}
			k++
		}
	}
	if k != len(call.Args) {
		return nil, nil, false
	}
	define := func(id *ast.Ident, rhs ast.Expr, cur, before aenv) (aenv, bool) {
		if id.Name == "_" {
			return cur, true
		}
		obj := info.Defs[id] // nil when := re-assigns an existing variable
		if obj == nil {
			return nil, false
		}
		return cur.with(obj, &abind{expr: rhs, env: before}), true
	}
	last := len(decl.Body.List) - 1
	for _, st := range decl.Body.List[:last] {
		before := renv
		switch x := st.(type) {
		case *ast.AssignStmt:
			if x.Tok != token.DEFINE || len(x.Lhs) != len(x.Rhs) {
				return nil, nil, false
			}
			for j, l := range x.Lhs {
				lid, isId := l.(*ast.Ident)
				if !isId {
					return nil, nil, false
				}
				if renv, ok = define(lid, x.Rhs[j], renv, before); !ok {
					return nil, nil, false
				}
			}
		case *ast.DeclStmt:
			gd, isGd := x.Decl.(*ast.GenDecl)
			if !isGd || (gd.Tok != token.VAR && gd.Tok != token.CONST) {
				return nil, nil, false
			}
			if gd.Tok == token.CONST {
				continue // folded by the type checker
			}
			for _, sp := range gd.Specs {
				vs, isVs := sp.(*ast.ValueSpec)
				if !isVs || len(vs.Values) != len(vs.Names) {
					return nil, nil, false
				}
				for j, nm := range vs.Names {
					if renv, ok = define(nm, vs.Values[j], renv, before); !ok {
						return nil, nil, false
					}
				}
			}
		case *ast.EmptyStmt:
		default:
			return nil, nil, false
		}
	}
	ret, isRet := decl.Body.List[last].(*ast.ReturnStmt)
	if !isRet || len(ret.Results) != 1 {
		return nil, nil, false
	}
	return ret.Results[0], renv, true
}

// c18Leaf is one way a function produces its result idx: a value that is not a phi, the return it reaches, and
// the branch outcomes known when this value (and not another one) is returned - those dominating the return plus,
// for a value merged by phi nodes, those known on the CFG edge over which it enters each phi. Conditions are SSA
// values, so an outcome established on an edge is still a fact about the same value at the return.
type c18Leaf struct {
	Val    ssa.Value
	Ret    *ssa.Return
	Guards []Guard
}

func c18ResultLeaves(fn *ssa.Function, idx int) []c18Leaf {
	var out []c18Leaf
	for _, b := range fn.Blocks {
		ret, ok := b.Instrs[len(b.Instrs)-1].(*ssa.Return)
		if !ok || idx < 0 || idx >= len(ret.Results) {
			continue
		}
		seen := map[*ssa.Phi]bool{}
		var visit func(v ssa.Value, gs []Guard)
		visit = func(v ssa.Value, gs []Guard) {
			if ph, isPhi := v.(*ssa.Phi); isPhi {
				if seen[ph] {
					return // loop-carried: the other edges of the cycle are visited on their own
				}
				seen[ph] = true
				for i, e := range ph.Edges {
					pred := ph.Block().Preds[i]
					visit(e, append(append([]Guard{}, gs...), condsAt(pred, ph.Block())...))
				}
				delete(seen, ph)
				return
			}
			out = append(out, c18Leaf{Val: v, Ret: ret, Guards: gs})
		}
		visit(ret.Results[idx], append([]Guard{}, Guards(b)...))
	}
	return out
}

// c18ErrorOnly checks, for a caller that forwards a lookup of the activator
// factory (value, err := factory.lookup(...)):
//
//	value:<caller>  every use of the looked-up value is dominated by the outcome err == nil of a test of that
//	                call's own error result (an unknown type gives an error INSTEAD of a value: the sentinel that
//	                accompanies the error must not reach the node);
//	error:<caller>  no return hands back a literal nil error unless it is dominated by err == nil.
func c18ErrorOnly(p *Prog, r *Run, caller, lookup *ssa.Function) {
	r.Fn(FuncName(caller))
	calls := CallsTo(caller, lookup)
	name := caller.Name()
	if len(calls) == 0 {
		r.Undecided("value:"+name, p.Pos(caller.Pos()), name+" does not call "+lookup.Name()+" (the activation it forwards cannot be located)")
		return
	}
	for _, c := range calls {
		r.CallSites++
		cv, ok := c.(*ssa.Call)
		if !ok {
			r.Undecided("value:"+name, p.Pos(c.Pos()), lookup.Name()+" is called with go/defer")
			continue
		}
		var vals, errs []*ssa.Extract
		for _, ref := range *cv.Referrers() {
			if ex, ok := ref.(*ssa.Extract); ok {
				if ex.Index == 0 {
					vals = append(vals, ex)
				} else {
					errs = append(errs, ex)
				}
			}
		}
		isErr := func(v ssa.Value) bool {
			for _, e := range errs {
				if v == ssa.Value(e) {
					return true
				}
			}
			return false
		}
		isNil := func(v ssa.Value) bool {
			k, ok := v.(*ssa.Const)
			return ok && k.Value == nil
		}
		// the outcome of a branch says err == nil
		saysNil := func(cond ssa.Value, outcome bool) bool {
			b, ok := cond.(*ssa.BinOp)
			if !ok || !((isErr(b.X) && isNil(b.Y)) || (isErr(b.Y) && isNil(b.X))) {
				return false
			}
			return (b.Op == token.EQL && outcome) || (b.Op == token.NEQ && !outcome)
		}
		succeeded := func(b *ssa.BasicBlock) bool {
			for _, g := range Guards(b) {
				if saysNil(g.Cond, g.True) {
					return true
				}
			}
			return false
		}
		edgeSucceeded := func(pred, to *ssa.BasicBlock) bool {
			if succeeded(pred) {
				return true
			}
			if iff, ok := pred.Instrs[len(pred.Instrs)-1].(*ssa.If); ok && pred.Succs[0] != pred.Succs[1] {
				return saysNil(iff.Cond, pred.Succs[0] == to)
			}
			return false
		}
		okV, whyV, uses := true, "", 0
		for _, ex := range vals {
			for _, ref := range *ex.Referrers() {
				if _, ok := ref.(*ssa.DebugRef); ok {
					continue
				}
				uses++
				ub := ref.Block()
				good := succeeded(ub)
				if ph, ok := ref.(*ssa.Phi); ok && !good {
					good = true
					for i, e := range ph.Edges {
						if e == ssa.Value(ex) && !edgeSucceeded(ub.Preds[i], ub) {
							good = false
						}
					}
				}
				if !good {
					okV = false
					whyV = fmt.Sprintf("the value returned by %s is used at %s although the call may have failed (no test err == nil of this call dominates the use): an unknown activation type then yields a value as well as an error", lookup.Name(), p.Pos(ref.Pos()))
				}
			}
		}
		r.Check(okV, "value:"+name, p.Pos(cv.Pos()), fmt.Sprintf("%d use(s) of the looked-up value, all under err == nil", uses), name+": "+whyV)
		okE, whyE := true, ""
		for _, b := range caller.Blocks {
			ret, ok := b.Instrs[len(b.Instrs)-1].(*ssa.Return)
			if !ok || len(ret.Results) == 0 || !cv.Block().Dominates(b) {
				continue
			}
			res := ret.Results[len(ret.Results)-1]
			if _, isIface := res.Type().Underlying().(*types.Interface); !isIface {
				continue
			}
			bad := false
			switch v := res.(type) {
			case *ssa.Const:
				bad = v.Value == nil && !succeeded(b)
			case *ssa.Phi:
				for i, e := range v.Edges {
					if isNil(e) && !edgeSucceeded(v.Block().Preds[i], v.Block()) && !succeeded(b) {
						bad = true
					}
				}
			}
			if bad {
				okE, whyE = false, fmt.Sprintf("the return at %s yields a nil error on a path where %s may have failed", p.Pos(ret.Pos()), lookup.Name())
			}
		}
		r.Check(okE, "error:"+name, p.Pos(cv.Pos()), "the error of the lookup is never replaced by nil", name+": "+whyE)
	}
}
