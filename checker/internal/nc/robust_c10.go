package nc

import (
	"fmt"
	"go/token"
	"strings"

	"golang.org/x/tools/go/ssa"
)

// Helpers of the C10 rules that make guard matching independent of how a
// boolean condition was compiled.
//
// go/ssa compiles `if a && b {` to control flow (two Ifs), but the same
// condition in a value context - a case of a tagless switch, `ok := a && b` -
// to a phi over the short-circuit edges (`φ[A: false, rhs: b]`) followed by
// one If on the phi. Guards() then reports the phi, not a and b.
// guardsResolved replaces such a guard by the equivalent conjunction of
// atomic branch outcomes, and only when the replacement is EXACT (see
// splitBoolPhi): a guard that cannot be resolved exactly is kept as it is, so
// that a rule which lists "further conditions" still sees it.

// guardsResolved is Guards(b) with materialised short-circuit conditions and
// negations resolved into atomic guards.
func guardsResolved(b *ssa.BasicBlock) []Guard { return resolveGuards(Guards(b)) }

// resolveGuards applies the resolution of guardsResolved to a given list of
// known branch outcomes / boolean facts.
func resolveGuards(gs []Guard) []Guard {
	var out []Guard
	type key struct {
		c ssa.Value
		t bool
	}
	seen := map[key]bool{}
	var add func(g Guard, depth int)
	add = func(g Guard, depth int) {
		if depth < 8 {
			switch c := g.Cond.(type) {
			case *ssa.UnOp:
				if c.Op == token.NOT {
					add(Guard{c.X, !g.True, g.At}, depth+1)
					return
				}
			case *ssa.Phi:
				if sub, ok := splitBoolPhi(c, g.True); ok {
					for _, s := range sub {
						add(s, depth+1)
					}
					return
				}
			}
		}
		k := key{g.Cond, g.True}
		if seen[k] {
			return
		}
		seen[k] = true
		out = append(out, g)
	}
	for _, g := range gs {
		add(g, 0)
	}
	return out
}

// pendingFlag describes a boolean local of positive polarity ("the action is
// still to be done") that guards an action inside a loop:
//
//	pending := <init>            // before the loop
//	for ... { if ... pending { action; pending = false } }
//
// It is the mirror image of the `done := false ... !done && <init> ... done =
// true` idiom. For the guard `pending == true` at an iteration the following
// holds when Shape is true: pending is true there iff the value it had when the
// loop was entered (one of Inits, evaluated BEFORE the loop) was true and no
// edge that assigns false was taken so far; every such edge leaves a block
// dominated by the anchor (the action), so "pending is false" implies "an init
// value was false, or the action was executed earlier in this call".
type pendingFlag struct {
	Shape bool        // only the forms above feed the flag
	Why   string      // reason when Shape is false
	Inits []ssa.Value // values the flag can have on entry of the loop (constants included)
	Clear int         // number of edges assigning false (all after the anchor when Shape)
}

// analysePendingFlag follows the phi web of flag. anchor is the instruction the
// flag protects; loop is the loop around it (nil: no loop, every non-constant
// leaf is an init value).
func analysePendingFlag(flag *ssa.Phi, anchor ssa.Instruction, loop *Loop) pendingFlag {
	pf := pendingFlag{Shape: true}
	fail := func(why string) {
		if pf.Shape {
			pf.Shape, pf.Why = false, why
		}
	}
	ab := anchor.Block()
	seen := map[*ssa.Phi]bool{}
	var visit func(ph *ssa.Phi, depth int)
	visit = func(ph *ssa.Phi, depth int) {
		if seen[ph] {
			return
		}
		if depth > 8 {
			fail("the flag's data flow is too deep to follow")
			return
		}
		seen[ph] = true
		for i, e := range ph.Edges {
			pred := ph.Block().Preds[i]
			inLoop := loop != nil && loop.Blocks[pred]
			switch x := e.(type) {
			case *ssa.Phi:
				visit(x, depth+1)
			case *ssa.Const:
				switch {
				case IsConstBool(x, false) && inLoop:
					pf.Clear++
					if !(ab == pred || ab.Dominates(pred)) {
						fail("the flag is cleared on a path that has not made the clone")
					}
				case inLoop:
					// re-armed inside the loop: not the once-only idiom
					fail("the flag is set again inside the loop")
				default:
					pf.Inits = append(pf.Inits, x)
				}
			default:
				if inLoop {
					fail("the flag is recomputed inside the loop")
				} else {
					pf.Inits = append(pf.Inits, e)
				}
			}
		}
	}
	visit(flag, 0)
	if len(pf.Inits) == 0 {
		fail("the flag has no value on entry of the loop")
	}
	return pf
}

// splitBoolPhi: the boolean phi ph is known to have the value want. If exactly
// one incoming edge can deliver that value (all others carry the constant
// !want), control came over that edge, from predecessor P. The result is the
// list of branch outcomes that is EQUIVALENT to "ph == want" given that the
// dominator D of ph's block was reached: the outcomes of the Ifs on the unique
// path D -> ... -> P -> ph.Block (every block on it has a single predecessor,
// so the path condition is exactly their conjunction), plus "edge value ==
// want" when the edge value is not a constant. ok=false when the phi is not of
// that form (several candidate edges, a join on the way, a loop-carried edge).
func splitBoolPhi(ph *ssa.Phi, want bool) ([]Guard, bool) {
	pb := ph.Block()
	cand := -1
	for i, e := range ph.Edges {
		if IsConstBool(e, !want) {
			continue
		}
		if cand >= 0 {
			return nil, false
		}
		cand = i
	}
	if cand < 0 {
		return nil, false
	}
	var out []Guard
	edge := func(from, to *ssa.BasicBlock) {
		if iff, ok := from.Instrs[len(from.Instrs)-1].(*ssa.If); ok && from.Succs[0] != from.Succs[1] {
			out = append(out, Guard{iff.Cond, from.Succs[0] == to, from})
		}
	}
	P := pb.Preds[cand]
	edge(P, pb)
	x := P
	for n := 0; ; n++ {
		if x != pb && x.Dominates(pb) {
			break
		}
		if x == pb || len(x.Preds) != 1 || n > 64 {
			return nil, false
		}
		y := x.Preds[0]
		edge(y, x)
		x = y
	}
	if !IsConstBool(ph.Edges[cand], want) {
		out = append(out, Guard{ph.Edges[cand], want, P})
	}
	return out, true
}

// genomeContentFact: does the write-through fact `what` ("Type.field",
// "elem:<slice field>") name a part of what Genome.duplicate carries over to
// the copy? Run-time state of nodes, lists that duplicate rebuilds, the genome
// id (a copy gets its own) and derived caches are not content.
func genomeContentFact(what string) bool {
	notContent := map[string]bool{
		"Genome.Id": true, "Genome.Phenotype": true, "Genome.nodeByIdMap": true,
		"NNode.Activation": true, "NNode.ActivationsCount": true, "NNode.ActivationSum": true,
		"NNode.Incoming": true, "NNode.Outgoing": true, "NNode.PhenotypeAnalogue": true, "NNode.visited": true,
		"NNode.lastActivation": true, "NNode.lastActivation2": true, "NNode.isActive": true,
		"MIMOControlGene.ioNodes": true,
	}
	if notContent[what] {
		return false
	}
	for _, pre := range []string{"Genome.", "Gene.", "Link.", "NNode.", "Trait.", "MIMOControlGene."} {
		if len(what) > len(pre) && what[:len(pre)] == pre {
			return true
		}
	}
	switch what {
	case "elem:Traits", "elem:Nodes", "elem:Genes", "elem:ControlGenes", "elem:Params":
		return true
	}
	return false
}

// ---- C10.7: the clones reserved for a champion fit into its species' quota ----
//
// Species.reproduce produces the exact copy of a super-champion only as the
// LAST of its superChampOffspring clones (all earlier ones are mutated, C10.2)
// and produces offspring only while count < ExpectedOffspring; while clones are
// pending the champion-clone branch is not taken (C10.1 "after-super"). So if a
// champion enters reproduce with superChampOffspring > ExpectedOffspring, the
// loop ends before the exact copy is made and no unmodified copy of the
// champion exists in the next generation. The necessary condition is the
// invariant
//
//	I:  species.Organisms[0].superChampOffspring <= species.ExpectedOffspring
//
// at the call of reproduce. c10ReserveWithinQuota proves the inductive step for
// every piece of code (outside reproduce, which only decrements) that assigns
// superChampOffspring: on every acyclic path through one loop iteration /
// through the loop-free part of the function that contains such a store, the
// values the path leaves in the two fields of the SAME species satisfy
//
//	ExpectedOffspring_after - superChampOffspring_after >= 0
//
// as a consequence of I before the path and ExpectedOffspring >= 0 (values are
// integer-linear expressions over the path, affine.go; no solver: the
// difference must reduce to  a*EO_before + b*SCO_before + c  with c >= 0,
// a >= 0 and a+b >= 0). Equal values assigned to both (delta coding), `sco = k;
// eo += k` and `sco += k; eo += k` (stolen babies) are the instances found in
// the pinned tree. The species is identified by the origin term of the store
// address, so aliases (`curr := sorted[0]`), helper extraction and statement
// order do not matter.
func (r *Run) c10ReserveWithinQuota(rep *ssa.Function) {
	p := r.P
	eo := p.Field(PkgG, "Species", "ExpectedOffspring")
	sco := p.Field(PkgG, "Organism", "superChampOffspring")
	orgsF := p.Field(PkgG, "Species", "Organisms")
	first := p.FuncOpt(PkgG, "Species.firstOrganism")

	// speciesOf: the species whose champion (Organisms[0]) the organism term denotes.
	speciesOf := func(org *Term) (*Term, bool) {
		if org == nil {
			return nil, false
		}
		if org.Op == "elem" && len(org.Args) > 1 && org.Args[1].Op == "const" && org.Args[1].Name == "0" &&
			org.Args[0].Op == "field" && org.Args[0].Obj == orgsF && len(org.Args[0].Args) == 1 {
			return org.Args[0].Args[0], true
		}
		if org.Op == "call" && first != nil && org.Obj == first.Object() && len(org.Args) == 1 {
			return org.Args[0], true
		}
		return nil, false
	}

	nStores, nPaths, nLower := 0, 0, 0
	for _, fn := range p.SrcFuncs() {
		if fn == rep {
			continue // the decrement per super-champion offspring: C10.2
		}
		stores := FieldStores(fn, sco)
		if len(stores) == 0 {
			continue
		}
		r.Fn(FuncName(fn))
		tm := NewTermer(fn)
		loops := Loops(fn)
		fname := fn.Name()
		if recv := fn.Signature.Recv(); recv != nil {
			t := recv.Type().String()
			fname = t[strings.LastIndex(t, ".")+1:] + "." + fname
		}

		type verdict struct {
			ok      bool
			covered bool
			why     string
			pos     token.Pos
			path    []string
		}
		res := map[string]*verdict{}
		var order []string
		keyOfStore := map[*ssa.Store]string{}
		for _, st := range stores {
			nStores++
			at := tm.Of(st.Addr)
			var sp *Term
			ok := false
			if at.Op == "field" && len(at.Args) == 1 {
				sp, ok = speciesOf(at.Args[0])
			}
			if !ok {
				if IsConstIntValue(st.Val, 0) {
					r.OK("reserve.cleared:"+fname, p.Pos(st.Pos()), "superChampOffspring of "+at.String()+" is reset to zero")
					continue
				}
				r.Bad("reserve.owner:"+fname, p.Pos(st.Pos()), "superChampOffspring is assigned on "+at.String()+", which is not Organisms[0] of a species: the reservation cannot be related to a species' quota (reproduce hands the reserved clones of Organisms[0] out of that species' ExpectedOffspring)")
				continue
			}
			k := sp.String()
			keyOfStore[st] = k
			if res[k] == nil {
				res[k] = &verdict{ok: true, pos: st.Pos()}
				order = append(order, k)
			}
		}

		// analyse one path; inRegion tells which blocks belong to the region the path is judged on
		analyse := func(ip *IterPath, inRegion func(*ssa.BasicBlock) bool) {
			ps := newPathState(tm, ip)
			n := len(ip.Blocks)
			if ip.End != "return" && n > 0 {
				n-- // the last block is the header revisit / exit target / cycle closing block
			}
			type state struct {
				sco     Lin
				scoAddr string
				eo      *Lin
				st      *ssa.Store
			}
			seen := map[string]*state{}
			eoAfter := map[string]Lin{}
			for _, b := range ip.Blocks[:n] {
				if !inRegion(b) {
					continue
				}
				for _, in := range b.Instrs {
					if st, ok := in.(*ssa.Store); ok {
						switch StoredField(st) {
						case sco:
							if k, ok := keyOfStore[st]; ok {
								seen[k] = &state{sco: ps.Lin(st.Val), scoAddr: tm.Of(st.Addr).String(), st: st}
							}
						case eo:
							if at := tm.Of(st.Addr); at.Op == "field" && len(at.Args) == 1 {
								eoAfter[at.Args[0].String()] = ps.Lin(st.Val)
							}
						}
					}
					ps.observe(in)
				}
			}
			if len(seen) == 0 {
				return
			}
			nPaths++
			for k, s := range seen {
				v := res[k]
				v.covered = true
				eoAtom := k + "." + eo.Name() + "@0"
				scoAtom := s.scoAddr + "@0"
				after, written := eoAfter[k]
				if !written {
					after = linAtom(eoAtom)
				}
				diff := after.Add(s.sco, -1)
				a, b := diff.T[eoAtom], diff.T[scoAtom]
				good := diff.C >= 0 && a >= 0 && a+b >= 0
				for t := range diff.T {
					if t != eoAtom && t != scoAtom {
						good = false
					}
				}
				if !good && v.ok {
					v.ok = false
					v.pos = s.st.Pos()
					q := "keeps its quota " + after.String()
					if written {
						q = "gets the quota " + after.String()
					}
					v.why = fmt.Sprintf("the champion of %s reserves %s clones while the species %s (quota - reserved = %s, not provably >= 0)", k, s.sco.String(), q, diff.String())
					v.path = ip.Describe(p)
				}
			}
		}

		// quotas lowered in this function must stay non-negative (premise of the pairing argument: EO_before >= 0)
		nonNegOK, nonNegWhy, nonNegN := true, "", 0
		nonNegPos := fn.Pos()
		var nonNegPath []string
		analyseNonNeg := func(ip *IterPath, inRegion func(*ssa.BasicBlock) bool) {
			ps := newPathState(tm, ip)
			n := len(ip.Blocks)
			if ip.End != "return" && n > 0 {
				n--
			}
			for bi, b := range ip.Blocks[:n] {
				if !inRegion(b) {
					continue
				}
				for _, in := range b.Instrs {
					if st, ok := in.(*ssa.Store); ok && StoredField(st) == eo {
						before := ps.currentAtom(st.Addr)
						v := ps.Lin(st.Val)
						if v.T[oldKey(before)] == 1 {
							d := v.Add(before, -1)
							lowering := d.C < 0 || hasNegative(d)
							if lowering {
								nonNegN++
								proven := false
								for _, g := range ip.Conds {
									// only tests decided before the store (their loads carry the versions of that moment)
									at := -1
									for j, pb := range ip.Blocks[:bi] {
										if pb == g.At {
											at = j
										}
									}
									if at < 0 {
										continue
									}
									x, y, op, isF := CmpFact(g.Cond, g.True)
									if !isF {
										continue
									}
									if L, isI := ineqAsLin(op, ps.Lin(x), ps.Lin(y), true); isI {
										// v >= L >= 0 ?
										if rest := v.Add(L, -1); len(rest.T) == 0 && rest.C >= 0 {
											proven = true
										}
									}
								}
								if !proven && nonNegOK {
									nonNegOK, nonNegPos, nonNegPath = false, st.Pos(), ip.Describe(p)
									nonNegWhy = fmt.Sprintf("the quota of %s is lowered to %s on a path without a test that implies this is >= 0", tm.Of(st.Addr).Args[0].String(), v.String())
								}
							}
						}
					}
					ps.observe(in)
				}
			}
		}
		relevant := append([]*ssa.Store{}, stores...)
		relevant = append(relevant, FieldStores(fn, eo)...)
		isRelevant := func(st *ssa.Store) bool {
			if StoredField(st) == eo {
				return true
			}
			_, ok := keyOfStore[st]
			return ok
		}

		// (1) stores inside loops: the paths of one iteration of the innermost loop
		doneLoop := map[*Loop]bool{}
		for _, st := range relevant {
			if !isRelevant(st) {
				continue
			}
			l := InnermostLoop(loops, st.Block())
			if l == nil || doneLoop[l] {
				continue
			}
			doneLoop[l] = true
			paths, complete := EnumIterPaths(fn, l, 4000)
			if !complete {
				r.Undecided("reserve.paths:"+fname, p.Pos(st.Pos()), "too many paths through one iteration of the loop that assigns superChampOffspring")
				continue
			}
			r.PathsExplored += len(paths)
			for _, ip := range paths {
				analyse(ip, func(b *ssa.BasicBlock) bool { return l.Blocks[b] })
				analyseNonNeg(ip, func(b *ssa.BasicBlock) bool { return l.Blocks[b] })
			}
		}
		// (2) stores outside loops: the acyclic paths through the loop-free stretch of code around the store,
		// starting at the topmost dominator that is reached from the store's block upwards without entering a
		// loop (the function entry, or the block a preceding loop exits to), judged on the loop-free blocks only.
		// What a loop did before is covered by I, which every iteration preserves for the species it reserves for.
		doneStart := map[*ssa.BasicBlock]bool{}
		for _, st := range relevant {
			if !isRelevant(st) || InnermostLoop(loops, st.Block()) != nil {
				continue
			}
			start := st.Block()
			for d := start.Idom(); d != nil && InnermostLoop(loops, d) == nil; d = d.Idom() {
				start = d
			}
			if doneStart[start] {
				continue
			}
			doneStart[start] = true
			paths, complete := EnumRegionPaths(fn, start, func(*ssa.BasicBlock) bool { return false }, 6000)
			if !complete {
				r.Undecided("reserve.paths:"+fname, p.Pos(st.Pos()), "too many paths through the code that assigns superChampOffspring")
			}
			r.PathsExplored += len(paths)
			for _, ip := range paths {
				analyse(ip, func(b *ssa.BasicBlock) bool { return InnermostLoop(loops, b) == nil })
				analyseNonNeg(ip, func(b *ssa.BasicBlock) bool { return InnermostLoop(loops, b) == nil })
			}
		}
		nLower += nonNegN
		if nonNegN > 0 {
			r.Check(nonNegOK, "quota-nonnegative:"+fname, p.Pos(nonNegPos), "every update that lowers a species' quota is guarded by a test that keeps it >= 0",
				nonNegWhy+": a negative quota that later receives reserved clones (quota += k, reserved = k) is smaller than the reservation, so the loop of reproduce ends before the champion's last, unmodified clone", nonNegPath...)
		}
		for _, k := range order {
			v := res[k]
			c := "reserve-within-quota:" + fname + ":" + k
			if !v.covered {
				r.Undecided(c, p.Pos(v.pos), "no enumerated path passes the assignment of superChampOffspring")
				continue
			}
			r.Check(v.ok, c, p.Pos(v.pos), "on every path the clones reserved for the champion of "+k+" do not exceed the quota the path leaves to that species",
				v.why+": reproduce stops after ExpectedOffspring offspring, the exact copy is the LAST reserved clone and the champion-clone branch is closed while clones are pending - no unmodified copy of this champion reaches the next generation", v.path...)
		}
	}
	r.Floor("assignments of superChampOffspring outside reproduce", nStores, 3)
	r.Floor("quota-lowering updates judged for non-negativity", nLower, 1)
	r.Floor("paths through those assignments", nPaths, 4)
}

// ---- comparison facts, independent of spelling ----

// c10Fact is a branch outcome stated as a comparison that HOLDS, `X Op Y`
// (canon.go CmpFact: negations removed, a false outcome turned into the
// complementary operator, a constant moved to the right), with the origin
// terms of both operands.
type c10Fact struct {
	X, Y   ssa.Value
	TX, TY *Term
	Op     token.Token
}

// c10FactOf states guard g as a c10Fact. When only the right operand satisfies
// left (and the right operand is not needed on the right as a constant), the
// operands are exchanged and the operator mirrored, so that `count < s.EO`,
// `s.EO > count` and `!(count >= s.EO)` all read `s.EO > count`.
func c10FactOf(tm *Termer, g Guard, left func(*Term) bool) (c10Fact, bool) {
	x, y, op, ok := CmpFact(g.Cond, g.True)
	if !ok {
		return c10Fact{}, false
	}
	f := c10Fact{X: x, Y: y, TX: tm.Of(x), TY: tm.Of(y), Op: op}
	if left != nil && !left(f.TX) && left(f.TY) {
		f.X, f.Y, f.TX, f.TY, f.Op = f.Y, f.X, f.TY, f.TX, mirrorCmp(f.Op)
	}
	return f, true
}

// constBounds: what the fact `X Op k` (k an integer constant) says about the integer X.
func (f c10Fact) constBounds() (lo int64, hasLo bool, hi int64, hasHi bool) {
	k, isK := constInt(f.Y)
	if !isK {
		return
	}
	switch f.Op {
	case token.GTR:
		return k + 1, true, 0, false
	case token.GEQ:
		return k, true, 0, false
	case token.LSS:
		return 0, false, k - 1, true
	case token.LEQ:
		return 0, false, k, true
	case token.EQL:
		return k, true, k, true
	}
	return
}

func (f c10Fact) String() string { return "(" + f.TX.String() + f.Op.String() + f.TY.String() + ")" }

// ---- C10.8: the offspring loop gives the champion its turn and delivers the copy ----
//
// C10.1/C10.2 place the unmodified copy in one iteration of the offspring loop
// (the first one without pending super-champion clones, or the iteration that
// consumes the LAST reserved clone). For that copy to be in the next
// generation the following facts about the loop are necessary:
//
//	(a) the loop runs at least ExpectedOffspring times: it continues while
//	    ExpectedOffspring > count (or >=), count starts at a constant <= 0 and
//	    grows by exactly one per iteration. A champion whose reserved clones
//	    equal the quota (delta coding, C10.7) receives its exact copy only in
//	    iteration number ExpectedOffspring; one iteration less and it is lost.
//	(b) ExpectedOffspring is not written while the species reproduces (same reason).
//	(c) the organism that wraps the copy is appended to the list of babies on
//	    every path that continues the loop or returns a list (error returns
//	    deliver nothing and make the epoch fail, which is not a silent loss);
//	    the list carried around the loop only grows by appends, and every
//	    list returned is that list.
func (r *Run) c10OffspringLoop(rep *ssa.Function, tm *Termer, newOrg *ssa.Function, copies map[string]ssa.CallInstruction) {
	p := r.P
	eo := p.Field(PkgG, "Species", "ExpectedOffspring")
	isEO := func(t *Term) bool {
		return t != nil && t.Op == "field" && t.Obj == eo && len(t.Args) == 1 && t.Args[0].Op == "recv"
	}
	var anchor ssa.CallInstruction
	for _, k := range []string{"clone", "super-champ"} {
		if copies[k] != nil && anchor == nil {
			anchor = copies[k]
		}
	}
	if anchor == nil {
		return // C10.1 reports the missing branch
	}
	loops := Loops(rep)
	// (a) the loop around the copy whose continuation test bounds a header phi by the quota
	var loop *Loop
	var count *ssa.Phi
	for _, l := range loops {
		if !l.Blocks[anchor.Block()] {
			continue
		}
		// every branch of the loop that decides between staying and leaving, taken in the staying direction
		for b := range l.Blocks {
			iff, ok := b.Instrs[len(b.Instrs)-1].(*ssa.If)
			if !ok || len(b.Succs) != 2 || l.Blocks[b.Succs[0]] == l.Blocks[b.Succs[1]] {
				continue
			}
			for _, g := range resolveGuards([]Guard{{iff.Cond, l.Blocks[b.Succs[0]], b}}) {
				f, ok := c10FactOf(tm, g, isEO)
				if !ok || !isEO(f.TX) || (f.Op != token.GTR && f.Op != token.GEQ) {
					continue
				}
				if ph, isPhi := f.Y.(*ssa.Phi); isPhi && ph.Block() == l.Header {
					loop, count = l, ph
				}
			}
		}
	}
	pos := p.Pos(rep.Pos())
	if loop == nil {
		r.Bad("offspring-loop", pos, "the copy of the champion is not made inside a loop that continues while ExpectedOffspring > count: the number of offspring, and with it the turn of the last reserved clone, is not tied to the quota")
		return
	}
	pos = p.Pos(firstBlockPos(loop.Header))
	okInit, okStep := true, true
	nIn := 0
	for i, e := range count.Edges {
		if !loop.Blocks[count.Block().Preds[i]] {
			if k, isK := constInt(e); !isK || k > 0 {
				okInit = false
			}
			continue
		}
		nIn++
		b, isB := e.(*ssa.BinOp)
		one := func(v ssa.Value) bool { k, isK := constInt(v); return isK && k == 1 }
		if !(isB && b.Op == token.ADD && (b.X == ssa.Value(count) && one(b.Y) || b.Y == ssa.Value(count) && one(b.X))) {
			okStep = false
		}
	}
	r.Check(okInit && okStep && nIn > 0, "offspring-loop.counter", pos, "the loop runs ExpectedOffspring times (count from 0 in steps of one)",
		"the offspring counter does not start at 0 (or below) and advance by exactly one per iteration: the loop runs fewer than ExpectedOffspring times, so a champion whose reserved clones equal the quota never reaches its last, unmodified clone")
	// (b)
	var wr []string
	for _, st := range FieldStores(rep, eo) {
		wr = append(wr, p.Pos(st.Pos()))
	}
	idxs := []int{rootGlobal, rootUnknown}
	for i := range rep.Params {
		idxs = append(idxs, i)
	}
	for _, idx := range idxs {
		ws, _ := p.writeSet(rep, idx)
		if t, w := ws["Species.ExpectedOffspring"]; w {
			wr = append(wr, p.Pos(t.Pos))
		}
	}
	r.Check(len(wr) == 0, "offspring-loop.quota-stable", pos, "ExpectedOffspring is not written during reproduce", "ExpectedOffspring is written while the species reproduces ("+strings.Join(wr, ", ")+"): the loop can end before the champion's unmodified copy is made")
	// (c) the list of babies
	var babies *ssa.Phi
	for _, ph := range HeaderPhis(loop) {
		if strings.Contains(typeShort(ph.Type()), "[]*") && strings.Contains(typeShort(ph.Type()), "Organism") {
			babies = ph
		}
	}
	if babies == nil {
		r.Bad("offspring-loop.babies", pos, "no list of organisms is carried around the offspring loop: the copy of the champion is not collected")
		return
	}
	// isBabies: v is the list carried around the loop, possibly with further organisms appended
	// (the babies phi itself, an append onto such a list, a join of such lists)
	var isBabiesRec func(v ssa.Value, seen map[ssa.Value]bool, why *string) bool
	isBabiesRec = func(v ssa.Value, seen map[ssa.Value]bool, why *string) bool {
		if v == ssa.Value(babies) || seen[v] {
			return true
		}
		seen[v] = true
		if len(seen) > 64 {
			*why = "data flow too deep"
			return false
		}
		if ph, isPhi := v.(*ssa.Phi); isPhi {
			for _, e := range ph.Edges {
				if !isBabiesRec(e, seen, why) {
					return false
				}
			}
			return true
		}
		if base, _, isApp := appendCall(v); isApp {
			return isBabiesRec(base, seen, why)
		}
		if *why == "" {
			*why = "the list becomes " + tm.Of(v).String()
		}
		return false
	}
	isBabies := func(v ssa.Value) (bool, string) {
		why := ""
		ok := isBabiesRec(v, map[ssa.Value]bool{}, &why)
		return ok, why
	}
	// grows only by appends
	okGrow, why := true, ""
	for i, e := range babies.Edges {
		if loop.Blocks[babies.Block().Preds[i]] {
			if ok, w := isBabies(e); !ok {
				okGrow, why = false, w
			}
		}
	}
	r.Check(okGrow, "offspring-loop.babies-grow", pos, "the list of babies only grows by appends", "inside the offspring loop the list of babies is replaced by something that is not an append to it ("+why+"): a copy of the champion that was collected can be dropped")
	// every list returned is the list of babies
	for _, b := range rep.Blocks {
		ret, isRet := b.Instrs[len(b.Instrs)-1].(*ssa.Return)
		if !isRet || len(ret.Results) == 0 {
			continue
		}
		if k, isK := ret.Results[0].(*ssa.Const); isK && k.Value == nil {
			continue // return nil, err
		}
		okRet, w := isBabies(ret.Results[0])
		r.Check(okRet, "offspring-loop.returns-babies", p.Pos(ret.Pos()), "the list returned is the list of babies", "reproduce returns a list that is not the list the offspring were appended to ("+w+"): the copy of the champion is not handed to the caller")
	}
	// the copy is appended on every continuing path
	for _, k := range []string{"clone", "super-champ"} {
		c := copies[k]
		if c == nil {
			continue
		}
		var genome ssa.Value
		for _, ref := range *c.Value().Referrers() {
			if ex, ok := ref.(*ssa.Extract); ok && ex.Index == 0 {
				genome = ex
			}
		}
		if genome == nil {
			continue // C10.2 reports it
		}
		calls, _ := genomeUsers(genome)
		for _, u := range calls {
			if u.Common().StaticCallee() != newOrg || u.Value() == nil {
				continue
			}
			var org ssa.Value
			for _, ref := range *u.Value().Referrers() {
				if ex, ok := ref.(*ssa.Extract); ok && ex.Index == 0 {
					org = ex
				}
			}
			if org == nil {
				org = u.Value()
			}
			isDeliver := func(in ssa.Instruction) bool {
				v, isV := in.(ssa.Value)
				if !isV {
					return false
				}
				base, elems, isApp := appendCall(v)
				if !isApp {
					return false
				}
				if ok, _ := isBabies(base); !ok {
					return false
				}
				for _, e := range elems {
					if e == org {
						return true
					}
					for _, f := range phiWeb(e).Feeders {
						if f == org {
							return true
						}
					}
				}
				return false
			}
			path := FindPath(p, PathQuery{Fn: rep, StartAfter: u.(ssa.Instruction),
				Target: func(in ssa.Instruction) bool {
					if in.Block() == loop.Header {
						return true
					}
					if ret, isRet := in.(*ssa.Return); isRet && len(ret.Results) > 0 {
						if k, isK := ret.Results[0].(*ssa.Const); !isK || k.Value != nil {
							return true
						}
					}
					return false
				},
				Avoid: isDeliver, Explored: &r.PathsExplored})
			r.Check(path == nil, k+".delivered", p.Pos(u.Pos()), "the organism wrapping the copy is appended to the babies on every path that continues",
				"the organism that wraps the champion's copy can reach the next iteration (or a successful return) without having been appended to the list of babies: the unmodified copy is not part of the next generation", path...)
		}
	}
}
