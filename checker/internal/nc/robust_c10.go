package nc

import (
	"go/token"

	"golang.org/x/tools/go/ssa"
)

// Helpers of the C10 rules that make guard matching independent of how a
// boolean condition was compiled.
//
// go/ssa compiles `if a && b {` to control flow (two Ifs), but the same
// condition in a value context - a case of a tagless switch, `ok := a && b` -
// to a phi over the short-circuit edges (`φ[A: false, rhs: b]`) followed by
// one If on the phi. Guards() then reports the phi, not a and b.
// guardsResolved replaces such a guard by the equivalent conjunction of
// atomic branch outcomes, and only when the replacement is EXACT (see
// splitBoolPhi): a guard that cannot be resolved exactly is kept as it is, so
// that a rule which lists "further conditions" still sees it.

// guardsResolved is Guards(b) with materialised short-circuit conditions and
// negations resolved into atomic guards.
func guardsResolved(b *ssa.BasicBlock) []Guard { return resolveGuards(Guards(b)) }

// resolveGuards applies the resolution of guardsResolved to a given list of
// known branch outcomes / boolean facts.
func resolveGuards(gs []Guard) []Guard {
	var out []Guard
	type key struct {
		c ssa.Value
		t bool
	}
	seen := map[key]bool{}
	var add func(g Guard, depth int)
	add = func(g Guard, depth int) {
		if depth < 8 {
			switch c := g.Cond.(type) {
			case *ssa.UnOp:
				if c.Op == token.NOT {
					add(Guard{c.X, !g.True, g.At}, depth+1)
					return
				}
			case *ssa.Phi:
				if sub, ok := splitBoolPhi(c, g.True); ok {
					for _, s := range sub {
						add(s, depth+1)
					}
					return
				}
			}
		}
		k := key{g.Cond, g.True}
		if seen[k] {
			return
		}
		seen[k] = true
		out = append(out, g)
	}
	for _, g := range gs {
		add(g, 0)
	}
	return out
}

// pendingFlag describes a boolean local of positive polarity ("the action is
// still to be done") that guards an action inside a loop:
//
//	pending := <init>            // before the loop
//	for ... { if ... pending { action; pending = false } }
//
// It is the mirror image of the `done := false ... !done && <init> ... done =
// true` idiom. For the guard `pending == true` at an iteration the following
// holds when Shape is true: pending is true there iff the value it had when the
// loop was entered (one of Inits, evaluated BEFORE the loop) was true and no
// edge that assigns false was taken so far; every such edge leaves a block
// dominated by the anchor (the action), so "pending is false" implies "an init
// value was false, or the action was executed earlier in this call".
type pendingFlag struct {
	Shape bool        // only the forms above feed the flag
	Why   string      // reason when Shape is false
	Inits []ssa.Value // values the flag can have on entry of the loop (constants included)
	Clear int         // number of edges assigning false (all after the anchor when Shape)
}

// analysePendingFlag follows the phi web of flag. anchor is the instruction the
// flag protects; loop is the loop around it (nil: no loop, every non-constant
// leaf is an init value).
func analysePendingFlag(flag *ssa.Phi, anchor ssa.Instruction, loop *Loop) pendingFlag {
	pf := pendingFlag{Shape: true}
	fail := func(why string) {
		if pf.Shape {
			pf.Shape, pf.Why = false, why
		}
	}
	ab := anchor.Block()
	seen := map[*ssa.Phi]bool{}
	var visit func(ph *ssa.Phi, depth int)
	visit = func(ph *ssa.Phi, depth int) {
		if seen[ph] {
			return
		}
		if depth > 8 {
			fail("the flag's data flow is too deep to follow")
			return
		}
		seen[ph] = true
		for i, e := range ph.Edges {
			pred := ph.Block().Preds[i]
			inLoop := loop != nil && loop.Blocks[pred]
			switch x := e.(type) {
			case *ssa.Phi:
				visit(x, depth+1)
			case *ssa.Const:
				switch {
				case IsConstBool(x, false) && inLoop:
					pf.Clear++
					if !(ab == pred || ab.Dominates(pred)) {
						fail("the flag is cleared on a path that has not made the clone")
					}
				case inLoop:
					// re-armed inside the loop: not the once-only idiom
					fail("the flag is set again inside the loop")
				default:
					pf.Inits = append(pf.Inits, x)
				}
			default:
				if inLoop {
					fail("the flag is recomputed inside the loop")
				} else {
					pf.Inits = append(pf.Inits, e)
				}
			}
		}
	}
	visit(flag, 0)
	if len(pf.Inits) == 0 {
		fail("the flag has no value on entry of the loop")
	}
	return pf
}

// splitBoolPhi: the boolean phi ph is known to have the value want. If exactly
// one incoming edge can deliver that value (all others carry the constant
// !want), control came over that edge, from predecessor P. The result is the
// list of branch outcomes that is EQUIVALENT to "ph == want" given that the
// dominator D of ph's block was reached: the outcomes of the Ifs on the unique
// path D -> ... -> P -> ph.Block (every block on it has a single predecessor,
// so the path condition is exactly their conjunction), plus "edge value ==
// want" when the edge value is not a constant. ok=false when the phi is not of
// that form (several candidate edges, a join on the way, a loop-carried edge).
func splitBoolPhi(ph *ssa.Phi, want bool) ([]Guard, bool) {
	pb := ph.Block()
	cand := -1
	for i, e := range ph.Edges {
		if IsConstBool(e, !want) {
			continue
		}
		if cand >= 0 {
			return nil, false
		}
		cand = i
	}
	if cand < 0 {
		return nil, false
	}
	var out []Guard
	edge := func(from, to *ssa.BasicBlock) {
		if iff, ok := from.Instrs[len(from.Instrs)-1].(*ssa.If); ok && from.Succs[0] != from.Succs[1] {
			out = append(out, Guard{iff.Cond, from.Succs[0] == to, from})
		}
	}
	P := pb.Preds[cand]
	edge(P, pb)
	x := P
	for n := 0; ; n++ {
		if x != pb && x.Dominates(pb) {
			break
		}
		if x == pb || len(x.Preds) != 1 || n > 64 {
			return nil, false
		}
		y := x.Preds[0]
		edge(y, x)
		x = y
	}
	if !IsConstBool(ph.Edges[cand], want) {
		out = append(out, Guard{ph.Edges[cand], want, P})
	}
	return out, true
}

// genomeContentFact: does the write-through fact `what` ("Type.field",
// "elem:<slice field>") name a part of what Genome.duplicate carries over to
// the copy? Run-time state of nodes, lists that duplicate rebuilds, the genome
// id (a copy gets its own) and derived caches are not content.
func genomeContentFact(what string) bool {
	notContent := map[string]bool{
		"Genome.Id": true, "Genome.Phenotype": true, "Genome.nodeByIdMap": true,
		"NNode.Activation": true, "NNode.ActivationsCount": true, "NNode.ActivationSum": true,
		"NNode.Incoming": true, "NNode.Outgoing": true, "NNode.PhenotypeAnalogue": true, "NNode.visited": true,
		"NNode.lastActivation": true, "NNode.lastActivation2": true, "NNode.isActive": true,
		"MIMOControlGene.ioNodes": true,
	}
	if notContent[what] {
		return false
	}
	for _, pre := range []string{"Genome.", "Gene.", "Link.", "NNode.", "Trait.", "MIMOControlGene."} {
		if len(what) > len(pre) && what[:len(pre)] == pre {
			return true
		}
	}
	switch what {
	case "elem:Traits", "elem:Nodes", "elem:Genes", "elem:ControlGenes", "elem:Params":
		return true
	}
	return false
}
