package nc

import (
	"fmt"
	"go/constant"
	"go/token"
	"go/types"
	"strings"

	"golang.org/x/tools/go/ssa"
)

// Helpers of the C10 rules that make guard matching independent of how a
// boolean condition was compiled.
//
// go/ssa compiles `if a && b {` to control flow (two Ifs), but the same
// condition in a value context - a case of a tagless switch, `ok := a && b` -
// to a phi over the short-circuit edges (`φ[A: false, rhs: b]`) followed by
// one If on the phi. Guards() then reports the phi, not a and b.
// guardsResolved replaces such a guard by the equivalent conjunction of
// atomic branch outcomes, and only when the replacement is EXACT (see
// splitBoolPhi): a guard that cannot be resolved exactly is kept as it is, so
// that a rule which lists "further conditions" still sees it.

// guardsResolved is Guards(b) with materialised short-circuit conditions and
// negations resolved into atomic guards.
func guardsResolved(b *ssa.BasicBlock) []Guard { return resolveGuards(Guards(b)) }

// resolveGuards applies the resolution of guardsResolved to a given list of
// known branch outcomes / boolean facts.
func resolveGuards(gs []Guard) []Guard {
	var out []Guard
	type key struct {
		c ssa.Value
		t bool
	}
	seen := map[key]bool{}
	var add func(g Guard, depth int)
	add = func(g Guard, depth int) {
		if depth < 8 {
			switch c := g.Cond.(type) {
			case *ssa.UnOp:
				if c.Op == token.NOT {
					add(Guard{c.X, !g.True, g.At}, depth+1)
					return
				}
			case *ssa.Phi:
				if sub, ok := splitBoolPhi(c, g.True); ok {
					for _, s := range sub {
						add(s, depth+1)
					}
					return
				}
			}
		}
		k := key{g.Cond, g.True}
		if seen[k] {
			return
		}
		seen[k] = true
		out = append(out, g)
	}
	for _, g := range gs {
		add(g, 0)
	}
	return out
}

// pendingFlag describes a boolean local of positive polarity ("the action is
// still to be done") that guards an action inside a loop:
//
//	pending := <init>            // before the loop
//	for ... { if ... pending { action; pending = false } }
//
// It is the mirror image of the `done := false ... !done && <init> ... done =
// true` idiom. For the guard `pending == true` at an iteration the following
// holds when Shape is true: pending is true there iff the value it had when the
// loop was entered (one of Inits, evaluated BEFORE the loop) was true and no
// edge that assigns false was taken so far; every such edge leaves a block
// dominated by the anchor (the action), so "pending is false" implies "an init
// value was false, or the action was executed earlier in this call".
type pendingFlag struct {
	Shape bool        // only the forms above feed the flag
	Why   string      // reason when Shape is false
	Inits []ssa.Value // values the flag can have on entry of the loop (constants included)
	Clear int         // number of edges assigning false (all after the anchor when Shape)
}

// analysePendingFlag follows the phi web of flag. anchor is the instruction the
// flag protects; loop is the loop around it (nil: no loop, every non-constant
// leaf is an init value). inCase (optional): the anchor's block is shared by
// several cases (GuardCases) and the flag may be cleared only in blocks that
// execute in the case looked at.
func analysePendingFlag(flag *ssa.Phi, anchor ssa.Instruction, loop *Loop, inCase func(*ssa.BasicBlock) bool) pendingFlag {
	pf := pendingFlag{Shape: true}
	fail := func(why string) {
		if pf.Shape {
			pf.Shape, pf.Why = false, why
		}
	}
	ab := anchor.Block()
	seen := map[*ssa.Phi]bool{}
	var visit func(ph *ssa.Phi, depth int)
	visit = func(ph *ssa.Phi, depth int) {
		if seen[ph] {
			return
		}
		if depth > 8 {
			fail("the flag's data flow is too deep to follow")
			return
		}
		seen[ph] = true
		for i, e := range ph.Edges {
			pred := ph.Block().Preds[i]
			inLoop := loop != nil && loop.Blocks[pred]
			switch x := e.(type) {
			case *ssa.Phi:
				visit(x, depth+1)
			case *ssa.Const:
				switch {
				case IsConstBool(x, false) && inLoop:
					pf.Clear++
					if !(ab == pred || ab.Dominates(pred)) || (inCase != nil && !inCase(pred)) {
						fail("the flag is cleared on a path that has not made the clone")
					}
				case inLoop:
					// re-armed inside the loop: not the once-only idiom
					fail("the flag is set again inside the loop")
				default:
					pf.Inits = append(pf.Inits, x)
				}
			default:
				if inLoop {
					fail("the flag is recomputed inside the loop")
				} else {
					pf.Inits = append(pf.Inits, e)
				}
			}
		}
	}
	visit(flag, 0)
	if len(pf.Inits) == 0 {
		fail("the flag has no value on entry of the loop")
	}
	return pf
}

// splitBoolPhi: the boolean phi ph is known to have the value want. If exactly
// one incoming edge can deliver that value (all others carry the constant
// !want), control came over that edge, from predecessor P. The result is the
// list of branch outcomes that is EQUIVALENT to "ph == want" given that the
// dominator D of ph's block was reached: the outcomes of the Ifs on the unique
// path D -> ... -> P -> ph.Block (every block on it has a single predecessor,
// so the path condition is exactly their conjunction), plus "edge value ==
// want" when the edge value is not a constant. ok=false when the phi is not of
// that form (several candidate edges, a join on the way, a loop-carried edge).
func splitBoolPhi(ph *ssa.Phi, want bool) ([]Guard, bool) {
	pb := ph.Block()
	cand := -1
	for i, e := range ph.Edges {
		if IsConstBool(e, !want) {
			continue
		}
		if cand >= 0 {
			return nil, false
		}
		cand = i
	}
	if cand < 0 {
		return nil, false
	}
	var out []Guard
	edge := func(from, to *ssa.BasicBlock) {
		if iff, ok := from.Instrs[len(from.Instrs)-1].(*ssa.If); ok && from.Succs[0] != from.Succs[1] {
			out = append(out, Guard{iff.Cond, from.Succs[0] == to, from})
		}
	}
	P := pb.Preds[cand]
	edge(P, pb)
	x := P
	for n := 0; ; n++ {
		if x != pb && x.Dominates(pb) {
			break
		}
		if x == pb || len(x.Preds) != 1 || n > 64 {
			return nil, false
		}
		y := x.Preds[0]
		edge(y, x)
		x = y
	}
	if !IsConstBool(ph.Edges[cand], want) {
		out = append(out, Guard{ph.Edges[cand], want, P})
	}
	return out, true
}

// genomeContentFact: does the write-through fact `what` ("Type.field",
// "elem:<slice field>") name a part of what Genome.duplicate carries over to
// the copy? Run-time state of nodes, lists that duplicate rebuilds, the genome
// id (a copy gets its own) and derived caches are not content.
func genomeContentFact(what string) bool {
	notContent := map[string]bool{
		"Genome.Id": true, "Genome.Phenotype": true, "Genome.nodeByIdMap": true,
		"NNode.Activation": true, "NNode.ActivationsCount": true, "NNode.ActivationSum": true,
		"NNode.Incoming": true, "NNode.Outgoing": true, "NNode.PhenotypeAnalogue": true, "NNode.visited": true,
		"NNode.lastActivation": true, "NNode.lastActivation2": true, "NNode.isActive": true,
		"MIMOControlGene.ioNodes": true,
	}
	if notContent[what] {
		return false
	}
	for _, pre := range []string{"Genome.", "Gene.", "Link.", "NNode.", "Trait.", "MIMOControlGene."} {
		if len(what) > len(pre) && what[:len(pre)] == pre {
			return true
		}
	}
	switch what {
	case "elem:Traits", "elem:Nodes", "elem:Genes", "elem:ControlGenes", "elem:Params":
		return true
	}
	return false
}

// ---- C10.7: the clones reserved for a champion fit into its species' quota ----
//
// Species.reproduce produces the exact copy of a super-champion only as the
// LAST of its superChampOffspring clones (all earlier ones are mutated, C10.2)
// and produces offspring only while count < ExpectedOffspring; while clones are
// pending the champion-clone branch is not taken (C10.1 "after-super"). So if a
// champion enters reproduce with superChampOffspring > ExpectedOffspring, the
// loop ends before the exact copy is made and no unmodified copy of the
// champion exists in the next generation. The necessary condition is the
// invariant
//
//	I:  species.Organisms[0].superChampOffspring <= species.ExpectedOffspring
//
// at the call of reproduce. c10ReserveWithinQuota proves the inductive step for
// every piece of code (outside reproduce, which only decrements) that assigns
// superChampOffspring: on every acyclic path through one loop iteration /
// through the loop-free part of the function that contains such a store, the
// values the path leaves in the two fields of the SAME species satisfy
//
//	ExpectedOffspring_after - superChampOffspring_after >= 0
//
// as a consequence of I before the path and ExpectedOffspring >= 0 (values are
// integer-linear expressions over the path, affine.go; no solver: the
// difference must reduce to  a*EO_before + b*SCO_before + c  with c >= 0,
// a >= 0 and a+b >= 0). Equal values assigned to both (delta coding), `sco = k;
// eo += k` and `sco += k; eo += k` (stolen babies) are the instances found in
// the pinned tree. The species is identified by the origin term of the store
// address, so aliases (`curr := sorted[0]`), helper extraction and statement
// order do not matter.
func (r *Run) c10ReserveWithinQuota(rep *ssa.Function) {
	p := r.P
	eo := p.Field(PkgG, "Species", "ExpectedOffspring")
	sco := p.Field(PkgG, "Organism", "superChampOffspring")
	orgsF := p.Field(PkgG, "Species", "Organisms")
	first := p.FuncOpt(PkgG, "Species.firstOrganism")

	// speciesOf: the species whose champion (Organisms[0]) the organism term denotes.
	speciesOf := func(org *Term) (*Term, bool) {
		if org == nil {
			return nil, false
		}
		if org.Op == "elem" && len(org.Args) > 1 && org.Args[1].Op == "const" && org.Args[1].Name == "0" &&
			org.Args[0].Op == "field" && org.Args[0].Obj == orgsF && len(org.Args[0].Args) == 1 {
			return org.Args[0].Args[0], true
		}
		if org.Op == "call" && first != nil && org.Obj == first.Object() && len(org.Args) == 1 {
			return org.Args[0], true
		}
		return nil, false
	}

	nStores, nPaths, nLower := 0, 0, 0
	for _, fn := range p.SrcFuncs() {
		if fn == rep {
			continue // the decrement per super-champion offspring: C10.2
		}
		stores := FieldStores(fn, sco)
		if len(stores) == 0 {
			continue
		}
		r.Fn(FuncName(fn))
		tm := NewTermer(fn)
		loops := Loops(fn)
		fname := fn.Name()
		if recv := fn.Signature.Recv(); recv != nil {
			t := recv.Type().String()
			fname = t[strings.LastIndex(t, ".")+1:] + "." + fname
		}

		type verdict struct {
			ok      bool
			covered bool
			why     string
			pos     token.Pos
			path    []string
		}
		res := map[string]*verdict{}
		var order []string
		keyOfStore := map[*ssa.Store]string{}
		for _, st := range stores {
			nStores++
			at := tm.Of(st.Addr)
			var sp *Term
			ok := false
			if at.Op == "field" && len(at.Args) == 1 {
				sp, ok = speciesOf(at.Args[0])
			}
			if !ok {
				if IsConstIntValue(st.Val, 0) {
					r.OK("reserve.cleared:"+fname, p.Pos(st.Pos()), "superChampOffspring of "+at.String()+" is reset to zero")
					continue
				}
				r.Bad("reserve.owner:"+fname, p.Pos(st.Pos()), "superChampOffspring is assigned on "+at.String()+", which is not Organisms[0] of a species: the reservation cannot be related to a species' quota (reproduce hands the reserved clones of Organisms[0] out of that species' ExpectedOffspring)")
				continue
			}
			k := sp.String()
			keyOfStore[st] = k
			if res[k] == nil {
				res[k] = &verdict{ok: true, pos: st.Pos()}
				order = append(order, k)
			}
		}

		// analyse one path; inRegion tells which blocks belong to the region the path is judged on
		analyse := func(ip *IterPath, inRegion func(*ssa.BasicBlock) bool) {
			ps := newPathState(tm, ip)
			n := len(ip.Blocks)
			if ip.End != "return" && n > 0 {
				n-- // the last block is the header revisit / exit target / cycle closing block
			}
			type state struct {
				sco     Lin
				scoAddr string
				eo      *Lin
				st      *ssa.Store
			}
			seen := map[string]*state{}
			eoAfter := map[string]Lin{}
			for _, b := range ip.Blocks[:n] {
				if !inRegion(b) {
					continue
				}
				for _, in := range b.Instrs {
					if st, ok := in.(*ssa.Store); ok {
						switch StoredField(st) {
						case sco:
							if k, ok := keyOfStore[st]; ok {
								seen[k] = &state{sco: ps.Lin(st.Val), scoAddr: tm.Of(st.Addr).String(), st: st}
							}
						case eo:
							if at := tm.Of(st.Addr); at.Op == "field" && len(at.Args) == 1 {
								eoAfter[at.Args[0].String()] = ps.Lin(st.Val)
							}
						}
					}
					ps.observe(in)
				}
			}
			if len(seen) == 0 {
				return
			}
			nPaths++
			for k, s := range seen {
				v := res[k]
				v.covered = true
				eoAtom := k + "." + eo.Name() + "@0"
				scoAtom := s.scoAddr + "@0"
				after, written := eoAfter[k]
				if !written {
					after = linAtom(eoAtom)
				}
				diff := after.Add(s.sco, -1)
				a, b := diff.T[eoAtom], diff.T[scoAtom]
				good := diff.C >= 0 && a >= 0 && a+b >= 0
				for t := range diff.T {
					if t != eoAtom && t != scoAtom {
						good = false
					}
				}
				if !good && v.ok {
					v.ok = false
					v.pos = s.st.Pos()
					q := "keeps its quota " + after.String()
					if written {
						q = "gets the quota " + after.String()
					}
					v.why = fmt.Sprintf("the champion of %s reserves %s clones while the species %s (quota - reserved = %s, not provably >= 0)", k, s.sco.String(), q, diff.String())
					v.path = ip.Describe(p)
				}
			}
		}

		// quotas lowered in this function must stay non-negative (premise of the pairing argument: EO_before >= 0)
		nonNegOK, nonNegWhy, nonNegN := true, "", 0
		nonNegPos := fn.Pos()
		var nonNegPath []string
		analyseNonNeg := func(ip *IterPath, inRegion func(*ssa.BasicBlock) bool) {
			ps := newPathState(tm, ip)
			n := len(ip.Blocks)
			if ip.End != "return" && n > 0 {
				n--
			}
			for bi, b := range ip.Blocks[:n] {
				if !inRegion(b) {
					continue
				}
				for _, in := range b.Instrs {
					if st, ok := in.(*ssa.Store); ok && StoredField(st) == eo {
						before := ps.currentAtom(st.Addr)
						v := ps.Lin(st.Val)
						if v.T[oldKey(before)] == 1 {
							d := v.Add(before, -1)
							lowering := d.C < 0 || hasNegative(d)
							if lowering {
								nonNegN++
								proven := false
								for _, g := range ip.Conds {
									// only tests decided before the store (their loads carry the versions of that moment)
									at := -1
									for j, pb := range ip.Blocks[:bi] {
										if pb == g.At {
											at = j
										}
									}
									if at < 0 {
										continue
									}
									x, y, op, isF := CmpFact(g.Cond, g.True)
									if !isF {
										continue
									}
									if L, isI := ineqAsLin(op, ps.Lin(x), ps.Lin(y), true); isI {
										// v >= L >= 0 ?
										if rest := v.Add(L, -1); len(rest.T) == 0 && rest.C >= 0 {
											proven = true
										}
									}
								}
								if !proven && nonNegOK {
									nonNegOK, nonNegPos, nonNegPath = false, st.Pos(), ip.Describe(p)
									nonNegWhy = fmt.Sprintf("the quota of %s is lowered to %s on a path without a test that implies this is >= 0", tm.Of(st.Addr).Args[0].String(), v.String())
								}
							}
						}
					}
					ps.observe(in)
				}
			}
		}
		relevant := append([]*ssa.Store{}, stores...)
		relevant = append(relevant, FieldStores(fn, eo)...)
		isRelevant := func(st *ssa.Store) bool {
			if StoredField(st) == eo {
				return true
			}
			_, ok := keyOfStore[st]
			return ok
		}

		// (1) stores inside loops: the paths of one iteration of the innermost loop
		doneLoop := map[*Loop]bool{}
		for _, st := range relevant {
			if !isRelevant(st) {
				continue
			}
			l := InnermostLoop(loops, st.Block())
			if l == nil || doneLoop[l] {
				continue
			}
			doneLoop[l] = true
			paths, complete := EnumIterPaths(fn, l, 4000)
			if !complete {
				r.Undecided("reserve.paths:"+fname, p.Pos(st.Pos()), "too many paths through one iteration of the loop that assigns superChampOffspring")
				continue
			}
			r.PathsExplored += len(paths)
			for _, ip := range paths {
				analyse(ip, func(b *ssa.BasicBlock) bool { return l.Blocks[b] })
				analyseNonNeg(ip, func(b *ssa.BasicBlock) bool { return l.Blocks[b] })
			}
		}
		// (2) stores outside loops: the acyclic paths through the loop-free stretch of code around the store,
		// starting at the topmost dominator that is reached from the store's block upwards without entering a
		// loop (the function entry, or the block a preceding loop exits to), judged on the loop-free blocks only.
		// What a loop did before is covered by I, which every iteration preserves for the species it reserves for.
		doneStart := map[*ssa.BasicBlock]bool{}
		for _, st := range relevant {
			if !isRelevant(st) || InnermostLoop(loops, st.Block()) != nil {
				continue
			}
			start := st.Block()
			for d := start.Idom(); d != nil && InnermostLoop(loops, d) == nil; d = d.Idom() {
				start = d
			}
			if doneStart[start] {
				continue
			}
			doneStart[start] = true
			paths, complete := EnumRegionPaths(fn, start, func(*ssa.BasicBlock) bool { return false }, 6000)
			if !complete {
				r.Undecided("reserve.paths:"+fname, p.Pos(st.Pos()), "too many paths through the code that assigns superChampOffspring")
			}
			r.PathsExplored += len(paths)
			for _, ip := range paths {
				analyse(ip, func(b *ssa.BasicBlock) bool { return InnermostLoop(loops, b) == nil })
				analyseNonNeg(ip, func(b *ssa.BasicBlock) bool { return InnermostLoop(loops, b) == nil })
			}
		}
		nLower += nonNegN
		if nonNegN > 0 {
			r.Check(nonNegOK, "quota-nonnegative:"+fname, p.Pos(nonNegPos), "every update that lowers a species' quota is guarded by a test that keeps it >= 0",
				nonNegWhy+": a negative quota that later receives reserved clones (quota += k, reserved = k) is smaller than the reservation, so the loop of reproduce ends before the champion's last, unmodified clone", nonNegPath...)
		}
		for _, k := range order {
			v := res[k]
			c := "reserve-within-quota:" + fname + ":" + k
			if !v.covered {
				r.Undecided(c, p.Pos(v.pos), "no enumerated path passes the assignment of superChampOffspring")
				continue
			}
			r.Check(v.ok, c, p.Pos(v.pos), "on every path the clones reserved for the champion of "+k+" do not exceed the quota the path leaves to that species",
				v.why+": reproduce stops after ExpectedOffspring offspring, the exact copy is the LAST reserved clone and the champion-clone branch is closed while clones are pending - no unmodified copy of this champion reaches the next generation", v.path...)
		}
	}
	r.Floor("assignments of superChampOffspring outside reproduce", nStores, 3)
	r.Floor("quota-lowering updates judged for non-negativity", nLower, 1)
	r.Floor("paths through those assignments", nPaths, 4)
}

// c10Copy is one way reproduce duplicates the genome of Organisms[0]: the
// duplicate call under ONE case of the reaching condition of its block
// (GuardCases). The pinned tree has two calls with one case each; a body shared
// by the super-champion turn and the species-champion clone (`if super ||
// (!done && quota > 5) { dup; if !super {done = true} else if sco > 1 {mutate};
// wrap; if super {..; sco--} }`) is one call with two cases.
type c10Copy struct {
	call   ssa.CallInstruction
	guards []Guard // all outcomes that hold in this case (resolved)
	own    []Guard // those that no dominating edge establishes: what tells this case from its siblings
	super  bool    // the case implies superChampOffspring >= 1
	label  string
	within map[*ssa.BasicBlock]bool // the blocks of the offspring loop: cases are told apart per iteration
}

// onCase: can instruction u execute in the case cp? (fails open: what cannot be excluded is on the case)
func (cp c10Copy) onCase(u ssa.Instruction) bool {
	return len(cp.own) == 0 || mayBeInCase(u.Block(), cp.own, cp.within)
}

// ---- C10.4: a fitness update composed on a local ----

// c10ScaledFitness: is v a positively scaled image of the organism's own fitness (term `self`) on all positive
// fitness values - so that storing it keeps the order of distinct positive values? By structure:
//
//	the fitness itself (a load of self)
//	m * k, k * m, m / k     m such an image, k a positive constant or a value that does not depend on the fitness
//	                        (an option value, the species size: what the per-store rule accepts as a factor)
//	a join of such images; one alternative of a join may be a constant when control reaches it only under
//	m' < c or m' <= c with c <= 0 for such an image m' - it is then not taken for a positive fitness
//	                        (the replacement of a negative fitness)
//
// Everything else (sums, a product of two images, a constant on an unguarded path, a factor of zero or below, a
// loop-carried value) is refused with a description.
func c10ScaledFitness(ta *Termer, v ssa.Value, self string) (bool, string) {
	var steps []string
	seen := map[ssa.Value]bool{}
	dependsOnSelf := func(t *Term) bool {
		return t.Has(func(x *Term) bool { return x.String() == self })
	}
	var scaled func(v ssa.Value, depth int) (bool, string)
	factor := func(k ssa.Value) (bool, string) {
		if c, isC := k.(*ssa.Const); isC {
			if c.Value == nil || (c.Value.Kind() != constant.Int && c.Value.Kind() != constant.Float) || constant.Sign(c.Value) <= 0 {
				return false, "scaled by the constant " + ta.Of(k).String()
			}
			return true, ""
		}
		if kt := ta.Of(k); dependsOnSelf(kt) {
			return false, "scaled by " + kt.String() + ", which depends on the fitness"
		}
		return true, ""
	}
	scaled = func(v ssa.Value, depth int) (bool, string) {
		t := ta.Of(v)
		if t.String() == self {
			return true, ""
		}
		if depth > 12 || seen[v] {
			return false, "set to " + t.String()
		}
		seen[v] = true
		defer func() { seen[v] = false }()
		switch x := v.(type) {
		case *ssa.BinOp:
			switch x.Op {
			case token.MUL, token.QUO:
				m, k := x.X, x.Y
				if ok, _ := scaled(m, depth+1); !ok && x.Op == token.MUL {
					m, k = x.Y, x.X
				}
				if ok, why := scaled(m, depth+1); !ok {
					return false, why
				}
				if ok, why := factor(k); !ok {
					return false, why
				}
				steps = append(steps, x.Op.String()+" "+ta.Of(k).String())
				return true, ""
			}
		case *ssa.Phi:
			for i, e := range x.Edges {
				if c, isC := e.(*ssa.Const); isC {
					pred := x.Block().Preds[i]
					gs := Guards(pred)
					if iff, isIf := pred.Instrs[len(pred.Instrs)-1].(*ssa.If); isIf && len(pred.Succs) == 2 && pred.Succs[0] != pred.Succs[1] {
						gs = append(gs, Guard{iff.Cond, pred.Succs[0] == x.Block(), pred})
					}
					okC := false
					for _, g := range resolveGuards(gs) {
						f, isF := c10FactOf(ta, g, nil)
						if !isF || (f.Op != token.LSS && f.Op != token.LEQ) {
							continue
						}
						k, isK := f.Y.(*ssa.Const)
						if !isK || k.Value == nil || (k.Value.Kind() != constant.Int && k.Value.Kind() != constant.Float) || constant.Sign(k.Value) > 0 {
							continue
						}
						if ok, _ := scaled(f.X, depth+1); ok {
							okC = true
							steps = append(steps, "replaced by "+ta.Of(c).String()+" when "+f.Op.String()+" "+f.TY.String())
						}
					}
					if !okC {
						return false, "replaced by the constant " + ta.Of(c).String() + " on a path that is taken for positive fitness values too"
					}
					continue
				}
				if ok, why := scaled(e, depth+1); !ok {
					return false, why
				}
			}
			return true, ""
		}
		return false, "set to " + t.String()
	}
	ok, why := scaled(v, 0)
	if ok {
		why = "composed: " + strings.Join(steps, ", ")
	}
	return ok, why
}

// ---- comparison facts, independent of spelling ----

// c10Fact is a branch outcome stated as a comparison that HOLDS, `X Op Y`
// (canon.go CmpFact: negations removed, a false outcome turned into the
// complementary operator, a constant moved to the right), with the origin
// terms of both operands.
type c10Fact struct {
	X, Y   ssa.Value
	TX, TY *Term
	Op     token.Token
}

// c10FactOf states guard g as a c10Fact. When only the right operand satisfies
// left (and the right operand is not needed on the right as a constant), the
// operands are exchanged and the operator mirrored, so that `count < s.EO`,
// `s.EO > count` and `!(count >= s.EO)` all read `s.EO > count`.
func c10FactOf(tm *Termer, g Guard, left func(*Term) bool) (c10Fact, bool) {
	x, y, op, ok := CmpFact(g.Cond, g.True)
	if !ok {
		return c10Fact{}, false
	}
	f := c10Fact{X: x, Y: y, TX: tm.Of(x), TY: tm.Of(y), Op: op}
	if left != nil && !left(f.TX) && left(f.TY) {
		f.X, f.Y, f.TX, f.TY, f.Op = f.Y, f.X, f.TY, f.TX, mirrorCmp(f.Op)
	}
	return f, true
}

// constBounds: what the fact `X Op k` (k an integer constant) says about the integer X.
func (f c10Fact) constBounds() (lo int64, hasLo bool, hi int64, hasHi bool) {
	k, isK := constInt(f.Y)
	if !isK {
		return
	}
	switch f.Op {
	case token.GTR:
		return k + 1, true, 0, false
	case token.GEQ:
		return k, true, 0, false
	case token.LSS:
		return 0, false, k - 1, true
	case token.LEQ:
		return 0, false, k, true
	case token.EQL:
		return k, true, k, true
	}
	return
}

func (f c10Fact) String() string { return "(" + f.TX.String() + f.Op.String() + f.TY.String() + ")" }

// ---- C10.8: the offspring loop gives the champion its turn and delivers the copy ----
//
// C10.1/C10.2 place the unmodified copy in one iteration of the offspring loop
// (the first one without pending super-champion clones, or the iteration that
// consumes the LAST reserved clone). For that copy to be in the next
// generation the following facts about the loop are necessary:
//
//	(a) the loop runs at least ExpectedOffspring times: it continues while
//	    ExpectedOffspring > count (or >=), count starts at a constant <= 0 and
//	    grows by exactly one per iteration. A champion whose reserved clones
//	    equal the quota (delta coding, C10.7) receives its exact copy only in
//	    iteration number ExpectedOffspring; one iteration less and it is lost.
//	(b) ExpectedOffspring is not written while the species reproduces (same reason).
//	(c) the organism that wraps the copy is appended to the list of babies on
//	    every path that continues the loop or returns a list (error returns
//	    deliver nothing and make the epoch fail, which is not a silent loss);
//	    the list carried around the loop only grows by appends, and every
//	    list returned is that list.
func (r *Run) c10OffspringLoop(rep *ssa.Function, tm *Termer, newOrg *ssa.Function, copies []c10Copy) {
	p := r.P
	eo := p.Field(PkgG, "Species", "ExpectedOffspring")
	isEO := func(t *Term) bool {
		return t != nil && t.Op == "field" && t.Obj == eo && len(t.Args) == 1 && t.Args[0].Op == "recv"
	}
	var anchor ssa.CallInstruction
	for _, cp := range copies {
		if anchor == nil {
			anchor = cp.call
		}
	}
	if anchor == nil {
		return // C10.1 reports the missing branch
	}
	loops := Loops(rep)
	// (a) the loop around the copy whose continuation test bounds a header phi by the quota
	var loop *Loop
	var count *ssa.Phi
	for _, l := range loops {
		if !l.Blocks[anchor.Block()] {
			continue
		}
		// every branch of the loop that decides between staying and leaving, taken in the staying direction
		for b := range l.Blocks {
			iff, ok := b.Instrs[len(b.Instrs)-1].(*ssa.If)
			if !ok || len(b.Succs) != 2 || l.Blocks[b.Succs[0]] == l.Blocks[b.Succs[1]] {
				continue
			}
			for _, g := range resolveGuards([]Guard{{iff.Cond, l.Blocks[b.Succs[0]], b}}) {
				f, ok := c10FactOf(tm, g, isEO)
				if !ok || !isEO(f.TX) || (f.Op != token.GTR && f.Op != token.GEQ) {
					continue
				}
				if ph, isPhi := f.Y.(*ssa.Phi); isPhi && ph.Block() == l.Header {
					loop, count = l, ph
				}
			}
		}
	}
	pos := p.Pos(rep.Pos())
	if loop == nil {
		r.Bad("offspring-loop", pos, "the copy of the champion is not made inside a loop that continues while ExpectedOffspring > count: the number of offspring, and with it the turn of the last reserved clone, is not tied to the quota")
		return
	}
	pos = p.Pos(firstBlockPos(loop.Header))
	okInit, okStep := true, true
	nIn := 0
	for i, e := range count.Edges {
		if !loop.Blocks[count.Block().Preds[i]] {
			if k, isK := constInt(e); !isK || k > 0 {
				okInit = false
			}
			continue
		}
		nIn++
		b, isB := e.(*ssa.BinOp)
		one := func(v ssa.Value) bool { k, isK := constInt(v); return isK && k == 1 }
		if !(isB && b.Op == token.ADD && (b.X == ssa.Value(count) && one(b.Y) || b.Y == ssa.Value(count) && one(b.X))) {
			okStep = false
		}
	}
	r.Check(okInit && okStep && nIn > 0, "offspring-loop.counter", pos, "the loop runs ExpectedOffspring times (count from 0 in steps of one)",
		"the offspring counter does not start at 0 (or below) and advance by exactly one per iteration: the loop runs fewer than ExpectedOffspring times, so a champion whose reserved clones equal the quota never reaches its last, unmodified clone")
	// (b)
	var wr []string
	for _, st := range FieldStores(rep, eo) {
		wr = append(wr, p.Pos(st.Pos()))
	}
	idxs := []int{rootGlobal, rootUnknown}
	for i := range rep.Params {
		idxs = append(idxs, i)
	}
	for _, idx := range idxs {
		ws, _ := p.writeSet(rep, idx)
		if t, w := ws["Species.ExpectedOffspring"]; w {
			wr = append(wr, p.Pos(t.Pos))
		}
	}
	r.Check(len(wr) == 0, "offspring-loop.quota-stable", pos, "ExpectedOffspring is not written during reproduce", "ExpectedOffspring is written while the species reproduces ("+strings.Join(wr, ", ")+"): the loop can end before the champion's unmodified copy is made")
	// (c) the list of babies
	var babies *ssa.Phi
	for _, ph := range HeaderPhis(loop) {
		if strings.Contains(typeShort(ph.Type()), "[]*") && strings.Contains(typeShort(ph.Type()), "Organism") {
			babies = ph
		}
	}
	if babies == nil {
		r.Bad("offspring-loop.babies", pos, "no list of organisms is carried around the offspring loop: the copy of the champion is not collected")
		return
	}
	// isBabies: v is the list carried around the loop, possibly with further organisms appended
	// (the babies phi itself, an append onto such a list, a join of such lists)
	var isBabiesRec func(v ssa.Value, seen map[ssa.Value]bool, why *string) bool
	isBabiesRec = func(v ssa.Value, seen map[ssa.Value]bool, why *string) bool {
		if v == ssa.Value(babies) || seen[v] {
			return true
		}
		seen[v] = true
		if len(seen) > 64 {
			*why = "data flow too deep"
			return false
		}
		if ph, isPhi := v.(*ssa.Phi); isPhi {
			for _, e := range ph.Edges {
				if !isBabiesRec(e, seen, why) {
					return false
				}
			}
			return true
		}
		if base, _, isApp := appendCall(v); isApp {
			return isBabiesRec(base, seen, why)
		}
		if *why == "" {
			*why = "the list becomes " + tm.Of(v).String()
		}
		return false
	}
	isBabies := func(v ssa.Value) (bool, string) {
		why := ""
		ok := isBabiesRec(v, map[ssa.Value]bool{}, &why)
		return ok, why
	}
	// grows only by appends
	okGrow, why := true, ""
	for i, e := range babies.Edges {
		if loop.Blocks[babies.Block().Preds[i]] {
			if ok, w := isBabies(e); !ok {
				okGrow, why = false, w
			}
		}
	}
	r.Check(okGrow, "offspring-loop.babies-grow", pos, "the list of babies only grows by appends", "inside the offspring loop the list of babies is replaced by something that is not an append to it ("+why+"): a copy of the champion that was collected can be dropped")
	// every list returned is the list of babies
	for _, b := range rep.Blocks {
		ret, isRet := b.Instrs[len(b.Instrs)-1].(*ssa.Return)
		if !isRet || len(ret.Results) == 0 {
			continue
		}
		if k, isK := ret.Results[0].(*ssa.Const); isK && k.Value == nil {
			continue // return nil, err
		}
		okRet, w := isBabies(ret.Results[0])
		r.Check(okRet, "offspring-loop.returns-babies", p.Pos(ret.Pos()), "the list returned is the list of babies", "reproduce returns a list that is not the list the offspring were appended to ("+w+"): the copy of the champion is not handed to the caller")
	}
	// the copy is appended on every continuing path
	for _, cp := range copies {
		c, k := cp.call, cp.label
		var genome ssa.Value
		for _, ref := range *c.Value().Referrers() {
			if ex, ok := ref.(*ssa.Extract); ok && ex.Index == 0 {
				genome = ex
			}
		}
		if genome == nil {
			continue // C10.2 reports it
		}
		calls, _ := genomeUsers(genome)
		for _, u := range calls {
			if u.Common().StaticCallee() != newOrg || u.Value() == nil || !cp.onCase(u) {
				continue
			}
			var org ssa.Value
			for _, ref := range *u.Value().Referrers() {
				if ex, ok := ref.(*ssa.Extract); ok && ex.Index == 0 {
					org = ex
				}
			}
			if org == nil {
				org = u.Value()
			}
			isDeliver := func(in ssa.Instruction) bool {
				v, isV := in.(ssa.Value)
				if !isV {
					return false
				}
				base, elems, isApp := appendCall(v)
				if !isApp {
					return false
				}
				if ok, _ := isBabies(base); !ok {
					return false
				}
				for _, e := range elems {
					if e == org {
						return true
					}
					for _, f := range phiWeb(e).Feeders {
						if f == org {
							return true
						}
					}
				}
				return false
			}
			path := FindPath(p, PathQuery{Fn: rep, StartAfter: u.(ssa.Instruction), Assume: cp.own,
				Target: func(in ssa.Instruction) bool {
					if in.Block() == loop.Header {
						return true
					}
					if ret, isRet := in.(*ssa.Return); isRet && len(ret.Results) > 0 {
						if k, isK := ret.Results[0].(*ssa.Const); !isK || k.Value != nil {
							return true
						}
					}
					return false
				},
				Avoid: isDeliver, Explored: &r.PathsExplored})
			r.Check(path == nil, k+".delivered", p.Pos(u.Pos()), "the organism wrapping the copy is appended to the babies on every path that continues",
				"the organism that wraps the champion's copy can reach the next iteration (or a successful return) without having been appended to the list of babies: the unmodified copy is not part of the next generation", path...)
		}
	}
}

// ---- C10.6: write-through facts that know what a function literal captured ----
//
// The engine (wthrough.go) roots every store a function literal makes through a
// captured variable at "an object of unknown origin": inside the literal a
// FreeVar has no origin, and the fact travels up the call chain unchanged. For
// C10.6 the only question is whether a written object existed before the call
// (any non-fresh root) or was created inside it (fresh - the offspring being
// built). A local table of closures over the receiver (`[]struct{prob; mutate
// func()}{{.., func() { return g.mutateLinkTrait(1) }}, ..}` iterated by a
// loop, a bound method value g.mutateGeneReEnable) makes the very same writes
// as the ladder of direct calls, through the very same object g - which, seen
// from Species.reproduce, is the fresh duplicate.
//
// closureAwareWT re-solves the write-through equations with ONE difference: a
// fact of a function with captured variables records WHICH captured variable
// the written object is reached from (root fvRoot(j)) where the address is
// derived from it by field/element selection and loads only. At a call the
// caller resolves such a fact exactly like a parameter fact - through the value
// bound to that variable - provided every instruction that creates the closure
// (MakeClosure) lies in the calling function itself; the roots are then those
// of the binding at every creation site, and for a variable captured by
// reference (a cell) those of every value ever stored to the cell, the cell
// being written by its function only (no literal stores to it, its address goes
// nowhere else). In every other case (literal created elsewhere and passed in,
// cell shared with a writer, address derived in a way not followed) the fact
// stays at "unknown origin", as before. So every non-fresh write of the
// original solution is still a non-fresh write here unless it provably goes
// through what the creating function bound; nothing else changes (returned
// roots `ret`, callees, direct writes, in-place library calls are the
// engine's). Other rules that read write-through facts of functions calling
// local closures can use it the same way.

const fvRootBase = -10 // root of captured variable j: fvRootBase - j

func fvRoot(j int) int { return fvRootBase - j }

type closureWT struct {
	w     *WriteThrough                        // private fact table W; ret/sums shared with the engine's solution
	sites map[*ssa.Function][]*ssa.MakeClosure // where each function with captured variables is closed over
}

// closureAwareWT: see above. base is the engine's solved instance over the same functions.
func closureAwareWT(p *Prog, base *WriteThrough) *closureWT {
	c := &closureWT{w: &WriteThrough{P: p, Funcs: base.Funcs, W: map[*ssa.Function][]WT{}, ret: base.ret, sums: base.sums},
		sites: map[*ssa.Function][]*ssa.MakeClosure{}}
	var fns []*ssa.Function
	for f := range base.Funcs {
		fns = append(fns, f)
	}
	sortFuncs(fns)
	// The compiler-made wrappers of method values (`g.mutateGeneReEnable` used as a func value: a closure over
	// the receiver that forwards to the method) and of method expressions are callees like any other, but are
	// not among the source functions: the engine finds no facts for them and a write made by calling a method
	// value would be lost. They are solved here too (their results stay "unknown" for the engine's roots, whose
	// function set is not extended).
	in := map[*ssa.Function]bool{}
	for _, fn := range fns {
		in[fn] = true
	}
	for i := 0; i < len(fns); i++ {
		fn := fns[i]
		Instrs(fn, func(_ *ssa.BasicBlock, _ int, ins ssa.Instruction) {
			if mc, ok := ins.(*ssa.MakeClosure); ok {
				if cf, ok := mc.Fn.(*ssa.Function); ok {
					c.sites[cf] = append(c.sites[cf], mc)
				}
			}
			if ci, ok := ins.(ssa.CallInstruction); ok {
				for _, callee := range c.w.calleesOf(fn, ci) {
					if !in[callee] && callee.Synthetic != "" && callee.Blocks != nil {
						in[callee] = true
						fns = append(fns, callee)
					}
				}
			}
		})
	}
	c.solve(fns)
	return c
}

func sortFuncs(fns []*ssa.Function) {
	for i := 1; i < len(fns); i++ {
		for j := i; j > 0 && fns[j].String() < fns[j-1].String(); j-- {
			fns[j], fns[j-1] = fns[j-1], fns[j]
		}
	}
}

// rootsX: the engine's roots, except that inside a function with captured variables a value selected
// (fields, elements, loads, joins) from captured variable j has root fvRoot(j) instead of "unknown".
func (c *closureWT) rootsX(fn *ssa.Function, v ssa.Value) rootSet {
	if len(fn.FreeVars) == 0 {
		return c.w.roots(fn, v, 0, map[ssa.Value]bool{})
	}
	return c.rootsFV(fn, v, 0, map[ssa.Value]bool{})
}

func (c *closureWT) rootsFV(fn *ssa.Function, v ssa.Value, depth int, seen map[ssa.Value]bool) rootSet {
	out := rootSet{}
	if seen[v] {
		return out // already contributed to the union
	}
	if depth > 30 {
		out[rootUnknown] = true
		return out
	}
	seen[v] = true
	through := func(x ssa.Value) rootSet { return c.rootsFV(fn, x, depth+1, seen) }
	switch x := v.(type) {
	case *ssa.FreeVar:
		for j, fv := range fn.FreeVars {
			if fv == x {
				out[fvRoot(j)] = true
			}
		}
		if len(out) == 0 {
			out[rootUnknown] = true
		}
		return out
	case *ssa.FieldAddr:
		return through(x.X)
	case *ssa.IndexAddr:
		return through(x.X)
	case *ssa.Field:
		return through(x.X)
	case *ssa.Index:
		return through(x.X)
	case *ssa.Slice:
		return through(x.X)
	case *ssa.ChangeType:
		return through(x.X)
	case *ssa.Phi:
		for _, e := range x.Edges {
			for k := range through(e) {
				out[k] = true
			}
		}
		return out
	case *ssa.UnOp:
		if x.Op == token.MUL {
			// a load: what a non-fresh holder holds is reachable from the holder's roots (the engine's rule);
			// a fresh holder (a local of the literal) is left to the engine
			h := through(x.X)
			if !h[rootFresh] {
				return h
			}
			for k := range h {
				if k != rootFresh {
					out[k] = true
				}
			}
		}
	}
	for k := range c.w.roots(fn, v, 0, map[ssa.Value]bool{}) {
		out[k] = true
	}
	return out
}

// boundRoots: seen from the calling function fn, the roots of what captured variable j of callee holds;
// "unknown" unless every closure over callee is created in fn and the variable's cell is written by fn alone.
func (c *closureWT) boundRoots(fn, callee *ssa.Function, j int) rootSet {
	out := rootSet{}
	sites := c.sites[callee]
	if len(sites) == 0 {
		out[rootUnknown] = true
		return out
	}
	add := func(v ssa.Value) {
		for k := range c.rootsX(fn, v) {
			out[k] = true
		}
	}
	for _, mc := range sites {
		if mc.Parent() != fn || j >= len(mc.Bindings) {
			out[rootUnknown] = true
			continue
		}
		b := mc.Bindings[j]
		add(b)
		cell, isCell := b.(*ssa.Alloc)
		if !isCell {
			continue // bound by value (method value) or a captured variable of fn itself (root fvRoot of fn)
		}
		for _, ref := range *cell.Referrers() {
			switch y := ref.(type) {
			case *ssa.DebugRef:
			case *ssa.UnOp:
				if y.Op != token.MUL {
					out[rootUnknown] = true
				}
			case *ssa.Store:
				if y.Addr == ssa.Value(cell) {
					add(y.Val)
				} else {
					out[rootUnknown] = true // the cell's address is stored somewhere
				}
			case *ssa.MakeClosure:
				inner, _ := y.Fn.(*ssa.Function)
				for i, bb := range y.Bindings {
					if bb != ssa.Value(cell) {
						continue
					}
					if inner == nil || i >= len(inner.FreeVars) || closureStores(inner, inner.FreeVars[i], 0) {
						out[rootUnknown] = true // a literal assigns the variable
					}
				}
			default:
				out[rootUnknown] = true // the address goes somewhere else
			}
		}
	}
	return out
}

func (c *closureWT) solve(fns []*ssa.Function) {
	w := c.w
	key := func(t WT) string { return fmt.Sprintf("%d|%s", t.Param, t.What) }
	for iter := 0; iter < 40; iter++ {
		changed := false
		for _, fn := range fns {
			have := map[string]bool{}
			for _, t := range w.W[fn] {
				have[key(t)] = true
			}
			addWT := func(t WT) {
				if !have[key(t)] {
					have[key(t)] = true
					w.W[fn] = append(w.W[fn], t)
					changed = true
				}
			}
			addAt := func(v ssa.Value, what string, pos token.Pos, via []string) {
				for k := range c.rootsX(fn, v) {
					if k != rootFresh {
						addWT(WT{Param: k, What: what, Pos: pos, Via: via})
					}
				}
			}
			for _, e := range Writes(fn) {
				what := e.Kind
				switch e.Kind {
				case "field":
					what = "?." + e.Field.Name()
					if e.Owner != nil {
						what = e.Owner.Obj().Name() + "." + e.Field.Name()
					}
				case "elem":
					if f := ElemOwner(e); f != nil {
						what = "elem:" + f.Name()
					}
				}
				addAt(e.Addr, what, e.Instr.Pos(), []string{FuncName(fn)})
			}
			Instrs(fn, func(_ *ssa.BasicBlock, _ int, in ssa.Instruction) {
				ci, ok := in.(ssa.CallInstruction)
				if !ok {
					return
				}
				args := ci.Common().Args
				if ci.Common().IsInvoke() {
					args = append([]ssa.Value{ci.Common().Value}, args...)
				}
				name, _ := calleeName(ci.Common())
				if b, isB := ci.Common().Value.(*ssa.Builtin); isB && b.Name() == "copy" {
					addAt(args[0], "elem:copy", in.Pos(), []string{FuncName(fn)})
					return
				}
				if name == "sort.Sort" || name == "sort.Stable" || name == "sort.Slice" || name == "sort.Float64s" {
					addAt(args[0], "elem:sorted-in-place", in.Pos(), []string{FuncName(fn)})
					return
				}
				for _, callee := range w.calleesOf(fn, ci) {
					for _, t := range w.W[callee] {
						via := append([]string{FuncName(fn)}, t.Via...)
						switch {
						case t.Param <= fvRootBase:
							for k := range c.boundRoots(fn, callee, fvRootBase-t.Param) {
								if k != rootFresh {
									addWT(WT{Param: k, What: t.What, Pos: t.Pos, Via: via})
								}
							}
						case t.Param < 0:
							addWT(WT{Param: t.Param, What: t.What, Pos: t.Pos, Via: via})
						case t.Param < len(args):
							addAt(args[t.Param], t.What, t.Pos, via)
						}
					}
				}
			})
		}
		if !changed {
			break
		}
	}
}

// c10WrittenContent: the genome-content facts of fn - written through anything that is not created inside the
// call; with cw == nil from the engine's solution, otherwise from the closure-aware one. nFacts counts all facts of fn.
func c10WrittenContent(p *Prog, fn *ssa.Function, cw *closureWT) (bad []string, first token.Pos, nFacts int) {
	describe := func(idx int) string {
		switch {
		case idx >= 0 && idx < len(fn.Params):
			return "parameter " + fn.Params[idx].Name()
		case idx == rootGlobal:
			return "a package variable"
		}
		return "an object of unknown origin"
	}
	var facts []WT
	if cw == nil {
		idxs := []int{rootGlobal, rootUnknown}
		for i := range fn.Params {
			idxs = append(idxs, i)
		}
		for _, idx := range idxs {
			ws, _ := p.writeSet(fn, idx)
			for _, k := range sortedKeys(ws) {
				facts = append(facts, ws[k])
			}
		}
	} else {
		// every root counts, also a captured variable of fn itself
		seen := map[string]bool{}
		byRoot := map[int][]WT{}
		var order []int
		for _, t := range cw.w.W[fn] {
			k := fmt.Sprintf("%d|%s", t.Param, t.What)
			if seen[k] {
				continue
			}
			seen[k] = true
			if _, ok := byRoot[t.Param]; !ok {
				order = append(order, t.Param)
			}
			byRoot[t.Param] = append(byRoot[t.Param], t)
		}
		for i := 1; i < len(order); i++ {
			for j := i; j > 0 && order[j] > order[j-1]; j-- {
				order[j], order[j-1] = order[j-1], order[j]
			}
		}
		for _, root := range order {
			ts := byRoot[root]
			for i := 1; i < len(ts); i++ {
				for j := i; j > 0 && ts[j].What < ts[j-1].What; j-- {
					ts[j], ts[j-1] = ts[j-1], ts[j]
				}
			}
			facts = append(facts, ts...)
		}
	}
	for _, t := range facts {
		nFacts++
		if genomeContentFact(t.What) {
			if len(bad) == 0 {
				first = t.Pos
			}
			bad = append(bad, fmt.Sprintf("%s through %s (at %s via %s)", t.What, describe(t.Param), p.Pos(t.Pos), strings.Join(t.Via, " -> ")))
		}
	}
	return
}

// c10OrderKeepingDelete: v is the result of slices.DeleteFunc or slices.Delete - both remove elements and keep the
// others in their relative order - applied to a list that holds the elements of `what` in their order: the list
// itself, slices.Clone of it, or append(<empty or nil>, what...); the copy is used by the filter only and the
// filtered list is only measured (len) and stored.
func c10OrderKeepingDelete(tm *Termer, v ssa.Value, what string) bool {
	call, ok := v.(*ssa.Call)
	if !ok || call.Call.IsInvoke() || len(call.Call.Args) == 0 {
		return false
	}
	name, _ := calleeName(&call.Call)
	if !(strings.HasPrefix(name, "slices.DeleteFunc[") || strings.HasPrefix(name, "slices.Delete[")) {
		return false
	}
	// the filtered list is measured and stored, nothing else (no reordering in place afterwards)
	for _, ref := range *call.Referrers() {
		switch x := ref.(type) {
		case *ssa.DebugRef:
		case *ssa.Store:
			if x.Val != ssa.Value(call) {
				return false
			}
		case *ssa.Call:
			if b, isB := x.Call.Value.(*ssa.Builtin); !isB || b.Name() != "len" {
				return false
			}
		default:
			return false
		}
	}
	return c10SameElementsInOrder(tm, call.Call.Args[0], what, 0)
}

func c10SameElementsInOrder(tm *Termer, v ssa.Value, what string, depth int) bool {
	if depth > 4 {
		return false
	}
	if tm.Of(v).String() == what {
		return true
	}
	call, ok := v.(*ssa.Call)
	if !ok || call.Call.IsInvoke() {
		return false
	}
	// a private copy: nothing but its one consumer sees it (no in-place reordering between copy and filter)
	uses := 0
	for _, ref := range *call.Referrers() {
		if _, dbg := ref.(*ssa.DebugRef); !dbg {
			uses++
		}
	}
	if uses != 1 {
		return false
	}
	name, _ := calleeName(&call.Call)
	if strings.HasPrefix(name, "slices.Clone[") && len(call.Call.Args) == 1 {
		return c10SameElementsInOrder(tm, call.Call.Args[0], what, depth+1)
	}
	if b, isB := call.Call.Value.(*ssa.Builtin); isB && b.Name() == "append" && len(call.Call.Args) == 2 {
		// append(empty, xs...): the second argument is the list itself (not a literal of single elements)
		if _, elems, isApp := appendCall(v); !isApp || len(elems) > 0 {
			return false
		}
		empty := false
		switch a := call.Call.Args[0].(type) {
		case *ssa.Const:
			empty = a.Value == nil
		case *ssa.MakeSlice:
			if k, isK := a.Len.(*ssa.Const); isK && k.Value != nil && k.Int64() == 0 {
				empty = true
			}
		case *ssa.Slice:
			// []T{}[:]: a zero-length array literal
			if al, isAl := a.X.(*ssa.Alloc); isAl {
				if arr, isArr := deref(al.Type()).Underlying().(*types.Array); isArr && arr.Len() == 0 {
					empty = true
				}
			}
			// xs[:0:0] - length and capacity zero, so append has to allocate (the body of slices.Clone, which the
			// normaliser writes out in place)
			if hi, isK := a.High.(*ssa.Const); isK && hi.Value != nil && hi.Int64() == 0 {
				if mx, isM := a.Max.(*ssa.Const); isM && mx.Value != nil && mx.Int64() == 0 {
					empty = true
				}
			}
		}
		return empty && c10SameElementsInOrder(tm, call.Call.Args[1], what, depth+1)
	}
	return false
}
